(** C07 — the property over a trace (tx, what it published, sequences afterwards), as a Prop [P]
    and as a boolean checker [Pb]; [Pb_sound : Pb = true -> P].  The same predicate is proved of
    every trace of the model (Proofs.v) and evaluated on implementation traces (Check.v). *)
From Coq Require Import List Bool Arith NArith ZArith Lia.
Import ListNotations.
Require Import Nib.C07.Model.

Fixpoint Nseq (start : N) (len : nat) : list N :=
  match len with 0 => [] | S l => start :: Nseq (N.succ start) l end.

(** (account, sequence number) pairs a tx claims, in message order *)
Fixpoint claims_of (fs : list (option nat)) (ms : list emsg) : list (nat * N) :=
  match fs, ms with
  | Some a :: fr, m :: r => (a, m_nonce m) :: claims_of fr r
  | _, _ => []
  end.

Definition proj (a : nat) (l : list (nat * N)) : list N :=
  map snd (filter (fun p => Nat.eqb (fst p) a) l).

Section Spec.
  Variable chain : Z.
  Variable recover : emsg -> option nat.
  Variable A : list nat.     (* accounts whose sequences are observed *)

  Definition tx_claims (t : tx) : list (nat * N) :=
    match t with
    | TxEth ms => match sig_pass chain recover ms with Some fs => claims_of fs ms | None => [] end
    | TxCosmos a q _ _ => [(a, q)]
    end.

  (** "accepted only if … when it carries a chain id, that id is this chain's" + a valid signature *)
  Definition msg_admissible (m : emsg) : Prop :=
    (exists a, recover m = Some a) /\ (m_cid m = None \/ m_cid m = Some chain).

  Definition tx_admissible (t : tx) : Prop :=
    match t with
    | TxEth ms => ms <> [] /\ Forall msg_admissible ms
    | TxCosmos _ _ ethkey _ => ethkey = false
    end.

  (** "nonce equals the signer's current sequence … raises it by exactly one" — per account the
      claimed sequence numbers are b, b+1, …, and the sequence afterwards is b + their number *)
  Definition seqs_advance (b after : state) (t : tx) : Prop :=
    forall a, In a A ->
      proj a (tx_claims t) = Nseq (b a) (length (proj a (tx_claims t))) /\
      after a = (b a + N.of_nat (length (proj a (tx_claims t))))%N.

  Definition executed_ok (t : tx) (r : result) : Prop :=
    match t with
    | TxEth ms => r_executed r = [] \/ r_executed r = map m_uid ms
    | TxCosmos _ _ _ _ => r_executed r = []
    end.

  (** "contracts are created at the address derived from the signer and the transaction's nonce" *)
  Definition created_ok (t : tx) (r : result) : Prop :=
    match t with
    | TxEth ms => forall u k, In (u, k) (r_created r) -> exists m, In m ms /\ m_uid m = u /\ m_nonce m = k
    | TxCosmos _ _ _ _ => r_created r = []
    end.

  Definition step_ok (b : state) (t : tx) (r : result) (after : state) : Prop :=
    (r_accepted r = true -> tx_admissible t /\ seqs_advance b after t) /\
    (r_accepted r = false -> (forall a, In a A -> after a = b a) /\ r_executed r = [] /\ r_created r = []) /\
    executed_ok t r /\ created_ok t r.

  Definition gstep : Type := tx * result * state.

  Fixpoint steps_ok (b : state) (tr : list gstep) : Prop :=
    match tr with
    | [] => True
    | (t, r, s) :: rest => step_ok b t r s /\ steps_ok s rest
    end.

  Definition all_executed (tr : list gstep) : list nat :=
    concat (map (fun g => r_executed (snd (fst g))) tr).

  (** the property of a trace starting from sequences [s0] *)
  Definition P (s0 : state) (tr : list gstep) : Prop :=
    steps_ok s0 tr /\ NoDup (all_executed tr).

  (* ------------------------------------------------------------ boolean checker *)

  Fixpoint Nlist_eqb (a b : list N) : bool :=
    match a, b with
    | [], [] => true
    | x :: a', y :: b' => N.eqb x y && Nlist_eqb a' b'
    | _, _ => false
    end.

  Fixpoint natlist_eqb (a b : list nat) : bool :=
    match a, b with
    | [], [] => true
    | x :: a', y :: b' => Nat.eqb x y && natlist_eqb a' b'
    | _, _ => false
    end.

  Definition is_nil {X} (l : list X) : bool := match l with [] => true | _ => false end.

  Definition cid_okb (m : emsg) : bool :=
    match m_cid m with None => true | Some c => Z.eqb c chain end.

  Definition msg_admissibleb (m : emsg) : bool :=
    match recover m with Some _ => cid_okb m | None => false end.

  Definition tx_admissibleb (t : tx) : bool :=
    match t with
    | TxEth ms => negb (is_nil ms) && forallb msg_admissibleb ms
    | TxCosmos _ _ ethkey _ => negb ethkey
    end.

  Definition seqs_advanceb (b after : state) (t : tx) : bool :=
    forallb (fun a =>
      let l := proj a (tx_claims t) in
      Nlist_eqb l (Nseq (b a) (length l)) && N.eqb (after a) (b a + N.of_nat (length l))) A.

  Definition executed_okb (t : tx) (r : result) : bool :=
    match t with
    | TxEth ms => is_nil (r_executed r) || natlist_eqb (r_executed r) (map m_uid ms)
    | TxCosmos _ _ _ _ => is_nil (r_executed r)
    end.

  Definition created_okb (t : tx) (r : result) : bool :=
    match t with
    | TxEth ms => forallb (fun uk => existsb (fun m => Nat.eqb (m_uid m) (fst uk) && N.eqb (m_nonce m) (snd uk)) ms) (r_created r)
    | TxCosmos _ _ _ _ => is_nil (r_created r)
    end.

  Definition step_okb (b : state) (t : tx) (r : result) (after : state) : bool :=
    (if r_accepted r
     then tx_admissibleb t && seqs_advanceb b after t
     else forallb (fun a => N.eqb (after a) (b a)) A && is_nil (r_executed r) && is_nil (r_created r))
    && executed_okb t r && created_okb t r.

  Fixpoint steps_okb (b : state) (tr : list gstep) : bool :=
    match tr with
    | [] => true
    | (t, r, s) :: rest => step_okb b t r s && steps_okb s rest
    end.

  Fixpoint nodupb (l : list nat) : bool :=
    match l with
    | [] => true
    | x :: r => negb (existsb (Nat.eqb x) r) && nodupb r
    end.

  Definition Pb (s0 : state) (tr : list gstep) : bool :=
    steps_okb s0 tr && nodupb (all_executed tr).

  (* ------------------------------------------------------------ soundness *)

  Lemma Nlist_eqb_eq a b : Nlist_eqb a b = true -> a = b.
  Proof.
    revert b; induction a as [|x a IH]; intros [|y b] H; simpl in H; try discriminate; auto.
    apply andb_true_iff in H as [H1 H2]. apply N.eqb_eq in H1. subst. f_equal. auto.
  Qed.

  Lemma natlist_eqb_eq a b : natlist_eqb a b = true -> a = b.
  Proof.
    revert b; induction a as [|x a IH]; intros [|y b] H; simpl in H; try discriminate; auto.
    apply andb_true_iff in H as [H1 H2]. apply Nat.eqb_eq in H1. subst. f_equal. auto.
  Qed.

  Lemma is_nil_eq {X} (l : list X) : is_nil l = true -> l = [].
  Proof. destruct l; simpl; congruence. Qed.

  Lemma nodupb_sound l : nodupb l = true -> NoDup l.
  Proof.
    induction l as [|x r IH]; simpl; intro H; [constructor|].
    apply andb_true_iff in H as [H1 H2]. constructor; auto.
    intro Hin. apply negb_true_iff in H1.
    assert (existsb (Nat.eqb x) r = true) by (apply existsb_exists; exists x; split; auto; apply Nat.eqb_refl).
    congruence.
  Qed.

  Lemma msg_admissibleb_sound m : msg_admissibleb m = true -> msg_admissible m.
  Proof.
    unfold msg_admissibleb, msg_admissible, cid_okb. destruct (recover m) eqn:E; [|discriminate].
    intro H. split; [eexists; reflexivity|].
    destruct (m_cid m); [right|left; reflexivity]. apply Z.eqb_eq in H. subst. reflexivity.
  Qed.

  Lemma tx_admissibleb_sound t : tx_admissibleb t = true -> tx_admissible t.
  Proof.
    destruct t as [ms|a q e i]; simpl; intro H.
    - apply andb_true_iff in H as [H1 H2]. split.
      + destruct ms; simpl in H1; congruence.
      + apply Forall_forall. intros m Hm. rewrite forallb_forall in H2. apply msg_admissibleb_sound; auto.
    - destruct e; simpl in H; congruence.
  Qed.

  Lemma seqs_advanceb_sound b after t : seqs_advanceb b after t = true -> seqs_advance b after t.
  Proof.
    unfold seqs_advanceb, seqs_advance. intros H a Ha. rewrite forallb_forall in H. specialize (H a Ha).
    apply andb_true_iff in H as [H1 H2]. apply Nlist_eqb_eq in H1. apply N.eqb_eq in H2. split; assumption.
  Qed.

  Lemma executed_okb_sound t r : executed_okb t r = true -> executed_ok t r.
  Proof.
    destruct t; simpl; intro H.
    - apply orb_true_iff in H as [H|H]; [left; apply is_nil_eq; auto|right; apply natlist_eqb_eq; auto].
    - apply is_nil_eq; auto.
  Qed.

  Lemma created_okb_sound t r : created_okb t r = true -> created_ok t r.
  Proof.
    destruct t; simpl; intro H.
    - intros u k Hin. rewrite forallb_forall in H. specialize (H _ Hin). apply existsb_exists in H as [m [Hm Hb]].
      simpl in Hb. apply andb_true_iff in Hb as [H1 H2]. apply Nat.eqb_eq in H1. apply N.eqb_eq in H2.
      exists m; auto.
    - apply is_nil_eq; auto.
  Qed.

  Lemma step_okb_sound b t r after : step_okb b t r after = true -> step_ok b t r after.
  Proof.
    unfold step_okb, step_ok. intro H.
    apply andb_true_iff in H as [H Hc]. apply andb_true_iff in H as [H He].
    split; [|split; [|split]].
    - intro Ha. rewrite Ha in H. apply andb_true_iff in H as [H1 H2].
      split; [apply tx_admissibleb_sound|apply seqs_advanceb_sound]; assumption.
    - intro Ha. rewrite Ha in H. apply andb_true_iff in H as [H H3]. apply andb_true_iff in H as [H1 H2].
      split; [|split; apply is_nil_eq; assumption].
      intros a Hin. rewrite forallb_forall in H1. apply N.eqb_eq. auto.
    - apply executed_okb_sound; assumption.
    - apply created_okb_sound; assumption.
  Qed.

  Lemma steps_okb_sound tr : forall b, steps_okb b tr = true -> steps_ok b tr.
  Proof.
    induction tr as [|[[t r] s] rest IH]; simpl; intros b H; [exact I|].
    apply andb_true_iff in H as [H1 H2]. split; [apply step_okb_sound; assumption|apply IH; assumption].
  Qed.

  Lemma Pb_sound s0 tr : Pb s0 tr = true -> P s0 tr.
  Proof.
    unfold Pb, P. intro H. apply andb_true_iff in H as [H1 H2].
    split; [apply steps_okb_sound; assumption|apply nodupb_sound; assumption].
  Qed.
End Spec.
