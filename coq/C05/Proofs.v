(** C05 — lemmas: wei/unibi arithmetic, ledger sums, commit, and the analysis of one delivered tx. *)
From Coq Require Import List Bool Arith ZArith Lia.
Import ListNotations.
Require Import Nib.C05.Model Nib.C05.Spec.
Open Scope Z_scope.

(* ------------------------------------------------------------------ wei <-> unibi *)

Lemma WEI_pos : 0 < WEI.
Proof. reflexivity. Qed.

Lemma to_native_bounds w : WEI * to_native w <= w < WEI * to_native w + WEI.
Proof.
  unfold to_native. pose proof WEI_pos. split.
  - apply Z.mul_div_le. assumption.
  - pose proof (Z.mul_succ_div_gt w WEI H). lia.
Qed.

Lemma to_native_nonneg w : 0 <= w -> 0 <= to_native w.
Proof. intro H. unfold to_native. apply Z.div_pos; [assumption|apply WEI_pos]. Qed.

Lemma to_native_mono a b : a <= b -> to_native a <= to_native b.
Proof. intro H. unfold to_native. apply Z.div_le_mono; [apply WEI_pos|assumption]. Qed.

Lemma to_native_to_wei n : to_native (to_wei n) = n.
Proof. unfold to_native, to_wei. apply Z.div_mul. pose proof WEI_pos. lia. Qed.

Lemma to_native_add_le a b : to_native a + to_native b <= to_native (a + b).
Proof.
  unfold to_native at 3. apply Z.div_le_lower_bound; [apply WEI_pos|].
  pose proof (to_native_bounds a). pose proof (to_native_bounds b). lia.
Qed.

Lemma to_native_exact x : (WEI | x) -> WEI * to_native x = x.
Proof.
  intros [k Hk]. subst. unfold to_native. rewrite Z.div_mul by (pose proof WEI_pos; lia). lia.
Qed.

(** the fee arithmetic: net payment = prepay - refund is within one unibi of gasUsed x price,
    non-negative and never more than the prepayment *)
Lemma net_payment_bounds L u p :
  0 <= u <= L -> 0 <= p ->
  WEI * net_payment L u p - WEI < u * p < WEI * net_payment L u p + WEI /\
  0 <= net_payment L u p <= prepay L p.
Proof.
  intros Hu Hp. unfold net_payment, prepay, refund.
  pose proof (to_native_bounds (L * p)) as HA.
  destruct (L <=? u) eqn:E.
  - apply Z.leb_le in E. assert (u = L) by lia. subst u.
    assert (0 <= to_native (L * p)) by (apply to_native_nonneg; apply Z.mul_nonneg_nonneg; lia). lia.
  - apply Z.leb_gt in E.
    pose proof (to_native_bounds ((L - u) * p)) as HB.
    assert (HAB : (L - u) * p = L * p - u * p) by ring.
    assert (0 <= (L - u) * p) by (apply Z.mul_nonneg_nonneg; lia).
    assert (0 <= u * p) by (apply Z.mul_nonneg_nonneg; lia).
    assert (to_native ((L - u) * p) <= to_native (L * p)) by (apply to_native_mono; lia).
    assert (0 <= to_native ((L - u) * p)) by (apply to_native_nonneg; assumption).
    lia.
Qed.

Lemma eff_price_ge_base f base : base <= eff_price f base.
Proof. unfold eff_price. destruct (f_type f); lia. Qed.

(* ------------------------------------------------------------------ sums over the universe *)

Lemma sumU_ext f g U : (forall a, In a U -> f a = g a) -> sumU f U = sumU g U.
Proof. induction U as [|x r IH]; simpl; intro H; [reflexivity|]. rewrite (H x), IH; auto. Qed.

Lemma sumU_zero U : sumU (fun _ => 0) U = 0.
Proof. induction U; simpl; lia. Qed.

Lemma sumU_sub f g U : sumU (fun a => f a - g a) U = sumU f U - sumU g U.
Proof. induction U; simpl; lia. Qed.

Lemma sumU_scale k f U : sumU (fun a => k * f a) U = k * sumU f U.
Proof. induction U; simpl; lia. Qed.

Lemma sumU_le f g U : (forall a, In a U -> f a <= g a) -> sumU f U <= sumU g U.
Proof. induction U as [|x r IH]; simpl; intro H; [lia|]. pose proof (H x (or_introl eq_refl)). assert (sumU f r <= sumU g r) by auto. lia. Qed.

Lemma upd_same f a v : upd f a v a = v.
Proof. unfold upd. rewrite Nat.eqb_refl. reflexivity. Qed.

Lemma upd_other f a v b : b <> a -> upd f a v b = f b.
Proof. unfold upd. intro H. apply Nat.eqb_neq in H. rewrite H. reflexivity. Qed.

Lemma sumU_upd_notin f a v U : ~ In a U -> sumU (upd f a v) U = sumU f U.
Proof. intro H. apply sumU_ext. intros b Hb. apply upd_other. intro; subst; auto. Qed.

Lemma sumU_upd_in f a v U : NoDup U -> In a U -> sumU (upd f a v) U = sumU f U - f a + v.
Proof.
  induction U as [|x r IH]; intros Hn Hin; [destruct Hin|].
  inversion Hn; subst. simpl. destruct Hin as [->|Hin].
  - rewrite upd_same, sumU_upd_notin by assumption. lia.
  - rewrite upd_other by (intro; subst; auto). rewrite IH by assumption. lia.
Qed.

Lemma sumU_native_le w U : sumU (fun a => to_native (w a)) U <= to_native (sumU w U).
Proof.
  induction U as [|x r IH]; simpl.
  - unfold to_native. rewrite Z.div_0_l; [lia|pose proof WEI_pos; lia].
  - pose proof (to_native_add_le (w x) (sumU w r)). lia.
Qed.

Lemma sumU_native_exact w U : (forall a, In a U -> (WEI | w a)) -> WEI * sumU (fun a => to_native (w a)) U = sumU w U.
Proof.
  induction U as [|x r IH]; cbn [sumU]; intro H; [lia|].
  rewrite Z.mul_add_distr_l, IH by (intros; apply H; right; assumption).
  rewrite to_native_exact by (apply H; left; reflexivity). reflexivity.
Qed.

Lemma memb_In a U : memb a U = true -> In a U.
Proof. unfold memb. intro H. apply existsb_exists in H as [x [Hx He]]. apply Nat.eqb_eq in He. subst. assumption. Qed.

(* ------------------------------------------------------------------ bank primitives *)

Definition nonneg (f : nat -> Z) : Prop := forall a, 0 <= f a.

Lemma send_spec b x y n b' :
  send b x y n = Some b' ->
  0 <= n <= bal b x /\ supply b' = supply b /\
  bal b' = (let f := upd (bal b) x (bal b x - n) in upd f y (f y + n)).
Proof.
  unfold send. destruct ((0 <=? n) && (n <=? bal b x)) eqn:E; [|discriminate].
  apply andb_true_iff in E as [E1 E2]. apply Z.leb_le in E1. apply Z.leb_le in E2.
  intro H. inversion H; subst. simpl. auto.
Qed.

Lemma send_bal b x y n b' : send b x y n = Some b' -> x <> y ->
  bal b' x = bal b x - n /\ bal b' y = bal b y + n /\ (forall a, a <> x -> a <> y -> bal b' a = bal b a).
Proof.
  intros H Hxy. apply send_spec in H as [_ [_ ->]]. cbv zeta. split; [|split].
  - rewrite upd_other by assumption. apply upd_same.
  - rewrite upd_same. rewrite upd_other by auto. reflexivity.
  - intros a Hx Hy. rewrite !upd_other by assumption. reflexivity.
Qed.

Lemma send_sum b x y n b' U : send b x y n = Some b' -> NoDup U -> In x U -> In y U ->
  sumU (bal b') U = sumU (bal b) U.
Proof.
  intros H Hn Hx Hy. apply send_spec in H as [_ [_ ->]]. cbv zeta.
  rewrite sumU_upd_in by assumption. rewrite sumU_upd_in by assumption. lia.
Qed.

Lemma send_nonneg b x y n b' : send b x y n = Some b' -> nonneg (bal b) -> nonneg (bal b').
Proof.
  intros H Hb. apply send_spec in H as [Hn [_ ->]]. cbv zeta. intro a. unfold upd.
  destruct (Nat.eqb a y), (Nat.eqb a x), (Nat.eqb y x); pose proof (Hb a); pose proof (Hb y); pose proof (Hb x); lia.
Qed.

Lemma set_acc_balance_spec b a target :
  0 <= target -> 0 <= bal b a ->
  exists b', set_acc_balance b a target = Some b' /\
             bal b' a = target /\ (forall x, x <> a -> bal b' x = bal b x) /\
             supply b' = supply b + target - bal b a.
Proof.
  intros Ht Hb. unfold set_acc_balance.
  destruct (0 <? target - bal b a) eqn:E1.
  - eexists. split; [reflexivity|]. unfold mint. simpl. rewrite upd_same.
    split; [lia|]. split; [intros; apply upd_other; assumption|lia].
  - apply Z.ltb_ge in E1. destruct (target - bal b a <? 0) eqn:E2.
    + apply Z.ltb_lt in E2. unfold burn.
      assert (Hle : (- (target - bal b a) <=? bal b a) = true) by (apply Z.leb_le; lia). rewrite Hle.
      eexists. split; [reflexivity|]. simpl. rewrite upd_same.
      split; [lia|]. split; [intros; apply upd_other; assumption|lia].
    + apply Z.ltb_ge in E2. exists b. split; [reflexivity|]. split; [lia|]. split; [auto|lia].
Qed.

Lemma commit_spec U : forall wei b, NoDup U ->
  (forall a, In a U -> 0 <= wei a) -> (forall a, In a U -> 0 <= bal b a) ->
  exists b', commit U wei b = Some b' /\
             (forall a, In a U -> bal b' a = to_native (wei a)) /\
             (forall a, ~ In a U -> bal b' a = bal b a) /\
             supply b' = supply b + sumU (fun a => to_native (wei a)) U - sumU (bal b) U.
Proof.
  induction U as [|x r IH]; intros wei b Hn Hw Hb.
  - exists b. simpl. split; [reflexivity|]. split; [intros ? []|]. split; [auto|lia].
  - inversion Hn; subst.
    destruct (set_acc_balance_spec b x (to_native (wei x))) as [b1 [E1 [B1 [B2 B3]]]].
    { apply to_native_nonneg. apply Hw. left; reflexivity. }
    { apply Hb. left; reflexivity. }
    destruct (IH wei b1 H2) as [b' [E' [C1 [C2 C3]]]].
    { intros a Ha. apply Hw. right; assumption. }
    { intros a Ha. rewrite B2 by (intro; subst; auto). apply Hb. right; assumption. }
    exists b'. simpl. rewrite E1. split; [exact E'|]. split; [|split].
    + intros a [->|Ha]; [rewrite C2 by assumption; exact B1|apply C1; assumption].
    + intros a Ha. rewrite C2 by (intro; apply Ha; right; assumption). apply B2. intro; subst; apply Ha; left; reflexivity.
    + rewrite C3, B3. assert (sumU (bal b1) r = sumU (bal b) r) by (apply sumU_ext; intros a Ha; apply B2; intro; subst; auto). lia.
Qed.

(* ------------------------------------------------------------------ EVM effects in wei *)

Lemma apply_op_spec U wei o wei' : NoDup U ->
  apply_op U wei o = Some wei' -> nonneg wei ->
  nonneg wei' /\ sumU wei' U <= sumU wei U /\ (forall a, ~ In a U -> wei' a = wei a) /\
  (forall a, op_touches a o = false -> wei' a = wei a).
Proof.
  intros Hn H Hw. destruct o as [x y w|x y]; simpl in H.
  - destruct (memb x U && memb y U && (0 <=? w) && (w <=? wei x)) eqn:E; [|discriminate].
    apply andb_true_iff in E as [E E4]. apply andb_true_iff in E as [E E3]. apply andb_true_iff in E as [E1 E2].
    apply memb_In in E1. apply memb_In in E2. apply Z.leb_le in E3. apply Z.leb_le in E4.
    inversion H; subst; clear H. cbv zeta. split; [|split; [|split]].
    + intro a. unfold upd. destruct (Nat.eqb a y), (Nat.eqb a x), (Nat.eqb y x);
        pose proof (Hw a); pose proof (Hw x); pose proof (Hw y); lia.
    + rewrite sumU_upd_in by assumption. rewrite sumU_upd_in by assumption. lia.
    + intros a Ha. rewrite !upd_other by (intro; subst; auto). reflexivity.
    + intros a Ht. simpl in Ht. apply orb_false_iff in Ht as [T1 T2].
      apply Nat.eqb_neq in T1. apply Nat.eqb_neq in T2. rewrite !upd_other by auto. reflexivity.
  - destruct (memb x U && memb y U) eqn:E; [|discriminate].
    apply andb_true_iff in E as [E1 E2]. apply memb_In in E1. apply memb_In in E2.
    inversion H; subst; clear H. cbv zeta. split; [|split; [|split]].
    + intro a. unfold upd. destruct (Nat.eqb a x), (Nat.eqb a y); pose proof (Hw a); pose proof (Hw x); pose proof (Hw y); lia.
    + rewrite sumU_upd_in by assumption. rewrite sumU_upd_in by assumption.
      unfold upd at 1. pose proof (Hw x). destruct (Nat.eqb x y) eqn:Exy.
      * apply Nat.eqb_eq in Exy. subst. lia.
      * lia.
    + intros a Ha. rewrite !upd_other by (intro; subst; auto). reflexivity.
    + intros a Ht. simpl in Ht. apply orb_false_iff in Ht as [T1 T2].
      apply Nat.eqb_neq in T1. apply Nat.eqb_neq in T2. rewrite !upd_other by auto. reflexivity.
Qed.

Lemma apply_ops_spec U os : forall wei wei', NoDup U ->
  apply_ops U wei os = Some wei' -> nonneg wei ->
  nonneg wei' /\ sumU wei' U <= sumU wei U /\
  (forall a, existsb (op_touches a) os = false -> wei' a = wei a).
Proof.
  induction os as [|o r IH]; intros wei wei' Hn H Hw; simpl in H.
  - inversion H; subst. split; [assumption|]. split; [lia|auto].
  - destruct (apply_op U wei o) as [w1|] eqn:E; [|discriminate].
    destruct (apply_op_spec _ _ _ _ Hn E Hw) as [N1 [S1 [_ T1]]].
    destruct (IH _ _ Hn H N1) as [N2 [S2 T2]].
    split; [assumption|]. split; [lia|].
    intros a Ha. simpl in Ha. apply orb_false_iff in Ha as [Ha1 Ha2]. rewrite T2 by assumption. apply T1. assumption.
Qed.

(** whole-unibi scripts: every balance stays a multiple of 10^12 and the wei total is preserved *)
Lemma apply_op_whole U wei o wei' : NoDup U ->
  apply_op U wei o = Some wei' -> op_whole o = true -> (forall a, (WEI | wei a)) ->
  (forall a, (WEI | wei' a)) /\ sumU wei' U = sumU wei U.
Proof.
  intros Hn H Ho Hd. destruct o as [x y w|x y]; simpl in H, Ho.
  - destruct (memb x U && memb y U && (0 <=? w) && (w <=? wei x)) eqn:E; [|discriminate].
    apply andb_true_iff in E as [E E4]. apply andb_true_iff in E as [E E3]. apply andb_true_iff in E as [E1 E2].
    apply memb_In in E1. apply memb_In in E2.
    apply Z.eqb_eq in Ho. apply Z.mod_divide in Ho; [|pose proof WEI_pos; lia].
    inversion H; subst; clear H. cbv zeta. split.
    + intro a. unfold upd. destruct (Nat.eqb a y), (Nat.eqb a x), (Nat.eqb y x);
        auto using Z.divide_add_r, Z.divide_sub_r.
    + rewrite sumU_upd_in by assumption. rewrite sumU_upd_in by assumption. lia.
  - destruct (memb x U && memb y U) eqn:E; [|discriminate].
    apply andb_true_iff in E as [E1 E2]. apply memb_In in E1. apply memb_In in E2.
    apply negb_true_iff in Ho. apply Nat.eqb_neq in Ho.
    inversion H; subst; clear H. cbv zeta. split.
    + intro a. unfold upd. destruct (Nat.eqb a x), (Nat.eqb a y); auto using Z.divide_add_r, Z.divide_0_r.
    + rewrite sumU_upd_in by assumption. rewrite sumU_upd_in by assumption.
      rewrite upd_other by assumption. lia.
Qed.

Lemma apply_ops_whole U os : forall wei wei', NoDup U ->
  apply_ops U wei os = Some wei' -> forallb op_whole os = true -> (forall a, (WEI | wei a)) ->
  (forall a, (WEI | wei' a)) /\ sumU wei' U = sumU wei U.
Proof.
  induction os as [|o r IH]; intros wei wei' Hn H Ho Hd; simpl in H.
  - inversion H; subst. auto.
  - simpl in Ho. apply andb_true_iff in Ho as [Ho1 Ho2].
    destruct (apply_op U wei o) as [w1|] eqn:E; [|discriminate].
    destruct (apply_op_whole _ _ _ _ Hn E Ho1 Hd) as [D1 S1].
    destruct (IH _ _ Hn H Ho2 D1) as [D2 S2]. split; [assumption|lia].
Qed.

(* ------------------------------------------------------------------ one delivered tx *)

Record env_wf (e : env) : Prop := {
  wf_nodup : NoDup (e_universe e);
  wf_signer : In (e_signer e) (e_universe e);
  wf_collector : In (e_collector e) (e_universe e);
  wf_distinct : e_signer e <> e_collector e;
  wf_base : 0 <= e_base_fee e
}.

(** what the interpreter guarantees about its reported gas, and that the EVM run does not move the
    fee collector's balance (it is a module account no scenario contract pays or drains) *)
Record tx_wf (e : env) (t : etx) : Prop := {
  wf_gas_used : 0 <= t_gas_used t <= t_gas t;
  wf_collector_untouched : untouched (e_collector e) t = true
}.

(** the ways the message phase can end without an error *)
Lemma run_msg_cases e b1 t b2 o :
  run_msg e b1 t = Some (b2, o) ->
  let S := e_signer e in let F := e_collector e in let U := e_universe e in
  let p := eff_price (t_fee t) (e_base_fee e) in
  let v := to_wei (to_native (t_value t)) in
  let wei0 := fun a => to_wei (bal b1 a) in
  exists bc,
    (if refund (t_gas t) (t_gas_used t) p =? 0 then Some bc else send bc F S (refund (t_gas t) (t_gas_used t) p)) = Some b2 /\
    ((bc = b1 /\ o = VmErr) \/ (bc = b1 /\ o = Stuck) \/
     (exists script wei1, t_evm t = EvmOk script /\
        apply_ops U wei0 (OTransfer S (t_to t) v :: script) = Some wei1 /\
        commit U wei1 b1 = Some bc /\ o = Ok)).
Proof.
  unfold run_msg. intro H.
  destruct (t_gas t <? t_intrinsic t); [discriminate|].
  destruct ((0 <? t_value t) && (t_value t <? WEI)); [discriminate|].
  cbv zeta.
  set (r := refund (t_gas t) (t_gas_used t) (eff_price (t_fee t) (e_base_fee e))) in *.
  assert (Hgen : forall bc o', match (if r =? 0 then Some (bc, o') else
                                      match send bc (e_collector e) (e_signer e) r with None => None | Some b2' => Some (b2', o') end)
                               with Some x => Some x | None => None end = Some (b2, o) ->
                 (if r =? 0 then Some bc else send bc (e_collector e) (e_signer e) r) = Some b2 /\ o' = o).
  { intros bc o'. destruct (r =? 0); [intro E; inversion E; auto|].
    destruct (send bc (e_collector e) (e_signer e) r); [intro E; inversion E; auto|discriminate]. }
  destruct (t_evm t) as [script|] eqn:Eevm.
  - destruct (to_wei (bal b1 (e_signer e)) <? to_wei (to_native (t_value t))).
    + exists b1. destruct (r =? 0); [inversion H; auto|].
      destruct (send b1 (e_collector e) (e_signer e) r); [inversion H; auto|discriminate].
    + destruct (apply_ops (e_universe e) (fun a => to_wei (bal b1 a))
                  (OTransfer (e_signer e) (t_to t) (to_wei (to_native (t_value t))) :: script)) as [wei1|] eqn:Eops.
      * destruct (commit (e_universe e) wei1 b1) as [bc|] eqn:Ecm.
        -- exists bc. destruct (r =? 0); [inversion H; subst; split; [reflexivity|]; right; right; eauto 8|].
           destruct (send bc (e_collector e) (e_signer e) r); [inversion H; subst; split; [reflexivity|]; right; right; eauto 8|discriminate].
        -- exists b1. destruct (r =? 0); [inversion H; auto|].
           destruct (send b1 (e_collector e) (e_signer e) r); [inversion H; auto|discriminate].
      * exists b1. destruct (r =? 0); [inversion H; auto|].
        destruct (send b1 (e_collector e) (e_signer e) r); [inversion H; auto|discriminate].
  - exists b1. destruct (r =? 0); [inversion H; auto|].
    destruct (send b1 (e_collector e) (e_signer e) r); [inversion H; auto|discriminate].
Qed.

Lemma run_msg_guards e b1 t x : run_msg e b1 t = Some x ->
  (t_gas t <? t_intrinsic t) = false /\ ((0 <? t_value t) && (t_value t <? WEI)) = false.
Proof.
  unfold run_msg. destruct (t_gas t <? t_intrinsic t); [discriminate|].
  destruct ((0 <? t_value t) && (t_value t <? WEI)); [discriminate|]. auto.
Qed.

Section Deliver.
  Variable e : env.
  Variable b : bank.
  Variable t : etx.
  Hypothesis He : env_wf e.
  Hypothesis Hb : nonneg (bal b).
  Hypothesis Ht : tx_wf e t.

  Let S := e_signer e.
  Let F := e_collector e.
  Let U := e_universe e.
  Let p := eff_price (t_fee t) (e_base_fee e).
  Let L := t_gas t.
  Let u := t_gas_used t.

  Lemma p_nonneg : 0 <= p.
  Proof. unfold p. pose proof (eff_price_ge_base (t_fee t) (e_base_fee e)). pose proof (wf_base _ He). lia. Qed.

  Lemma refund_nonneg : 0 <= refund L u p.
  Proof.
    unfold refund. destruct (L <=? u) eqn:E; [lia|]. apply Z.leb_gt in E.
    apply to_native_nonneg. apply Z.mul_nonneg_nonneg; [lia|apply p_nonneg].
  Qed.

  Definition mk (out : outcome) (b' : bank) : meas :=
    {| m_env := e; m_tx := t; m_out := out; m_before := b; m_after := b' |}.

  Lemma sum_delta b' : sumU (delta (mk Rejected b')) U = sumU (bal b') U - sumU (bal b) U.
  Proof. unfold delta. simpl. apply sumU_sub. Qed.

  (** the refund step, whichever branch it took *)
  Lemma refund_step bc b2 :
    (if refund L u p =? 0 then Some bc else send bc F S (refund L u p)) = Some b2 ->
    supply b2 = supply bc /\ sumU (bal b2) U = sumU (bal bc) U /\
    bal b2 S = bal bc S + refund L u p /\ bal b2 F = bal bc F - refund L u p /\
    (forall a, a <> S -> a <> F -> bal b2 a = bal bc a).
  Proof.
    destruct (refund L u p =? 0) eqn:E.
    - apply Z.eqb_eq in E. intro H. inversion H; subst. rewrite E. repeat split; auto; lia.
    - intro H. pose proof (wf_distinct _ He) as Hd.
      pose proof (send_spec _ _ _ _ _ H) as [_ [Hs _]].
      pose proof (send_sum _ _ _ _ _ U H (wf_nodup _ He) (wf_collector _ He) (wf_signer _ He)) as Hsum.
      destruct (send_bal _ _ _ _ _ H) as [B1 [B2 B3]]; [fold S F; auto|].
      repeat split; auto.
  Qed.

  Theorem deliver_satisfies_P :
    snd (deliver e b t) <> Stuck -> P (mk (snd (deliver e b t)) (fst (deliver e b t))).
  Proof.
    pose proof (wf_nodup _ He) as Hnd. pose proof (wf_signer _ He) as HS. pose proof (wf_collector _ He) as HF.
    pose proof (wf_distinct _ He) as Hd. fold S F U in Hnd, HS, HF, Hd.
    unfold deliver. destruct (ante e b t) as [b1|] eqn:Ea.
    2:{ (* rejected *)
      intros _. cbn [fst snd]. unfold P. cbn [m_out m_env m_tx mk].
      assert (Hz : forall a, delta (mk Rejected b) a = 0) by (intro a; unfold delta; simpl; lia).
      unfold dsupply. cbn [m_after m_before mk].
      split; [rewrite (sumU_ext _ (fun _ => 0)) by (intros; apply Hz); rewrite sumU_zero; lia|].
      split; [lia|]. split; [intros; apply Hz|lia]. }
    (* ante passed: the prepayment moved from signer to collector *)
    unfold ante in Ea. fold S F p in Ea.
    destruct ((0 <? t_gas t) && (t_gas t <=? e_block_gas e) && (0 <=? t_value t) && (0 <=? cap_price (t_fee t))
              && (t_gas t * cap_price (t_fee t) + t_value t <=? to_wei (bal b S))) eqn:Ec; [|discriminate].
    apply andb_true_iff in Ec as [Ec _]. apply andb_true_iff in Ec as [Ec _]. apply andb_true_iff in Ec as [Ec Hv].
    apply Z.leb_le in Hv.
    pose proof (send_spec _ _ _ _ _ Ea) as [Hpre [Hs1 _]].
    pose proof (send_sum _ _ _ _ _ U Ea Hnd HS HF) as Hsum1.
    destruct (send_bal _ _ _ _ _ Ea Hd) as [A1 [A2 A3]].
    pose proof (send_nonneg _ _ _ _ _ Ea Hb) as Hb1.
    fold L in Hpre, A1, A2.
    pose proof (net_payment_bounds L u p (wf_gas_used _ _ Ht) p_nonneg) as [Hnet1 Hnet2].
    pose proof refund_nonneg as Hr0.
    destruct (run_msg e b1 t) as [[b2 o]|] eqn:Em.
    2:{ (* msg server error: only the prepayment happened *)
      intros _. cbn [fst snd]. unfold P, dsupply, delta. cbn [m_out m_env m_tx m_after m_before mk].
      fold S F U L p.
      split; [rewrite sumU_sub; lia|]. split; [lia|].
      split; [lia|]. split; [lia|]. split; [lia|]. split; [|lia].
      intros a _ HaS HaF. rewrite A3 by assumption. lia. }
    cbn [fst snd].
    destruct (run_msg_cases _ _ _ _ _ Em) as [bc [Hr Hcases]]. cbv zeta in Hr, Hcases. fold S F U L p u in Hr, Hcases.
    set (v := to_wei (to_native (t_value t))) in *.
    set (wei0 := fun a => to_wei (bal b1 a)) in *.
    destruct Hcases as [[-> ->]|[[_ ->]|[script [wei1 [Eevm [Eops [Ecm ->]]]]]]].
    { (* EVM failed: only the fee moved *)
      intros _. destruct (refund_step _ _ Hr) as [R1 [R2 [R3 [R4 R5]]]].
      unfold P, dsupply, delta. cbn [m_out m_env m_tx m_after m_before mk]. fold S F U L p u.
      unfold net_payment in *. split; [rewrite sumU_sub; lia|]. split; [lia|].
      split; [lia|]. split; [lia|]. split; [lia|]. split; [|lia].
      intros a _ HaS HaF. rewrite R5, A3 by assumption. lia. }
    { intro Hst. exfalso. apply Hst. reflexivity. }
    (* executed and committed *)
    intros _.
    assert (Hw0 : nonneg wei0).
    { intro a. unfold wei0, to_wei. pose proof (Hb1 a). pose proof WEI_pos. nia. }
    destruct (apply_ops_spec _ _ _ _ Hnd Eops Hw0) as [Hw1 [Hsumw Hunt]].
    destruct (commit_spec U wei1 b1 Hnd (fun a _ => Hw1 a) (fun a _ => Hb1 a)) as [bc' [Ecm' [C1 [C2 C3]]]].
    rewrite Ecm in Ecm'. inversion Ecm'; subst bc'. clear Ecm'.
    destruct (refund_step _ _ Hr) as [R1 [R2 [R3 [R4 R5]]]].
    (* the collector is not touched by the EVM *)
    pose proof (wf_collector_untouched _ _ Ht) as HuF. unfold untouched, script_of in HuF. rewrite Eevm in HuF.
    fold F in HuF. apply andb_true_iff in HuF as [HuF1 HuF2]. apply negb_true_iff in HuF1. apply negb_true_iff in HuF2.
    assert (HweiF : wei1 F = wei0 F).
    { apply Hunt. cbn [existsb op_touches]. rewrite HuF1, HuF2.
      assert (Nat.eqb S F = false) by (apply Nat.eqb_neq; assumption). rewrite H. reflexivity. }
    assert (HbcF : bal bc F = bal b1 F).
    { rewrite C1 by assumption. rewrite HweiF. unfold wei0. apply to_native_to_wei. }
    (* sums *)
    assert (Hsum0 : sumU wei0 U = WEI * sumU (bal b1) U).
    { unfold wei0, to_wei. rewrite <- sumU_scale. apply sumU_ext. intros; lia. }
    assert (Hsumc : sumU (bal bc) U = sumU (fun a => to_native (wei1 a)) U) by (apply sumU_ext; intros; apply C1; assumption).
    assert (Hle : sumU (fun a => to_native (wei1 a)) U <= sumU (bal b1) U).
    { eapply Z.le_trans; [apply sumU_native_le|].
      replace (sumU (bal b1) U) with (to_native (WEI * sumU (bal b1) U)).
      - apply to_native_mono. lia.
      - rewrite Z.mul_comm. apply to_native_to_wei. }
    unfold P, dsupply, delta. cbn [m_out m_env m_tx m_after m_before mk]. fold S F U L p u.
    unfold net_payment in *.
    split; [rewrite sumU_sub; lia|]. split; [lia|].
    split; [lia|]. split; [lia|]. split.
    - (* whole unibi: exact conservation *)
      intro Hwh. unfold whole_unibi, script_of in Hwh. rewrite Eevm in Hwh.
      assert (Hd0 : forall a, (WEI | wei0 a)) by (intro a; unfold wei0, to_wei; exists (bal b1 a); lia).
      assert (Hall : forallb op_whole (OTransfer S (t_to t) v :: script) = true).
      { cbn [forallb op_whole]. rewrite Hwh. unfold v, to_wei. rewrite Z.mod_mul by (pose proof WEI_pos; lia). reflexivity. }
      destruct (apply_ops_whole _ _ _ _ Hnd Eops Hall Hd0) as [D1 S1].
      pose proof (sumU_native_exact wei1 U (fun a _ => D1 a)) as Hex.
      pose proof WEI_pos. nia.
    - (* signer not otherwise involved: pays net + the truncated value *)
      intro HuS. unfold untouched, script_of in HuS. rewrite Eevm in HuS. fold S in HuS.
      apply andb_true_iff in HuS as [HuS1 HuS2]. apply negb_true_iff in HuS1. apply negb_true_iff in HuS2.
      apply Nat.eqb_neq in HuS2.
      cbn [apply_ops] in Eops. destruct (apply_op U wei0 (OTransfer S (t_to t) v)) as [w1|] eqn:E1; [|discriminate].
      destruct (apply_ops_spec _ _ _ _ Hnd Eops) as [_ [_ Hunt']].
      { destruct (apply_op_spec _ _ _ _ Hnd E1 Hw0) as [N _]. exact N. }
      assert (HweiS : wei1 S = wei0 S - v).
      { rewrite Hunt' by assumption. cbn [apply_op] in E1.
        destruct (memb S U && memb (t_to t) U && (0 <=? v) && (v <=? wei0 S)); [|discriminate].
        inversion E1; subst. cbv zeta. rewrite upd_other by auto. apply upd_same. }
      assert (bal bc S = bal b1 S - to_native (t_value t)).
      { rewrite C1 by assumption. rewrite HweiS. unfold wei0, v, to_wei.
        replace (bal b1 S * WEI - to_native (t_value t) * WEI) with ((bal b1 S - to_native (t_value t)) * WEI) by ring.
        apply to_native_to_wei. }
      lia.
  Qed.
End Deliver.

(* ------------------------------------------------------------------ histories *)

Lemma deliver_nonneg e b t : env_wf e -> nonneg (bal b) -> nonneg (bal (fst (deliver e b t))).
Proof.
  intros He Hb. unfold deliver. destruct (ante e b t) as [b1|] eqn:Ea; [|exact Hb].
  assert (Hb1 : nonneg (bal b1)).
  { unfold ante in Ea. destruct (_ && _) in Ea; [|discriminate]. eapply send_nonneg; eauto. }
  destruct (run_msg e b1 t) as [[b2 o]|] eqn:Em; [|exact Hb1]. cbn [fst].
  destruct (run_msg_cases _ _ _ _ _ Em) as [bc [Hr Hc]]. cbv zeta in Hr, Hc.
  assert (Hbc : nonneg (bal bc)).
  { destruct Hc as [[-> _]|[[-> _]|[script [wei1 [_ [Eops [Ecm _]]]]]]]; [exact Hb1|exact Hb1|].
    assert (Hw0 : nonneg (fun a => to_wei (bal b1 a))).
    { intro a. unfold to_wei. pose proof (Hb1 a). pose proof WEI_pos. nia. }
    destruct (apply_ops_spec _ _ _ _ (wf_nodup _ He) Eops Hw0) as [Hw1 _].
    destruct (commit_spec (e_universe e) wei1 b1 (wf_nodup _ He) (fun a _ => Hw1 a) (fun a _ => Hb1 a)) as [bc' [E' [C1 [C2 _]]]].
    rewrite Ecm in E'. inversion E'; subst bc'. intro a.
    destruct (in_dec Nat.eq_dec a (e_universe e)) as [Hin|Hnin].
    - rewrite C1 by assumption. apply to_native_nonneg. apply Hw1.
    - rewrite C2 by assumption. apply Hb1. }
  destruct (refund (t_gas t) (t_gas_used t) (eff_price (t_fee t) (e_base_fee e)) =? 0).
  - inversion Hr; subst. exact Hbc.
  - eapply send_nonneg; eauto.
Qed.

Section Exported.
  Variable e : env.
  Hypothesis He : env_wf e.

  Lemma deliver_supply_le b t : nonneg (bal b) -> tx_wf e t -> snd (deliver e b t) <> Stuck ->
    supply (fst (deliver e b t)) <= supply b.
  Proof.
    intros Hb Ht Hs. destruct (deliver_satisfies_P e b t He Hb Ht Hs) as [_ [H _]].
    unfold dsupply in H. cbn in H. lia.
  Qed.

  (** no history of EVM txs increases the supply *)
  Lemma run_supply_le ts : forall b, nonneg (bal b) -> Forall (tx_wf e) ts -> ~ In Stuck (snd (run e b ts)) ->
    supply (fst (run e b ts)) <= supply b.
  Proof.
    induction ts as [|t r IH]; intros b Hb Hts Hs; [simpl; lia|].
    inversion Hts; subst. cbn [run] in *.
    destruct (deliver e b t) as [b1 o] eqn:Ed. destruct (run e b1 r) as [b2 os] eqn:Er. cbn [fst snd] in *.
    assert (Ho : o <> Stuck) by (intro; subst; apply Hs; left; reflexivity).
    pose proof (deliver_supply_le b t Hb H1) as H5. rewrite Ed in H5. cbn [fst snd] in H5. specialize (H5 Ho).
    pose proof (deliver_nonneg e b t He Hb) as Hb1. rewrite Ed in Hb1. cbn [fst] in Hb1.
    specialize (IH b1 Hb1 H2). rewrite Er in IH. cbn [fst snd] in IH.
    assert (~ In Stuck os) by (intro; apply Hs; right; assumption). specialize (IH H). lia.
  Qed.

  (** what leaves one account arrives at another *)
  Lemma closed_system b t : nonneg (bal b) -> tx_wf e t -> snd (deliver e b t) <> Stuck ->
    supply (fst (deliver e b t)) - supply b =
    sumU (bal (fst (deliver e b t))) (e_universe e) - sumU (bal b) (e_universe e).
  Proof.
    intros Hb Ht Hs. destruct (deliver_satisfies_P e b t He Hb Ht Hs) as [H _].
    unfold dsupply, delta in H. cbn in H. rewrite sumU_sub in H. exact H.
  Qed.

  Lemma exact_when_whole b t : nonneg (bal b) -> tx_wf e t -> snd (deliver e b t) = Ok ->
    whole_unibi t = true -> supply (fst (deliver e b t)) = supply b.
  Proof.
    intros Hb Ht Ho Hw. assert (Hs : snd (deliver e b t) <> Stuck) by (rewrite Ho; discriminate).
    destruct (deliver_satisfies_P e b t He Hb Ht Hs) as [_ [_ H]]. cbn [m_out mk] in H. rewrite Ho in H.
    destruct H as [_ [_ [H _]]]. specialize (H Hw). unfold dsupply in H. cbn in H. lia.
  Qed.

  (** a tx that fails after the ante handler changes nothing but the signer's payment (and nonce, C07):
      the payment goes to the fee collector, is at most the prepayment, and the supply is unchanged *)
  Lemma failed_tx_changes_only_fee b t : nonneg (bal b) -> tx_wf e t ->
    snd (deliver e b t) = VmErr \/ snd (deliver e b t) = MsgErr ->
    let b' := fst (deliver e b t) in
    let net := bal b' (e_collector e) - bal b (e_collector e) in
    bal b' (e_signer e) - bal b (e_signer e) = - net /\
    0 <= net <= prepay (t_gas t) (eff_price (t_fee t) (e_base_fee e)) /\
    (forall a, In a (e_universe e) -> a <> e_signer e -> a <> e_collector e -> bal b' a = bal b a) /\
    supply b' = supply b.
  Proof.
    intros Hb Ht Ho. assert (Hs : snd (deliver e b t) <> Stuck) by (destruct Ho as [-> | ->]; discriminate).
    destruct (deliver_satisfies_P e b t He Hb Ht Hs) as [_ [_ H]]. cbn [m_out mk] in H. cbv zeta.
    unfold dsupply, delta in H. cbn [m_env m_tx m_after m_before mk] in H.
    destruct Ho as [Ho|Ho]; rewrite Ho in H.
    - destruct H as [H1 [_ [H3 [H4 H5]]]]. repeat split; try lia. intros a Ha HS HF. specialize (H4 a Ha HS HF). lia.
    - destruct H as [H1 [H2 [H3 [H4 H5]]]]. repeat split; try lia. intros a Ha HS HF. specialize (H4 a Ha HS HF). lia.
  Qed.

  (** gas accounting of a tx that produced a response: the collector's gain is the net payment,
      within one unibi of gasUsed x effective price, and it is what the signer paid beyond the value *)
  Lemma payment_bounds b t : nonneg (bal b) -> tx_wf e t ->
    snd (deliver e b t) = Ok \/ snd (deliver e b t) = VmErr ->
    let b' := fst (deliver e b t) in
    let net := bal b' (e_collector e) - bal b (e_collector e) in
    let p := eff_price (t_fee t) (e_base_fee e) in
    0 <= net <= prepay (t_gas t) p /\ WEI * net - WEI < t_gas_used t * p < WEI * net + WEI /\
    (snd (deliver e b t) = Ok -> untouched (e_signer e) t = true ->
     bal b (e_signer e) - bal b' (e_signer e) - to_native (t_value t) = net).
  Proof.
    intros Hb Ht Ho. assert (Hs : snd (deliver e b t) <> Stuck) by (destruct Ho as [-> | ->]; discriminate).
    destruct (deliver_satisfies_P e b t He Hb Ht Hs) as [_ [_ H]]. cbn [m_out mk] in H. cbv zeta.
    unfold dsupply, delta in H. cbn [m_env m_tx m_after m_before mk] in H.
    destruct Ho as [Ho|Ho]; rewrite Ho in H.
    - destruct H as [H1 [H2 [_ H4]]]. split; [lia|]. split; [lia|]. intros _ Hu. specialize (H4 Hu). lia.
    - destruct H as [H1 [H2 _]]. split; [lia|]. split; [lia|]. intro Hx. rewrite Ho in Hx. discriminate.
  Qed.
End Exported.
