(** C05 — types of the facts re-extracted from /repo (coq/Gen/C05Facts.v is generated) and the
    conditions the model relies on. No proofs. *)
From Coq Require Import List Bool String ZArith.
Import ListNotations.
Require Import Nib.C05.Model.
Open Scope Z_scope.

Record facts := {
  k_wei_per_unibi : Z;               (* evm.NativeToWei(1) of the linked package *)
  k_base_fee_unibi : Z;              (* evm.BASE_FEE_MICRONIBI *)
  k_refund_quotient : Z;             (* params.RefundQuotientEIP3529 of the linked go-ethereum *)
  k_fee_is_native_of_effective_fee : bool;            (* VerifyFee: WeiToNative(EffectiveFeeWei(NativeToWei(base))) *)
  k_fee_deducted_from_signer : bool;                  (* DeductFees(bank, ctx, account of `from`, fees) *)
  k_refund_is_native_of_leftover_times_price : bool;  (* RefundGas: WeiToNative(leftoverGas * weiPerGas) is what is sent *)
  k_refund_from_fee_collector : bool;
  k_refund_to_sender : bool;
  k_leftover_is_limit_minus_used : bool;              (* EthereumTx: msg.Gas() - resp.GasUsed when positive *)
  k_refund_price_is_effective_price : bool;           (* EffectiveGasPriceWeiPerGas(base fee) *)
  k_sync_only_evm_addresses : bool;                    (* SyncStateDBWithAccount returns early unless len(address) = 20 *)
  k_journal_before_flush : bool;                       (* precompile.OnRunStart: SavePrecompileCalledJournalChange precedes CommitCacheCtx *)
  k_refund_cap_applied : bool                         (* gasToRefund(GetRefund(), gasUsed), gasUsed / RefundQuotientEIP3529 *)
}.

Definition facts_ok (f : facts) : bool :=
  (k_wei_per_unibi f =? WEI) && (0 <? k_base_fee_unibi f) &&
  k_fee_is_native_of_effective_fee f && k_fee_deducted_from_signer f &&
  k_refund_is_native_of_leftover_times_price f && k_refund_from_fee_collector f && k_refund_to_sender f &&
  k_leftover_is_limit_minus_used f && k_refund_price_is_effective_price f &&
  k_sync_only_evm_addresses f && k_journal_before_flush f.

(** informational only (how GasUsed itself is computed belongs to C03, the payment is exact for whatever GasUsed is
    reported): the EIP-3529 cap min(counter, gasUsed / quotient) is applied *)
Definition refund_cap_seen (f : facts) : bool := k_refund_cap_applied f.

(** decorators by constructor name: the balance check and CanTransfer precede the one fee deduction,
    and nothing named like a fee deduction appears twice *)
Fixpoint index_of (s : string) (l : list string) : option nat :=
  match l with
  | [] => None
  | x :: r => if String.eqb x s then Some 0%nat else match index_of s r with Some n => Some (S n) | None => None end
  end.

Fixpoint count (s : string) (l : list string) : nat :=
  match l with [] => 0%nat | x :: r => ((if String.eqb x s then 1 else 0) + count s r)%nat end.

Definition chain_ok (l : list string) : bool :=
  match index_of "NewAnteDecVerifyEthAcc" l, index_of "CanTransferDecorator" l, index_of "NewAnteDecEthGasConsume" l with
  | Some a, Some c, Some g => Nat.ltb a g && Nat.ltb c g && Nat.eqb (count "NewAnteDecEthGasConsume" l) 1
  | _, _, _ => false
  end.
