(** C05 — non-vacuity: a concrete scenario meets the hypotheses of the exported theorems and
    exercises truncation, failure after ante, self-destruct; and measurements the checker refuses. *)
From Coq Require Import List Bool Arith ZArith Lia.
Import ListNotations.
Require Import Nib.C05.Model Nib.C05.Spec Nib.C05.Facts Nib.C05.Proofs Nib.C05.ProofsBundle Nib.C05.Check.
Open Scope Z_scope.

Definition e0 : env :=
  {| e_signer := 0; e_collector := 1; e_universe := universe; e_base_fee := 1000000000000; e_block_gas := 100000000 |}.
Definition b0 : bank := bank_of [1000000000000; 7; 0; 50; 0; 0; 100; 0; 0] 5000000000000.

Definition legacy (gp : Z) : fee_params := {| f_type := Legacy; f_gas_price := gp; f_tip := 0; f_cap := 0 |}.
Definition dyn (tip cap : Z) : fee_params := {| f_type := DynamicFee; f_gas_price := 0; f_tip := tip; f_cap := cap |}.
Definition mktx f L v to_ evm_ u_ : etx :=
  {| t_fee := f; t_gas := L; t_value := v; t_to := to_; t_intrinsic := 21000; t_evm := evm_; t_gas_used := u_ |}.

(* odd price, plain transfer *)
Definition t_odd := mktx (legacy 1500000000001) 50000 1000000000000 2%nat (EvmOk []) 21000.
(* gas below intrinsic: fails in the msg server *)
Definition t_low := mktx (legacy 1000000000000) 20000 1000000000000 2%nat (EvmOk []) 0.
(* contract forwards a sub-unibi amount: one unibi disappears *)
Definition t_fwd := mktx (legacy 1000000000001) 321696 2000000000001 3%nat (EvmOk [OTransfer 3 4 999999999999]) 31097.
(* self-destruct to self *)
Definition t_sds := mktx (dyn 300000000007 1300000000006) 321636 1000000000000 3%nat (EvmOk [OSuicide 3 3]) 26755.
(* revert *)
Definition t_rev := mktx (legacy 0) 100000 3000000000000 3%nat EvmFail 64603.

Lemma e0_wf : env_wf e0.
Proof.
  constructor; simpl; try lia; try (intuition congruence).
  repeat (constructor; [simpl; intuition discriminate|]). constructor.
Qed.

Lemma b0_nonneg : nonneg (bal b0).
Proof. intro a. do 20 (destruct a as [|a]; [vm_compute; congruence|]). vm_compute. congruence. Qed.

Example txs_wf : Forall (tx_wf e0) [t_odd; t_low; t_fwd; t_sds; t_rev].
Proof. repeat constructor; simpl; lia. Qed.

Definition shown : list nat := [0; 1; 2; 3; 4; 5; 6; 7; 8; 9; 10; 11]%nat.
Definition show (r : bank * outcome) : outcome * list Z * Z := (snd r, map (bal (fst r)) shown, supply (fst r)).

Example deliver_nonvacuous :
  show (deliver e0 b0 t_odd) = (Ok,     [999999968499; 31507; 1; 50; 0; 0; 100; 0; 0; 0; 0; 0], 5000000000000) /\
  show (deliver e0 b0 t_low) = (MsgErr, [999999980000; 20007; 0; 50; 0; 0; 100; 0; 0; 0; 0; 0], 5000000000000) /\
  show (deliver e0 b0 t_fwd) = (Ok,     [999999968901; 31104; 0; 51; 0; 0; 100; 0; 0; 0; 0; 0], 4999999999999) /\
  show (deliver e0 b0 t_sds) = (Ok,     [999999965218; 34788; 0; 0; 0; 0; 100; 0; 0; 0; 0; 0],  4999999999949) /\
  show (deliver e0 b0 t_rev) = (VmErr,  [999999935397; 64610; 0; 50; 0; 0; 100; 0; 0; 0; 0; 0], 5000000000000).
Proof. vm_compute. repeat split; reflexivity. Qed.

Example history_nonvacuous :
  snd (run e0 b0 [t_odd; t_low; t_fwd; t_sds; t_rev]) = [Ok; MsgErr; Ok; Ok; VmErr] /\
  supply (fst (run e0 b0 [t_odd; t_low; t_fwd; t_sds; t_rev])) = 4999999999947.
Proof. vm_compute. split; reflexivity. Qed.

Example bounds_nonvacuous :
  (* 21000 gas at 1.500000000001e12 wei: pays 31500 unibi; 31500e12 is within 1e12 of 21000 * p *)
  net_payment 50000 21000 1500000000001 = 31500 /\ prepay 50000 1500000000001 = 75000 /\ refund 50000 21000 1500000000001 = 43500.
Proof. vm_compute. repeat split; reflexivity. Qed.

(** the checker refuses a measurement in which 5 unibi appear from nowhere (the pre-72672e0 shape) … *)
Example checker_rejects_mint :
  Pb {| m_env := e0; m_tx := mktx (legacy 1000000000000) 322116 0 6%nat (EvmOk [OTransfer 6 7 5000000000000]) 92514;
        m_out := Ok; m_before := b0;
        m_after := bank_of [999999907486; 92521; 0; 50; 0; 0; 100; 5; 0] 5000000000005 |} = false.
Proof. vm_compute. reflexivity. Qed.

(** … a refund computed from the gas limit instead of the leftover … *)
Example checker_rejects_full_refund :
  Pb {| m_env := e0; m_tx := t_odd; m_out := Ok; m_before := b0;
        m_after := bank_of [999999999999; 7; 1; 50; 0; 0; 100; 0; 0] 5000000000000 |} = false.
Proof. vm_compute. reflexivity. Qed.

(** … and a failed tx that moved somebody else's balance; but accepts the model's own measurements *)
Example checker_rejects_failed_tx_side_effect :
  Pb {| m_env := e0; m_tx := t_rev; m_out := VmErr; m_before := b0;
        m_after := bank_of [999999935397; 64610; 0; 49; 1; 0; 100; 0; 0] 5000000000000 |} = false.
Proof. vm_compute. reflexivity. Qed.

Example checker_accepts_model :
  forallb (fun t => Pb (mk e0 b0 t (snd (deliver e0 b0 t)) (fst (deliver e0 b0 t)))) [t_odd; t_low; t_fwd; t_sds; t_rev] = true.
Proof. vm_compute. reflexivity. Qed.

(** one tx in which a driver contract (9) makes X (3) self-destruct to B (4), pays it 3 unibi, makes it
    self-destruct to B again and then to R (2): the 3 unibi arrive exactly once, supply unchanged; with a
    payment after the last self-destruct the remainder is deleted with the account (supply goes down) *)
Definition b1 : bank := bank_of [1000000000000; 7; 0; 50; 0; 0; 100; 0; 0; 1000] 5000000000000.
Definition t_kills := mktx (legacy 1000000000000) 2021000 0 9%nat
  (EvmOk [OSuicide 3 4; OTransfer 9 3 3000000000000; OSuicide 3 4; OSuicide 3 2]) 80512.
Definition t_kill_pay := mktx (legacy 1000000000000) 2021000 0 9%nat
  (EvmOk [OSuicide 3 4; OTransfer 9 3 3000000000000; OSuicide 3 3]) 60000.

Example repeated_selfdestruct_nonvacuous :
  show (deliver e0 b1 t_kills)    = (Ok, [999999919488; 80519; 0; 0; 53; 0; 100; 0; 0; 997; 0; 0], 5000000000000) /\
  show (deliver e0 b1 t_kill_pay) = (Ok, [999999940000; 60007; 0; 0; 50; 0; 100; 0; 0; 997; 0; 0], 4999999999997) /\
  whole_unibi t_kills = true /\ whole_unibi t_kill_pay = false.
Proof. vm_compute. repeat split; reflexivity. Qed.

(** the duplicated credit of the stale balance (B +53, R +3, nothing debited twice) is refused *)
Example checker_rejects_stale_selfdestruct_balance :
  Pb {| m_env := e0; m_tx := t_kills; m_out := Ok; m_before := b1;
        m_after := bank_of [999999919488; 80519; 3; 0; 53; 0; 100; 0; 0; 997] 5000000000003 |} = false.
Proof. vm_compute. reflexivity. Qed.

(** a bundle of two signers (accounts 10 and 11): 10 sends nothing with a generous limit, 11 sends 1 unibi at
    an odd price; each pays for its own gas *)
Definition b2s : bank := bank_of [1000000000000; 7; 0; 50; 0; 0; 100; 0; 0; 1000; 1000000000000; 1000000000000] 9000000000000.
Definition bm1 : bmsg := (10%nat, mktx (legacy 1000000000000) 100000 0 2%nat (EvmOk []) 21000).
Definition bm2 : bmsg := (11%nat, mktx (legacy 1500000000001) 30000 1000000000000 2%nat (EvmOk []) 21000).
Definition bm3 : bmsg := (10%nat, mktx (legacy 1000000000000) 20000 0 2%nat (EvmOk []) 0).   (* below intrinsic *)

Lemma bundle_wf : benv_wf e0 [bm1; bm2].
Proof.
  constructor.
  - exact (wf_nodup _ e0_wf).
  - exact (wf_collector _ e0_wf).
  - simpl. lia.
  - intros m [<-|[<-|[]]]; simpl; intuition congruence.
  - intros m [<-|[<-|[]]]; constructor; simpl; try lia; reflexivity.
Qed.

Definition showb (r : bank * boutcome) : boutcome * list Z * Z := (snd r, map (bal (fst r)) shown, supply (fst r)).

Example bundle_nonvacuous :
  showb (deliver_bundle e0 b2s [bm1; bm2]) =
    (BDone [Ok; Ok], [1000000000000; 52507; 1; 50; 0; 0; 100; 0; 0; 1000; 999999979000; 999999968499], 9000000000000) /\
  showb (deliver_bundle e0 b2s [bm1; bm2; bm3]) =
    (BMsgErr, [1000000000000; 165007; 0; 50; 0; 0; 100; 0; 0; 1000; 999999880000; 999999955000], 9000000000000) /\
  PBb (bmk e0 [bm1; bm2] (BDone [Ok; Ok]) b2s (fst (deliver_bundle e0 b2s [bm1; bm2]))) = true.
Proof. vm_compute. repeat split; reflexivity. Qed.

(** the last signer prepaying for everybody while the first one still gets its refund is refused: supply and the
    collector's total are as before, only the per-signer clause trips *)
Example checker_rejects_fee_from_last_signer :
  PBb (bmk e0 [bm1; bm2] (BDone [Ok; Ok]) b2s
         (bank_of [1000000000000; 52507; 1; 50; 0; 0; 100; 0; 0; 1000; 1000000079000; 999999868499] 9000000000000)) = false.
Proof. vm_compute. reflexivity. Qed.

(** a factory (12) pays 3 unibi to the address (13) of its next creation and then creates there with an endowment
    of 7 unibi: when the init code fails only the 3 unibi stay, when it succeeds all 10 do; supply unchanged.  A
    measurement in which the failed creation's endowment stays at the address AND returns to the factory is refused. *)
Definition b3 : bank := bank_of [1000000000000; 7; 0; 50; 0; 0; 100; 0; 0; 1000; 0; 0; 1000000; 0] 5000000000000.
Definition t_fact_fail := mktx (legacy 1000000000000) 721000 0 12%nat (EvmOk [OTransfer 12 13 3000000000000]) 88599.
Definition t_fact_ok := mktx (legacy 1000000000000) 721000 0 12%nat
  (EvmOk [OTransfer 12 13 3000000000000; OTransfer 12 13 7000000000000]) 88891.

Example factory_nonvacuous :
  map (bal (fst (deliver e0 b3 t_fact_fail))) [12; 13]%nat = [999997; 3] /\ supply (fst (deliver e0 b3 t_fact_fail)) = 5000000000000 /\
  map (bal (fst (deliver e0 b3 t_fact_ok))) [12; 13]%nat = [999990; 10] /\ supply (fst (deliver e0 b3 t_fact_ok)) = 5000000000000 /\
  Pb {| m_env := e0; m_tx := t_fact_fail; m_out := Ok; m_before := b3;
        m_after := bank_of [999999911401; 88606; 0; 50; 0; 0; 100; 0; 0; 1000; 0; 0; 999997; 10] 5000000000007 |} = false.
Proof. vm_compute. repeat split; reflexivity. Qed.

(** The truncating mirror of SyncStateDBWithAccount refutes the supply clause: an EOA (0) calls the wasm precompile
    `execute` with 7 unibi of funds for the wasm contract W (14, a 32-byte address); the bank send is mirrored into
    the StateDB account PH (15) = last 20 bytes of W and the commit mints bank(W) there. *)
Definition b4 : bank := bank_of [1000000000000; 0; 0; 50; 0; 0; 100; 0; 0; 1000; 0; 0; 1000000; 0; 0; 0] 101000001000000.
Definition t_wasm := mktx (legacy 1000000000000) 2023000 0 14%nat (EvmOk [OTransfer 0 14 7000000000000]) 128001.

Example truncating_sync_witness :
  (* repaired behaviour: the 7 unibi move, nothing is minted *)
  map (bal (fst (deliver_cur [] e0 b4 t_wasm))) [0; 1; 14; 15]%nat = [999999871992; 128001; 7; 0] /\
  supply (fst (deliver_cur [] e0 b4 t_wasm)) = 101000001000000 /\
  (* code as it stands (numbers of the probe on the unchanged tree): phantom +7, supply +7 *)
  map (bal (fst (deliver_cur [(14, 15)%nat] e0 b4 t_wasm))) [0; 1; 14; 15]%nat = [999999871992; 128001; 7; 7] /\
  supply (fst (deliver_cur [(14, 15)%nat] e0 b4 t_wasm)) = 101000001000007 /\
  snd (deliver_cur [(14, 15)%nat] e0 b4 t_wasm) = Ok.
Proof. vm_compute. repeat split; reflexivity. Qed.

Lemma b4_nonneg : nonneg (bal b4).
Proof. intro a. do 20 (destruct a as [|a]; [vm_compute; congruence|]). vm_compute. congruence. Qed.

Lemma t_wasm_wf : tx_wf e0 t_wasm.
Proof. constructor; simpl; [lia|reflexivity]. Qed.

Theorem truncating_sync_refuted :
  exists e b t trunc, env_wf e /\ nonneg (bal b) /\ tx_wf e t /\
    snd (deliver_cur trunc e b t) = Ok /\ supply (fst (deliver_cur trunc e b t)) > supply b /\
    Pb (mk e b t (snd (deliver_cur trunc e b t)) (fst (deliver_cur trunc e b t))) = false.
Proof.
  exists e0, b4, t_wasm, [(14, 15)%nat].
  split; [exact e0_wf|]. split; [exact b4_nonneg|]. split; [exact t_wasm_wf|].
  vm_compute. repeat split; reflexivity.
Qed.

(** … while the repaired behaviour ([trunc] empty) is [deliver], for which the property is proved *)
Lemma deliver_cur_repaired e b t : snd (deliver e b t) <> Stuck -> deliver_cur [] e b t = deliver e b t.
Proof. unfold deliver_cur. destruct (deliver e b t) as [b1 o]. destruct o; reflexivity. Qed.
