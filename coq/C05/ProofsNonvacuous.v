From Coq Require Import List Bool Arith ZArith Lia.
Require Import Nib.C05.Model Nib.C05.Spec Nib.C05.Facts Nib.C05.Proofs.
