(** C05 — the property over one measured tx (balances and supply before/after, gas used, outcome)
    as a Prop [P] and as a boolean checker [Pb]; [Pb_sound : Pb = true -> P]. *)
From Coq Require Import List Bool Arith ZArith Lia.
Import ListNotations.
Require Import Nib.C05.Model.
Open Scope Z_scope.

Fixpoint sumU (f : nat -> Z) (U : list nat) : Z :=
  match U with [] => 0 | a :: r => f a + sumU f r end.

(** every amount the script moves is a whole number of unibi and nothing self-destructs to itself *)
Definition op_whole (o : op) : bool :=
  match o with
  | OTransfer _ _ w => (w mod WEI =? 0)
  | OSuicide x y => negb (Nat.eqb x y)
  end.

Definition script_of (t : etx) : list op := match t_evm t with EvmOk s => s | EvmFail => [] end.
Definition whole_unibi (t : etx) : bool := forallb op_whole (script_of t).

Definition op_touches (a : nat) (o : op) : bool :=
  match o with
  | OTransfer x y _ => Nat.eqb x a || Nat.eqb y a
  | OSuicide x y => Nat.eqb x a || Nat.eqb y a
  end.
Definition untouched (a : nat) (t : etx) : bool :=
  negb (existsb (op_touches a) (script_of t)) && negb (Nat.eqb (t_to t) a).

(** one measurement *)
Record meas := { m_env : env; m_tx : etx; m_out : outcome; m_before : bank; m_after : bank }.

Section Spec.
  Variable m : meas.
  Let e := m_env m.
  Let t := m_tx m.
  Let S := e_signer e.
  Let F := e_collector e.
  Let U := e_universe e.
  Let L := t_gas t.
  Let u := t_gas_used t.
  Let p := eff_price (t_fee t) (e_base_fee e).
  Definition delta (a : nat) : Z := bal (m_after m) a - bal (m_before m) a.
  Definition dsupply : Z := supply (m_after m) - supply (m_before m).
  Let net := delta F.

  Definition P : Prop :=
    (* what leaves one account arrives at another: the supply moves with the sum of the balances *)
    dsupply = sumU delta U /\
    (* no tx increases the supply *)
    dsupply <= 0 /\
    match m_out m with
    | Rejected => (forall a, In a U -> delta a = 0) /\ dsupply = 0
    | MsgErr =>
        (* passed ante, no response: pays the whole prepayment (<= gasLimit x price), nothing else changes *)
        net = prepay L p /\ 0 <= net /\
        delta S = - net /\ (forall a, In a U -> a <> S -> a <> F -> delta a = 0) /\ dsupply = 0
    | VmErr =>
        0 <= net <= prepay L p /\ WEI * net - WEI < u * p < WEI * net + WEI /\
        delta S = - net /\ (forall a, In a U -> a <> S -> a <> F -> delta a = 0) /\ dsupply = 0
    | Ok =>
        0 <= net <= prepay L p /\ WEI * net - WEI < u * p < WEI * net + WEI /\
        (whole_unibi t = true -> dsupply = 0) /\
        (untouched S t = true -> delta S = - net - to_native (t_value t))
    | Stuck => False
    end.

  Definition Pb : bool :=
    (dsupply =? sumU delta U) && (dsupply <=? 0) &&
    match m_out m with
    | Rejected => forallb (fun a => delta a =? 0) U && (dsupply =? 0)
    | MsgErr =>
        (net =? prepay L p) && (0 <=? net) && (delta S =? - net) &&
        forallb (fun a => Nat.eqb a S || Nat.eqb a F || (delta a =? 0)) U && (dsupply =? 0)
    | VmErr =>
        (0 <=? net) && (net <=? prepay L p) && (WEI * net - WEI <? u * p) && (u * p <? WEI * net + WEI) &&
        (delta S =? - net) &&
        forallb (fun a => Nat.eqb a S || Nat.eqb a F || (delta a =? 0)) U && (dsupply =? 0)
    | Ok =>
        (0 <=? net) && (net <=? prepay L p) && (WEI * net - WEI <? u * p) && (u * p <? WEI * net + WEI) &&
        (negb (whole_unibi t) || (dsupply =? 0)) &&
        (negb (untouched S t) || (delta S =? - net - to_native (t_value t)))
    | Stuck => false
    end.

  Lemma others_sound :
    forallb (fun a => Nat.eqb a S || Nat.eqb a F || (delta a =? 0)) U = true ->
    forall a, In a U -> a <> S -> a <> F -> delta a = 0.
  Proof.
    intros H a Ha HS HF. rewrite forallb_forall in H. specialize (H a Ha).
    apply Nat.eqb_neq in HS. apply Nat.eqb_neq in HF. rewrite HS, HF in H. simpl in H. apply Z.eqb_eq. exact H.
  Qed.

  Lemma Pb_sound : Pb = true -> P.
  Proof.
    unfold Pb, P. intro H.
    apply andb_true_iff in H as [H H3]. apply andb_true_iff in H as [H1 H2].
    apply Z.eqb_eq in H1. apply Z.leb_le in H2. split; [exact H1|]. split; [exact H2|].
    destruct (m_out m).
    - apply andb_true_iff in H3 as [Ha Hb]. apply Z.eqb_eq in Hb. split; [|exact Hb].
      intros a Ha'. rewrite forallb_forall in Ha. apply Z.eqb_eq. auto.
    - repeat (apply andb_true_iff in H3 as [H3 ?]).
      repeat match goal with
             | H : (_ =? _) = true |- _ => apply Z.eqb_eq in H
             | H : (_ <=? _) = true |- _ => apply Z.leb_le in H
             end.
      repeat split; auto. apply others_sound; assumption.
    - repeat (apply andb_true_iff in H3 as [H3 ?]).
      repeat match goal with
             | H : (_ =? _) = true |- _ => apply Z.eqb_eq in H
             | H : (_ <=? _) = true |- _ => apply Z.leb_le in H
             | H : (_ <? _) = true |- _ => apply Z.ltb_lt in H
             end.
      repeat split; auto. apply others_sound; assumption.
    - apply andb_true_iff in H3 as [H3 Hu]. apply andb_true_iff in H3 as [H3 Hw].
      apply andb_true_iff in H3 as [H3 Hd]. apply andb_true_iff in H3 as [H3 Hc].
      apply andb_true_iff in H3 as [Ha Hb].
      apply Z.leb_le in Ha. apply Z.leb_le in Hb. apply Z.ltb_lt in Hc. apply Z.ltb_lt in Hd.
      repeat split; auto.
      + intro Hx. rewrite Hx in Hw. simpl in Hw. apply Z.eqb_eq. exact Hw.
      + intro Hx. rewrite Hx in Hu. simpl in Hu. apply Z.eqb_eq. exact Hu.
    - discriminate.
  Qed.
End Spec.
