(** C05 — the property over one measured tx (balances and supply before/after, gas used, outcome)
    as a Prop [P] and as a boolean checker [Pb]; [Pb_sound : Pb = true -> P]. *)
From Coq Require Import List Bool Arith ZArith Lia.
Import ListNotations.
Require Import Nib.C05.Model.
Open Scope Z_scope.

Fixpoint sumU (f : nat -> Z) (U : list nat) : Z :=
  match U with [] => 0 | a :: r => f a + sumU f r end.

(** every amount the script moves is a whole number of unibi and nothing self-destructs to itself *)
Definition op_whole (o : op) : bool :=
  match o with
  | OTransfer _ _ w => (w mod WEI =? 0)
  | OSuicide x y => negb (Nat.eqb x y)
  end.

Definition script_of (t : etx) : list op := match t_evm t with EvmOk s => s | EvmFail => [] end.
Definition whole_unibi (t : etx) : bool := forallb op_whole (script_of t).

Definition op_touches (a : nat) (o : op) : bool :=
  match o with
  | OTransfer x y _ => Nat.eqb x a || Nat.eqb y a
  | OSuicide x y => Nat.eqb x a || Nat.eqb y a
  end.
Definition untouched (a : nat) (t : etx) : bool :=
  negb (existsb (op_touches a) (script_of t)) && negb (Nat.eqb (t_to t) a).

(** one measurement *)
Record meas := { m_env : env; m_tx : etx; m_out : outcome; m_before : bank; m_after : bank }.

Section Spec.
  Variable m : meas.
  Let e := m_env m.
  Let t := m_tx m.
  Let S := e_signer e.
  Let F := e_collector e.
  Let U := e_universe e.
  Let L := t_gas t.
  Let u := t_gas_used t.
  Let p := eff_price (t_fee t) (e_base_fee e).
  Definition delta (a : nat) : Z := bal (m_after m) a - bal (m_before m) a.
  Definition dsupply : Z := supply (m_after m) - supply (m_before m).
  Let net := delta F.

  Definition P : Prop :=
    (* what leaves one account arrives at another: the supply moves with the sum of the balances *)
    dsupply = sumU delta U /\
    (* no tx increases the supply *)
    dsupply <= 0 /\
    match m_out m with
    | Rejected => (forall a, In a U -> delta a = 0) /\ dsupply = 0
    | MsgErr =>
        (* passed ante, no response: pays the whole prepayment (<= gasLimit x price), nothing else changes *)
        net = prepay L p /\ 0 <= net /\
        delta S = - net /\ (forall a, In a U -> a <> S -> a <> F -> delta a = 0) /\ dsupply = 0
    | VmErr =>
        0 <= net <= prepay L p /\ WEI * net - WEI < u * p < WEI * net + WEI /\
        delta S = - net /\ (forall a, In a U -> a <> S -> a <> F -> delta a = 0) /\ dsupply = 0
    | Ok =>
        0 <= net <= prepay L p /\ WEI * net - WEI < u * p < WEI * net + WEI /\
        (whole_unibi t = true -> dsupply = 0) /\
        (untouched S t = true -> delta S = - net - to_native (t_value t))
    | Stuck => False
    end.

  Definition Pb : bool :=
    (dsupply =? sumU delta U) && (dsupply <=? 0) &&
    match m_out m with
    | Rejected => forallb (fun a => delta a =? 0) U && (dsupply =? 0)
    | MsgErr =>
        (net =? prepay L p) && (0 <=? net) && (delta S =? - net) &&
        forallb (fun a => Nat.eqb a S || Nat.eqb a F || (delta a =? 0)) U && (dsupply =? 0)
    | VmErr =>
        (0 <=? net) && (net <=? prepay L p) && (WEI * net - WEI <? u * p) && (u * p <? WEI * net + WEI) &&
        (delta S =? - net) &&
        forallb (fun a => Nat.eqb a S || Nat.eqb a F || (delta a =? 0)) U && (dsupply =? 0)
    | Ok =>
        (0 <=? net) && (net <=? prepay L p) && (WEI * net - WEI <? u * p) && (u * p <? WEI * net + WEI) &&
        (negb (whole_unibi t) || (dsupply =? 0)) &&
        (negb (untouched S t) || (delta S =? - net - to_native (t_value t)))
    | Stuck => false
    end.

  Lemma others_sound :
    forallb (fun a => Nat.eqb a S || Nat.eqb a F || (delta a =? 0)) U = true ->
    forall a, In a U -> a <> S -> a <> F -> delta a = 0.
  Proof.
    intros H a Ha HS HF. rewrite forallb_forall in H. specialize (H a Ha).
    apply Nat.eqb_neq in HS. apply Nat.eqb_neq in HF. rewrite HS, HF in H. simpl in H. apply Z.eqb_eq. exact H.
  Qed.

  Lemma Pb_sound : Pb = true -> P.
  Proof.
    unfold Pb, P. intro H.
    apply andb_true_iff in H as [H H3]. apply andb_true_iff in H as [H1 H2].
    apply Z.eqb_eq in H1. apply Z.leb_le in H2. split; [exact H1|]. split; [exact H2|].
    destruct (m_out m).
    - apply andb_true_iff in H3 as [Ha Hb]. apply Z.eqb_eq in Hb. split; [|exact Hb].
      intros a Ha'. rewrite forallb_forall in Ha. apply Z.eqb_eq. auto.
    - repeat (apply andb_true_iff in H3 as [H3 ?]).
      repeat match goal with
             | H : (_ =? _) = true |- _ => apply Z.eqb_eq in H
             | H : (_ <=? _) = true |- _ => apply Z.leb_le in H
             end.
      repeat split; auto. apply others_sound; assumption.
    - repeat (apply andb_true_iff in H3 as [H3 ?]).
      repeat match goal with
             | H : (_ =? _) = true |- _ => apply Z.eqb_eq in H
             | H : (_ <=? _) = true |- _ => apply Z.leb_le in H
             | H : (_ <? _) = true |- _ => apply Z.ltb_lt in H
             end.
      repeat split; auto. apply others_sound; assumption.
    - apply andb_true_iff in H3 as [H3 Hu]. apply andb_true_iff in H3 as [H3 Hw].
      apply andb_true_iff in H3 as [H3 Hd]. apply andb_true_iff in H3 as [H3 Hc].
      apply andb_true_iff in H3 as [Ha Hb].
      apply Z.leb_le in Ha. apply Z.leb_le in Hb. apply Z.ltb_lt in Hc. apply Z.ltb_lt in Hd.
      repeat split; auto.
      + intro Hx. rewrite Hx in Hw. simpl in Hw. apply Z.eqb_eq. exact Hw.
      + intro Hx. rewrite Hx in Hu. simpl in Hu. apply Z.eqb_eq. exact Hu.
    - discriminate.
  Qed.
End Spec.

(* ------------------------------------------------------------------------------------------
   Several MsgEthereumTx in one Cosmos tx: per-message and per-signer accounting *)

Record bmeas := { bm_env : env; bm_msgs : list bmsg; bm_out : boutcome; bm_before : bank; bm_after : bank }.

Fixpoint dedup (l : list nat) : list nat :=
  match l with
  | [] => []
  | x :: r => if existsb (Nat.eqb x) r then dedup r else x :: dedup r
  end.

Definition signers (ms : list bmsg) : list nat := dedup (map fst ms).
Definition msgs_of (s : nat) (ms : list bmsg) : list bmsg := filter (fun m => Nat.eqb (fst m) s) ms.

Definition price_of (e : env) (m : bmsg) : Z := eff_price (t_fee (snd m)) (e_base_fee e).

Fixpoint sum_prepay (e : env) (ms : list bmsg) : Z :=
  match ms with [] => 0 | m :: r => prepay (t_gas (snd m)) (price_of e m) + sum_prepay e r end.

Fixpoint sum_used (e : env) (ms : list bmsg) : Z :=
  match ms with [] => 0 | m :: r => t_gas_used (snd m) * price_of e m + sum_used e r end.

(** unibi a signer sent as top-level value in its messages that ran to completion *)
Fixpoint values_sent (s : nat) (mo : list (bmsg * outcome)) : Z :=
  match mo with
  | [] => 0
  | (m, o) :: r =>
      (if Nat.eqb (fst m) s then match o with Ok => to_native (t_value (snd m)) | _ => 0 end else 0) + values_sent s r
  end.

(** the account is neither the callee of a message nor named in any effect script *)
Definition plain (a : nat) (ms : list bmsg) : bool := forallb (fun m => untouched a (snd m)) ms.

Definition is_stuck (o : outcome) : bool := match o with Stuck => true | _ => false end.

Section SpecBundle.
  Variable m : bmeas.
  Let e := bm_env m.
  Let ms := bm_msgs m.
  Let F := e_collector e.
  Let U := e_universe e.
  Definition bdelta (a : nat) : Z := bal (bm_after m) a - bal (bm_before m) a.
  Definition bdsupply : Z := supply (bm_after m) - supply (bm_before m).
  Definition count_msgs (l : list bmsg) : Z := Z.of_nat (length l).

  (** gas payment of signer [s]: what it lost beyond the values it sent *)
  Definition pay (os : list outcome) (s : nat) : Z := - bdelta s - values_sent s (combine ms os).

  Definition signer_ok (os : list outcome) (s : nat) : Prop :=
    let mine := msgs_of s ms in
    0 <= pay os s <= sum_prepay e mine /\
    WEI * pay os s - count_msgs mine * WEI < sum_used e mine < WEI * pay os s + count_msgs mine * WEI.

  Fixpoint sum_pay (os : list outcome) (l : list nat) : Z :=
    match l with [] => 0 | s :: r => pay os s + sum_pay os r end.

  Definition PB : Prop :=
    bdsupply = sumU bdelta U /\ bdsupply <= 0 /\
    match bm_out m with
    | BRejected => (forall a, In a U -> bdelta a = 0) /\ bdsupply = 0
    | BMsgErr =>
        (* every signer has prepaid its own messages, nothing else happened *)
        plain F ms = true ->
        (forall s, In s (signers ms) -> bdelta s = - sum_prepay e (msgs_of s ms)) /\
        bdelta F = sum_prepay e ms /\
        (forall a, In a U -> ~ In a (signers ms) -> a <> F -> bdelta a = 0) /\ bdsupply = 0
    | BDone os =>
        length os = length ms /\ existsb is_stuck os = false /\
        (* each signer pays for ITS messages: within one unibi per message of gasUsed x price, never
           negative, never more than its own prepayments *)
        (forall s, In s (signers ms) -> plain s ms = true -> signer_ok os s) /\
        (* the collector's gain is the sum of the signers' payments *)
        (plain F ms = true -> forallb (fun s => plain s ms) (signers ms) = true ->
         bdelta F = sum_pay os (signers ms)) /\
        (forallb (fun x => whole_unibi (snd x)) ms = true -> bdsupply = 0)
    end.

  Definition signer_okb (os : list outcome) (s : nat) : bool :=
    let mine := msgs_of s ms in
    (0 <=? pay os s) && (pay os s <=? sum_prepay e mine) &&
    (WEI * pay os s - count_msgs mine * WEI <? sum_used e mine) &&
    (sum_used e mine <? WEI * pay os s + count_msgs mine * WEI).

  Definition PBb : bool :=
    (bdsupply =? sumU bdelta U) && (bdsupply <=? 0) &&
    match bm_out m with
    | BRejected => forallb (fun a => bdelta a =? 0) U && (bdsupply =? 0)
    | BMsgErr =>
        negb (plain F ms) ||
        (forallb (fun s => bdelta s =? - sum_prepay e (msgs_of s ms)) (signers ms) &&
         (bdelta F =? sum_prepay e ms) &&
         forallb (fun a => existsb (Nat.eqb a) (signers ms) || Nat.eqb a F || (bdelta a =? 0)) U &&
         (bdsupply =? 0))
    | BDone os =>
        Nat.eqb (length os) (length ms) && negb (existsb is_stuck os) &&
        forallb (fun s => negb (plain s ms) || signer_okb os s) (signers ms) &&
        (negb (plain F ms) || negb (forallb (fun s => plain s ms) (signers ms)) ||
         (bdelta F =? sum_pay os (signers ms))) &&
        (negb (forallb (fun x => whole_unibi (snd x)) ms) || (bdsupply =? 0))
    end.

  Lemma existsb_eqb_In a l : existsb (Nat.eqb a) l = false -> ~ In a l.
  Proof.
    intros H Hin. assert (existsb (Nat.eqb a) l = true) by (apply existsb_exists; exists a; split; auto; apply Nat.eqb_refl).
    congruence.
  Qed.

  Lemma signer_okb_sound os s : signer_okb os s = true -> signer_ok os s.
  Proof.
    unfold signer_okb, signer_ok. cbv zeta. intro H.
    apply andb_true_iff in H as [H H4]. apply andb_true_iff in H as [H H3]. apply andb_true_iff in H as [H1 H2].
    apply Z.leb_le in H1. apply Z.leb_le in H2. apply Z.ltb_lt in H3. apply Z.ltb_lt in H4. auto.
  Qed.

  Lemma PBb_sound : PBb = true -> PB.
  Proof.
    unfold PBb, PB. intro H.
    apply andb_true_iff in H as [H H3]. apply andb_true_iff in H as [H1 H2].
    apply Z.eqb_eq in H1. apply Z.leb_le in H2. split; [exact H1|]. split; [exact H2|].
    destruct (bm_out m) as [| |os].
    - apply andb_true_iff in H3 as [Ha Hb]. apply Z.eqb_eq in Hb. split; [|exact Hb].
      intros a Ha'. rewrite forallb_forall in Ha. apply Z.eqb_eq. auto.
    - intro Hp. fold e ms F in Hp. rewrite Hp in H3. cbn [negb orb] in H3.
      apply andb_true_iff in H3 as [H3 Hd]. apply andb_true_iff in H3 as [H3 Hc]. apply andb_true_iff in H3 as [Ha Hb].
      apply Z.eqb_eq in Hb. apply Z.eqb_eq in Hd.
      split; [|split; [exact Hb|split; [|exact Hd]]].
      + intros s Hs. rewrite forallb_forall in Ha. apply Z.eqb_eq. auto.
      + intros a Ha' Hns HaF. rewrite forallb_forall in Hc. specialize (Hc a Ha').
        apply orb_true_iff in Hc as [Hc|Hc]; [|apply Z.eqb_eq; exact Hc].
        apply orb_true_iff in Hc as [Hc|Hc].
        * exfalso. apply Hns. apply existsb_exists in Hc as [x [Hx He]]. apply Nat.eqb_eq in He. subst. exact Hx.
        * apply Nat.eqb_eq in Hc. contradiction.
    - apply andb_true_iff in H3 as [H3 Hw]. apply andb_true_iff in H3 as [H3 Hf]. apply andb_true_iff in H3 as [H3 Hs].
      apply andb_true_iff in H3 as [Hl Hst]. apply Nat.eqb_eq in Hl. apply negb_true_iff in Hst.
      split; [exact Hl|]. split; [exact Hst|]. split; [|split].
      + intros s Hin Hp. rewrite forallb_forall in Hs. specialize (Hs s Hin). fold e ms in Hp. rewrite Hp in Hs.
        cbn [negb orb] in Hs. apply signer_okb_sound. exact Hs.
      + intros Hp Hall. fold e ms F in Hp. rewrite Hp, Hall in Hf. cbn [negb orb] in Hf. apply Z.eqb_eq. exact Hf.
      + intro Hall. rewrite Hall in Hw. cbn [negb orb] in Hw. apply Z.eqb_eq. exact Hw.
  Qed.
End SpecBundle.
