(** C05 — proofs about the two-ledger EVM phase (ModelX.v) with the PrecompileCalled entry journaled before the
    flush: a frame that is reverted — whatever it contains, including precompile calls whose flush fails half-way at
    a blocked module account — leaves the state of its start; a kept frame refines its net effects; the final
    commit then satisfies the same ledger equations as the flat model, hence [P]. *)
From Coq Require Import List Bool Arith ZArith Lia.
Import ListNotations.
Require Import Nib.C05.Model Nib.C05.Spec Nib.C05.ModelX Nib.C05.Proofs.
Open Scope Z_scope.

Lemma op_uses_touches a o : op_uses a o = op_touches a o.
Proof. destruct o; reflexivity. Qed.

(** induction over scripts (nested lists) *)
Section XopInd.
  Variable Pp : xop -> Prop.
  Hypothesis HOp : forall p, Pp (XOp p).
  Hypothesis HPre : forall sd rf, Pp (XPre sd rf).
  Hypothesis HFrame : forall body keep, Forall Pp body -> Pp (XFrame body keep).
  Fixpoint xop_ind2 (o : xop) : Pp o :=
    match o with
    | XOp p => HOp p
    | XPre sd rf => HPre sd rf
    | XFrame body keep =>
        HFrame body keep
          ((fix go (l : list xop) : Forall Pp l :=
              match l with [] => Forall_nil _ | x :: r => Forall_cons _ (xop_ind2 x) (go r) end) body)
    end.
End XopInd.

Lemma xexec_frame jf c U body keep s :
  xexec jf c U (XFrame body keep) s =
  match xexecs jf c U body (enter s) with
  | None => None
  | Some (s1, n) => if keep then Some (keep_frame s s1, n) else Some (restore s s1, [])
  end.
Proof.
  cbn [xexec].
  assert (E : forall l s', (fix go (l : list xop) (s' : xst) {struct l} : option (xst * list op) :=
               match l with
               | [] => Some (s', [])
               | o1 :: r =>
                   match xexec jf c U o1 s' with
                   | None => None
                   | Some (s1, n1) => match go r s1 with None => None | Some (s2, n2) => Some (s2, n1 ++ n2) end
                   end
               end) l s' = xexecs jf c U l s').
  { induction l as [|o1 r IH]; intro s'; [reflexivity|]. cbn [xexecs]. destruct (xexec jf c U o1 s') as [[s1 n1]|]; [|reflexivity].
    rewrite IH. reflexivity. }
  rewrite E. reflexivity.
Qed.

Lemma to_wei_native_le w : to_wei (to_native w) <= w.
Proof. unfold to_wei. pose proof (to_native_bounds w). lia. Qed.

Lemma to_wei_native_exact w : (WEI | w) -> to_wei (to_native w) = w.
Proof. intro H. unfold to_wei. pose proof (to_native_exact w H). lia. Qed.

Lemma to_wei_divide n : (WEI | to_wei n).
Proof. exists n. reflexivity. Qed.

Section Ledger.
  Variable c : xcfg.
  Let M := x_module c.

  (** Keeper.SetAccBalance, when both bank steps go through *)
  Lemma sab2_ok b a target b' :
    a <> M -> nonneg (bal b) ->
    set_acc_balance2 c b a target = (b', true) ->
    bal b' a = target /\ (forall x, x <> a -> bal b' x = bal b x) /\ supply b' = supply b + target - bal b a.
  Proof.
    intros HaM Hb. unfold set_acc_balance2. fold M.
    destruct (0 <? target - bal b a) eqn:E1.
    - destruct (is_blocked c a); [discriminate|].
      destruct (send (mint b M (target - bal b a)) M a (target - bal b a)) as [b2|] eqn:Es; [|discriminate].
      intro H. inversion H; subst b2. clear H.
      apply send_spec in Es as [_ [Hs Hbal]]. cbv zeta in Hbal. unfold mint in Hbal, Hs. cbn [bal supply] in Hbal, Hs.
      split; [|split].
      + rewrite Hbal. rewrite upd_same. rewrite upd_other by assumption. rewrite upd_other by assumption. lia.
      + intros x Hx. rewrite Hbal. rewrite upd_other by assumption.
        destruct (Nat.eq_dec x M) as [->|HxM].
        * rewrite upd_same. rewrite upd_same. lia.
        * rewrite upd_other by assumption. rewrite upd_other by assumption. reflexivity.
      + rewrite Hs. lia.
    - destruct (target - bal b a <? 0) eqn:E2.
      + destruct (send b a M (- (target - bal b a))) as [b2|] eqn:Es; [|discriminate].
        destruct (burn b2 M (- (target - bal b a))) as [b3|] eqn:Eb; [|discriminate].
        intro H. inversion H; subst b3. clear H.
        apply send_spec in Es as [_ [Hs Hbal]]. cbv zeta in Hbal.
        unfold burn in Eb. destruct (- (target - bal b a) <=? bal b2 M); [|discriminate].
        inversion Eb; subst b'. clear Eb. cbn [bal supply].
        assert (HMa : M <> a) by auto.
        split; [|split].
        * rewrite upd_other by assumption. rewrite Hbal. rewrite upd_other by assumption. rewrite upd_same. lia.
        * intros x Hx. destruct (Nat.eq_dec x M) as [->|HxM].
          -- rewrite upd_same. rewrite Hbal. rewrite upd_same. rewrite upd_other by assumption. lia.
          -- rewrite upd_other by assumption. rewrite Hbal. rewrite upd_other by assumption. rewrite upd_other by assumption. reflexivity.
        * rewrite Hs. lia.
      + apply Z.ltb_ge in E1. apply Z.ltb_ge in E2. intro H. inversion H; subst b'.
        split; [lia|]. split; [auto|lia].
  Qed.

  Definition gain (wei : nat -> Z) (b : bank) (a : nat) : Z :=
    if Nat.eqb a M then 0 else to_native (wei a) - bal b a.

  (** commitCtx that went through *)
  Lemma commit2_ok : forall V wei b b', NoDup V ->
    (forall a, In a V -> 0 <= wei a) -> nonneg (bal b) ->
    commit2 c V wei b = (b', true) ->
    (forall a, In a V -> a <> M -> bal b' a = to_native (wei a)) /\
    (forall a, ~ In a V \/ a = M -> bal b' a = bal b a) /\
    supply b' = supply b + sumU (gain wei b) V.
  Proof.
    induction V as [|a r IH]; intros wei b b' Hn Hw Hb H; cbn [commit2] in H.
    - inversion H; subst. split; [intros ? []|]. split; [auto|]. simpl. lia.
    - inversion Hn as [|? ? Hnin Hnr]; subst. fold M in H. destruct (Nat.eqb a M) eqn:EaM.
      + apply Nat.eqb_eq in EaM. subst a.
        destruct (IH wei b b' Hnr (fun x Hx => Hw x (or_intror Hx)) Hb H) as [C1 [C2 C3]].
        split; [|split].
        * intros x [->|Hx] HxM; [contradiction|auto].
        * intros x Hx. apply C2. destruct Hx as [Hx|Hx]; [left; intro; apply Hx; right; assumption|right; assumption].
        * rewrite C3. cbn [sumU]. unfold gain at 2. rewrite Nat.eqb_refl. lia.
      + apply Nat.eqb_neq in EaM.
        destruct (set_acc_balance2 c b a (to_native (wei a))) as [bm ok] eqn:Es.
        destruct ok; [|discriminate].
        destruct (sab2_ok _ _ _ _ EaM Hb Es) as [S1 [S2 S3]].
        assert (Hbm : nonneg (bal bm)).
        { intro x. destruct (Nat.eq_dec x a) as [->|Hx].
          - rewrite S1. apply to_native_nonneg. apply Hw. left; reflexivity.
          - rewrite S2 by assumption. apply Hb. }
        destruct (IH wei bm b' Hnr (fun x Hx => Hw x (or_intror Hx)) Hbm H) as [C1 [C2 C3]].
        split; [|split].
        * intros x [->|Hx] HxM.
          -- rewrite C2 by (left; assumption). exact S1.
          -- apply C1; assumption.
        * intros x Hx. rewrite C2.
          -- apply S2. destruct Hx as [Hx|Hx]; [intro; subst; apply Hx; left; reflexivity|subst; auto].
          -- destruct Hx as [Hx|Hx]; [left; intro; apply Hx; right; assumption|right; assumption].
        * rewrite C3, S3. cbn [sumU]. unfold gain at 2.
          assert (En : Nat.eqb a M = false) by (apply Nat.eqb_neq; assumption). rewrite En.
          assert (sumU (gain wei bm) r = sumU (gain wei b) r).
          { apply sumU_ext. intros x Hx. unfold gain. rewrite S2 by (intro; subst; auto). reflexivity. }
          lia.
  Qed.

  (** nothing to write: the accounts are in sync with the bank *)
  Lemma commit2_in_sync : forall V wei b,
    (forall a, In a V -> a <> M -> to_native (wei a) = bal b a) -> commit2 c V wei b = (b, true).
  Proof.
    induction V as [|a r IH]; intros wei b H; cbn [commit2]; [reflexivity|]. fold M.
    destruct (Nat.eqb a M) eqn:EaM.
    - apply IH. intros x Hx. apply H. right; assumption.
    - apply Nat.eqb_neq in EaM. unfold set_acc_balance2.
      rewrite (H a (or_introl eq_refl) EaM). rewrite Z.sub_diag. cbn [Z.ltb Z.compare].
      apply IH. intros x Hx. apply H. right; assumption.
  Qed.
End Ledger.

(* ------------------------------------------------------------------ the running tx *)

Section Run.
  Variable c : xcfg.
  Variable U : list nat.
  Variable b1 : bank.                 (* the bank when the EVM phase starts *)
  Hypothesis HU : NoDup U.
  Let M := x_module c.

  (** what every cache-context bank of the run satisfies: non-negative, equal to [b1] outside the scenario and at
      the EVM module account, and the same gap between supply and the scenario's total *)
  Definition J (cb : bank) : Prop :=
    nonneg (bal cb) /\ (forall a, ~ In a U \/ a = M -> bal cb a = bal b1 a) /\
    supply cb - sumU (bal cb) U = supply b1 - sumU (bal b1) U.

  Definition Jst (s : xst) : Prop :=
    J (s_cb s) /\ (forall sn, s_snap s = Some sn -> J sn) /\ nonneg (s_wei s).

  Lemma J_commit2 wei cb cb1 : J cb -> nonneg wei -> commit2 c U wei cb = (cb1, true) ->
    J cb1 /\ (forall a, In a U -> a <> M -> bal cb1 a = to_native (wei a)).
  Proof.
    intros [J1 [J2 J3]] Hw H.
    destruct (commit2_ok c U wei cb cb1 HU (fun a _ => Hw a) J1 H) as [C1 [C2 C3]]. fold M in C1, C2.
    split; [|exact C1]. split; [|split].
    - intro a. destruct (in_dec Nat.eq_dec a U) as [Hin|Hnin].
      + destruct (Nat.eq_dec a M) as [->|HaM].
        * rewrite C2 by (right; reflexivity). apply J1.
        * rewrite C1 by assumption. apply to_native_nonneg. apply Hw.
      + rewrite C2 by (left; assumption). apply J1.
    - intros a Ha. rewrite C2 by assumption. apply J2. assumption.
    - assert (sumU (bal cb1) U = sumU (fun a => bal cb a + gain c wei cb a) U).
      { apply sumU_ext. intros a Ha. unfold gain. fold M. destruct (Nat.eqb a M) eqn:EaM.
        - apply Nat.eqb_eq in EaM. subst a. rewrite C2 by (right; reflexivity). lia.
        - apply Nat.eqb_neq in EaM. rewrite C1 by assumption. lia. }
      assert (sumU (fun a => bal cb a + gain c wei cb a) U = sumU (bal cb) U + sumU (gain c wei cb) U).
      { clear. induction U; simpl; lia. }
      lia.
  Qed.

  Lemma J_send cb x y n cb2 : J cb -> In x U -> In y U -> x <> M -> y <> M -> send cb x y n = Some cb2 -> J cb2.
  Proof.
    intros [J1 [J2 J3]] Hx Hy HxM HyM H. split; [|split].
    - eapply send_nonneg; eauto.
    - intros a Ha. pose proof (send_spec _ _ _ _ _ H) as [_ [_ Hbal]]. cbv zeta in Hbal. rewrite Hbal.
      assert (a <> x) by (destruct Ha as [Ha|Ha]; [intro; subst; auto|subst; auto]).
      assert (a <> y) by (destruct Ha as [Ha|Ha]; [intro; subst; auto|subst; auto]).
      rewrite !upd_other by assumption. apply J2. assumption.
    - pose proof (send_spec _ _ _ _ _ H) as [_ [Hs _]].
      rewrite (send_sum _ _ _ _ _ U H HU Hx Hy). lia.
  Qed.

  (** relation between the state [s] at a program point and the state [s1] reached later in the same frame, with
      the net effects [net] that happened in between *)
  Definition step_ok (s s1 : xst) (net : list op) : Prop :=
    Jst s1 /\
    sumU (s_wei s1) U <= sumU (s_wei s) U /\
    (forall a, existsb (op_touches a) net = false -> s_wei s1 a = s_wei s a) /\
    (forallb op_whole net = true -> (forall a, (WEI | s_wei s a)) ->
     (forall a, (WEI | s_wei s1 a)) /\ sumU (s_wei s1) U = sumU (s_wei s) U) /\
    existsb (op_touches M) net = false /\
    (forall sn, s_snap s = Some sn -> s_snap s1 = Some sn) /\
    (s_snap s = None -> (s_snap s1 = None /\ s_cb s1 = s_cb s) \/ s_snap s1 = Some (s_cb s)).

  Lemma step_same s s1 : Jst s -> s_wei s1 = s_wei s -> s_cb s1 = s_cb s -> s_snap s1 = s_snap s -> step_ok s s1 [].
  Proof.
    intros [A [B C]] Ew Ec Es. unfold step_ok, Jst. rewrite Ew, Ec, Es.
    split; [split; [exact A|split; [exact B|exact C]]|]. split; [lia|]. split; [auto|]. split; [intros _ Hd; split; [exact Hd|reflexivity]|].
    split; [reflexivity|]. split; [auto|]. intro Hn. left. split; [exact Hn|reflexivity].
  Qed.

  Lemma step_trans s s1 s2 n1 n2 : step_ok s s1 n1 -> step_ok s1 s2 n2 -> step_ok s s2 (n1 ++ n2).
  Proof.
    intros [_ [A2 [A3 [A4 [A5 [A6 A7]]]]]] [B1 [B2 [B3 [B4 [B5 [B6 B7]]]]]].
    split; [exact B1|]. split; [lia|]. split; [|split; [|split; [|split]]].
    - intros a Ha. rewrite existsb_app in Ha. apply orb_false_iff in Ha as [H1 H2]. rewrite B3, A3; auto.
    - intros Hw Hd. rewrite forallb_app in Hw. apply andb_true_iff in Hw as [H1 H2].
      destruct (A4 H1 Hd) as [D1 E1]. destruct (B4 H2 D1) as [D2 E2]. split; [exact D2|lia].
    - rewrite existsb_app, A5, B5. reflexivity.
    - intros sn Hs. apply B6. apply A6. exact Hs.
    - intro Hs. destruct (A7 Hs) as [[N1 C1]|S1].
      + destruct (B7 N1) as [[N2 C2]|S2]; [left; split; [exact N2|congruence]|right; congruence].
      + right. apply B6. exact S1.
  Qed.

  (** the StateDB balances agree with the cache-context bank (true right after a flush, kept by every mirrored send) *)
  Definition InSync (s : xst) : Prop := forall a, In a U -> a <> M -> bal (s_cb s) a = to_native (s_wei s a).

  (** one bank send of a precompile body with its two mirror writes *)
  Lemma send_sync_ok s sn x y n cb2 : Jst s -> InSync s -> s_snap s = Some sn ->
    In x U -> In y U -> x <> M -> y <> M -> send (s_cb s) x y n = Some cb2 ->
    let s' := {| s_wei := upd (upd (s_wei s) x (to_wei (bal cb2 x))) y (to_wei (bal cb2 y)); s_cb := cb2; s_snap := s_snap s |} in
    step_ok s s' [OTransfer x y (to_wei n)] /\ InSync s'.
  Proof.
    intros Hs Hsync Hsn G1 G2 G3 G4 Es. pose proof Hs as [HJ [HJs Hw]].
    pose proof (J_send _ _ _ _ _ HJ G1 G2 G3 G4 Es) as HJ2. pose proof HJ2 as [N2 _].
    pose proof (send_spec _ _ _ _ _ Es) as [_ [_ Hbal]]. cbv zeta in Hbal.
    pose proof (Hsync x G1 G3) as Sx. pose proof (Hsync y G2 G4) as Sy.
    assert (Bx : x <> y -> bal cb2 x = to_native (s_wei s x) - n).
    { intro Hxy. rewrite Hbal. rewrite upd_other by assumption. rewrite upd_same. lia. }
    assert (By : x <> y -> bal cb2 y = to_native (s_wei s y) + n).
    { intro Hxy. rewrite Hbal. rewrite upd_same. rewrite upd_other by auto. lia. }
    assert (Bxx : x = y -> bal cb2 x = to_native (s_wei s x)).
    { intro Hxy. subst y. rewrite Hbal. rewrite upd_same. rewrite upd_same. lia. }
    cbv zeta.
    set (w1 := upd (s_wei s) x (to_wei (bal cb2 x))) in *.
    set (w2 := upd w1 y (to_wei (bal cb2 y))) in *.
    assert (Hsum : sumU w2 U = sumU (s_wei s) U - s_wei s x + to_wei (bal cb2 x) - w1 y + to_wei (bal cb2 y)).
    { unfold w2. rewrite sumU_upd_in by assumption. unfold w1 at 1. rewrite sumU_upd_in by assumption. lia. }
    pose proof (to_wei_native_le (s_wei s x)) as Lx. pose proof (to_wei_native_le (s_wei s y)) as Ly.
    split.
    2:{ intros a Ha HaM. cbn [s_cb s_wei]. unfold w2, w1.
        destruct (Nat.eq_dec a y) as [->|Hay]; [rewrite upd_same; symmetry; apply to_native_to_wei|].
        rewrite upd_other by assumption.
        destruct (Nat.eq_dec a x) as [->|Hax]; [rewrite upd_same; symmetry; apply to_native_to_wei|].
        rewrite upd_other by assumption. rewrite Hbal. rewrite !upd_other by assumption. apply Hsync; assumption. }
    unfold step_ok, Jst. cbn [s_wei s_cb s_snap]. fold w1 w2.
    split; [split; [exact HJ2|split; [exact HJs|]]|].
    { intro a. unfold w2, w1, upd. pose proof (N2 x). pose proof (N2 y). pose proof (Hw a). pose proof WEI_pos.
      unfold to_wei. destruct (Nat.eqb a y), (Nat.eqb a x); nia. }
    split; [|split; [|split; [|split; [|split]]]]; auto.
    - rewrite Hsum. destruct (Nat.eq_dec x y) as [Hxy|Hxy].
      + subst y. unfold w1. rewrite upd_same. rewrite (Bxx eq_refl). lia.
      + unfold w1. rewrite upd_other by auto. rewrite (Bx Hxy), (By Hxy). unfold to_wei in *. lia.
    - intros a Ha. cbn [existsb op_touches] in Ha. rewrite orb_false_r in Ha. apply orb_false_iff in Ha as [T1 T2].
      apply Nat.eqb_neq in T1. apply Nat.eqb_neq in T2. unfold w2, w1. rewrite !upd_other by auto. reflexivity.
    - intros _ Hd. split.
      + intro a. unfold w2, w1, upd. destruct (Nat.eqb a y); [apply to_wei_divide|]. destruct (Nat.eqb a x); [apply to_wei_divide|apply Hd].
      + rewrite Hsum. pose proof (to_wei_native_exact _ (Hd x)) as Ex. pose proof (to_wei_native_exact _ (Hd y)) as Ey.
        destruct (Nat.eq_dec x y) as [Hxy|Hxy].
        * subst y. unfold w1. rewrite upd_same. rewrite (Bxx eq_refl). lia.
        * unfold w1. rewrite upd_other by auto. rewrite (Bx Hxy), (By Hxy). unfold to_wei in *. lia.
    - cbn [existsb op_touches]. apply Nat.eqb_neq in G3. apply Nat.eqb_neq in G4. rewrite G3, G4. reflexivity.
    - intro Hn. rewrite Hsn in Hn. discriminate.
  Qed.

  (** the bank sends of one precompile body (FunToken.bankMsgSend: one; Wasm.execute: funds and dispatched sends) *)
  Lemma xsends_ok l : forall s s2 net sn, Jst s -> InSync s -> s_snap s = Some sn ->
    xsends c U l s = XDone s2 net -> step_ok s s2 net.
  Proof.
    induction l as [|[[x y] n] r IH]; intros s s2 net sn Hs Hsync Hsn H; cbn [xsends] in H.
    - inversion H; subst. apply step_same; auto.
    - fold M in H.
      destruct (memb x U && memb y U && negb (Nat.eqb x M) && negb (Nat.eqb y M)) eqn:Eg; [|discriminate].
      apply andb_true_iff in Eg as [Eg G4]. apply andb_true_iff in Eg as [Eg G3]. apply andb_true_iff in Eg as [G1 G2].
      apply memb_In in G1. apply memb_In in G2. apply negb_true_iff in G3. apply negb_true_iff in G4.
      apply Nat.eqb_neq in G3. apply Nat.eqb_neq in G4.
      destruct ((n <=? 0) || is_blocked c y || (bal (s_cb s) x <? n)); [discriminate|].
      destruct (send (s_cb s) x y n) as [cb2|] eqn:Es; [|discriminate].
      destruct (send_sync_ok s sn x y n cb2 Hs Hsync Hsn G1 G2 G3 G4 Es) as [S1 Sy1]. cbv zeta in S1, Sy1.
      set (s' := {| s_wei := upd (upd (s_wei s) x (to_wei (bal cb2 x))) y (to_wei (bal cb2 y)); s_cb := cb2; s_snap := s_snap s |}) in *.
      destruct (xsends c U r s') as [| |s3 n3] eqn:Er; try discriminate.
      inversion H; subst s3 net. clear H. pose proof S1 as [Hs' _].
      change (OTransfer x y (to_wei n) :: n3) with ([OTransfer x y (to_wei n)] ++ n3).
      eapply step_trans; [exact S1|]. eapply (IH s' s2 n3 sn); auto.
  Qed.

  (** one precompile call: flush, then the sends of its body with their mirror writes — or no change at all when
      the flush fails, the bank refuses a send or the chain refuses a dispatched message *)
  Lemma xpre_ok sends refuse s s1 net : Jst s -> xpre true c U sends refuse s = Some (s1, net) -> step_ok s s1 net.
  Proof.
    intros Hs H. pose proof Hs as [HJ [HJs Hw]]. unfold xpre in H.
    destruct (commit2 c U (s_wei s) (s_cb s)) as [cb1 ok] eqn:Ec.
    destruct ok; cbn [negb] in H.
    2:{ inversion H; subst. apply step_same; auto. }
    destruct (J_commit2 _ _ _ HJ Hw Ec) as [HJ1 Hsync].
    set (snap1 := match s_snap s with Some sn => Some sn | None => Some (s_cb s) end) in *.
    assert (Hsnap1 : forall sn, snap1 = Some sn -> J sn).
    { intros sn E. unfold snap1 in E. destruct (s_snap s) eqn:Es; inversion E; subst; auto. }
    assert (Hd1 : forall sn, s_snap s = Some sn -> snap1 = Some sn) by (intros sn E; unfold snap1; rewrite E; reflexivity).
    assert (Hd2 : s_snap s = None -> snap1 = Some (s_cb s)) by (intro E; unfold snap1; rewrite E; reflexivity).
    assert (Hsome : exists sn, snap1 = Some sn) by (unfold snap1; destruct (s_snap s); eauto).
    destruct Hsome as [sn Hsn].
    set (s' := {| s_wei := s_wei s; s_cb := cb1; s_snap := snap1 |}) in *.
    assert (Hflush : step_ok s s' []).
    { unfold step_ok, Jst, s'. cbn [s_wei s_cb s_snap].
      split; [split; [exact HJ1|split; [exact Hsnap1|exact Hw]]|]. split; [lia|]. split; [auto|].
      split; [intros _ Hd; split; [exact Hd|reflexivity]|]. split; [reflexivity|]. split; [exact Hd1|].
      intro Hn. right. apply Hd2. exact Hn. }
    pose proof Hflush as [Hs' _].
    destruct (xsends c U sends s') as [| |s2 n2] eqn:Ex; [discriminate| |].
    { inversion H; subst. apply step_same; auto. }
    destruct refuse.
    { inversion H; subst. apply step_same; auto. }
    inversion H; subst s1 net. clear H.
    change n2 with ([] ++ n2). eapply step_trans; [exact Hflush|].
    eapply (xsends_ok sends s' s2 n2 sn); auto.
  Qed.

  Lemma xexecs_ok body : Forall (fun o => forall s s1 net, Jst s -> xexec true c U o s = Some (s1, net) -> step_ok s s1 net) body ->
    forall s s1 net, Jst s -> xexecs true c U body s = Some (s1, net) -> step_ok s s1 net.
  Proof.
    induction 1 as [|o r Ho _ IH]; intros s s1 net Hs H; cbn [xexecs] in H.
    - inversion H; subst. apply step_same; auto.
    - destruct (xexec true c U o s) as [[sa na]|] eqn:E1; [|discriminate].
      destruct (xexecs true c U r sa) as [[sb nb]|] eqn:E2; [|discriminate].
      inversion H; subst. pose proof (Ho _ _ _ Hs E1) as S1. pose proof S1 as [Hsa _].
      eapply step_trans; [exact S1|]. apply IH; assumption.
  Qed.

  (** every op of a script, at any depth *)
  Theorem xexec_ok o : forall s s1 net, Jst s -> xexec true c U o s = Some (s1, net) -> step_ok s s1 net.
  Proof.
    induction o as [p|sd rf|body keep IH] using xop_ind2; intros s s1 net Hs H.
    - cbn [xexec] in H. fold M in H. destruct (op_uses M p) eqn:Em; [discriminate|]. rewrite op_uses_touches in Em.
      pose proof Hs as [HJ [HJs Hw]].
      destruct (apply_op U (s_wei s) p) as [w'|] eqn:Ea.
      + inversion H; subst. destruct (apply_op_spec _ _ _ _ HU Ea Hw) as [N1 [S1 [_ T1]]].
        unfold step_ok, Jst. cbn [s_wei s_cb s_snap].
        split; [split; [exact HJ|split; [exact HJs|exact N1]]|]. split; [exact S1|]. split; [|split; [|split; [|split]]]; auto.
        * intros a Ha. cbn [existsb] in Ha. rewrite orb_false_r in Ha. apply T1. exact Ha.
        * intros Hwh Hd. cbn [forallb] in Hwh. rewrite andb_true_r in Hwh. apply (apply_op_whole _ _ _ _ HU Ea Hwh Hd).
        * cbn [existsb]. rewrite Em. reflexivity.
      + destruct (call_refused (s_wei s) p); [|discriminate]. inversion H; subst. apply step_same; auto.
    - eapply xpre_ok; eauto.
    - rewrite xexec_frame in H.
      destruct (xexecs true c U body (enter s)) as [[sa n]|] eqn:E; [|discriminate].
      pose proof Hs as [HJ [HJs Hw]].
      assert (He : Jst (enter s)) by (unfold Jst, enter; cbn [s_wei s_cb s_snap]; split; [exact HJ|split; [intros sn Hx; discriminate|exact Hw]]).
      pose proof (xexecs_ok body IH _ _ _ He E) as [[A1 [A1s A1w]] [A2 [A3 [A4 [A5 [_ A7]]]]]].
      cbn [enter s_wei s_cb s_snap] in A2, A3, A4, A7. specialize (A7 eq_refl).
      destruct keep; inversion H; subst; clear H.
      + unfold step_ok, Jst, keep_frame. cbn [s_wei s_cb s_snap].
        split; [split; [exact A1|split; [|exact A1w]]|].
        { intros sn Hx. destruct (s_snap s) eqn:Es; [inversion Hx; subst; auto|auto]. }
        split; [exact A2|]. split; [exact A3|]. split; [exact A4|]. split; [exact A5|]. split.
        * intros sn Hx. rewrite Hx. reflexivity.
        * intro Hx. rewrite Hx. exact A7.
      + apply step_same; auto. unfold restore. cbn [s_cb].
        destruct A7 as [[N C]|S]; [rewrite N; exact C|rewrite S; reflexivity].
  Qed.

  Theorem xexecs_ok' body s s1 net : Jst s -> xexecs true c U body s = Some (s1, net) -> step_ok s s1 net.
  Proof. apply xexecs_ok. apply Forall_forall. intros o _. apply xexec_ok. Qed.

  (** a frame that is reverted leaves exactly the state of its start and has no net effect — whatever it contains *)
  Theorem reverted_frame_invisible body s s1 net : Jst s ->
    xexec true c U (XFrame body false) s = Some (s1, net) ->
    net = [] /\ s_wei s1 = s_wei s /\ s_cb s1 = s_cb s /\ s_snap s1 = s_snap s.
  Proof.
    intros Hs H. rewrite xexec_frame in H.
    destruct (xexecs true c U body (enter s)) as [[sa n]|] eqn:E; [|discriminate].
    inversion H; subst. clear H. pose proof Hs as [HJ [HJs Hw]].
    assert (He : Jst (enter s)) by (unfold Jst, enter; cbn [s_wei s_cb s_snap]; split; [exact HJ|split; [intros sn Hx; discriminate|exact Hw]]).
    pose proof (xexecs_ok' _ _ _ _ He E) as [_ [_ [_ [_ [_ [_ A7]]]]]]. specialize (A7 eq_refl). cbn [enter s_cb] in A7.
    unfold restore. cbn [s_wei s_cb s_snap]. repeat split; auto.
    destruct A7 as [[N C]|S]; [rewrite N; exact C|rewrite S; reflexivity].
  Qed.

  (** a precompile call that the chain refuses (its body dispatches MsgConvertCoinToEvm / MsgCreateFunToken /
      MsgEthereumTx while the EVM state transition is running) has no effect at all, whatever its bank sends did *)
  Theorem refused_call_invisible sends s s1 net :
    xpre true c U sends true s = Some (s1, net) ->
    net = [] /\ s_wei s1 = s_wei s /\ s_cb s1 = s_cb s /\ s_snap s1 = s_snap s.
  Proof.
    intro H. unfold xpre in H. destruct (commit2 c U (s_wei s) (s_cb s)) as [cb1 ok].
    destruct ok; cbn [negb] in H; [|inversion H; subst; auto].
    destruct (xsends _ _ _ _); [discriminate|inversion H; subst; auto|inversion H; subst; auto].
  Qed.

  (** a precompile call whose flush fails half-way (a blocked account is owed a credit: SetAccBalance has minted, the
      bank refuses to pass it on) has no effect at all *)
  Theorem failed_flush_invisible sends refuse s s1 net :
    xpre true c U sends refuse s = Some (s1, net) -> snd (commit2 c U (s_wei s) (s_cb s)) = false ->
    net = [] /\ s_wei s1 = s_wei s /\ s_cb s1 = s_cb s /\ s_snap s1 = s_snap s.
  Proof.
    intros H Hf. unfold xpre in H. destruct (commit2 c U (s_wei s) (s_cb s)) as [cb1 ok] eqn:Ec.
    cbn [snd] in Hf. subst ok. cbn [negb] in H. inversion H; subst. auto.
  Qed.
End Run.

(* ------------------------------------------------------------------ one delivered tx *)

Section DeliverX.
  Variable c : xcfg.
  Variable e : env.
  Variable b : bank.
  Variable t : etx.
  Variable xs : list xop.
  Variable keep : bool.
  Hypothesis He : env_wf e.
  Hypothesis Hb : nonneg (bal b).
  Hypothesis Hgas : 0 <= t_gas_used t <= t_gas t.

  Let S := e_signer e.
  Let F := e_collector e.
  Let U := e_universe e.
  Let p := eff_price (t_fee t) (e_base_fee e).
  Let L := t_gas t.
  Let u := t_gas_used t.
  Let M := x_module c.
  Let v := to_wei (to_native (t_value t)).
  Let top := OTransfer S (t_to t) v.

  (** what a kept top-level frame and the final commit establish *)
  Definition ok_facts (b1 bc : bank) (net : list op) : Prop :=
    let wei0 := fun a => to_wei (bal b1 a) in
    exists weiv wei1,
      apply_op U wei0 top = Some weiv /\
      nonneg wei1 /\ sumU wei1 U <= sumU weiv U /\
      (forall a, existsb (op_touches a) net = false -> wei1 a = weiv a) /\
      (forallb op_whole net = true -> (forall a, (WEI | weiv a)) ->
       (forall a, (WEI | wei1 a)) /\ sumU wei1 U = sumU weiv U) /\
      (forall a, In a U -> bal bc a = to_native (wei1 a)) /\ nonneg (bal bc) /\
      supply bc - sumU (bal bc) U = supply b1 - sumU (bal b1) U.

  Lemma evm_phase_x_cases b1 bc o net : nonneg (bal b1) ->
    evm_phase_x true c e b1 t xs keep = Some (bc, o, net) ->
    o = Stuck \/ (o = VmErr /\ bc = b1 /\ net = []) \/ (o = Ok /\ ok_facts b1 bc net).
  Proof.
    intros Hb1 H. pose proof (wf_nodup _ He) as Hnd. fold U in Hnd.
    unfold evm_phase_x in H. fold S U M v top in H.
    destruct (to_wei (bal b1 S) <? v); [inversion H; auto|].
    set (wei0 := fun a => to_wei (bal b1 a)) in *.
    destruct (op_uses M top) eqn:Em; [inversion H; auto|]. rewrite op_uses_touches in Em.
    destruct (apply_op U wei0 top) as [weiv|] eqn:Etop; [|inversion H; auto].
    destruct (xexecs true c U xs {| s_wei := weiv; s_cb := b1; s_snap := None |}) as [[s1 net0]|] eqn:Ex; [|inversion H; auto].
    assert (Hw0 : nonneg wei0).
    { intro a. unfold wei0, to_wei. pose proof (Hb1 a). pose proof WEI_pos. nia. }
    destruct (apply_op_spec _ _ _ _ Hnd Etop Hw0) as [Nv [_ [_ Tv]]].
    assert (HJ1 : J c U b1 b1) by (split; [exact Hb1|split; [auto|lia]]).
    assert (Hst : Jst c U b1 {| s_wei := weiv; s_cb := b1; s_snap := None |}).
    { split; [exact HJ1|]. split; [intros sn Hx; discriminate|exact Nv]. }
    pose proof (xexecs_ok' c U b1 Hnd _ _ _ _ Hst Ex) as [[A1 [A1s A1w]] [A2 [A3 [A4 [A5 [_ A7]]]]]].
    cbn [s_wei s_cb s_snap] in A2, A3, A4, A7. specialize (A7 eq_refl). fold M in A5.
    destruct keep; cbv beta iota in H.
    - (* kept: commit what was reached *)
      destruct (commit2 c U (s_wei s1) (s_cb s1)) as [bc' ok] eqn:Ec. cbv beta iota in H. destruct ok; [|discriminate].
      inversion H; subst bc' o net0. clear H. right. right. split; [reflexivity|].
      destruct (J_commit2 c U b1 Hnd _ _ _ A1 A1w Ec) as [[N2 [O2 G2]] C1]. fold M in C1, O2.
      exists weiv, (s_wei s1). split; [exact Etop|]. split; [exact A1w|]. split; [exact A2|]. split; [exact A3|].
      split; [exact A4|]. split; [|split; [exact N2|exact G2]].
      intros a Ha. destruct (Nat.eq_dec a M) as [->|HaM]; [|apply C1; assumption].
      rewrite O2 by (right; reflexivity). rewrite (A3 M A5). rewrite (Tv M Em). unfold wei0. symmetry. apply to_native_to_wei.
    - (* reverted: the start is restored, nothing to commit *)
      assert (Ecb : s_cb (restore {| s_wei := wei0; s_cb := b1; s_snap := None |} s1) = b1).
      { unfold restore. cbn [s_cb]. destruct A7 as [[N C]|Sn]; [rewrite N; exact C|rewrite Sn; reflexivity]. }
      rewrite Ecb in H. cbn [restore s_wei] in H.
      rewrite (commit2_in_sync c U wei0 b1) in H by (intros a _ _; unfold wei0; apply to_native_to_wei).
      inversion H; auto.
  Qed.

  Definition refund_eq (bc b2 : bank) : Prop :=
    (if refund L u p =? 0 then Some bc else send bc F S (refund L u p)) = Some b2.

  Lemma run_msg_x_cases b1 b2 o net : run_msg_x true c e b1 t xs keep = Some (b2, o, net) ->
    exists bc, refund_eq bc b2 /\ evm_phase_x true c e b1 t xs keep = Some (bc, o, net).
  Proof.
    unfold run_msg_x, refund_eq. fold S F p L u. intro H.
    destruct (L <? t_intrinsic t); [discriminate|].
    destruct ((0 <? t_value t) && (t_value t <? WEI)); [discriminate|].
    destruct (evm_phase_x true c e b1 t xs keep) as [[[bc o'] net']|]; [|discriminate].
    exists bc. destruct (refund L u p =? 0).
    - inversion H; subst. auto.
    - destruct (send bc F S (refund L u p)); [inversion H; subst; auto|discriminate].
  Qed.

  Definition xres := deliver_x true c e b t xs keep.
  Definition xmeas : meas := mk e b (set_evm t (EvmOk (snd xres))) (snd (fst xres)) (fst (fst xres)).

  (** the whole property for a tx whose EVM run is ANY script of transfers, self-destructs, frames that revert or
      not and precompile calls (flushes that fail at blocked accounts included) *)
  Theorem deliver_x_facts :
    snd (fst xres) <> Stuck ->
    nonneg (bal (fst (fst xres))) /\
    dsupply xmeas = sumU (delta xmeas) U /\ dsupply xmeas <= 0 /\
    ((snd (fst xres) = Ok -> untouched F (set_evm t (EvmOk (snd xres))) = true) -> P xmeas).
  Proof.
    pose proof (wf_nodup _ He) as Hnd. pose proof (wf_signer _ He) as HS. pose proof (wf_collector _ He) as HF.
    pose proof (wf_distinct _ He) as Hd. fold S F U in Hnd, HS, HF, Hd.
    unfold xmeas, xres, deliver_x. destruct (ante e b t) as [b1|] eqn:Ea.
    2:{ (* rejected *)
      intros _. cbn [fst snd]. unfold P, dsupply. cbn [m_out m_env m_tx m_after m_before mk]. fold U.
      assert (Hz : forall a, delta (mk e b (set_evm t (EvmOk [])) Rejected b) a = 0) by (intro a; unfold delta; simpl; lia).
      assert (Hs0 : sumU (delta (mk e b (set_evm t (EvmOk [])) Rejected b)) U = 0).
      { rewrite (sumU_ext _ (fun _ => 0)) by (intros; apply Hz). apply sumU_zero. }
      split; [exact Hb|]. split; [lia|]. split; [lia|]. intros _.
      split; [lia|]. split; [lia|]. split; [intros; apply Hz|lia]. }
    unfold ante in Ea. fold S F p in Ea.
    destruct ((0 <? t_gas t) && (t_gas t <=? e_block_gas e) && (0 <=? t_value t) && (0 <=? cap_price (t_fee t))
              && (t_gas t * cap_price (t_fee t) + t_value t <=? to_wei (bal b S))) eqn:Ec; [|discriminate].
    pose proof (send_spec _ _ _ _ _ Ea) as [Hpre [Hs1 _]].
    pose proof (send_sum _ _ _ _ _ U Ea Hnd HS HF) as Hsum1.
    destruct (send_bal _ _ _ _ _ Ea Hd) as [A1 [A2 A3]].
    pose proof (send_nonneg _ _ _ _ _ Ea Hb) as Hb1.
    fold L in Hpre, A1, A2.
    pose proof (net_payment_bounds L u p Hgas (p_nonneg e t He)) as [Hnet1 Hnet2].
    pose proof (refund_nonneg e t He) as Hr0. fold L u p in Hr0.
    destruct (run_msg_x true c e b1 t xs keep) as [[[b2 o] net]|] eqn:Em.
    2:{ (* the msg server returned an error (incl. a final commit that fails at a blocked account) *)
      intros _. cbn [fst snd]. unfold P, dsupply, delta. cbn [m_out m_env m_tx m_after m_before mk set_evm t_gas t_gas_used t_fee].
      fold S F U L p.
      split; [exact Hb1|]. split; [rewrite sumU_sub; lia|]. split; [lia|]. intros _.
      split; [rewrite sumU_sub; lia|]. split; [lia|].
      split; [lia|]. split; [lia|]. split; [lia|]. split; [|lia].
      intros a _ HaS HaF. rewrite A3 by assumption. lia. }
    cbn [fst snd].
    destruct (run_msg_x_cases _ _ _ _ Em) as [bc [Hr Hph]]. unfold refund_eq in Hr.
    destruct (refund_step e t He _ _ Hr) as [R1 [R2 [R3 [R4 R5]]]]. fold S F U L u p in R1, R2, R3, R4, R5.
    destruct (evm_phase_x_cases _ _ _ _ Hb1 Hph) as [->|[[-> [-> ->]]|[-> Hok]]].
    { intro Hst. exfalso. apply Hst. reflexivity. }
    { (* VM error: only the fee moved *)
      intros _.
      assert (Hb2 : nonneg (bal b2)).
      { destruct (refund L u p =? 0); [inversion Hr; subst; exact Hb1|eapply send_nonneg; eauto]. }
      unfold P, dsupply, delta. cbn [m_out m_env m_tx m_after m_before mk set_evm t_gas t_gas_used t_fee]. fold S F U L p u.
      unfold net_payment in *.
      split; [exact Hb2|]. split; [rewrite sumU_sub; lia|]. split; [lia|]. intros _.
      split; [rewrite sumU_sub; lia|]. split; [lia|].
      split; [lia|]. split; [lia|]. split; [lia|]. split; [|lia].
      intros a _ HaS HaF. rewrite R5, A3 by assumption. lia. }
    (* executed and committed *)
    intros _. destruct Hok as [weiv [wei1 [Etop [Hw1 [Hsumw [Hunt [Hwhole [C1 [Nbc Gap]]]]]]]]].
    fold S U v top in Etop.
    set (wei0 := fun a => to_wei (bal b1 a)) in *.
    assert (Hw0 : nonneg wei0).
    { intro a. unfold wei0, to_wei. pose proof (Hb1 a). pose proof WEI_pos. nia. }
    destruct (apply_op_spec _ _ _ _ Hnd Etop Hw0) as [Nv [Sv [_ Tv]]].
    assert (Hb2 : nonneg (bal b2)).
    { destruct (refund L u p =? 0); [inversion Hr; subst; exact Nbc|eapply send_nonneg; eauto]. }
    assert (Hsum0 : sumU wei0 U = WEI * sumU (bal b1) U).
    { unfold wei0, to_wei. rewrite <- sumU_scale. apply sumU_ext. intros; lia. }
    assert (Hsumc : sumU (bal bc) U = sumU (fun a => to_native (wei1 a)) U) by (apply sumU_ext; intros; apply C1; assumption).
    assert (Hle : sumU (fun a => to_native (wei1 a)) U <= sumU (bal b1) U).
    { eapply Z.le_trans; [apply sumU_native_le|].
      replace (sumU (bal b1) U) with (to_native (WEI * sumU (bal b1) U)).
      - apply to_native_mono. lia.
      - rewrite Z.mul_comm. apply to_native_to_wei. }
    unfold P, dsupply, delta. cbn [m_out m_env m_tx m_after m_before mk set_evm t_gas t_gas_used t_fee t_value t_to]. fold S F U L p u.
    unfold net_payment in *.
    split; [exact Hb2|]. split; [rewrite sumU_sub; lia|]. split; [lia|]. intro HuF. specialize (HuF eq_refl).
    unfold untouched, script_of in HuF. cbn [set_evm t_evm t_to] in HuF.
    apply andb_true_iff in HuF as [HuF1 HuF2]. apply negb_true_iff in HuF1. apply negb_true_iff in HuF2.
    assert (HweiF : wei1 F = wei0 F).
    { rewrite (Hunt F HuF1). apply Tv. unfold top. cbn [op_touches]. rewrite HuF2.
      assert (Nat.eqb S F = false) by (apply Nat.eqb_neq; assumption). rewrite H. reflexivity. }
    assert (HbcF : bal bc F = bal b1 F).
    { rewrite C1 by assumption. rewrite HweiF. unfold wei0. apply to_native_to_wei. }
    split; [rewrite sumU_sub; lia|]. split; [lia|].
    split; [lia|]. split; [lia|]. split.
    - (* whole unibi: exact conservation *)
      intro Hwh. unfold whole_unibi, script_of in Hwh. cbn [set_evm t_evm] in Hwh.
      assert (Hd0 : forall a, (WEI | wei0 a)) by (intro a; unfold wei0, to_wei; exists (bal b1 a); lia).
      assert (Htop : op_whole top = true).
      { unfold top. cbn [op_whole]. unfold v, to_wei. rewrite Z.mod_mul by (pose proof WEI_pos; lia). reflexivity. }
      destruct (apply_op_whole _ _ _ _ Hnd Etop Htop Hd0) as [Dv Ev].
      destruct (Hwhole Hwh Dv) as [D1 E1].
      pose proof (sumU_native_exact wei1 U (fun a _ => D1 a)) as Hex.
      pose proof WEI_pos. nia.
    - (* signer not otherwise involved: pays net + the truncated value *)
      intro HuS. unfold untouched, script_of in HuS. cbn [set_evm t_evm t_to] in HuS.
      apply andb_true_iff in HuS as [HuS1 HuS2]. apply negb_true_iff in HuS1. apply negb_true_iff in HuS2.
      apply Nat.eqb_neq in HuS2.
      assert (HweiS : wei1 S = wei0 S - v).
      { rewrite (Hunt S HuS1). unfold top in Etop. cbn [apply_op] in Etop.
        destruct (memb S U && memb (t_to t) U && (0 <=? v) && (v <=? wei0 S)); [|discriminate].
        inversion Etop; subst. cbv zeta. rewrite upd_other by auto. apply upd_same. }
      assert (bal bc S = bal b1 S - to_native (t_value t)).
      { rewrite C1 by assumption. rewrite HweiS. unfold wei0, v, to_wei.
        replace (bal b1 S * WEI - to_native (t_value t) * WEI) with ((bal b1 S - to_native (t_value t)) * WEI) by ring.
        apply to_native_to_wei. }
      lia.
  Qed.
End DeliverX.

(* ------------------------------------------------------------------ histories *)

Section ExportedX.
  Variable c : xcfg.
  Variable e : env.
  Hypothesis He : env_wf e.

  Definition xtx_gas_ok (t : xtx) : Prop := 0 <= t_gas_used (xt_tx t) <= t_gas (xt_tx t).

  Lemma deliver_x_supply_le b t xs keep : nonneg (bal b) -> 0 <= t_gas_used t <= t_gas t ->
    snd (fst (deliver_x true c e b t xs keep)) <> Stuck ->
    supply (fst (fst (deliver_x true c e b t xs keep))) <= supply b /\
    nonneg (bal (fst (fst (deliver_x true c e b t xs keep)))).
  Proof.
    intros Hb Hg Hs. destruct (deliver_x_facts c e b t xs keep He Hb Hg Hs) as [N [_ [H _]]].
    unfold dsupply, xmeas in H. cbn [m_after m_before mk] in H. unfold xres in *. split; [lia|exact N].
  Qed.

  (** no history of EVM txs — whatever their scripts do, in kept or reverted frames — increases the supply *)
  Lemma run_x_supply_le ts : forall b, nonneg (bal b) -> Forall xtx_gas_ok ts ->
    ~ In Stuck (snd (run_x true c e b ts)) -> supply (fst (run_x true c e b ts)) <= supply b.
  Proof.
    induction ts as [|t r IH]; intros b Hb Hts Hs; [simpl; lia|].
    inversion Hts as [|? ? Ht Hr]; subst. cbn [run_x] in *.
    destruct (deliver_x true c e b (xt_tx t) (xt_script t) (xt_keep t)) as [[bm o] net] eqn:Ed.
    destruct (run_x true c e bm r) as [b2 os] eqn:Er. cbn [fst snd] in *.
    assert (Ho : o <> Stuck) by (intro; subst; apply Hs; left; reflexivity).
    pose proof (deliver_x_supply_le b (xt_tx t) (xt_script t) (xt_keep t) Hb Ht) as Hd. rewrite Ed in Hd. cbn [fst snd] in Hd.
    destruct (Hd Ho) as [Hle Hn].
    specialize (IH bm Hn Hr). rewrite Er in IH. cbn [fst snd] in IH.
    assert (~ In Stuck os) by (intro; apply Hs; right; assumption). specialize (IH H). lia.
  Qed.

  (** a tx whose top-level frame reverts (or that fails in the msg server, e.g. because the final commit owes a
      blocked account a credit) changes nothing but the signer's payment — whatever ran inside *)
  Lemma failed_x_changes_only_fee b t xs keep : nonneg (bal b) -> 0 <= t_gas_used t <= t_gas t ->
    let r := deliver_x true c e b t xs keep in
    snd (fst r) = VmErr \/ snd (fst r) = MsgErr ->
    let b' := fst (fst r) in
    let net := bal b' (e_collector e) - bal b (e_collector e) in
    bal b' (e_signer e) - bal b (e_signer e) = - net /\
    0 <= net <= prepay (t_gas t) (eff_price (t_fee t) (e_base_fee e)) /\
    (forall a, In a (e_universe e) -> a <> e_signer e -> a <> e_collector e -> bal b' a = bal b a) /\
    supply b' = supply b.
  Proof.
    intros Hb Hg r Ho. assert (Hs : snd (fst r) <> Stuck) by (destruct Ho as [-> | ->]; discriminate).
    destruct (deliver_x_facts c e b t xs keep He Hb Hg Hs) as [_ [_ [_ HP]]]. unfold xres in HP. fold r in HP.
    assert (Hno : snd (fst r) = Ok -> untouched (e_collector e) (set_evm t (EvmOk (snd r))) = true).
    { intro Hx. destruct Ho as [Ho|Ho]; rewrite Ho in Hx; discriminate. }
    specialize (HP Hno). unfold xmeas, xres in HP. fold r in HP. destruct HP as [_ [_ H]]. cbn [m_out mk] in H. cbv zeta.
    unfold dsupply, delta in H. cbn [m_env m_tx m_after m_before mk set_evm t_gas t_gas_used t_fee] in H.
    destruct Ho as [Ho|Ho]; rewrite Ho in H.
    - destruct H as [H1 [_ [H3 [H4 H5]]]]. repeat split; try lia. intros a Ha HS HF. specialize (H4 a Ha HS HF). lia.
    - destruct H as [H1 [H2 [H3 [H4 H5]]]]. repeat split; try lia. intros a Ha HS HF. specialize (H4 a Ha HS HF). lia.
  Qed.
End ExportedX.
