(** C05 — EVM transactions conserve NIBI and charge exactly the gas used.  Exported statements only.
    [e] fixes signer, fee collector, the accounts of the scenario, base fee and block gas limit;
    [env_wf]: distinct signer/collector inside a duplicate-free universe, base fee >= 0.
    [tx_wf]: 0 <= gasUsed <= gasLimit (what the interpreter reports) and the EVM run does not touch
    the fee collector.  [nonneg]: bank balances are >= 0.  Outcome [Stuck] = the effect script given
    for the EVM run is not executable (never produced by the harness; refused by the checker). *)
From Coq Require Import List Bool Arith ZArith.
Import ListNotations.
Require Import Nib.C05.Model Nib.C05.Spec Nib.C05.Facts Nib.C05.Proofs Nib.C05.ProofsBundle Nib.C05.ProofsNonvacuous.
Open Scope Z_scope.

(** Fee arithmetic, all prices and limits: what the signer ends up paying (prepay - refund, both
    truncated to unibi) is within one unibi of gasUsed x effective price, is never negative and
    never more than the prepayment floor(gasLimit x price / 10^12). *)
Theorem C05_net_payment_bounds :
  forall L u p, 0 <= u <= L -> 0 <= p ->
  WEI * net_payment L u p - WEI < u * p < WEI * net_payment L u p + WEI /\
  0 <= net_payment L u p <= prepay L p.
Proof. exact net_payment_bounds. Qed.
Print Assumptions C05_net_payment_bounds.

(** The whole property for one tx delivered to any funded state: supply moves exactly with the
    balances of the scenario accounts and never upwards; per outcome the clauses of [P]
    (rejected: nothing; failed after ante / reverted: only signer -> collector, at most the
    prepayment; executed: payment bounds, exact conservation for whole-unibi scripts, signer pays
    net + truncated value). *)
Theorem C05_deliver_satisfies_P :
  forall e b t, env_wf e -> nonneg (bal b) -> tx_wf e t -> snd (deliver e b t) <> Stuck ->
  P (mk e b t (snd (deliver e b t)) (fst (deliver e b t))).
Proof. exact deliver_satisfies_P. Qed.
Print Assumptions C05_deliver_satisfies_P.

(** No history of EVM txs — successful, reverted, out of gas, failing after ante — increases the
    total supply. *)
Theorem C05_supply_never_increases :
  forall e, env_wf e -> forall ts b, nonneg (bal b) -> Forall (tx_wf e) ts ->
  ~ In Stuck (snd (run e b ts)) -> supply (fst (run e b ts)) <= supply b.
Proof. exact run_supply_le. Qed.
Print Assumptions C05_supply_never_increases.

(** What leaves one account arrives at another: supply delta = sum of the balance deltas. *)
Theorem C05_closed_system :
  forall e, env_wf e -> forall b t, nonneg (bal b) -> tx_wf e t -> snd (deliver e b t) <> Stuck ->
  supply (fst (deliver e b t)) - supply b =
  sumU (bal (fst (deliver e b t))) (e_universe e) - sumU (bal b) (e_universe e).
Proof. exact closed_system. Qed.
Print Assumptions C05_closed_system.

(** When every transfer is a whole number of unibi and nothing self-destructs to itself the supply
    is exactly unchanged. *)
Theorem C05_supply_exact_when_whole_unibi :
  forall e, env_wf e -> forall b t, nonneg (bal b) -> tx_wf e t -> snd (deliver e b t) = Ok ->
  whole_unibi t = true -> supply (fst (deliver e b t)) = supply b.
Proof. exact exact_when_whole. Qed.
Print Assumptions C05_supply_exact_when_whole_unibi.

(** The signer's net gas payment equals the fee collector's gain and obeys the bounds. *)
Theorem C05_payer_equals_collector :
  forall e, env_wf e -> forall b t, nonneg (bal b) -> tx_wf e t ->
  snd (deliver e b t) = Ok \/ snd (deliver e b t) = VmErr ->
  let b' := fst (deliver e b t) in
  let net := bal b' (e_collector e) - bal b (e_collector e) in
  let p := eff_price (t_fee t) (e_base_fee e) in
  0 <= net <= prepay (t_gas t) p /\ WEI * net - WEI < t_gas_used t * p < WEI * net + WEI /\
  (snd (deliver e b t) = Ok -> untouched (e_signer e) t = true ->
   bal b (e_signer e) - bal b' (e_signer e) - to_native (t_value t) = net).
Proof. exact payment_bounds. Qed.
Print Assumptions C05_payer_equals_collector.

(** A tx that fails after the ante handler or reverts changes nothing except the signer's payment
    to the collector (the nonce is C07's); a failure before a response costs the prepayment. *)
Theorem C05_failed_tx_changes_only_fee_and_nonce :
  forall e, env_wf e -> forall b t, nonneg (bal b) -> tx_wf e t ->
  snd (deliver e b t) = VmErr \/ snd (deliver e b t) = MsgErr ->
  let b' := fst (deliver e b t) in
  let net := bal b' (e_collector e) - bal b (e_collector e) in
  bal b' (e_signer e) - bal b (e_signer e) = - net /\
  0 <= net <= prepay (t_gas t) (eff_price (t_fee t) (e_base_fee e)) /\
  (forall a, In a (e_universe e) -> a <> e_signer e -> a <> e_collector e -> bal b' a = bal b a) /\
  supply b' = supply b.
Proof. exact failed_tx_changes_only_fee. Qed.
Print Assumptions C05_failed_tx_changes_only_fee_and_nonce.

(** ONE Cosmos tx carrying any number of MsgEthereumTx of any signers ([benv_wf]: signers distinct from the
    fee collector, inside a duplicate-free universe; every message reports 0 <= gasUsed <= gasLimit and
    leaves the collector alone): supply moves with the balances and never upwards; if the message phase
    fails every signer has prepaid exactly ITS OWN messages; otherwise every signer the scripts do not
    touch pays, for its own messages, within one unibi per message of the sum of gasUsed x price, never a negative
    amount and never more than its own prepayments; the collector gains the sum of the signers' payments;
    whole-unibi scripts conserve the supply exactly. *)
Theorem C05_bundle_satisfies_PB :
  forall e b ms, benv_wf e ms -> nonneg (bal b) -> no_stuck (snd (deliver_bundle e b ms)) ->
  PB (bmk e ms (snd (deliver_bundle e b ms)) b (fst (deliver_bundle e b ms))).
Proof. exact bundle_satisfies_PB. Qed.
Print Assumptions C05_bundle_satisfies_PB.

Theorem C05_bundle_checker_sound : forall m, PBb m = true -> PB m.
Proof. exact PBb_sound. Qed.
Print Assumptions C05_bundle_checker_sound.

(** NibiruBankKeeper.SyncStateDBWithAccount, as long as it mirrors addresses that are not 20 bytes long into the
    StateDB account of their last 20 bytes ([deliver_cur] with a non-empty [trunc]), REFUTES the property: a plain
    user tx (EOA calls the wasm precompile `execute` with unibi funds for a wasm contract) increases the supply.
    The theorems above are about [deliver] = [deliver_cur []], the behaviour with the mirror restricted to 20-byte
    addresses; the regenerated fact k_sync_only_evm_addresses says which of the two the code implements. *)
Theorem C05_truncating_sync_refuted :
  exists e b t trunc, env_wf e /\ nonneg (bal b) /\ tx_wf e t /\
    snd (deliver_cur trunc e b t) = Ok /\ supply (fst (deliver_cur trunc e b t)) > supply b /\
    Pb (mk e b t (snd (deliver_cur trunc e b t)) (fst (deliver_cur trunc e b t))) = false.
Proof. exact truncating_sync_refuted. Qed.
Print Assumptions C05_truncating_sync_refuted.

Theorem C05_repaired_sync_is_deliver :
  forall e b t, snd (deliver e b t) <> Stuck -> deliver_cur [] e b t = deliver e b t.
Proof. exact deliver_cur_repaired. Qed.
Print Assumptions C05_repaired_sync_is_deliver.

(** The boolean checker evaluated on implementation measurements is sound for [P]. *)
Theorem C05_checker_sound : forall m, Pb m = true -> P m.
Proof. exact Pb_sound. Qed.
Print Assumptions C05_checker_sound.
