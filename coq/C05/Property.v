From Coq Require Import List Bool Arith ZArith.
Require Import Nib.C05.Model Nib.C05.Spec Nib.C05.Facts Nib.C05.Proofs.
Theorem C05_checker_sound : forall m, Pb m = true -> P m.
Proof. exact Pb_sound. Qed.
Print Assumptions C05_checker_sound.
