(** C05 — EVM transactions conserve NIBI and charge exactly the gas used.  Exported statements only.
    [e] fixes signer, fee collector, the accounts of the scenario, base fee and block gas limit;
    [env_wf]: distinct signer/collector inside a duplicate-free universe, base fee >= 0.
    [tx_wf]: 0 <= gasUsed <= gasLimit (what the interpreter reports) and the EVM run does not touch
    the fee collector.  [nonneg]: bank balances are >= 0.  Outcome [Stuck] = the effect script given
    for the EVM run is not executable (never produced by the harness; refused by the checker). *)
From Coq Require Import List Bool Arith ZArith.
Import ListNotations.
Require Import Nib.C05.Model Nib.C05.ModelX Nib.C05.Spec Nib.C05.Facts Nib.C05.Proofs Nib.C05.ProofsBundle Nib.C05.ProofsX
  Nib.C05.ProofsNonvacuous Nib.C05.ProofsXNonvacuous.
Open Scope Z_scope.

(** Fee arithmetic, all prices and limits: what the signer ends up paying (prepay - refund, both
    truncated to unibi) is within one unibi of gasUsed x effective price, is never negative and
    never more than the prepayment floor(gasLimit x price / 10^12). *)
Theorem C05_net_payment_bounds :
  forall L u p, 0 <= u <= L -> 0 <= p ->
  WEI * net_payment L u p - WEI < u * p < WEI * net_payment L u p + WEI /\
  0 <= net_payment L u p <= prepay L p.
Proof. exact net_payment_bounds. Qed.
Print Assumptions C05_net_payment_bounds.

(** The whole property for one tx delivered to any funded state: supply moves exactly with the
    balances of the scenario accounts and never upwards; per outcome the clauses of [P]
    (rejected: nothing; failed after ante / reverted: only signer -> collector, at most the
    prepayment; executed: payment bounds, exact conservation for whole-unibi scripts, signer pays
    net + truncated value). *)
Theorem C05_deliver_satisfies_P :
  forall e b t, env_wf e -> nonneg (bal b) -> tx_wf e t -> snd (deliver e b t) <> Stuck ->
  P (mk e b t (snd (deliver e b t)) (fst (deliver e b t))).
Proof. exact deliver_satisfies_P. Qed.
Print Assumptions C05_deliver_satisfies_P.

(** No history of EVM txs — successful, reverted, out of gas, failing after ante — increases the
    total supply. *)
Theorem C05_supply_never_increases :
  forall e, env_wf e -> forall ts b, nonneg (bal b) -> Forall (tx_wf e) ts ->
  ~ In Stuck (snd (run e b ts)) -> supply (fst (run e b ts)) <= supply b.
Proof. exact run_supply_le. Qed.
Print Assumptions C05_supply_never_increases.

(** What leaves one account arrives at another: supply delta = sum of the balance deltas. *)
Theorem C05_closed_system :
  forall e, env_wf e -> forall b t, nonneg (bal b) -> tx_wf e t -> snd (deliver e b t) <> Stuck ->
  supply (fst (deliver e b t)) - supply b =
  sumU (bal (fst (deliver e b t))) (e_universe e) - sumU (bal b) (e_universe e).
Proof. exact closed_system. Qed.
Print Assumptions C05_closed_system.

(** When every transfer is a whole number of unibi and nothing self-destructs to itself the supply
    is exactly unchanged. *)
Theorem C05_supply_exact_when_whole_unibi :
  forall e, env_wf e -> forall b t, nonneg (bal b) -> tx_wf e t -> snd (deliver e b t) = Ok ->
  whole_unibi t = true -> supply (fst (deliver e b t)) = supply b.
Proof. exact exact_when_whole. Qed.
Print Assumptions C05_supply_exact_when_whole_unibi.

(** The signer's net gas payment equals the fee collector's gain and obeys the bounds. *)
Theorem C05_payer_equals_collector :
  forall e, env_wf e -> forall b t, nonneg (bal b) -> tx_wf e t ->
  snd (deliver e b t) = Ok \/ snd (deliver e b t) = VmErr ->
  let b' := fst (deliver e b t) in
  let net := bal b' (e_collector e) - bal b (e_collector e) in
  let p := eff_price (t_fee t) (e_base_fee e) in
  0 <= net <= prepay (t_gas t) p /\ WEI * net - WEI < t_gas_used t * p < WEI * net + WEI /\
  (snd (deliver e b t) = Ok -> untouched (e_signer e) t = true ->
   bal b (e_signer e) - bal b' (e_signer e) - to_native (t_value t) = net).
Proof. exact payment_bounds. Qed.
Print Assumptions C05_payer_equals_collector.

(** A tx that fails after the ante handler or reverts changes nothing except the signer's payment
    to the collector (the nonce is C07's); a failure before a response costs the prepayment. *)
Theorem C05_failed_tx_changes_only_fee_and_nonce :
  forall e, env_wf e -> forall b t, nonneg (bal b) -> tx_wf e t ->
  snd (deliver e b t) = VmErr \/ snd (deliver e b t) = MsgErr ->
  let b' := fst (deliver e b t) in
  let net := bal b' (e_collector e) - bal b (e_collector e) in
  bal b' (e_signer e) - bal b (e_signer e) = - net /\
  0 <= net <= prepay (t_gas t) (eff_price (t_fee t) (e_base_fee e)) /\
  (forall a, In a (e_universe e) -> a <> e_signer e -> a <> e_collector e -> bal b' a = bal b a) /\
  supply b' = supply b.
Proof. exact failed_tx_changes_only_fee. Qed.
Print Assumptions C05_failed_tx_changes_only_fee_and_nonce.

(** ONE Cosmos tx carrying any number of MsgEthereumTx of any signers ([benv_wf]: signers distinct from the
    fee collector, inside a duplicate-free universe; every message reports 0 <= gasUsed <= gasLimit and
    leaves the collector alone): supply moves with the balances and never upwards; if the message phase
    fails every signer has prepaid exactly ITS OWN messages; otherwise every signer the scripts do not
    touch pays, for its own messages, within one unibi per message of the sum of gasUsed x price, never a negative
    amount and never more than its own prepayments; the collector gains the sum of the signers' payments;
    whole-unibi scripts conserve the supply exactly. *)
Theorem C05_bundle_satisfies_PB :
  forall e b ms, benv_wf e ms -> nonneg (bal b) -> no_stuck (snd (deliver_bundle e b ms)) ->
  PB (bmk e ms (snd (deliver_bundle e b ms)) b (fst (deliver_bundle e b ms))).
Proof. exact bundle_satisfies_PB. Qed.
Print Assumptions C05_bundle_satisfies_PB.

Theorem C05_bundle_checker_sound : forall m, PBb m = true -> PB m.
Proof. exact PBb_sound. Qed.
Print Assumptions C05_bundle_checker_sound.

(** NibiruBankKeeper.SyncStateDBWithAccount, as long as it mirrors addresses that are not 20 bytes long into the
    StateDB account of their last 20 bytes ([deliver_cur] with a non-empty [trunc]), REFUTES the property: a plain
    user tx (EOA calls the wasm precompile `execute` with unibi funds for a wasm contract) increases the supply.
    The theorems above are about [deliver] = [deliver_cur []], the behaviour with the mirror restricted to 20-byte
    addresses; the regenerated fact k_sync_only_evm_addresses says which of the two the code implements. *)
Theorem C05_truncating_sync_refuted :
  exists e b t trunc, env_wf e /\ nonneg (bal b) /\ tx_wf e t /\
    snd (deliver_cur trunc e b t) = Ok /\ supply (fst (deliver_cur trunc e b t)) > supply b /\
    Pb (mk e b t (snd (deliver_cur trunc e b t)) (fst (deliver_cur trunc e b t))) = false.
Proof. exact truncating_sync_refuted. Qed.
Print Assumptions C05_truncating_sync_refuted.

Theorem C05_repaired_sync_is_deliver :
  forall e b t, snd (deliver e b t) <> Stuck -> deliver_cur [] e b t = deliver e b t.
Proof. exact deliver_cur_repaired. Qed.
Print Assumptions C05_repaired_sync_is_deliver.

(* ------------------------------------------------------------------------------------------------
   The EVM phase on its two ledgers (ModelX.v): the script of a tx says what the contract code DID — value transfers
   (also to module accounts the bank blocks), self-destructs, call frames that are kept or reverted, calls of the Nibiru
   precompiles (intermediate flush CommitCacheCtx, which FAILS HALF-WAY when SetAccBalance has minted and the bank then
   refuses a blocked recipient; bank sends mirrored into the StateDB).  [deliver_x true]: the PrecompileCalled journal
   entry precedes the flush (the code as it stands, fact k_journal_before_flush). *)

(** The whole property [P] for EVERY script (any nesting, any number of failing flushes, reverted frames, reverted
    or failing txs), any fee parameters and any funded state: the measurement the model produces — with the computed
    net effects as the tx's script — satisfies [P]; supply = sum of the balances' deltas and never grows (no side
    condition); balances stay >= 0.  The side condition (as [tx_wf] for the flat model): a tx that succeeds has no net
    effect on the fee collector. *)
Theorem C05_x_deliver_satisfies_P :
  forall c e b t xs keep, env_wf e -> nonneg (bal b) -> 0 <= t_gas_used t <= t_gas t ->
  snd (fst (xres c e b t xs keep)) <> Stuck ->
  nonneg (bal (fst (fst (xres c e b t xs keep)))) /\
  dsupply (xmeas c e b t xs keep) = sumU (delta (xmeas c e b t xs keep)) (e_universe e) /\
  dsupply (xmeas c e b t xs keep) <= 0 /\
  ((snd (fst (xres c e b t xs keep)) = Ok ->
    untouched (e_collector e) (set_evm t (EvmOk (snd (xres c e b t xs keep)))) = true) -> P (xmeas c e b t xs keep)).
Proof. exact deliver_x_facts. Qed.
Print Assumptions C05_x_deliver_satisfies_P.

(** No history of such txs increases the supply. *)
Theorem C05_x_supply_never_increases :
  forall c e, env_wf e -> forall ts b, nonneg (bal b) -> Forall xtx_gas_ok ts ->
  ~ In Stuck (snd (run_x true c e b ts)) -> supply (fst (run_x true c e b ts)) <= supply b.
Proof. exact run_x_supply_le. Qed.
Print Assumptions C05_x_supply_never_increases.

(** A tx that reverts as a whole or fails in the msg server (e.g. the final commit owes a blocked account its credit)
    changes nothing but the signer's payment to the collector — whatever ran inside, failing flushes included. *)
Theorem C05_x_failed_tx_changes_only_fee :
  forall c e, env_wf e -> forall b t xs keep, nonneg (bal b) -> 0 <= t_gas_used t <= t_gas t ->
  let r := deliver_x true c e b t xs keep in
  snd (fst r) = VmErr \/ snd (fst r) = MsgErr ->
  let b' := fst (fst r) in
  let net := bal b' (e_collector e) - bal b (e_collector e) in
  bal b' (e_signer e) - bal b (e_signer e) = - net /\
  0 <= net <= prepay (t_gas t) (eff_price (t_fee t) (e_base_fee e)) /\
  (forall a, In a (e_universe e) -> a <> e_signer e -> a <> e_collector e -> bal b' a = bal b a) /\
  supply b' = supply b.
Proof. exact failed_x_changes_only_fee. Qed.
Print Assumptions C05_x_failed_tx_changes_only_fee.

(** At every program point reached by a script ([Jst]: the cache-context bank and the saved multistores are non-negative,
    agree with the pre-tx bank outside the scenario and keep its gap between supply and balances) a frame that is
    reverted — whatever it contains — leaves exactly the state of its start and has no net effect. *)
Theorem C05_x_reverted_frame_invisible :
  forall c U b1, NoDup U -> forall body s s1 net, Jst c U b1 s ->
  xexec true c U (XFrame body false) s = Some (s1, net) ->
  net = [] /\ s_wei s1 = s_wei s /\ s_cb s1 = s_cb s /\ s_snap s1 = s_snap s.
Proof. exact reverted_frame_invisible. Qed.
Print Assumptions C05_x_reverted_frame_invisible.

(** A precompile call whose pre-run flush fails half-way has no effect at all: the written prefix and the mint at the
    EVM module account are undone by the revert of the call (by construction of the model of the order "journal, then
    flush"; what makes it matter is the theorem above — no later revert or commit can bring the prefix back). *)
Theorem C05_x_failed_flush_invisible :
  forall c U sends refuse s s1 net,
  xpre true c U sends refuse s = Some (s1, net) -> snd (commit2 c U (s_wei s) (s_cb s)) = false ->
  net = [] /\ s_wei s1 = s_wei s /\ s_cb s1 = s_cb s /\ s_snap s1 = s_snap s.
Proof. exact failed_flush_invisible. Qed.
Print Assumptions C05_x_failed_flush_invisible.

(** A precompile call whose body dispatches a message the chain refuses inside a running EVM state transition
    (Wasm.execute -> contract -> MsgConvertCoinToEvm / MsgCreateFunToken / MsgEthereumTx, fix 8031c94) has no effect,
    whatever bank sends (funds, dispatched MsgSend) it made before; that such calls, in kept or reverted frames and
    followed by further bank sends, never break [P] is C05_x_deliver_satisfies_P. *)
Theorem C05_x_refused_dispatch_invisible :
  forall c U sends s s1 net,
  xpre true c U sends true s = Some (s1, net) ->
  net = [] /\ s_wei s1 = s_wei s /\ s_cb s1 = s_cb s /\ s_snap s1 = s_snap s.
Proof. exact refused_call_invisible. Qed.
Print Assumptions C05_x_refused_dispatch_invisible.

(** OnRunStart flushing BEFORE it journals the PrecompileCalled entry ([deliver_x false]) REFUTES the property: a
    reverted sub-call that paid a blocked module account and then called a precompile leaves the flush's mint at the
    EVM module account and the final commit writes it — the supply grows, the checker refuses the measurement. *)
Theorem C05_flush_before_journal_refuted :
  exists c e b t xs keep, env_wf e /\ nonneg (bal b) /\ 0 <= t_gas_used t <= t_gas t /\
    let r := deliver_x false c e b t xs keep in
    snd r = [] /\ supply (fst (fst r)) > supply b /\
    Pb (mk e b (set_evm t (EvmOk (snd r))) (snd (fst r)) (fst (fst r))) = false.
Proof. exact flush_before_journal_refuted. Qed.
Print Assumptions C05_flush_before_journal_refuted.

(** The boolean checker evaluated on implementation measurements is sound for [P]. *)
Theorem C05_checker_sound : forall m, Pb m = true -> P m.
Proof. exact Pb_sound. Qed.
Print Assumptions C05_checker_sound.
