(** C05 — non-vacuity and refutation for the two-ledger EVM phase (ModelX.v): the failing-flush scenarios on concrete
    numbers, for the code as it stands (PrecompileCalled journaled before the flush) and for the variant that flushes
    first. *)
From Coq Require Import List Bool Arith ZArith Lia.
Import ListNotations.
Require Import Nib.C05.Model Nib.C05.ModelX Nib.C05.Spec Nib.C05.Facts Nib.C05.Proofs Nib.C05.ProofsX Nib.C05.Check.
Open Scope Z_scope.

Definition ex0 : env :=
  {| e_signer := 0; e_collector := 1; e_universe := universe; e_base_fee := 1000000000000; e_block_gas := 100000000 |}.
(** 1 fee collector, 16 EVM module account, 18 x/distribution: blocked *)
Definition cx0 : xcfg := {| x_module := evm_module; x_blocked := [1; 16; 18]%nat |}.
(** signer 10^12 unibi, collector 7, X 50, Y 100, contract Z (17) 10 NIBI *)
Definition bx0 : bank := bank_of [1000000000000; 7; 0; 50; 0; 0; 100; 0; 0; 0; 0; 0; 0; 0; 0; 0; 0; 10000000; 0] 5000000000000.

Definition tz (u_ : Z) : etx :=
  {| t_fee := {| f_type := Legacy; f_gas_price := 1000000000000; f_tip := 0; f_cap := 0 |};
     t_gas := 3024000; t_value := 0; t_to := 17%nat; t_intrinsic := 24000; t_evm := EvmFail; t_gas_used := u_ |}.

(** Z pays 1 NIBI to x/distribution and calls FunToken.bankMsgSend(B, 1 unibi) … *)
Definition pay_blocked_then_precompile : list xop := [XOp (OTransfer 17 18 1000000000000000000); XPre [(17%nat, 4%nat, 1)] false].
(** … inside a sub-call that reverts, in a tx that succeeds *)
Definition xs_sub_revert : list xop := [XFrame pay_blocked_then_precompile false].
(** … a busier one: B is paid, the failing flush happens in a reverted frame, then a bank send that works *)
Definition xs_mixed : list xop :=
  [XOp (OTransfer 17 4 3000000000005); XFrame [XOp (OTransfer 17 1 2000000000000); XPre [] false] false; XPre [(17%nat, 2%nat, 7)] false].

Lemma ex0_wf : env_wf ex0.
Proof.
  constructor; simpl; try lia; try (intuition congruence).
  repeat (constructor; [simpl; intuition discriminate|]). constructor.
Qed.

Lemma bx0_nonneg : nonneg (bal bx0).
Proof. intro a. do 20 (destruct a as [|a]; [vm_compute; congruence|]). vm_compute. congruence. Qed.

Definition xshown : list nat := [0; 1; 2; 4; 16; 17; 18]%nat.
Definition xshow (r : bank * outcome * list op) : outcome * list Z * Z * list op :=
  (snd (fst r), map (bal (fst (fst r))) xshown, supply (fst (fst r)), snd r).

(** the code as it stands: the failing call and the reverted frame leave nothing behind *)
Example failing_flush_nonvacuous :
  (* reverted sub-call, tx succeeds: only the gas is paid *)
  xshow (deliver_x true cx0 ex0 bx0 (tz 100000) xs_sub_revert true) =
    (Ok, [999999900000; 100007; 0; 0; 0; 10000000; 0], 5000000000000, []) /\
  (* the whole tx reverts *)
  xshow (deliver_x true cx0 ex0 bx0 (tz 100000) pay_blocked_then_precompile false) =
    (VmErr, [999999900000; 100007; 0; 0; 0; 10000000; 0], 5000000000000, []) /\
  (* kept: the precompile call fails, the tx goes on, the final commit owes x/distribution 1 NIBI: EthereumTx fails, the
     whole prepayment is kept *)
  xshow (deliver_x true cx0 ex0 bx0 (tz 100000) pay_blocked_then_precompile true) =
    (MsgErr, [999996976000; 3024007; 0; 0; 0; 10000000; 0], 5000000000000, []) /\
  (* mixed: B +3 and Z -4 (the sub-unibi remainders are floored by the flush before the bank send: supply -1), R +7 by the
     bank send, nothing of the 2 NIBI for the collector *)
  xshow (deliver_x true cx0 ex0 bx0 (tz 100000) xs_mixed true) =
    (Ok, [999999900000; 100007; 7; 3; 0; 9999989; 0], 4999999999999,
     [OTransfer 17 4 3000000000005; OTransfer 17 2 7000000000000]).
Proof. vm_compute. repeat split; reflexivity. Qed.

Example checker_accepts_x_model :
  forallb (fun '(xs, keep) =>
    Pb (xmeas cx0 ex0 bx0 (tz 100000) xs keep))
    [(xs_sub_revert, true); (pay_blocked_then_precompile, false); (pay_blocked_then_precompile, true); (xs_mixed, true)] = true.
Proof. vm_compute. reflexivity. Qed.

(** Wasm.execute(RW = 19, …) called by Z: 40 unibi of funds, RW dispatches bank sends of 7 to B and 30 back to Z; the same
    with a dispatched MsgConvertCoinToEvm (refused inside a running EVM tx): the call fails as a whole, the bank send
    that follows in the same tx is mirrored as usual *)
Definition bx1 : bank := bank_of [1000000000000; 7; 0; 50; 0; 0; 100; 0; 0; 0; 0; 0; 0; 0; 0; 0; 1000; 10000000; 0; 5000] 5000000000000.
Definition wasm_ok : list xop := [XPre [(17%nat, 19%nat, 40); (19%nat, 4%nat, 7); (19%nat, 17%nat, 30)] false].
Definition wasm_refused_then_send : list xop :=
  [XOp (OTransfer 17 4 5000000000000); XPre [(17%nat, 19%nat, 40); (19%nat, 4%nat, 7)] true; XPre [(17%nat, 2%nat, 3)] false].
Definition xshown2 : list nat := [2; 4; 16; 17; 19]%nat.

Example wasm_dispatch_nonvacuous :
  (let r := deliver_x true cx0 ex0 bx1 (tz 100000) wasm_ok true in
   (snd (fst r), map (bal (fst (fst r))) xshown2, supply (fst (fst r)))) = (Ok, [0; 7; 1000; 9999990; 5003], 5000000000000) /\
  (let r := deliver_x true cx0 ex0 bx1 (tz 100000) wasm_refused_then_send true in
   (snd (fst r), map (bal (fst (fst r))) xshown2, supply (fst (fst r)), snd r)) =
     (Ok, [3; 5; 1000; 9999992; 5000], 5000000000000, [OTransfer 17 4 5000000000000; OTransfer 17 2 3000000000000]) /\
  (* the refused call inside a frame that reverts, in a tx that reverts: only the fee *)
  (let r := deliver_x true cx0 ex0 bx1 (tz 100000) [XFrame wasm_refused_then_send false] false in
   (snd (fst r), map (bal (fst (fst r))) xshown2, supply (fst (fst r)))) = (VmErr, [0; 0; 1000; 10000000; 5000], 5000000000000).
Proof. vm_compute. repeat split; reflexivity. Qed.

(** Flushing BEFORE the PrecompileCalled entry is journaled refutes the property: the flush mints 1 NIBI to the EVM
    module account, the bank refuses to pass it on to x/distribution, the error leaves no journal entry, the frame (or
    the tx) reverts, the final commit writes the cache context: supply +1 NIBI, stranded at the EVM module account. *)
Example flush_before_journal_witness :
  xshow (deliver_x false cx0 ex0 bx0 (tz 100000) xs_sub_revert true) =
    (Ok, [999999900000; 100007; 0; 0; 1000000; 10000000; 0], 5000001000000, []) /\
  xshow (deliver_x false cx0 ex0 bx0 (tz 100000) pay_blocked_then_precompile false) =
    (VmErr, [999999900000; 100007; 0; 0; 1000000; 10000000; 0], 5000001000000, []).
Proof. vm_compute. repeat split; reflexivity. Qed.

Theorem flush_before_journal_refuted :
  exists c e b t xs keep, env_wf e /\ nonneg (bal b) /\ 0 <= t_gas_used t <= t_gas t /\
    let r := deliver_x false c e b t xs keep in
    snd r = [] /\ supply (fst (fst r)) > supply b /\
    Pb (mk e b (set_evm t (EvmOk (snd r))) (snd (fst r)) (fst (fst r))) = false.
Proof.
  exists cx0, ex0, bx0, (tz 100000), xs_sub_revert, true.
  split; [exact ex0_wf|]. split; [exact bx0_nonneg|]. split; [simpl; lia|].
  vm_compute. repeat split; reflexivity.
Qed.

(** the measurement of the seeded demo is refused by the checker: supply +1 NIBI, EVM module account +1 NIBI *)
Example checker_rejects_stranded_mint :
  Pb {| m_env := ex0; m_tx := set_evm (tz 100000) (EvmOk []); m_out := Ok; m_before := bx0;
        m_after := bank_of [999999900000; 100007; 0; 50; 0; 0; 100; 0; 0; 0; 0; 0; 0; 0; 0; 0; 1000000; 10000000; 0] 5000001000000 |} = false.
Proof. vm_compute. reflexivity. Qed.
