(** C05 — evaluation of implementation measurements: correspondence (model vs observed) and the
    property predicate [Pb] on the observed measurement itself. *)
From Coq Require Import List Bool Arith ZArith.
Import ListNotations.
Require Import Nib.C05.Model Nib.C05.ModelX Nib.C05.Spec.
Open Scope Z_scope.

(** accounts of a scenario: 0 signer, 1 fee collector, 2 R, 3 X, 4 B, 5 N, 6 Y, 7 B2, 8 C3, 9 D, 10 and 11 second and third signer,
    12 factory F, 13 the address of F's next creation, 14 wasm contract W (32-byte address),
    15 PH = the 20-byte account made of the last 20 bytes of W, 16 the EVM module account (where SetAccBalance mints and
    burns), 17 script contract Z, 18 the x/distribution module account (blocked by the bank, like 1 and 16),
    19 RW = reflect.wasm instance owned by Z (32-byte bank address) *)
Definition universe : list nat := [0; 1; 2; 3; 4; 5; 6; 7; 8; 9; 10; 11; 12; 13; 14; 15; 16; 17; 18; 19]%nat.
Definition evm_module : nat := 16%nat.

Record otx := {
  o_base_fee : Z; o_block_gas : Z;
  o_tx : etx; o_out : outcome;
  o_trunc : list (nat * nat);            (* (longer address, its last-20-bytes account) pairs a bank send of the tx touched *)
  o_x : option (list xop * bool);        (* Some: what the EVM run DID (transfers, frames kept or reverted, precompile calls) in a
                                            top-level frame that is kept or not; the effects are computed (ModelX.v) *)
  o_blocked : list nat;                  (* accounts of [universe] for which BankKeeper.BlockedAddr holds (measured) *)
  o_before : list Z; o_after : list Z;   (* unibi balances of [universe] around DeliverTx *)
  o_supply_before : Z; o_supply_after : Z
}.

(** one Cosmos tx carrying several MsgEthereumTx *)
Record obundle := {
  ob_base_fee : Z; ob_block_gas : Z;
  ob_msgs : list bmsg; ob_out : boutcome;
  ob_before : list Z; ob_after : list Z;
  ob_supply_before : Z; ob_supply_after : Z
}.

Definition case : Type := list otx * list obundle.


Definition env_of (o : otx) : env :=
  {| e_signer := 0; e_collector := 1; e_universe := universe;
     e_base_fee := o_base_fee o; e_block_gas := o_block_gas o |}.

Fixpoint lookup (U : list nat) (l : list Z) (a : nat) : Z :=
  match U, l with
  | x :: ur, v :: lr => if Nat.eqb a x then v else lookup ur lr a
  | _, _ => 0
  end.

Definition bank_of (l : list Z) (s : Z) : bank := {| bal := lookup universe l; supply := s |}.

Definition outcome_eqb (a b : outcome) : bool :=
  match a, b with
  | Rejected, Rejected | MsgErr, MsgErr | VmErr, VmErr | Ok, Ok | Stuck, Stuck => true
  | _, _ => false
  end.

Definition xcfg_of (o : otx) : xcfg := {| x_module := evm_module; x_blocked := o_blocked o |}.

(** [sync_repaired] is the regenerated fact "SyncStateDBWithAccount mirrors 20-byte addresses only", [journal_first] the
    regenerated fact "OnRunStart journals the PrecompileCalled entry before it flushes": the model run against the
    implementation is the model of the code as it stands *)
Definition tx_agrees (sync_repaired journal_first : bool) (o : otx) : bool :=
  let '(b', out) :=
    match o_x o with
    | None => deliver_cur (if sync_repaired then [] else o_trunc o) (env_of o)
                          (bank_of (o_before o) (o_supply_before o)) (o_tx o)
    | Some (xs, keep) => fst (deliver_x journal_first (xcfg_of o) (env_of o)
                                        (bank_of (o_before o) (o_supply_before o)) (o_tx o) xs keep)
    end in
  outcome_eqb out (o_out o) &&
  forallb (fun a => bal b' a =? lookup universe (o_after o) a) universe &&
  (supply b' =? o_supply_after o).



(** the tx as [P] sees it: for a scripted run the net effects are those of the specified behaviour (entry journaled
    before the flush) on the observed pre-state *)
Definition spec_tx (o : otx) : etx :=
  match o_x o with
  | None => o_tx o
  | Some (xs, keep) =>
      set_evm (o_tx o) (EvmOk (snd (deliver_x true (xcfg_of o) (env_of o) (bank_of (o_before o) (o_supply_before o)) (o_tx o) xs keep)))
  end.

Definition meas_of (o : otx) : meas :=
  {| m_env := env_of o; m_tx := spec_tx o; m_out := o_out o;
     m_before := bank_of (o_before o) (o_supply_before o);
     m_after := bank_of (o_after o) (o_supply_after o) |}.



Definition benv_of (o : obundle) : env :=
  {| e_signer := 0; e_collector := 1; e_universe := universe;
     e_base_fee := ob_base_fee o; e_block_gas := ob_block_gas o |}.

Fixpoint outcomes_eqb (a b : list outcome) : bool :=
  match a, b with
  | [], [] => true
  | x :: a', y :: b' => outcome_eqb x y && outcomes_eqb a' b'
  | _, _ => false
  end.

Definition boutcome_eqb (a b : boutcome) : bool :=
  match a, b with
  | BRejected, BRejected | BMsgErr, BMsgErr => true
  | BDone x, BDone y => outcomes_eqb x y
  | _, _ => false
  end.

Definition bundle_agrees (o : obundle) : bool :=
  let '(b', out) := deliver_bundle (benv_of o) (bank_of (ob_before o) (ob_supply_before o)) (ob_msgs o) in
  boutcome_eqb out (ob_out o) &&
  forallb (fun a => bal b' a =? lookup universe (ob_after o) a) universe &&
  (supply b' =? ob_supply_after o).

Definition bmeas_of (o : obundle) : bmeas :=
  {| bm_env := benv_of o; bm_msgs := ob_msgs o; bm_out := ob_out o;
     bm_before := bank_of (ob_before o) (ob_supply_before o);
     bm_after := bank_of (ob_after o) (ob_supply_after o) |}.

Definition mismatch (sync_repaired journal_first : bool) (c : case) : bool :=
  existsb (fun o => negb (tx_agrees sync_repaired journal_first o)) (fst c) || existsb (fun o => negb (bundle_agrees o)) (snd c).

Definition violates (c : case) : bool :=
  existsb (fun o => negb (Pb (meas_of o))) (fst c) || existsb (fun o => negb (PBb (bmeas_of o))) (snd c).
