(** C05 — evaluation of implementation measurements: correspondence (model vs observed) and the
    property predicate [Pb] on the observed measurement itself. *)
From Coq Require Import List Bool Arith ZArith.
Import ListNotations.
Require Import Nib.C05.Model Nib.C05.Spec.
Open Scope Z_scope.

(** accounts of a scenario: 0 signer, 1 fee collector, 2 R, 3 X, 4 B, 5 N, 6 Y, 7 B2, 8 C3, 9 D *)
Definition universe : list nat := [0; 1; 2; 3; 4; 5; 6; 7; 8; 9]%nat.

Record otx := {
  o_base_fee : Z; o_block_gas : Z;
  o_tx : etx; o_out : outcome;
  o_before : list Z; o_after : list Z;   (* unibi balances of [universe] around DeliverTx *)
  o_supply_before : Z; o_supply_after : Z
}.

Definition case : Type := list otx.

Definition env_of (o : otx) : env :=
  {| e_signer := 0; e_collector := 1; e_universe := universe;
     e_base_fee := o_base_fee o; e_block_gas := o_block_gas o |}.

Fixpoint lookup (U : list nat) (l : list Z) (a : nat) : Z :=
  match U, l with
  | x :: ur, v :: lr => if Nat.eqb a x then v else lookup ur lr a
  | _, _ => 0
  end.

Definition bank_of (l : list Z) (s : Z) : bank := {| bal := lookup universe l; supply := s |}.

Definition outcome_eqb (a b : outcome) : bool :=
  match a, b with
  | Rejected, Rejected | MsgErr, MsgErr | VmErr, VmErr | Ok, Ok | Stuck, Stuck => true
  | _, _ => false
  end.

Definition tx_agrees (o : otx) : bool :=
  let '(b', out) := deliver (env_of o) (bank_of (o_before o) (o_supply_before o)) (o_tx o) in
  outcome_eqb out (o_out o) &&
  forallb (fun a => bal b' a =? lookup universe (o_after o) a) universe &&
  (supply b' =? o_supply_after o).

Definition mismatch (c : case) : bool := existsb (fun o => negb (tx_agrees o)) c.

Definition meas_of (o : otx) : meas :=
  {| m_env := env_of o; m_tx := o_tx o; m_out := o_out o;
     m_before := bank_of (o_before o) (o_supply_before o);
     m_after := bank_of (o_after o) (o_supply_after o) |}.

Definition violates (c : case) : bool := existsb (fun o => negb (Pb (meas_of o))) c.
