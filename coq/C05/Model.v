(** C05 — executable model of the money path of one Ethereum tx through DeliverTx:
    ante (AnteDecVerifyEthAcc / CanTransfer / AnteDecEthGasConsume: VerifyFee + deductFee),
    msg server (ApplyEvmMsg: intrinsic gas, ParseWeiAsMultipleOfMicronibi, EVM effects in wei on the
    StateDB, Commit = SetAccBalance per account with mint/burn of the unibi delta, RefundGas from the
    fee collector), baseapp.runTx (ante effects kept, message effects all-or-nothing).
    The EVM interpreter is not modelled: the effects that took place (a script of wei transfers and
    self-destructs) and the gas used are parameters of a tx.  No proofs in this file. *)
From Coq Require Import List Bool Arith ZArith.
Import ListNotations.
Open Scope Z_scope.

Definition WEI : Z := 1000000000000.          (* 10^12 wei = 1 unibi (x/evm/const.go) *)
Definition to_native (w : Z) : Z := w / WEI.  (* WeiToNative: big.Int.Quo, operands are >= 0 *)
Definition to_wei (n : Z) : Z := n * WEI.     (* NativeToWei *)

Inductive txtype := Legacy | AccessList | DynamicFee.

Record fee_params := {
  f_type : txtype;
  f_gas_price : Z;   (* legacy / access list: gasPrice; dynamic: unused *)
  f_tip : Z;         (* dynamic: gasTipCap *)
  f_cap : Z          (* dynamic: gasFeeCap *)
}.

(** TxData.EffectiveGasPriceWeiPerGas(baseFee) *)
Definition eff_price (f : fee_params) (base : Z) : Z :=
  match f_type f with
  | DynamicFee => Z.max base (Z.min (f_tip f + base) (f_cap f))
  | _ => Z.max (f_gas_price f) base
  end.

(** the price TxData.Fee() / Cost() use (CheckSenderBalance) *)
Definition cap_price (f : fee_params) : Z :=
  match f_type f with DynamicFee => f_cap f | _ => f_gas_price f end.

(** VerifyFee / deductFee, RefundGas *)
Definition prepay (L p : Z) : Z := to_native (L * p).
Definition refund (L u p : Z) : Z := if L <=? u then 0 else to_native ((L - u) * p).
Definition net_payment (L u p : Z) : Z := prepay L p - refund L u p.

(** bank module, unibi only *)
Record bank := { bal : nat -> Z; supply : Z }.
Definition upd (f : nat -> Z) (a : nat) (v : Z) : nat -> Z := fun x => if Nat.eqb x a then v else f x.

Definition send (b : bank) (x y : nat) (n : Z) : option bank :=
  if (0 <=? n) && (n <=? bal b x)
  then Some {| bal := let f := upd (bal b) x (bal b x - n) in upd f y (f y + n); supply := supply b |}
  else None.
Definition mint (b : bank) (x : nat) (n : Z) : bank :=
  {| bal := upd (bal b) x (bal b x + n); supply := supply b + n |}.
Definition burn (b : bank) (x : nat) (n : Z) : option bank :=
  if n <=? bal b x then Some {| bal := upd (bal b) x (bal b x - n); supply := supply b - n |} else None.

(** Keeper.SetAccBalance: mint on a positive delta, burn on a negative one *)
Definition set_acc_balance (b : bank) (a : nat) (target : Z) : option bank :=
  let delta := target - bal b a in
  if 0 <? delta then Some (mint b a delta)
  else if delta <? 0 then burn b a (- delta)
  else Some b.

(** effects of the EVM run that took place (frames that reverted are not listed) *)
Inductive op :=
| OTransfer (x y : nat) (w : Z)   (* CALL with value / top-level value / precompile bank send *)
| OSuicide (x y : nat).           (* SELFDESTRUCT of x with beneficiary y *)

Definition memb (a : nat) (U : list nat) : bool := existsb (Nat.eqb a) U.

Definition apply_op (U : list nat) (wei : nat -> Z) (o : op) : option (nat -> Z) :=
  match o with
  | OTransfer x y w =>
      if memb x U && memb y U && (0 <=? w) && (w <=? wei x)
      then Some (let f := upd wei x (wei x - w) in upd f y (f y + w)) else None
  | OSuicide x y =>
      if memb x U && memb y U
      then Some (let f := upd wei y (wei y + wei x) in upd f x 0) else None   (* x = y: the balance is gone *)
  end.

Fixpoint apply_ops (U : list nat) (wei : nat -> Z) (os : list op) : option (nat -> Z) :=
  match os with
  | [] => Some wei
  | o :: r => match apply_op U wei o with None => None | Some w1 => apply_ops U w1 r end
  end.

(** StateDB.Commit over the accounts of the scenario: bank balance := floor(wei / 10^12) *)
Fixpoint commit (U : list nat) (wei : nat -> Z) (b : bank) : option bank :=
  match U with
  | [] => Some b
  | a :: r => match set_acc_balance b a (to_native (wei a)) with None => None | Some b1 => commit r wei b1 end
  end.

Inductive evm_outcome :=
| EvmOk (script : list op)   (* ran to completion; [script] excludes the top-level value transfer *)
| EvmFail.                   (* revert / out of gas / insufficient balance for the value: no state change *)

Record etx := {
  t_fee : fee_params;
  t_gas : Z;              (* gas limit L *)
  t_value : Z;            (* wei *)
  t_to : nat;             (* account receiving the top-level value (callee, or the created contract) *)
  t_intrinsic : Z;        (* oracle: core.IntrinsicGas of the payload *)
  t_evm : evm_outcome;    (* oracle / scenario knowledge: what the EVM did *)
  t_gas_used : Z          (* oracle: MsgEthereumTxResponse.GasUsed *)
}.

Inductive outcome := Rejected | MsgErr | VmErr | Ok | Stuck.

Record env := {
  e_signer : nat; e_collector : nat;
  e_universe : list nat;      (* accounts of the scenario (signer and collector included) *)
  e_base_fee : Z;             (* wei per gas *)
  e_block_gas : Z
}.

Definition ante (e : env) (b : bank) (t : etx) : option bank :=
  let S := e_signer e in
  let p := eff_price (t_fee t) (e_base_fee e) in
  let cost := t_gas t * cap_price (t_fee t) + t_value t in
  if (0 <? t_gas t) && (t_gas t <=? e_block_gas e) && (0 <=? t_value t) && (0 <=? cap_price (t_fee t))
     && (cost <=? to_wei (bal b S))            (* CheckSenderBalance; CanTransfer is implied *)
  then send b S (e_collector e) (prepay (t_gas t) p)   (* insufficient funds => reject *)
  else None.

(** the message phase on the post-ante bank; None = EthereumTx returned an error *)
Definition run_msg (e : env) (b : bank) (t : etx) : option (bank * outcome) :=
  let S := e_signer e in
  let p := eff_price (t_fee t) (e_base_fee e) in
  if t_gas t <? t_intrinsic t then None
  else if (0 <? t_value t) && (t_value t <? WEI) then None          (* ParseWeiAsMultipleOfMicronibi *)
  else
    let v := to_wei (to_native (t_value t)) in
    let wei0 := fun a => to_wei (bal b a) in
    let committed :=
      match t_evm t with
      | EvmFail => Some (b, VmErr)
      | EvmOk script =>
          if wei0 S <? v then Some (b, VmErr)       (* evm.Call: ErrInsufficientBalance, nothing happens *)
          else
          match apply_ops (e_universe e) wei0 (OTransfer S (t_to t) v :: script) with
          | None => Some (b, Stuck)
          | Some wei1 => match commit (e_universe e) wei1 b with None => Some (b, Stuck) | Some b1 => Some (b1, Ok) end
          end
      end in
    match committed with
    | None => None
    | Some (b1, o) =>
        let r := refund (t_gas t) (t_gas_used t) p in
        if r =? 0 then Some (b1, o)
        else match send b1 (e_collector e) S r with
             | None => None                                  (* fee collector cannot refund: error *)
             | Some b2 => Some (b2, o)
             end
    end.

Definition deliver (e : env) (b : bank) (t : etx) : bank * outcome :=
  match ante e b t with
  | None => (b, Rejected)
  | Some b1 =>
      match run_msg e b1 t with
      | None => (b1, MsgErr)
      | Some (b2, o) => (b2, o)
      end
  end.

(** NibiruBankKeeper.SyncStateDBWithAccount mirrors the bank balance of an address into the StateDB account
    eth.NibiruAddrToEthAddr(address) = the LAST 20 BYTES of the address.  For a 20-byte address that is its own
    EVM account (what [deliver] models: the bank send is a transfer between the two accounts).  For a longer
    address [y] (every wasm contract address is 32 bytes) the code as it stands writes bank(y) x 10^12 into the
    StateDB account of the unrelated 20-byte address [ph] = last20(y), and StateDB.Commit then runs
    SetAccBalance(ph, bank(y)): mint or burn of the difference.  [trunc] lists the pairs (y, ph) of the longer
    addresses that a bank send of the tx synced; it is empty for the repaired behaviour (no mirror for an
    address that is not 20 bytes long). *)
Definition sync_truncated (b : bank) (yp : nat * nat) : option bank :=
  set_acc_balance b (snd yp) (bal b (fst yp)).

Fixpoint sync_all_truncated (b : bank) (trunc : list (nat * nat)) : option bank :=
  match trunc with
  | [] => Some b
  | yp :: r => match sync_truncated b yp with None => None | Some b1 => sync_all_truncated b1 r end
  end.

Definition deliver_cur (trunc : list (nat * nat)) (e : env) (b : bank) (t : etx) : bank * outcome :=
  let '(b1, o) := deliver e b t in
  match o with
  | Ok => match sync_all_truncated b1 trunc with Some b2 => (b2, Ok) | None => (b1, Stuck) end
  | _ => (b1, o)      (* a failed EVM run reverts the journal entry of the mirror write as well *)
  end.

Fixpoint run (e : env) (b : bank) (ts : list etx) : bank * list outcome :=
  match ts with
  | [] => (b, [])
  | t :: r => let '(b1, o) := deliver e b t in let '(b2, os) := run e b1 r in (b2, o :: os)
  end.

(* ------------------------------------------------------------------------------------------
   One Cosmos tx carrying several MsgEthereumTx, each with its own signer.  The decorators loop
   over the messages one after the other: AnteDecVerifyEthAcc checks every message's cost against
   the balance BEFORE any fee of this tx is taken; AnteDecEthGasConsume then takes each message's
   prepayment from that message's own sender; the gas limits are summed against the block limit.
   The msg server runs the messages in order on one cache (any error discards all of them) and
   refunds each message's leftover to its own sender. *)

Definition bmsg : Type := nat * etx.       (* signer account, message *)

Definition env_for (e : env) (s : nat) : env :=
  {| e_signer := s; e_collector := e_collector e; e_universe := e_universe e;
     e_base_fee := e_base_fee e; e_block_gas := e_block_gas e |}.

Definition msg_checks (b : bank) (m : bmsg) : bool :=
  let '(s, t) := m in
  (0 <? t_gas t) && (0 <=? t_value t) && (0 <=? cap_price (t_fee t)) &&
  (t_gas t * cap_price (t_fee t) + t_value t <=? to_wei (bal b s)).

Fixpoint prepay_all (e : env) (b : bank) (ms : list bmsg) : option bank :=
  match ms with
  | [] => Some b
  | (s, t) :: r =>
      match send b s (e_collector e) (prepay (t_gas t) (eff_price (t_fee t) (e_base_fee e))) with
      | None => None
      | Some b1 => prepay_all e b1 r
      end
  end.

Fixpoint total_gas (ms : list bmsg) : Z :=
  match ms with [] => 0 | (_, t) :: r => t_gas t + total_gas r end.

Definition ante_bundle (e : env) (b : bank) (ms : list bmsg) : option bank :=
  match ms with
  | [] => None
  | _ => if forallb (msg_checks b) ms && (total_gas ms <=? e_block_gas e) then prepay_all e b ms else None
  end.

Fixpoint run_msgs (e : env) (b : bank) (ms : list bmsg) : option (bank * list outcome) :=
  match ms with
  | [] => Some (b, [])
  | (s, t) :: r =>
      match run_msg (env_for e s) b t with
      | None => None
      | Some (b1, o) =>
          match run_msgs e b1 r with
          | None => None
          | Some (b2, os) => Some (b2, o :: os)
          end
      end
  end.

Inductive boutcome := BRejected | BMsgErr | BDone (os : list outcome).

Definition deliver_bundle (e : env) (b : bank) (ms : list bmsg) : bank * boutcome :=
  match ante_bundle e b ms with
  | None => (b, BRejected)
  | Some b1 =>
      match run_msgs e b1 ms with
      | None => (b1, BMsgErr)
      | Some (b2, os) => (b2, BDone os)
      end
  end.
