(** C05 — several MsgEthereumTx in one Cosmos tx: effect of one message of the message phase, effect of the
    sequential prepayments, and the per-signer accounting of a whole bundle. *)
From Coq Require Import List Bool Arith ZArith Lia.
Import ListNotations.
Require Import Nib.C05.Model Nib.C05.Spec Nib.C05.Proofs.
Open Scope Z_scope.

(* ------------------------------------------------------------------ one message of the message phase *)

Section RunMsg.
  Variable e : env.
  Variable b1 : bank.
  Variable t : etx.
  Hypothesis He : env_wf e.
  Hypothesis Hb1 : nonneg (bal b1).
  Hypothesis Ht : tx_wf e t.

  Let S := e_signer e.
  Let F := e_collector e.
  Let U := e_universe e.
  Let p := eff_price (t_fee t) (e_base_fee e).
  Let r := refund (t_gas t) (t_gas_used t) p.

  Lemma run_msg_effect b2 o :
    run_msg e b1 t = Some (b2, o) -> o <> Stuck ->
    (o = VmErr \/ o = Ok) /\
    supply b2 - supply b1 = sumU (bal b2) U - sumU (bal b1) U /\
    supply b2 <= supply b1 /\
    bal b2 F = bal b1 F - r /\
    nonneg (bal b2) /\
    (forall a, untouched a t = true -> a <> S -> a <> F -> bal b2 a = bal b1 a) /\
    (o = VmErr -> bal b2 S = bal b1 S + r /\ supply b2 = supply b1) /\
    (o = Ok -> (whole_unibi t = true -> supply b2 = supply b1) /\
               (untouched S t = true -> bal b2 S = bal b1 S + r - to_native (t_value t))).
  Proof.
    intros Em Hns.
    pose proof (wf_nodup _ He) as Hnd. pose proof (wf_signer _ He) as HS. pose proof (wf_collector _ He) as HF.
    pose proof (wf_distinct _ He) as Hd. fold S F U in Hnd, HS, HF, Hd.
    destruct (run_msg_cases _ _ _ _ _ Em) as [bc [Hr Hcases]]. cbv zeta in Hr, Hcases. fold S F U p in Hr, Hcases. fold r in Hr.
    pose proof (refund_step e t He bc b2) as Hstep. fold S F U p in Hstep. fold r in Hstep. specialize (Hstep Hr).
    destruct Hstep as [R1 [R2 [R3 [R4 R5]]]].
    assert (Hnn2 : nonneg (bal bc) -> nonneg (bal b2)).
    { intro Hbc. destruct (r =? 0); [inversion Hr; subst; exact Hbc|eapply send_nonneg; eauto]. }
    set (v := to_wei (to_native (t_value t))) in *.
    set (wei0 := fun a => to_wei (bal b1 a)) in *.
    destruct Hcases as [[-> ->]|[[_ ->]|[script [wei1 [Eevm [Eops [Ecm ->]]]]]]].
    - (* EVM failed *)
      split; [left; reflexivity|]. split; [lia|]. split; [lia|]. split; [exact R4|]. split; [auto|].
      split; [intros a _ HaS HaF; apply R5; assumption|]. split; [intros _; split; [exact R3|exact R1]|discriminate].
    - exfalso. apply Hns. reflexivity.
    - (* executed and committed *)
      assert (Hw0 : nonneg wei0).
      { intro a. unfold wei0, to_wei. pose proof (Hb1 a). pose proof WEI_pos. nia. }
      destruct (apply_ops_spec _ _ _ _ Hnd Eops Hw0) as [Hw1 [Hsumw Hunt]].
      destruct (commit_spec U wei1 b1 Hnd (fun a _ => Hw1 a) (fun a _ => Hb1 a)) as [bc' [Ecm' [C1 [C2 C3]]]].
      rewrite Ecm in Ecm'. inversion Ecm'; subst bc'. clear Ecm'.
      assert (Hbc : nonneg (bal bc)).
      { intro a. destruct (in_dec Nat.eq_dec a U) as [Hin|Hnin].
        - rewrite C1 by assumption. apply to_native_nonneg. apply Hw1.
        - rewrite C2 by assumption. apply Hb1. }
      (* an account the message does not touch keeps its balance through the EVM phase *)
      assert (Hkeep : forall a, untouched a t = true -> a <> S -> bal bc a = bal b1 a).
      { intros a Hu HaS. unfold untouched, script_of in Hu. rewrite Eevm in Hu.
        apply andb_true_iff in Hu as [Hu1 Hu2]. apply negb_true_iff in Hu1. apply negb_true_iff in Hu2.
        assert (Hwa : wei1 a = wei0 a).
        { apply Hunt. cbn [existsb op_touches]. rewrite Hu1, Hu2.
          assert (Nat.eqb S a = false) by (apply Nat.eqb_neq; auto). rewrite H. reflexivity. }
        destruct (in_dec Nat.eq_dec a U) as [Hin|Hnin].
        - rewrite C1 by assumption. rewrite Hwa. unfold wei0. apply to_native_to_wei.
        - apply C2. assumption. }
      pose proof (wf_collector_untouched _ _ Ht) as HuF. fold F in HuF.
      assert (HbcF : bal bc F = bal b1 F) by (apply Hkeep; auto).
      assert (Hsum0 : sumU wei0 U = WEI * sumU (bal b1) U).
      { unfold wei0, to_wei. rewrite <- sumU_scale. apply sumU_ext. intros; lia. }
      assert (Hsumc : sumU (bal bc) U = sumU (fun a => to_native (wei1 a)) U) by (apply sumU_ext; intros; apply C1; assumption).
      assert (Hle : sumU (fun a => to_native (wei1 a)) U <= sumU (bal b1) U).
      { eapply Z.le_trans; [apply sumU_native_le|].
        replace (sumU (bal b1) U) with (to_native (WEI * sumU (bal b1) U)).
        - apply to_native_mono. lia.
        - rewrite Z.mul_comm. apply to_native_to_wei. }
      split; [right; reflexivity|]. split; [lia|]. split; [lia|]. split; [lia|]. split; [auto|].
      split; [intros a Hu HaS HaF; rewrite R5 by assumption; apply Hkeep; assumption|].
      split; [discriminate|]. intros _. split.
      + intro Hwh. unfold whole_unibi, script_of in Hwh. rewrite Eevm in Hwh.
        assert (Hd0 : forall a, (WEI | wei0 a)) by (intro a; unfold wei0, to_wei; exists (bal b1 a); lia).
        assert (Hall : forallb op_whole (OTransfer S (t_to t) v :: script) = true).
        { cbn [forallb op_whole]. rewrite Hwh. unfold v, to_wei. rewrite Z.mod_mul by (pose proof WEI_pos; lia). reflexivity. }
        destruct (apply_ops_whole _ _ _ _ Hnd Eops Hall Hd0) as [D1 S1].
        pose proof (sumU_native_exact wei1 U (fun a _ => D1 a)) as Hex.
        pose proof WEI_pos. nia.
      + intro HuS. unfold untouched, script_of in HuS. rewrite Eevm in HuS. fold S in HuS.
        apply andb_true_iff in HuS as [HuS1 HuS2]. apply negb_true_iff in HuS1. apply negb_true_iff in HuS2.
        apply Nat.eqb_neq in HuS2.
        cbn [apply_ops] in Eops. destruct (apply_op U wei0 (OTransfer S (t_to t) v)) as [w1|] eqn:E1; [|discriminate].
        destruct (apply_ops_spec _ _ _ _ Hnd Eops) as [_ [_ Hunt']].
        { destruct (apply_op_spec _ _ _ _ Hnd E1 Hw0) as [N _]. exact N. }
        assert (HweiS : wei1 S = wei0 S - v).
        { rewrite Hunt' by assumption. cbn [apply_op] in E1.
          destruct (memb S U && memb (t_to t) U && (0 <=? v) && (v <=? wei0 S)); [|discriminate].
          inversion E1; subst. cbv zeta. rewrite upd_other by auto. apply upd_same. }
        assert (bal bc S = bal b1 S - to_native (t_value t)).
        { rewrite C1 by assumption. rewrite HweiS. unfold wei0, v, to_wei.
          replace (bal b1 S * WEI - to_native (t_value t) * WEI) with ((bal b1 S - to_native (t_value t)) * WEI) by ring.
          apply to_native_to_wei. }
        lia.
  Qed.
End RunMsg.

(* ------------------------------------------------------------------ sums over messages and signers *)

Fixpoint sumM (g : bmsg -> Z) (ms : list bmsg) : Z :=
  match ms with [] => 0 | m :: r => g m + sumM g r end.

Fixpoint sumL (h : nat -> Z) (l : list nat) : Z :=
  match l with [] => 0 | s :: r => h s + sumL h r end.

Definition pre_of (e : env) (m : bmsg) : Z := prepay (t_gas (snd m)) (price_of e m).
Definition ref_of (e : env) (m : bmsg) : Z := refund (t_gas (snd m)) (t_gas_used (snd m)) (price_of e m).
Definition used_of (e : env) (m : bmsg) : Z := t_gas_used (snd m) * price_of e m.

Lemma sum_prepay_sumM e ms : sum_prepay e ms = sumM (pre_of e) ms.
Proof. induction ms; simpl; [reflexivity|]. rewrite IHms. reflexivity. Qed.

Lemma sum_used_sumM e ms : sum_used e ms = sumM (used_of e) ms.
Proof. induction ms; simpl; [reflexivity|]. rewrite IHms. reflexivity. Qed.

Lemma sumM_msgs_of_cons g a m r :
  sumM g (msgs_of a (m :: r)) = (if Nat.eqb (fst m) a then g m else 0) + sumM g (msgs_of a r).
Proof. unfold msgs_of. simpl. destruct (Nat.eqb (fst m) a); simpl; lia. Qed.

Lemma In_dedup x l : In x (dedup l) <-> In x l.
Proof.
  induction l as [|y r IH]; simpl; [tauto|].
  destruct (existsb (Nat.eqb y) r) eqn:E.
  - rewrite IH. split; [auto|]. intros [->|H]; [|assumption].
    apply existsb_exists in E as [z [Hz He]]. apply Nat.eqb_eq in He. subst. assumption.
  - simpl. rewrite IH. tauto.
Qed.

Lemma NoDup_dedup l : NoDup (dedup l).
Proof.
  induction l as [|y r IH]; simpl; [constructor|].
  destruct (existsb (Nat.eqb y) r) eqn:E; [assumption|]. constructor; [|assumption].
  rewrite In_dedup. intro H.
  assert (existsb (Nat.eqb y) r = true) by (apply existsb_exists; exists y; split; auto; apply Nat.eqb_refl). congruence.
Qed.

Lemma In_signers s ms : In s (signers ms) <-> exists m, In m ms /\ fst m = s.
Proof.
  unfold signers. rewrite In_dedup, in_map_iff. split; intros [m [H1 H2]]; exists m; tauto.
Qed.

Lemma msgs_of_none a ms : ~ In a (signers ms) -> msgs_of a ms = [].
Proof.
  intro H. unfold msgs_of. induction ms as [|m r IH]; [reflexivity|]. simpl.
  destruct (Nat.eqb (fst m) a) eqn:E.
  - exfalso. apply H. apply In_signers. exists m. apply Nat.eqb_eq in E. split; [left; reflexivity|assumption].
  - apply IH. intro Hin. apply H. apply In_signers. apply In_signers in Hin as [m' [? ?]]. exists m'. split; [right; assumption|assumption].
Qed.

Lemma sumL_indicator s0 c l : NoDup l -> In s0 l -> sumL (fun s => if Nat.eqb s0 s then c else 0) l = c.
Proof.
  induction l as [|x r IH]; intros Hn Hin; [destruct Hin|]. inversion Hn; subst. simpl. destruct Hin as [->|Hin].
  - rewrite Nat.eqb_refl. assert (sumL (fun s => if Nat.eqb s0 s then c else 0) r = 0).
    { clear IH Hn H2. induction r as [|y r' IH']; [reflexivity|]. simpl.
      assert (Nat.eqb s0 y = false) by (apply Nat.eqb_neq; intro; subst; apply H1; left; reflexivity).
      rewrite H. rewrite IH'; [lia|]. intro; apply H1; right; assumption. }
    lia.
  - assert (Nat.eqb s0 x = false) by (apply Nat.eqb_neq; intro; subst; contradiction). rewrite H. rewrite IH by assumption. lia.
Qed.

Lemma sumL_add h k l : sumL (fun s => h s + k s) l = sumL h l + sumL k l.
Proof. induction l; simpl; lia. Qed.

Lemma sumL_ext h k l : (forall s, In s l -> h s = k s) -> sumL h l = sumL k l.
Proof. induction l as [|x r IH]; simpl; intro H; [reflexivity|]. rewrite (H x), IH; auto. Qed.

Lemma sumL_zero l : sumL (fun _ => 0) l = 0.
Proof. induction l; simpl; lia. Qed.

(** every message belongs to exactly one signer *)
Lemma sumM_partition g ms : sumM g ms = sumL (fun s => sumM g (msgs_of s ms)) (signers ms).
Proof.
  induction ms as [|m r IH]; [reflexivity|].
  cbn [sumM]. rewrite IH.
  assert (Hsplit : forall l, sumL (fun s => sumM g (msgs_of s (m :: r))) l =
                             sumL (fun s => if Nat.eqb (fst m) s then g m else 0) l + sumL (fun s => sumM g (msgs_of s r)) l).
  { intro l. rewrite <- sumL_add. apply sumL_ext. intros s _. apply sumM_msgs_of_cons. }
  unfold signers at 2. cbn [map dedup]. fold (signers r).
  destruct (existsb (Nat.eqb (fst m)) (map fst r)) eqn:E.
  - rewrite Hsplit. rewrite sumL_indicator; [reflexivity|apply NoDup_dedup|].
    apply In_dedup. apply existsb_exists in E as [z [Hz He]]. apply Nat.eqb_eq in He. subst. assumption.
  - cbn [sumL]. rewrite Hsplit. rewrite sumM_msgs_of_cons, Nat.eqb_refl. cbv iota.
    assert (Hnot : ~ In (fst m) (signers r)).
    { unfold signers. rewrite In_dedup. intro H.
      assert (existsb (Nat.eqb (fst m)) (map fst r) = true) by (apply existsb_exists; exists (fst m); split; auto; apply Nat.eqb_refl).
      congruence. }
    rewrite (msgs_of_none _ _ Hnot). cbn [sumM].
    rewrite (sumL_ext (fun s => if Nat.eqb (fst m) s then g m else 0) (fun _ => 0)).
    + rewrite sumL_zero. lia.
    + intros s Hs. assert (Nat.eqb (fst m) s = false) by (apply Nat.eqb_neq; intro; subst; contradiction). rewrite H. reflexivity.
Qed.

(** the fee bounds add up over any non-empty list of messages *)
Lemma sum_net_bounds e ms :
  0 <= e_base_fee e -> (forall m, In m ms -> 0 <= t_gas_used (snd m) <= t_gas (snd m)) -> ms <> [] ->
  let N := sumM (pre_of e) ms - sumM (ref_of e) ms in
  0 <= N <= sumM (pre_of e) ms /\
  WEI * N - Z.of_nat (length ms) * WEI < sumM (used_of e) ms < WEI * N + Z.of_nat (length ms) * WEI.
Proof.
  intros Hb H. induction ms as [|m r IH]; intro Hne; [congruence|]. cbv zeta.
  assert (Hp : 0 <= price_of e m).
  { unfold price_of. pose proof (eff_price_ge_base (t_fee (snd m)) (e_base_fee e)). lia. }
  pose proof (net_payment_bounds (t_gas (snd m)) (t_gas_used (snd m)) (price_of e m) (H m (or_introl eq_refl)) Hp) as [B1 B2].
  unfold net_payment in B1, B2. fold (pre_of e m) (ref_of e m) in B1, B2. fold (used_of e m) in B1.
  destruct r as [|m2 r2].
  - cbn [sumM length]. change (Z.of_nat 1) with 1. lia.
  - assert (Hr : forall m', In m' (m2 :: r2) -> 0 <= t_gas_used (snd m') <= t_gas (snd m')) by (intros; apply H; right; assumption).
    specialize (IH Hr). assert (Hne2 : m2 :: r2 <> []) by discriminate. specialize (IH Hne2). cbv zeta in IH.
    remember (m2 :: r2) as rr. cbn [sumM length]. rewrite Nat2Z.inj_succ. lia.
Qed.

(* ------------------------------------------------------------------ the two phases of a bundle *)

Record benv_wf (e : env) (ms : list bmsg) : Prop := {
  bw_nodup : NoDup (e_universe e);
  bw_collector : In (e_collector e) (e_universe e);
  bw_base : 0 <= e_base_fee e;
  bw_signers : forall m, In m ms -> In (fst m) (e_universe e) /\ fst m <> e_collector e;
  bw_tx : forall m, In m ms -> tx_wf (env_for e (fst m)) (snd m)
}.

Lemma env_for_wf e ms m : benv_wf e ms -> In m ms -> env_wf (env_for e (fst m)).
Proof.
  intros H Hm. destruct (bw_signers _ _ H m Hm) as [H1 H2].
  constructor; simpl; auto using (bw_nodup _ _ H), (bw_collector _ _ H), (bw_base _ _ H).
Qed.

Lemma benv_wf_tail e m r : benv_wf e (m :: r) -> benv_wf e r.
Proof.
  intro H. constructor; try apply H; intros; [apply (bw_signers _ _ H)|apply (bw_tx _ _ H)]; right; assumption.
Qed.

Lemma prepay_all_effect e ms : forall b b1,
  NoDup (e_universe e) -> In (e_collector e) (e_universe e) ->
  (forall m, In m ms -> In (fst m) (e_universe e) /\ fst m <> e_collector e) ->
  nonneg (bal b) -> prepay_all e b ms = Some b1 ->
  supply b1 = supply b /\ sumU (bal b1) (e_universe e) = sumU (bal b) (e_universe e) /\ nonneg (bal b1) /\
  bal b1 (e_collector e) = bal b (e_collector e) + sumM (pre_of e) ms /\
  (forall a, a <> e_collector e -> bal b1 a = bal b a - sumM (pre_of e) (msgs_of a ms)).
Proof.
  induction ms as [|[s t] r IH]; intros b b1 Hnd HF Hs Hb H.
  - simpl in H. inversion H; subst. simpl. repeat split; auto; intros; unfold msgs_of; simpl; lia.
  - cbn [prepay_all] in H.
    destruct (send b s (e_collector e) (prepay (t_gas t) (eff_price (t_fee t) (e_base_fee e)))) as [b'|] eqn:Es; [|discriminate].
    destruct (Hs (s, t) (or_introl eq_refl)) as [HsU HsF]. cbn [fst] in HsU, HsF.
    pose proof (send_spec _ _ _ _ _ Es) as [_ [S1 _]].
    pose proof (send_sum _ _ _ _ _ _ Es Hnd HsU HF) as S2.
    pose proof (send_nonneg _ _ _ _ _ Es Hb) as S3.
    destruct (send_bal _ _ _ _ _ Es HsF) as [A1 [A2 A3]].
    destruct (IH b' b1 Hnd HF (fun m Hm => Hs m (or_intror Hm)) S3 H) as [I1 [I2 [I3 [I4 I5]]]].
    split; [lia|]. split; [lia|]. split; [assumption|]. split.
    + rewrite I4, A2. cbn [sumM]. unfold pre_of at 2, price_of. cbn [fst snd]. lia.
    + intros a Ha. rewrite (I5 a Ha). rewrite sumM_msgs_of_cons. cbn [fst].
      destruct (Nat.eqb s a) eqn:E.
      * apply Nat.eqb_eq in E. subst a. rewrite A1. unfold pre_of at 2, price_of. cbn [fst snd]. lia.
      * apply Nat.eqb_neq in E. rewrite A3 by auto. lia.
Qed.

Lemma plain_cons a m r : plain a (m :: r) = untouched a (snd m) && plain a r.
Proof. reflexivity. Qed.

Lemma run_msgs_effect e ms : forall b1 b2 os,
  benv_wf e ms -> nonneg (bal b1) -> run_msgs e b1 ms = Some (b2, os) -> existsb is_stuck os = false ->
  let U := e_universe e in let F := e_collector e in
  length os = length ms /\
  supply b2 - supply b1 = sumU (bal b2) U - sumU (bal b1) U /\ supply b2 <= supply b1 /\ nonneg (bal b2) /\
  bal b2 F = bal b1 F - sumM (ref_of e) ms /\
  (forall a, plain a ms = true -> a <> F ->
     bal b2 a = bal b1 a + sumM (ref_of e) (msgs_of a ms) - values_sent a (combine ms os)) /\
  (forallb (fun x => whole_unibi (snd x)) ms = true -> supply b2 = supply b1).
Proof.
  induction ms as [|[s t] r IH]; intros b1 b2 os Hw Hb H Hst; cbv zeta.
  - simpl in H. inversion H; subst. simpl. repeat split; auto; intros; unfold msgs_of; simpl; lia.
  - cbn [run_msgs] in H.
    destruct (run_msg (env_for e s) b1 t) as [[bm o]|] eqn:Em; [|discriminate].
    destruct (run_msgs e bm r) as [[bx os']|] eqn:Er; [|discriminate]. inversion H; subst bx os. clear H.
    cbn [existsb] in Hst. apply orb_false_iff in Hst as [Hst1 Hst2].
    assert (Ho : o <> Stuck) by (intro; subst; discriminate).
    pose proof (env_for_wf e _ (s, t) Hw (or_introl eq_refl)) as Hew. cbn [fst] in Hew.
    pose proof (bw_tx _ _ Hw (s, t) (or_introl eq_refl)) as Htw. cbn [fst snd] in Htw.
    destruct (run_msg_effect (env_for e s) b1 t Hew Hb Htw bm o Em Ho) as [Hcls [E1 [E2 [E3 [E4 [E5 [E6 E7]]]]]]].
    cbn [e_signer e_collector e_universe e_base_fee env_for] in E1, E2, E3, E5, E6, E7.
    destruct (IH bm b2 os' (benv_wf_tail _ _ _ Hw) E4 Er Hst2) as [I1 [I2 [I3 [I4 [I5 [I6 I7]]]]]]. cbv zeta in I2, I5, I6.
    split; [simpl; lia|]. split; [lia|]. split; [lia|]. split; [assumption|]. split.
    + rewrite I5, E3. cbn [sumM]. unfold ref_of at 2, price_of. cbn [fst snd]. lia.
    + split.
      * intros a Hp HaF. rewrite plain_cons in Hp. cbn [snd] in Hp. apply andb_true_iff in Hp as [Hu Hpr].
        rewrite (I6 a Hpr HaF). rewrite sumM_msgs_of_cons. cbn [combine values_sent fst snd].
        destruct (Nat.eqb s a) eqn:E.
        -- apply Nat.eqb_eq in E. subst a. unfold ref_of at 2, price_of. cbn [fst snd].
           destruct Hcls as [-> | ->].
           ++ destruct (E6 eq_refl) as [V1 _]. lia.
           ++ destruct (E7 eq_refl) as [_ V2]. specialize (V2 Hu). lia.
        -- apply Nat.eqb_neq in E. rewrite (E5 a Hu) by auto. lia.
      * intro Hwh. cbn [forallb snd] in Hwh. apply andb_true_iff in Hwh as [Hw1 Hw2]. specialize (I7 Hw2).
        destruct Hcls as [-> | ->].
        -- destruct (E6 eq_refl) as [_ V]. lia.
        -- destruct (E7 eq_refl) as [V _]. specialize (V Hw1). lia.
Qed.

(* ------------------------------------------------------------------ the whole bundle *)

Definition bmk (e : env) (ms : list bmsg) (out : boutcome) (b b' : bank) : bmeas :=
  {| bm_env := e; bm_msgs := ms; bm_out := out; bm_before := b; bm_after := b' |}.

Definition no_stuck (o : boutcome) : Prop :=
  match o with BDone os => existsb is_stuck os = false | _ => True end.

Lemma sum_pay_sumL m os l : sum_pay m os l = sumL (pay m os) l.
Proof. induction l; simpl; [reflexivity|]. rewrite IHl. reflexivity. Qed.

Lemma sumL_sub h k l : sumL (fun s => h s - k s) l = sumL h l - sumL k l.
Proof. induction l; simpl; lia. Qed.

Lemma msgs_of_In a ms m : In m (msgs_of a ms) -> In m ms.
Proof. unfold msgs_of. intro H. apply filter_In in H. tauto. Qed.

Theorem bundle_satisfies_PB e b ms :
  benv_wf e ms -> nonneg (bal b) -> no_stuck (snd (deliver_bundle e b ms)) ->
  PB (bmk e ms (snd (deliver_bundle e b ms)) b (fst (deliver_bundle e b ms))).
Proof.
  intros Hw Hb. pose proof (bw_nodup _ _ Hw) as Hnd. pose proof (bw_collector _ _ Hw) as HF.
  unfold deliver_bundle. destruct (ante_bundle e b ms) as [b1|] eqn:Ea.
  2:{ intros _. cbn [fst snd]. unfold PB, bdsupply, bdelta. cbn [bm_out bm_env bm_msgs bm_after bm_before bmk].
      split; [rewrite (sumU_ext _ (fun _ => 0)) by (intros; lia); rewrite sumU_zero; lia|].
      split; [lia|]. split; [intros; lia|lia]. }
  assert (Hpa : prepay_all e b ms = Some b1).
  { unfold ante_bundle in Ea. destruct ms; [discriminate|]. destruct (_ && _) in Ea; [assumption|discriminate]. }
  destruct (prepay_all_effect e ms b b1 Hnd HF (bw_signers _ _ Hw) Hb Hpa) as [P1 [P2 [P3 [P4 P5]]]].
  assert (HsF : forall s, In s (signers ms) -> s <> e_collector e).
  { intros s Hs. apply In_signers in Hs as [m [Hm <-]]. apply (bw_signers _ _ Hw m Hm). }
  destruct (run_msgs e b1 ms) as [[b2 os]|] eqn:Er.
  2:{ (* the message phase failed: everybody has prepaid its own messages *)
      intros _. cbn [fst snd]. unfold PB, bdsupply, bdelta. cbn [bm_out bm_env bm_msgs bm_after bm_before bmk].
      split; [rewrite sumU_sub; lia|]. split; [lia|]. intros _.
      split; [|split; [|split]].
      - intros s Hs. rewrite (P5 s (HsF s Hs)). rewrite sum_prepay_sumM. lia.
      - rewrite P4, sum_prepay_sumM. lia.
      - intros a _ Hns HaF. rewrite (P5 a HaF). rewrite (msgs_of_none _ _ Hns). simpl. lia.
      - lia. }
  cbn [fst snd no_stuck]. intro Hst.
  destruct (run_msgs_effect e ms b1 b2 os Hw P3 Er Hst) as [R1 [R2 [R3 [R4 [R5 [R6 R7]]]]]]. cbv zeta in R2, R5, R6.
  unfold PB, bdsupply, bdelta. cbn [bm_out bm_env bm_msgs bm_after bm_before bmk].
  split; [rewrite sumU_sub; lia|]. split; [lia|].
  split; [exact R1|]. split; [exact Hst|].
  (* what signer s paid for gas *)
  assert (Hpay : forall s, In s (signers ms) -> plain s ms = true ->
            pay (bmk e ms (BDone os) b b2) os s = sumM (pre_of e) (msgs_of s ms) - sumM (ref_of e) (msgs_of s ms)).
  { intros s Hs Hp. unfold pay, bdelta. cbn [bm_msgs bm_after bm_before bmk].
    rewrite (R6 s Hp (HsF s Hs)), (P5 s (HsF s Hs)). lia. }
  split; [|split].
  - intros s Hs Hp. unfold signer_ok. cbv zeta. cbn [bm_env bm_msgs bmk]. rewrite (Hpay s Hs Hp).
    rewrite sum_prepay_sumM, sum_used_sumM. unfold count_msgs.
    apply sum_net_bounds.
    + apply (bw_base _ _ Hw).
    + intros m Hm. apply msgs_of_In in Hm. apply (wf_gas_used _ _ (bw_tx _ _ Hw m Hm)).
    + apply In_signers in Hs as [m [Hm Hf]]. intro Hnil.
      assert (In m (msgs_of s ms)) by (unfold msgs_of; apply filter_In; split; [assumption|apply Nat.eqb_eq; assumption]).
      rewrite Hnil in H. destruct H.
  - intros _ Hall. rewrite sum_pay_sumL.
    rewrite (sumL_ext _ (fun s => sumM (pre_of e) (msgs_of s ms) - sumM (ref_of e) (msgs_of s ms))).
    + rewrite sumL_sub. rewrite <- !sumM_partition. rewrite R5, P4. lia.
    + intros s Hs. apply Hpay; [assumption|]. rewrite forallb_forall in Hall. apply Hall. assumption.
  - intro Hwh. specialize (R7 Hwh). lia.
Qed.
