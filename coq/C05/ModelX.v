(** C05 — the EVM phase of one Ethereum tx on its TWO ledgers: the StateDB balances in wei and the bank of the
    StateDB's cache context, with what ties them together while the tx runs:

    - call frames that are reverted (RevertToSnapshot = journal unwind),
    - calls of the Nibiru precompiles (precompile.OnRunStart: CacheCtxForPrecompile, the PrecompileCalled journal
      entry, CommitCacheCtx = the intermediate flush of the dirty balances into the cache context; then the body:
      nothing, or a bank send followed by SyncStateDBWithAccount of both parties),
    - Keeper.SetAccBalance in its two bank steps (MintCoins to the EVM module account, then
      SendCoinsFromModuleToAccount — which the bank REFUSES for a blocked module account such as x/distribution
      or the fee collector; SendCoinsFromAccountToModule then BurnCoins), so that a flush can FAIL HALF-WAY,
    - StateDB.Commit at the end (cache context written to the tx context, then the same loop; an error there makes
      EthereumTx fail).

    [journal_first] is the order of the two steps of OnRunStart: [true] = the PrecompileCalled entry is journaled
    BEFORE the flush (the code as it stands; regenerated fact k_journal_before_flush), so the revert of the failing
    call restores the cache context; [false] = flush first (a failing flush leaves no journal entry).

    The flat model of Model.v ([deliver]) lists only the effects that took place; here the script says what the
    contract code DID ([xop]): transfers, frames with their outcome, precompile calls.  Which calls fail, what a
    reverted frame leaves behind and the net effects ([list op], for the predicate [P]) are computed.
    No proofs in this file. *)
From Coq Require Import List Bool Arith ZArith.
Import ListNotations.
Require Import Nib.C05.Model.
Open Scope Z_scope.

Record xcfg := {
  x_module : nat;           (* the EVM module account: SetAccBalance mints to it and burns from it *)
  x_blocked : list nat      (* accounts the bank refuses to credit (BankKeeper.BlockedAddr) *)
}.

Definition is_blocked (c : xcfg) (a : nat) : bool := memb a (x_blocked c).

(** Keeper.SetAccBalance; the bank state that was reached is returned also when a step fails *)
Definition set_acc_balance2 (c : xcfg) (b : bank) (a : nat) (target : Z) : bank * bool :=
  let M := x_module c in
  let delta := target - bal b a in
  if 0 <? delta then
    let b1 := mint b M delta in                       (* MintCoins(evm, delta) *)
    if is_blocked c a then (b1, false)                (* SendCoinsFromModuleToAccount: recipient is blocked *)
    else match send b1 M a delta with Some b2 => (b2, true) | None => (b1, false) end
  else if delta <? 0 then
    match send b a M (- delta) with                   (* SendCoinsFromAccountToModule *)
    | None => (b, false)
    | Some b1 => match burn b1 M (- delta) with Some b2 => (b2, true) | None => (b1, false) end   (* BurnCoins *)
    end
  else (b, true).

(** commitCtx over the accounts of the scenario: returns at the first error with what has been written so far.
    The EVM module account is never dirty (no op of a script touches it). *)
Fixpoint commit2 (c : xcfg) (U : list nat) (wei : nat -> Z) (b : bank) : bank * bool :=
  match U with
  | [] => (b, true)
  | a :: r =>
      if Nat.eqb a (x_module c) then commit2 c r wei b
      else let '(b1, ok) := set_acc_balance2 c b a (to_native (wei a)) in
           if ok then commit2 c r wei b1 else (b1, false)
  end.

(** state of a running EVM tx.  [s_snap]: the cache multistore saved by the OLDEST PrecompileCalled journal entry
    of the current call frame (entries of sub-frames that were kept included) — what a revert of the frame
    restores; [None]: the frame has no such entry and a revert leaves the cache context as it is. *)
Record xst := { s_wei : nat -> Z; s_cb : bank; s_snap : option bank }.

Inductive xop :=
| XOp (o : op)                               (* CALL with value (refused without effect when the balance does not cover it) / SELFDESTRUCT *)
| XFrame (body : list xop) (keep : bool)     (* a call frame; [keep = false]: it ends in a revert *)
| XPre (sends : list (nat * nat * Z)) (refuse : bool).
    (* call of a Nibiru precompile whose body makes the listed bank sends (x, y, n unibi) one after the other:
       [] = a query, one send = FunToken.bankMsgSend, several = Wasm.execute with funds and the bank messages the wasm
       contract dispatches; [refuse]: the body also dispatches a message that the chain refuses inside a running EVM
       state transition (MsgConvertCoinToEvm, MsgCreateFunToken, MsgEthereumTx): the call fails as a whole *)

Definition op_uses (a : nat) (o : op) : bool :=
  match o with
  | OTransfer x y _ => Nat.eqb x a || Nat.eqb y a
  | OSuicide x y => Nat.eqb x a || Nat.eqb y a
  end.

Definition call_refused (wei : nat -> Z) (o : op) : bool :=
  match o with OTransfer x _ w => wei x <? w | OSuicide _ _ => false end.

Definition restore (s0 s1 : xst) : xst :=     (* RevertToSnapshot to the start s0 of a frame that has reached s1 *)
  {| s_wei := s_wei s0;
     s_cb := match s_snap s1 with Some sn => sn | None => s_cb s1 end;
     s_snap := s_snap s0 |}.

Definition keep_frame (s0 s1 : xst) : xst :=
  {| s_wei := s_wei s1; s_cb := s_cb s1;
     s_snap := match s_snap s0 with Some sn => Some sn | None => s_snap s1 end |}.

Definition enter (s : xst) : xst := {| s_wei := s_wei s; s_cb := s_cb s; s_snap := None |}.

Inductive xres3 := XStuck | XRefused | XDone (s : xst) (net : list op).

(** the bank sends of a precompile body on the cache context, each followed by SyncStateDBWithAccount(from) and
    SyncStateDBWithAccount(to): StateDB balance := bank balance x 10^12 *)
Fixpoint xsends (c : xcfg) (U : list nat) (l : list (nat * nat * Z)) (s : xst) : xres3 :=
  match l with
  | [] => XDone s []
  | (x, y, n) :: r =>
      let M := x_module c in
      if memb x U && memb y U && negb (Nat.eqb x M) && negb (Nat.eqb y M) then
        if (n <=? 0) || is_blocked c y || (bal (s_cb s) x <? n) then XRefused      (* the bank refuses *)
        else
          match send (s_cb s) x y n with
          | None => XStuck
          | Some cb2 =>
              let w1 := upd (s_wei s) x (to_wei (bal cb2 x)) in
              let w2 := upd w1 y (to_wei (bal cb2 y)) in
              match xsends c U r {| s_wei := w2; s_cb := cb2; s_snap := s_snap s |} with
              | XDone s2 n2 => XDone s2 (OTransfer x y (to_wei n) :: n2)
              | other => other
              end
          end
      else XStuck
  end.

(** one precompile call (its own call frame).  Result: new state and the net effects. *)
Definition xpre (journal_first : bool) (c : xcfg) (U : list nat) (sends : list (nat * nat * Z)) (refuse : bool) (s : xst)
  : option (xst * list op) :=
  let saved := s_cb s in                                   (* CacheCtxForPrecompile: copy of the cache multistore *)
  let '(cb1, ok) := commit2 c U (s_wei s) (s_cb s) in      (* CommitCacheCtx *)
  if negb ok then
    (* OnRunStart returns the error, the call frame of the precompile is reverted: with the entry journaled first
       PrecompileCalled.Revert puts the saved multistore back; otherwise nothing does *)
    Some ({| s_wei := s_wei s; s_cb := if journal_first then saved else cb1; s_snap := s_snap s |}, [])
  else
    let snap1 := match s_snap s with Some sn => Some sn | None => Some saved end in
    match xsends c U sends {| s_wei := s_wei s; s_cb := cb1; s_snap := snap1 |} with
    | XStuck => None
    | XRefused =>
        (* the bank refuses: the precompile fails, its frame is reverted (the entry is journaled by now) *)
        Some ({| s_wei := s_wei s; s_cb := saved; s_snap := s_snap s |}, [])
    | XDone s2 net =>
        if refuse then Some ({| s_wei := s_wei s; s_cb := saved; s_snap := s_snap s |}, []) else Some (s2, net)
    end.

Fixpoint xexec (jf : bool) (c : xcfg) (U : list nat) (o : xop) (s : xst) {struct o} : option (xst * list op) :=
  match o with
  | XOp p =>
      if op_uses (x_module c) p then None
      else match apply_op U (s_wei s) p with
           | Some w' => Some ({| s_wei := w'; s_cb := s_cb s; s_snap := s_snap s |}, [p])
           | None => if call_refused (s_wei s) p then Some (s, []) else None
           end
  | XPre sends refuse => xpre jf c U sends refuse s
  | XFrame body keep =>
      match (fix go (l : list xop) (s' : xst) {struct l} : option (xst * list op) :=
               match l with
               | [] => Some (s', [])
               | o1 :: r =>
                   match xexec jf c U o1 s' with
                   | None => None
                   | Some (s1, n1) => match go r s1 with None => None | Some (s2, n2) => Some (s2, n1 ++ n2) end
                   end
               end) body (enter s) with
      | None => None
      | Some (s1, n) => if keep then Some (keep_frame s s1, n) else Some (restore s s1, [])
      end
  end.

Fixpoint xexecs (jf : bool) (c : xcfg) (U : list nat) (l : list xop) (s : xst) : option (xst * list op) :=
  match l with
  | [] => Some (s, [])
  | o1 :: r =>
      match xexec jf c U o1 s with
      | None => None
      | Some (s1, n1) => match xexecs jf c U r s1 with None => None | Some (s2, n2) => Some (s2, n1 ++ n2) end
      end
  end.

Definition set_evm (t : etx) (ev : evm_outcome) : etx :=
  {| t_fee := t_fee t; t_gas := t_gas t; t_value := t_value t; t_to := t_to t;
     t_intrinsic := t_intrinsic t; t_evm := ev; t_gas_used := t_gas_used t |}.

(** evm.Call of the message + StateDB.Commit.  [keep = false]: the top-level frame ends in a revert / runs out of
    gas (VM error).  None = EthereumTx returns an error (the final commit failed). *)
Definition evm_phase_x (jf : bool) (c : xcfg) (e : env) (b : bank) (t : etx) (xs : list xop) (keep : bool)
  : option (bank * outcome * list op) :=
  let S := e_signer e in
  let U := e_universe e in
  let v := to_wei (to_native (t_value t)) in
  let wei0 := fun a => to_wei (bal b a) in
  if wei0 S <? v then Some (b, VmErr, [])               (* ErrInsufficientBalance before the snapshot *)
  else
    let top := OTransfer S (t_to t) v in
    if op_uses (x_module c) top then Some (b, Stuck, [])
    else
    match apply_op U wei0 top with
    | None => Some (b, Stuck, [])
    | Some weiv =>
        let s0 := {| s_wei := wei0; s_cb := b; s_snap := None |} in
        match xexecs jf c U xs {| s_wei := weiv; s_cb := b; s_snap := None |} with
        | None => Some (b, Stuck, [])
        | Some (s1, net) =>
            let sf := if keep then s1 else restore s0 s1 in
            (* StateDB.Commit: the cache context is written to the tx context, then the accounts *)
            let '(bc, ok) := commit2 c U (s_wei sf) (s_cb sf) in
            if ok then Some (bc, if keep then Ok else VmErr, if keep then net else []) else None
        end
    end.

Definition run_msg_x (jf : bool) (c : xcfg) (e : env) (b : bank) (t : etx) (xs : list xop) (keep : bool)
  : option (bank * outcome * list op) :=
  let S := e_signer e in
  let p := eff_price (t_fee t) (e_base_fee e) in
  if t_gas t <? t_intrinsic t then None
  else if (0 <? t_value t) && (t_value t <? WEI) then None
  else
    match evm_phase_x jf c e b t xs keep with
    | None => None
    | Some (b1, o, net) =>
        let r := refund (t_gas t) (t_gas_used t) p in
        if r =? 0 then Some (b1, o, net)
        else match send b1 (e_collector e) S r with
             | None => None
             | Some b2 => Some (b2, o, net)
             end
    end.

(** DeliverTx of one MsgEthereumTx whose EVM run is the script [xs] in a top-level frame that is kept or not.
    The third component is the list of net effects (what [P] calls the script of the tx). *)
Definition deliver_x (jf : bool) (c : xcfg) (e : env) (b : bank) (t : etx) (xs : list xop) (keep : bool)
  : bank * outcome * list op :=
  match ante e b t with
  | None => (b, Rejected, [])
  | Some b1 =>
      match run_msg_x jf c e b1 t xs keep with
      | None => (b1, MsgErr, [])
      | Some r => r
      end
  end.

Record xtx := { xt_tx : etx; xt_script : list xop; xt_keep : bool }.

Fixpoint run_x (jf : bool) (c : xcfg) (e : env) (b : bank) (ts : list xtx) : bank * list outcome :=
  match ts with
  | [] => (b, [])
  | t :: r =>
      let '(b1, o, _) := deliver_x jf c e b (xt_tx t) (xt_script t) (xt_keep t) in
      let '(b2, os) := run_x jf c e b1 r in (b2, o :: os)
  end.
