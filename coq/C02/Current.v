(** C02 — the model configuration read off the facts regenerated from /repo (Gen/C02Facts.v). *)
Require Import Nib.C17.AnteFacts Nib.C02.Model Nib.Gen.C02Facts.

Definition current_cfg : cfg :=
  cfg_of_facts nonevm_chain evm_chain ext_switch guard_prevent_eth guard_authz wasm_handler sig_gas_consumer
               registered_ext_options eth_signers_from_signature verify_fee_of_total
               (apply_pre_nonce_call, apply_pre_nonce_create) (apply_post_nonce_call, apply_post_nonce_create) tx_price_facts.
