(** C02 — exported statements. *)
From Coq Require Import List Bool ZArith.
Require Import Nib.C17.AnteFacts Nib.C17.MsgTree Nib.C02.Model Nib.C02.Spec Nib.C02.Proofs.

Theorem C02_checker_sound : forall t, Pb t = true -> P t.
Proof. exact Pb_sound. Qed.
Print Assumptions C02_checker_sound.
