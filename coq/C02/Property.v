(** C02 — an Ethereum tx message executes only behind the EVM ante pipeline.
    This file holds only the exported statements.

    [c : cfg] is what the code is (read off the generated facts: the two decorator lists, the extension-option
    switch, the installed SigGasConsumer, what the wasm handler checks); [w : world] is the outside world:
    which addresses are Ethereum-key-derived ([w_is_eth]), which contracts dispatch messages for whom, the gov
    account, registered interchain accounts and the ICA allow-list.  Message trees are arbitrary: any depth,
    any mix of authz MsgExec / wasm dispatch / gov proposals / ICA packets, any sibling position, any grants.

    Hypotheses standing for cryptography / the SDK (not axioms; premises of every theorem):
      Hdisj = [world_ok w] (module, contract, interchain-account and sink addresses are not Ethereum-derived)
              and [tx_wf w x] (the address a MsgEthereumTx signature recovers to IS Ethereum-derived);
      Hsig  = [sig_accepts_eth c = false] inside [cfg_ok c] (the Cosmos signature path turns eth_secp256k1
              keys away) — tied to the generated fact "SigGasConsumer = DefaultSigVerificationGasConsumer inside
              SigGasConsumeDecorator" and probed by the harness on every run. *)
From Coq Require Import List Bool Arith ZArith.
Import ListNotations.
Require Import Nib.C17.AnteFacts Nib.C17.MsgTree Nib.C02.Model Nib.C02.Spec Nib.C02.Check Nib.C02.Proofs.
Local Open Scope Z_scope.

(** One transaction, any shape: every Ethereum message whose handler ran ([added] to the ghost trace) was a
    DIRECT message of a transaction carrying the EVM extension option, and the EVM ante chain admitted the
    transaction's messages in order — nonce equal to the sender's sequence and consumed, gas limit × price
    moved from the sender to the fee collector ([admit_seq]).  The grants invariant is kept. *)
Theorem C02_eth_handler_only_behind_evm_ante :
  forall (c : cfg) (w : world) (s : st) (x : tx),
    cfg_ok c -> world_ok w -> tx_wf w x -> grants_ok w s ->
    let s' := fst (deliver c w s x) in
    grants_ok w s' /\
    exists added, ran s' = added ++ ran s /\ forall l, In l added -> admitted_in s x l.
Proof. exact deliver_eth_only_behind_evm_ante. Qed.
Print Assumptions C02_eth_handler_only_behind_evm_ante.

(** Over every history: each Ethereum message that ever ran did so in some transaction of the history,
    as a direct message, behind the EVM ante chain, in the state that transaction was delivered in. *)
Theorem C02_history_eth_handler_only_behind_evm_ante :
  forall (c : cfg) (w : world) (s0 : st) (h : list tx),
    cfg_ok c -> world_ok w -> Forall (tx_wf w) h -> grants_ok w s0 ->
    grants_ok w (run_history c w s0 h) /\
    forall l, In l (ran (run_history c w s0 h)) ->
      In l (ran s0) \/ exists h1 x h2, h = h1 ++ x :: h2 /\ admitted_in (run_history c w s0 h1) x l.
Proof. exact history_eth_only_behind_evm_ante. Qed.
Print Assumptions C02_history_eth_handler_only_behind_evm_ante.

(** A message whose signer is not Ethereum-derived — at ANY nesting depth under ANY wrappers — never reaches
    the Ethereum handler, never touches an Ethereum account's nonce or balance, never creates a grant whose
    granter is Ethereum-derived (structural induction over message trees). *)
Theorem C02_no_wrapper_reaches_the_eth_handler :
  forall (w : world) (c : cfg), world_ok w -> wasm_signer c = true -> signer_recovered c = true ->
  forall t, msg_wf w t -> forall s s', w_is_eth w (signer_msg c t) = false -> grants_ok w s ->
    run_msg c w t s = Some s' -> grants_ok w s' /\ frame w s s'.
Proof. exact run_non_eth. Qed.
Print Assumptions C02_no_wrapper_reaches_the_eth_handler.

(** A transaction that does not go the EVM route leaves every Ethereum account's nonce and balance and the
    ghost trace exactly as they were. *)
Theorem C02_cosmos_tx_leaves_eth_accounts_untouched :
  forall (w : world) (c : cfg), world_ok w -> wasm_signer c = true -> signer_recovered c = true ->
    sig_on c = true -> sig_accepts_eth c = false ->
  forall s x, tx_wf w x -> grants_ok w s -> route_tx c (t_ext x) = RouteNonEVM ->
    let s' := fst (deliver c w s x) in
    grants_ok w s' /\ ran s' = ran s /\
    forall a, w_is_eth w a = true -> seq_of s' a = seq_of s a /\ bal_of s' a = bal_of s a.
Proof. exact nonevm_deliver_frame. Qed.
Print Assumptions C02_cosmos_tx_leaves_eth_accounts_untouched.

(** Corollary: nobody can rewind an account nonce. *)
Theorem C02_nonce_never_rewound :
  forall (c : cfg) (w : world) (s : st) (x : tx),
    cfg_ok c -> world_ok w -> tx_wf w x -> grants_ok w s ->
    forall a, w_is_eth w a = true -> (seq_of s a <= seq_of (fst (deliver c w s x)) a)%nat.
Proof. exact nonce_never_rewound. Qed.
Print Assumptions C02_nonce_never_rewound.

(** NONCE MATCHED AND CONSUMED ONCE, as seen on the state DeliverTx commits.  A transaction on the EVM route is either
    turned away by the ante chain and changes nothing, or every message's nonce equalled its sender's sequence
    ([admit_seq]) and afterwards every sender's sequence has advanced by EXACTLY the number of its messages — whether
    the messages succeeded or failed as a whole (gas limit below the intrinsic gas) and whatever each EVM execution
    did: contract creation or call, ran to its end, REVERT, invalid opcode, out of gas, or refused for lack of funds
    for the value BEFORE the EVM touched the nonce ([eth_exec]). *)
Theorem C02_admitted_nonce_consumed_exactly_once :
  forall (c : cfg) (w : world) (s : st) (x : tx),
    cfg_ok c -> route_tx c (t_ext x) = RouteEVM ->
    (evm_ante c w s x = None /\ deliver c w s x = (s, false)) \/
    (exists ls s1, evm_ante c w s x = Some s1 /\ direct_eth (t_msgs x) = Some ls /\ admit_seq s ls s1 /\
       forall b, seq_of (fst (deliver c w s x)) b = (seq_of s b + count_from b ls)%nat).
Proof. exact evm_tx_consumes_nonces_once. Qed.
Print Assumptions C02_admitted_nonce_consumed_exactly_once.

(** A nonce once admitted is never admitted again: after the ante chain admitted [x] — whatever then happened to its
    messages, whatever history follows — every transaction carrying a message with the same sender and nonce, in
    particular the very same signed bytes delivered again by anybody, is turned away and changes nothing. *)
Theorem C02_admitted_nonce_never_admitted_again :
  forall (c : cfg) (w : world) (s : st) (x : tx) (h : list tx) (y : tx),
    cfg_ok c -> world_ok w -> tx_wf w x -> Forall (tx_wf w) h -> grants_ok w s ->
    route_tx c (t_ext x) = RouteEVM -> route_tx c (t_ext y) = RouteEVM ->
    forall s1 a n g p v xi g' p' v' xi',
      evm_ante c w s x = Some s1 ->
      In (Leaf (EthTx a n g p v xi)) (t_msgs x) -> In (Leaf (EthTx a n g' p' v' xi')) (t_msgs y) ->
      let t := run_history c w (fst (deliver c w s x)) h in
      evm_ante c w t y = None /\ deliver c w t y = (t, false).
Proof. exact admitted_nonce_never_admitted_again. Qed.
Print Assumptions C02_admitted_nonce_never_admitted_again.

(** Corollary: nobody receives a gas refund that was not paid for — the refund the handler credits is covered
    by what the EVM ante chain took from the same sender in the same transaction. *)
Theorem C02_refund_covered_by_prepayment :
  forall (c : cfg) (w : world) (s : st) (x : tx),
    cfg_ok c -> e_vb c = true -> world_ok w -> tx_wf w x -> grants_ok w s ->
    forall a, w_is_eth w a = true -> bal_of (fst (deliver c w s x)) a <= bal_of s a.
Proof. exact refund_covered_by_prepayment. Qed.
Print Assumptions C02_refund_covered_by_prepayment.

(** Per message, for every gas limit, every amount of gas used and every (non-negative) wei price — whole unibi or
    not: the refund WeiToNative(leftover gas × price) never exceeds the prepayment WeiToNative(gas limit × price). *)
Theorem C02_refund_le_prepayment_any_wei_price :
  forall g used p, 0 <= p -> 0 <= used -> refund_of g used p <= prepay true g p.
Proof. exact refund_le_exact_prepay. Qed.
Print Assumptions C02_refund_le_prepayment_any_wei_price.

(** Per transaction type, for whatever the code's per-type price functions are ([fee_floor] / [refund_floor], generated
    from LegacyTx / AccessListTx / DynamicFeeTx): as long as the ante handler's deduction (EffectiveFeeWei) and the msg
    server's refund (EffectiveGasPriceWeiPerGas) price the gas at the SAME price, the refund never exceeds the
    prepayment. *)
Theorem C02_refund_le_prepayment_same_price_both_sides :
  forall c g used p x,
    pay_price c p x = refund_price c p x -> 0 <= refund_price c p x -> 0 <= used ->
    refund_of g used (refund_price c p x) <= prepay true g (pay_price c p x).
Proof. exact refund_le_prepay_same_price. Qed.
Print Assumptions C02_refund_le_prepayment_same_price_both_sides.

(** What "admitted" means, as a function of the ante chain: with the gas and nonce decorators installed, a
    successful EVM ante pass is an admission of every message in order. *)
Theorem C02_evm_ante_admits :
  forall c ms s s1, e_gas c = true -> fee_exact c = true -> e_seq c = true -> (forall ty, fee_floor c ty = true) ->
    evm_admit c ms s = Some s1 -> exists ls, direct_eth ms = Some ls /\ admit_seq s ls s1.
Proof. exact evm_admit_admits. Qed.
Print Assumptions C02_evm_ante_admits.

Theorem C02_cfg_checker_sound : forall c, cfg_okb c = true -> cfg_ok c.
Proof. exact cfg_okb_sound. Qed.
Print Assumptions C02_cfg_checker_sound.

(** The boolean checker evaluated on implementation traces is sound for [P]. *)
Theorem C02_checker_sound : forall t, Pb t = true -> P t.
Proof. exact Pb_sound. Qed.
Print Assumptions C02_checker_sound.

(** ---- each hypothesis is needed: dropping it is refuted by a concrete history ---- *)

(** Hsig dropped (Cosmos signature path accepting eth_secp256k1 keys): handler ran in a tx without the EVM
    extension option, nonce rewound, unpaid refund credited. *)
Theorem C02_refuted_if_eth_keys_sign_cosmos_txs :
  exists h x a, Forall (tx_wf harness_world) (h ++ [x]) /\ violated_by cfg_eth_keys_accepted h x a.
Proof. exact refuted_if_eth_keys_sign_cosmos_txs. Qed.
Print Assumptions C02_refuted_if_eth_keys_sign_cosmos_txs.

(** MsgEthereumTx.GetSigners reading the unsigned `From` field instead of recovering the signer. *)
Theorem C02_refuted_if_signers_read_from_field :
  exists h x a, Forall (tx_wf harness_world) (h ++ [x]) /\ violated_by cfg_signer_from_field h x a.
Proof. exact refuted_if_signers_read_from_field. Qed.
Print Assumptions C02_refuted_if_signers_read_from_field.

(** VerifyFee pricing the gas limit with the price truncated to whole unibi per gas. *)
Theorem C02_refuted_if_fee_priced_per_truncated_gas_price :
  exists x a, tx_wf harness_world x /\ t_ext x = EvmExt /\
    bal_of harness_init a < bal_of (fst (deliver cfg_fee_per_gas harness_world harness_init x)) a.
Proof. exact refuted_if_fee_priced_per_truncated_gas_price. Qed.
Print Assumptions C02_refuted_if_fee_priced_per_truncated_gas_price.

(** AccessListTx.EffectiveFeeWei without the base-fee floor while the refund price keeps it: a type-1 transaction naming
    1 wei per gas is accepted, prepays nothing and ends with MORE than it had. *)
Theorem C02_refuted_if_access_list_fee_not_floored :
  exists x a, tx_wf harness_world x /\ t_ext x = EvmExt /\
    snd (deliver cfg_access_fee_not_floored harness_world harness_init x) = true /\
    bal_of harness_init a < bal_of (fst (deliver cfg_access_fee_not_floored harness_world harness_init x)) a.
Proof. exact refuted_if_access_list_fee_not_floored. Qed.
Print Assumptions C02_refuted_if_access_list_fee_not_floored.

(** ApplyEvmMsg no longer writing msg.nonce + 1 after evm.Create: a creation with a value the sender cannot pay on
    top of the gas prepayment is admitted, charged, included — and leaves the sequence where it was; the same signed
    bytes are admitted a second time. *)
Theorem C02_refuted_if_create_skips_post_nonce :
  exists x l, tx_wf harness_world x /\ t_ext x = EvmExt /\
    let d1 := deliver cfg_create_nonce_not_bumped harness_world harness_init x in
    let d2 := deliver cfg_create_nonce_not_bumped harness_world (fst d1) x in
    snd d1 = true /\ seq_of (fst d1) 23 = seq_of harness_init 23 /\ bal_of (fst d1) 23 < bal_of harness_init 23 /\
    snd d2 = true /\ ran (fst d2) = [l; l].
Proof. exact refuted_if_create_skips_post_nonce. Qed.
Print Assumptions C02_refuted_if_create_skips_post_nonce.

(** The wasm handler's "signer must be the contract" check dropped. *)
Theorem C02_refuted_if_wasm_signer_unchecked :
  exists h x a, Forall (tx_wf harness_world) (h ++ [x]) /\ violated_by cfg_wasm_signer_unchecked h x a.
Proof. exact refuted_if_wasm_signer_unchecked. Qed.
Print Assumptions C02_refuted_if_wasm_signer_unchecked.

(** The nonce decorator dropped from the EVM chain: a signed message executes twice. *)
Theorem C02_refuted_if_nonce_decorator_dropped :
  exists h l, ran (run_history cfg_no_nonce_check harness_world harness_init h) = [l; l].
Proof. exact refuted_if_nonce_decorator_dropped. Qed.
Print Assumptions C02_refuted_if_nonce_decorator_dropped.
