(** C02 — proofs (placeholder of the vertical slice). *)
Require Import Nib.C17.AnteFacts Nib.C17.MsgTree Nib.C02.Model Nib.C02.Spec.
