(** C02 — proofs: the Ethereum msg-server handler runs only for direct messages of a transaction
    that went through the EVM ante chain, which checked and consumed the nonce and took gas × price. *)
From Coq Require Import List Bool Arith ZArith Lia.
Import ListNotations.
Require Import Nib.C17.AnteFacts Nib.C17.MsgTree Nib.C17.MsgTreeFacts Nib.C02.Model Nib.C02.Spec Nib.C02.Check.
Local Open Scope Z_scope.

(** ---------------------------------------------------------------- lookups *)
Lemma seq_of_set_seq s a n b : seq_of (set_seq s a n) b = if Nat.eqb b a then n else seq_of s b.
Proof. unfold seq_of, set_seq. simpl. reflexivity. Qed.
Lemma bal_of_set_seq s a n b : bal_of (set_seq s a n) b = bal_of s b.
Proof. reflexivity. Qed.
Lemma bal_of_add_bal s a d b : bal_of (add_bal s a d) b = if Nat.eqb b a then bal_of s a + d else bal_of s b.
Proof. unfold bal_of, add_bal. simpl. reflexivity. Qed.
Lemma seq_of_add_bal s a d b : seq_of (add_bal s a d) b = seq_of s b.
Proof. reflexivity. Qed.
Lemma seq_of_add_fee s d b : seq_of (add_fee s d) b = seq_of s b.
Proof. reflexivity. Qed.
Lemma bal_of_add_fee s d b : bal_of (add_fee s d) b = bal_of s b.
Proof. reflexivity. Qed.
Lemma seq_of_add_ran s l b : seq_of (add_ran s l) b = seq_of s b.
Proof. reflexivity. Qed.
Lemma bal_of_add_ran s l b : bal_of (add_ran s l) b = bal_of s b.
Proof. reflexivity. Qed.

(** ---------------------------------------------------------------- the Ethereum msg server on one message *)
(** gas reported by the EVM lies between 0 and the gas limit *)
Lemma eth_exec_used s a g v x :
  0 <= x_intr x -> 0 <= x_exec x -> x_intr x <= g -> 0 <= r_used (eth_exec s a g v x) <= g.
Proof.
  intros Hi He Hg. unfold eth_exec.
  destruct (bal_of s a <? v); simpl; [lia|].
  destruct (g - x_intr x <? x_exec x) eqn:E; simpl; [lia|].
  apply Z.ltb_ge in E. destruct (x_out x); simpl; lia.
Qed.

Lemma bal_if_set (t : bool) s a n b : bal_of (if t then set_seq s a n else s) b = bal_of s b.
Proof. destruct t; reflexivity. Qed.
Lemma bal_pre_apply c k s a n b : bal_of (pre_apply c k s a n) b = bal_of s b.
Proof. unfold pre_apply. destruct (pre_nonce c k); reflexivity. Qed.

(** a successful handler run, spelled out *)
Lemma leaf_run_eth_form c w s a n g p v x s1 :
  leaf_run c w s (EthTx a n g p v x) = Some s1 ->
  x_intr x <= g /\
  let r := eth_exec s a g v x in
  let s0 := pre_apply c (x_kind x) s a n in
  let s1' := if r_evm_nonce r then set_seq s0 a (S (seq_of s0 a)) else s0 in
  let s2 := if post_nonce c (x_kind x) then set_seq s1' a (S n) else s1' in
  let s3 := if r_ok r then add_bal (add_bal s2 a (- v)) (w_sink w) v else s2 in
  let refund := refund_of g (r_used r) (refund_price c p x) in
  s1 = add_ran (add_fee (add_bal s3 a refund) (- refund)) (EthTx a n g p v x).
Proof.
  unfold leaf_run. destruct (g <? x_intr x) eqn:Hg; [discriminate|]. apply Z.ltb_ge in Hg.
  cbv zeta. destruct (feecol s <? _); [discriminate|]. intro H. inversion H. split; [exact Hg|reflexivity].
Qed.

Lemma leaf_run_eth_ran c w s a n g p v x s1 :
  leaf_run c w s (EthTx a n g p v x) = Some s1 -> ran s1 = EthTx a n g p v x :: ran s /\ grants s1 = grants s.
Proof.
  intro H. apply leaf_run_eth_form in H as [_ H]. cbv zeta in H. subst s1.
  unfold pre_apply. destruct (r_ok _), (r_evm_nonce _), (pre_nonce c _), (post_nonce c _); split; reflexivity.
Qed.

(** the handler writes msg.nonce + 1 — when the write after the EVM invocation is there for this kind of message *)
Lemma leaf_run_eth_seq c w s a n g p v x s1 :
  post_nonce c (x_kind x) = true ->
  leaf_run c w s (EthTx a n g p v x) = Some s1 ->
  forall b, seq_of s1 b = if Nat.eqb b a then S n else seq_of s b.
Proof.
  intros Hp H b. apply leaf_run_eth_form in H as [_ H]. cbv zeta in H. subst s1. rewrite Hp.
  rewrite seq_of_add_ran, seq_of_add_fee, seq_of_add_bal.
  destruct (r_ok _); rewrite ?seq_of_add_bal, seq_of_set_seq; (destruct (Nat.eqb b a) eqn:E; [reflexivity|]);
    unfold pre_apply; destruct (r_evm_nonce _), (pre_nonce c _); rewrite ?seq_of_set_seq, ?E; reflexivity.
Qed.

(** without it the sequence may end anywhere at or above msg.nonce (never below: needs the reset or the admission) *)

(** the only credit to the sender is the refund, never more than gas limit × price *)
Lemma leaf_run_eth_bal c w s a n g p v x s1 :
  refund_price c p x = p ->
  0 <= p -> 0 <= v -> 0 <= x_intr x -> 0 <= x_exec x ->
  leaf_run c w s (EthTx a n g p v x) = Some s1 ->
  forall b, b <> w_sink w -> bal_of s1 b <= bal_of s b + (if Nat.eqb b a then (g * p) / WEI else 0).
Proof.
  intros Hrp Hp Hv Hi He H b Hb. apply leaf_run_eth_form in H as [Hg H]. cbv zeta in H. subst s1. rewrite Hrp.
  pose proof (eth_exec_used s a g v x Hi He Hg) as Hu.
  assert (Hle : refund_of g (r_used (eth_exec s a g v x)) p <= g * p / WEI).
  { unfold refund_of. apply Z.div_le_mono; [unfold WEI; lia|nia]. }
  rewrite bal_of_add_ran, bal_of_add_fee, bal_of_add_bal.
  destruct (Nat.eqb b (w_sink w)) eqn:E1; [apply Nat.eqb_eq in E1; contradiction|].
  destruct (r_ok _); rewrite ?bal_of_add_bal, ?E1, !bal_if_set, ?bal_pre_apply; destruct (Nat.eqb b a) eqn:E2;
    try (apply Nat.eqb_eq in E2; subst b); rewrite ?bal_if_set, ?bal_pre_apply, ?E1, ?Nat.eqb_refl; lia.
Qed.

(** ---------------------------------------------------------------- hypotheses about the outside world *)
Section World.
  Variable w : world.

  (** Hdisj: addresses of module accounts, contracts, interchain accounts and the sink are not
      Ethereum-key-derived *)
  Record world_ok : Prop := {
    gov_non_eth : w_is_eth w (w_gov w) = false;
    sink_non_eth : w_is_eth w (w_sink w) = false;
    contracts_non_eth : forall ctr snd, w_reflects w ctr snd = true -> w_is_eth w ctr = false;
    ica_non_eth : forall a, w_ica_acct w a = true -> w_is_eth w a = false
  }.

  (** Hdisj, other half: the address a MsgEthereumTx signature recovers to IS Ethereum-key-derived *)
  Definition leaf_wf (l : leaf) : Prop :=
    match l with EthTx a _ _ _ _ _ | EthTxAs _ a _ _ _ _ _ => w_is_eth w a = true | _ => True end.
  Definition msg_wf (t : msg) : Prop := Forall leaf_wf (leaves leaf t).
  Definition tx_wf (x : tx) : Prop := Forall msg_wf (t_msgs x).

  (** invariant over histories: no authz grant has an Ethereum-derived granter *)
  Definition grants_ok (s : st) : Prop := forall a b k, In (a, b, k) (grants s) -> w_is_eth w a = false.

  (** nothing Ethereum-related moved *)
  Definition frame (s s' : st) : Prop :=
    ran s' = ran s /\ feecol s' = feecol s /\
    forall a, w_is_eth w a = true -> seq_of s' a = seq_of s a /\ bal_of s' a = bal_of s a.

  Lemma frame_refl s : frame s s.
  Proof. repeat split; auto. Qed.

  Lemma frame_trans s1 s2 s3 : frame s1 s2 -> frame s2 s3 -> frame s1 s3.
  Proof.
    intros (A1 & B1 & C1) (A2 & B2 & C2). repeat split; try congruence.
    - destruct (C1 a H), (C2 a H). congruence.
    - destruct (C1 a H), (C2 a H). congruence.
  Qed.

  Lemma granted_In s a b k : granted s a b k = true -> exists k', In (a, b, k') (grants s).
  Proof.
    unfold granted. intro H. apply existsb_exists in H as ([[a' b'] k'] & Hin & H).
    apply andb_true_iff in H as [H _]. apply andb_true_iff in H as [Ha Hb].
    apply Nat.eqb_eq in Ha, Hb. subst. eauto.
  Qed.

  Lemma msg_wf_children (cs : list msg) c0 :
    Forall leaf_wf (flat_map (leaves leaf) cs) -> In c0 cs -> msg_wf c0.
  Proof.
    intros H Hin. unfold msg_wf. apply Forall_forall. intros l Hl.
    rewrite Forall_forall in H. apply H. apply in_flat_map. eauto.
  Qed.

  (** ---------------------------------------------------------------- unfolding equations *)
  Variable c : cfg.

  Lemma run_msg_leaf l s : run_msg c w (Leaf l) s = leaf_run c w s l.
  Proof. reflexivity. Qed.
  Lemma run_msg_exec g cs s :
    run_msg c w (Exec g cs) s =
    seq_opt (run_msg c w) (fun s c0 => authz_ok leaf (leaf_signer (signer_recovered c)) leaf_kind st granted s g c0) cs s.
  Proof. reflexivity. Qed.
  Lemma run_msg_wasm snd ctr cs s :
    run_msg c w (Wasm snd ctr cs) s =
    if w_reflects w ctr snd && negb (Nat.eqb (List.length cs) 0)
    then seq_opt (run_msg c w) (fun _ c0 => basic_msg c0 && wasm_admits c ctr c0) cs s
    else None.
  Proof. reflexivity. Qed.
  Lemma run_msg_gov p cs s :
    run_msg c w (Gov p cs) s =
    if forallb (fun c0 => basic_msg c0 && Nat.eqb (signer_msg c c0) (w_gov w)) cs then Some s else None.
  Proof. reflexivity. Qed.
  Lemma run_msg_ica r a cs s :
    run_msg c w (Ica r a cs) s =
    if w_ica_acct w a then
      match seq_opt (run_msg c w) (fun _ c0 => w_ica_allow w (kind_of leaf leaf_kind c0) && Nat.eqb (signer_msg c c0) a) cs s with
      | Some s' => Some s'
      | None => Some s
      end
    else Some s.
  Proof. reflexivity. Qed.

  (** ---------------------------------------------------------------- the tree lemma *)
  Hypothesis Hw : world_ok.
  Hypothesis Hwasm : wasm_signer c = true.
  Hypothesis Hrecov : signer_recovered c = true.   (* GetSigners = the address recovered from the signature *)

  (** A message whose signer is not Ethereum-derived — at any depth, under any wrappers — never reaches the
      Ethereum handler and never creates a grant with an Ethereum-derived granter. *)
  Lemma run_non_eth :
    forall t, msg_wf t ->
    forall s s', w_is_eth w (signer_msg c t) = false -> grants_ok s -> run_msg c w t s = Some s' ->
    grants_ok s' /\ frame s s'.
  Proof.
    intro t.
    induction t as [l|g cs IH|snd ct cs IH|p cs IH|r a cs IH] using (tree_ind' leaf); intros Hwf s s' Hsig Hg Hrun.
    - rewrite run_msg_leaf in Hrun. unfold msg_wf in Hwf. simpl in Hwf. inversion Hwf as [|? ? Hl _]. subst.
      unfold signer_msg in Hsig. simpl in Hsig. rewrite Hrecov in Hsig.
      destruct l as [a n gas price value xi|from|a b k|cl a n gas price value xi]; simpl in Hsig, Hl; [congruence| | |congruence]; simpl in Hrun.
      + destruct (bal_of s from <? 1); [discriminate|]. inversion Hrun. subst. split; [exact Hg|].
        repeat split; auto. rewrite !bal_of_add_bal.
        destruct (Nat.eqb a (w_sink w)) eqn:E1.
        * apply Nat.eqb_eq in E1. subst. rewrite (sink_non_eth Hw) in H. discriminate.
        * destruct (Nat.eqb a from) eqn:E2; [|reflexivity].
          apply Nat.eqb_eq in E2. subst. congruence.
      + inversion Hrun. subst. split; [|repeat split; reflexivity].
        intros a' b' k' [E|Hin]; [inversion E; subst; exact Hsig|]. eapply Hg; eauto.
    - rewrite run_msg_exec in Hrun. rewrite Forall_forall in IH.
      refine (seq_opt_inv_weak _ _ (fun s1 => grants_ok s1 /\ frame s s1) _ _ s s' (conj Hg (frame_refl s)) Hrun).
      intros c0 Hin s1 s2 [Hg1 Hf1] Hok Hr.
      assert (Hs0 : w_is_eth w (signer_msg c c0) = false).
      { unfold authz_ok in Hok. apply orb_true_iff in Hok as [E|E].
        - apply Nat.eqb_eq in E. unfold signer_msg. rewrite E. exact Hsig.
        - apply granted_In in E as (k' & Hk). eapply Hg1; eauto. }
      destruct (IH c0 Hin (msg_wf_children cs c0 Hwf Hin) s1 s2 Hs0 Hg1 Hr) as [Hg2 Hf2].
      split; [exact Hg2|eapply frame_trans; eauto].
    - rewrite run_msg_wasm in Hrun.
      destruct (w_reflects w ct snd) eqn:Hrefl; simpl in Hrun; [|discriminate].
      destruct (negb (Nat.eqb (List.length cs) 0)); [|discriminate].
      rewrite Forall_forall in IH.
      refine (seq_opt_inv_weak _ _ (fun s1 => grants_ok s1 /\ frame s s1) _ _ s s' (conj Hg (frame_refl s)) Hrun).
      intros c0 Hin s1 s2 [Hg1 Hf1] Hok Hr.
      assert (Hs0 : w_is_eth w (signer_msg c c0) = false).
      { apply andb_true_iff in Hok as [_ Hadm]. unfold wasm_admits in Hadm. rewrite Hwasm in Hadm. simpl in Hadm.
        apply andb_true_iff in Hadm as [E _]. apply Nat.eqb_eq in E. unfold signer_msg. rewrite E.
        eapply contracts_non_eth; eauto. }
      destruct (IH c0 Hin (msg_wf_children cs c0 Hwf Hin) s1 s2 Hs0 Hg1 Hr) as [Hg2 Hf2].
      split; [exact Hg2|eapply frame_trans; eauto].
    - rewrite run_msg_gov in Hrun.
      match type of Hrun with (if ?b then _ else _) = _ => destruct b end; [|discriminate].
      inversion Hrun. subst. split; [exact Hg|apply frame_refl].
    - rewrite run_msg_ica in Hrun.
      destruct (w_ica_acct w a) eqn:Hacct; [|inversion Hrun; subst; split; [exact Hg|apply frame_refl]].
      match type of Hrun with match ?q with _ => _ end = _ => destruct q as [s2|] eqn:E end;
        inversion Hrun; subst; [|split; [exact Hg|apply frame_refl]].
      rewrite Forall_forall in IH.
      refine (seq_opt_inv_weak _ _ (fun s1 => grants_ok s1 /\ frame s s1) _ _ s s' (conj Hg (frame_refl s)) E).
      intros c0 Hin s1 s3 [Hg1 Hf1] Hok Hr.
      assert (Hs0 : w_is_eth w (signer_msg c c0) = false).
      { apply andb_true_iff in Hok as [_ E1]. apply Nat.eqb_eq in E1. rewrite E1. eapply ica_non_eth; eauto. }
      destruct (IH c0 Hin (msg_wf_children cs c0 Hwf Hin) s1 s3 Hs0 Hg1 Hr) as [Hg2 Hf2].
      split; [exact Hg2|eapply frame_trans; eauto].
  Qed.

  Lemma run_msgs_non_eth ms signer0 :
    Forall msg_wf ms -> w_is_eth w signer0 = false ->
    forallb (fun m => Nat.eqb (signer_msg c m) signer0) ms = true ->
    forall s s', grants_ok s -> run_msgs c w ms s = Some s' -> grants_ok s' /\ frame s s'.
  Proof.
    intros Hwf Hs0 Hall s s' Hg Hrun. unfold run_msgs in Hrun.
    refine (seq_opt_inv_weak _ _ (fun s1 => grants_ok s1 /\ frame s s1) _ _ s s' (conj Hg (frame_refl s)) Hrun).
    intros m Hin s1 s2 [Hg1 Hf1] _ Hr.
    rewrite forallb_forall in Hall. specialize (Hall m Hin). apply Nat.eqb_eq in Hall.
    rewrite Forall_forall in Hwf.
    destruct (run_non_eth m (Hwf m Hin) s1 s2) as [Hg2 Hf2]; auto; [congruence|].
    split; [exact Hg2|eapply frame_trans; eauto].
  Qed.

  (** ---------------------------------------------------------------- the non-EVM route *)
  Hypothesis Hsigon : sig_on c = true.
  Hypothesis Hsig : sig_accepts_eth c = false.   (* Hsig: the Cosmos signature path turns eth_secp256k1 keys away *)

  (** eth accounts, the ghost trace and the grants invariant after the non-EVM ante handler *)
  Lemma nonevm_ante_frame s x s1 :
    nonevm_ante c w s x = Some s1 ->
    w_is_eth w (t_signer x) = false /\
    forallb (fun m => Nat.eqb (signer_msg c m) (t_signer x)) (t_msgs x) = true /\
    grants s1 = grants s /\ ran s1 = ran s /\
    forall a, w_is_eth w a = true -> seq_of s1 a = seq_of s a /\ bal_of s1 a = bal_of s a.
  Proof.
    unfold nonevm_ante. rewrite Hsigon.
    match goal with |- (if ?b then _ else _) = _ -> _ => destruct b eqn:Hcond end; [|discriminate].
    intro H. inversion H. subst. clear H.
    repeat (apply andb_true_iff in Hcond as [Hcond ?]).
    match goal with Hk : key_ok c w x && _ = true |- _ => apply andb_true_iff in Hk as [Hkey Hall] end.
    assert (Hne : w_is_eth w (t_signer x) = false).
    { unfold key_ok in Hkey. rewrite Hsig in Hkey. destruct (t_key x); simpl in Hkey; try discriminate.
      destruct (w_is_eth w (t_signer x)); [discriminate|reflexivity]. }
    split; [exact Hne|]. split; [exact Hall|].
    destruct (fee_on c) eqn:Hfee; destruct (seq_on c); simpl; repeat split; auto; try lia;
      try (rewrite ?seq_of_set_seq, ?bal_of_set_seq, ?seq_of_add_fee, ?bal_of_add_fee, ?seq_of_add_bal, ?bal_of_add_bal;
           destruct (Nat.eqb a (t_signer x)) eqn:E; [apply Nat.eqb_eq in E; subst; congruence|reflexivity]).
  Qed.

  Theorem nonevm_deliver_frame s x :
    tx_wf x -> grants_ok s -> route_tx c (t_ext x) = RouteNonEVM ->
    let s' := fst (deliver c w s x) in
    grants_ok s' /\ ran s' = ran s /\
    forall a, w_is_eth w a = true -> seq_of s' a = seq_of s a /\ bal_of s' a = bal_of s a.
  Proof.
    intros Hwf Hg Hroute. unfold deliver. rewrite Hroute.
    destruct (nonevm_ante c w s x) as [s1|] eqn:Ha; simpl; [|repeat split; auto].
    destruct (nonevm_ante_frame s x s1 Ha) as (Hne & Hall & Hgr & Hran & Heth).
    assert (Hg1 : grants_ok s1) by (unfold grants_ok; rewrite Hgr; exact Hg).
    destruct (run_msgs c w (t_msgs x) s1) as [s2|] eqn:Hr; simpl.
    - destruct (run_msgs_non_eth (t_msgs x) (t_signer x) Hwf Hne Hall s1 s2 Hg1 Hr) as [Hg2 (Hr2 & _ & He2)].
      split; [exact Hg2|]. split; [congruence|].
      intros a Ha'. destruct (Heth a Ha'), (He2 a Ha'). split; congruence.
    - split; [exact Hg1|]. split; [exact Hran|exact Heth].
  Qed.
End World.

(** ---------------------------------------------------------------- the EVM route *)
Lemma direct_eth_parts ms ls :
  direct_eth ms = Some ls -> Forall (fun m => exists l, m = Leaf l /\ is_eth_leaf l = true) ms.
Proof.
  revert ls. induction ms as [|m ms IH]; intros ls H; [constructor|].
  simpl in H. destruct m as [[a n g p v xi|?|? ? ?|? ? ? ? ? ? ?]| | | |]; try discriminate.
  destruct (direct_eth ms) as [r|] eqn:E; [|discriminate].
  constructor; [eexists; split; [reflexivity|reflexivity]|]. eapply IH; eauto.
Qed.

(** when the gas and nonce decorators are installed, a successful EVM ante pass IS an admission of every
    message, in order: nonce = sequence, sequence + 1, gas × price moved to the fee collector *)
Lemma evm_admit_admits c ms s s1 :
  e_gas c = true -> fee_exact c = true -> e_seq c = true -> (forall ty, fee_floor c ty = true) ->
  evm_admit c ms s = Some s1 -> exists ls, direct_eth ms = Some ls /\ admit_seq s ls s1.
Proof.
  intros Hgas Hexact Hseq Hfl. revert s. induction ms as [|m ms IH]; intros s H; simpl in H.
  - inversion H. subst. exists []. split; [reflexivity|constructor].
  - destruct m as [[a n g p v xi|?|? ? ?|? ? ? ? ? ? ?]| | | |]; simpl in H; try discriminate.
    unfold evm_admit_one, pay_price in H. rewrite Hfl, Hgas, Hseq, Hexact in H. unfold prepay in H.
    destruct (bal_of s a <? g * p / WEI) eqn:Hb; [discriminate|].
    rewrite seq_of_add_fee, seq_of_add_bal in H.
    destruct (Nat.eqb n (seq_of s a)) eqn:Hn; [|discriminate].
    apply IH in H as (ls & Hd & Hadm). exists (EthTx a n g p v xi :: ls). split.
    + simpl. rewrite Hd. reflexivity.
    + apply Nat.eqb_eq in Hn. constructor; auto. lia.
Qed.

Lemma run_msgs_cons c w m ms s :
  run_msgs c w (m :: ms) s = match run_msg c w m s with Some s1 => run_msgs c w ms s1 | None => None end.
Proof. reflexivity. Qed.

(** the handlers of direct Ethereum messages append exactly those messages to the ghost trace *)
Lemma run_direct_eth c w ms ls :
  direct_eth ms = Some ls ->
  forall s s', run_msgs c w ms s = Some s' -> ran s' = rev ls ++ ran s /\ grants s' = grants s.
Proof.
  revert ls. induction ms as [|m ms IH]; intros ls Hd s s' Hrun.
  - simpl in Hd. inversion Hd. subst. unfold run_msgs in Hrun. simpl in Hrun. inversion Hrun. subst. auto.
  - simpl in Hd. destruct m as [[a n g p v xi|?|? ? ?|? ? ? ? ? ? ?]| | | |]; try discriminate.
    destruct (direct_eth ms) as [r|] eqn:E; [|discriminate]. inversion Hd. subst. clear Hd.
    rewrite run_msgs_cons, run_msg_leaf in Hrun.
    destruct (leaf_run c w s (EthTx a n g p v xi)) as [s1|] eqn:Hl; [|discriminate].
    destruct (IH r eq_refl s1 s' Hrun) as [Hr Hg].
    apply leaf_run_eth_ran in Hl as [Hl1 Hl2]. split; [|congruence].
    rewrite Hr, Hl1. simpl. rewrite <- app_assoc. reflexivity.
Qed.

(** ---------------------------------------------------------------- what must hold of the code *)
Definition cfg_ok (c : cfg) : Prop :=
  sig_on c = true /\ sig_accepts_eth c = false /\ wasm_signer c = true /\ signer_recovered c = true /\
  e_gas c = true /\ fee_exact c = true /\ e_seq c = true /\ e_sig c = true /\
  post_nonce_call c = true /\ post_nonce_create c = true /\
  route_tx c NoExt = RouteNonEVM /\ route_tx c OtherExt <> RouteEVM /\
  (route_tx c EvmExt = RouteEVM \/ route_tx c EvmExt = RouteReject) /\
  (* both sides of the gas accounting price the gas at the effective price max(base fee, named price), for every
     transaction type *)
  (forall ty, fee_floor c ty = true) /\ (forall ty, refund_floor c ty = true).

Definition route_eqb (a b : route) : bool :=
  match a, b with
  | RouteNonEVM, RouteNonEVM | RouteEVM, RouteEVM | RouteReject, RouteReject | RouteUnknown, RouteUnknown => true
  | _, _ => false
  end.

Lemma route_eqb_eq a b : route_eqb a b = true <-> a = b.
Proof. destruct a, b; simpl; split; intro H; try discriminate; auto. Qed.

Definition cfg_okb (c : cfg) : bool :=
  sig_on c && negb (sig_accepts_eth c) && wasm_signer c && signer_recovered c && e_gas c && fee_exact c && e_seq c && e_sig c &&
  post_nonce_call c && post_nonce_create c &&
  route_eqb (route_tx c NoExt) RouteNonEVM && negb (route_eqb (route_tx c OtherExt) RouteEVM) &&
  (route_eqb (route_tx c EvmExt) RouteEVM || route_eqb (route_tx c EvmExt) RouteReject) &&
  forallb (fun ty => fee_floor c ty && refund_floor c ty) [TLegacy; TAccess; TDynamic].

Lemma cfg_okb_sound c : cfg_okb c = true -> cfg_ok c.
Proof.
  unfold cfg_okb, cfg_ok. intro H. apply andb_true_iff in H as [H Hfl].
  assert (Hall : forall ty, fee_floor c ty = true /\ refund_floor c ty = true).
  { intro ty. rewrite forallb_forall in Hfl. apply andb_true_iff. apply Hfl. destruct ty; simpl; auto. }
  repeat (apply andb_true_iff in H as [H ?]).
  repeat split; auto; try (intro ty; apply Hall).
  - destruct (sig_accepts_eth c); [discriminate|reflexivity].
  - now apply route_eqb_eq.
  - intro E. apply route_eqb_eq in E. rewrite E in *. discriminate.
  - apply orb_true_iff in H0 as [E|E]; apply route_eqb_eq in E; auto.
Qed.

Lemma cfg_ok_floor c : cfg_ok c -> (forall ty, fee_floor c ty = true) /\ (forall ty, refund_floor c ty = true).
Proof. intros (_ & _ & _ & _ & _ & _ & _ & _ & _ & _ & _ & _ & _ & H1 & H2). split; assumption. Qed.

Lemma cfg_ok_refund_price c p x : cfg_ok c -> refund_price c p x = p.
Proof. intro Hc. unfold refund_price. rewrite (proj2 (cfg_ok_floor c Hc)). reflexivity. Qed.

Lemma cfg_ok_post_nonce c k : cfg_ok c -> post_nonce c k = true.
Proof. intros (_ & _ & _ & _ & _ & _ & _ & _ & H1 & H2 & _). destruct k; assumption. Qed.

(** ---------------------------------------------------------------- the main statement, one transaction *)
(** [l] ran behind the EVM ante pipeline in transaction [x] delivered in state [s] *)
Definition admitted_in (s : st) (x : tx) (l : leaf) : Prop :=
  t_ext x = EvmExt /\ In (Leaf l) (t_msgs x) /\
  exists ls s1, direct_eth (t_msgs x) = Some ls /\ In l ls /\ admit_seq s ls s1.

Lemma direct_eth_In ms ls l : direct_eth ms = Some ls -> In l ls -> In (Leaf l) ms.
Proof.
  revert ls. induction ms as [|m ms IH]; intros ls H Hin; simpl in H.
  - inversion H. subst. contradiction.
  - destruct m as [[a n g p v xi|?|? ? ?|? ? ? ? ? ? ?]| | | |]; try discriminate.
    destruct (direct_eth ms) as [r|] eqn:E; [|discriminate]. inversion H. subst.
    destruct Hin as [<-|Hin]; [now left|right; eapply IH; eauto].
Qed.

Lemma direct_eth_In_rev ms ls l : direct_eth ms = Some ls -> In (Leaf l) ms -> In l ls.
Proof.
  revert ls. induction ms as [|m ms IH]; intros ls H Hin; simpl in H; [contradiction|].
  destruct m as [[a n g p v xi|?|? ? ?|? ? ? ? ? ? ?]| | | |]; try discriminate.
  destruct (direct_eth ms) as [r|] eqn:E; [|discriminate]. inversion H. subst.
  destruct Hin as [E1|Hin]; [inversion E1; now left|right; eapply IH; eauto].
Qed.

(** the EVM ante chain succeeded only if its message loop did *)
Lemma evm_ante_admit c w s x s1 : evm_ante c w s x = Some s1 -> evm_admit c (t_msgs x) s = Some s1.
Proof. unfold evm_ante. match goal with |- context [if ?b then _ else _] => destruct b end; [auto|discriminate]. Qed.

Theorem deliver_eth_only_behind_evm_ante c w s x :
  cfg_ok c -> world_ok w -> tx_wf w x -> grants_ok w s ->
  let s' := fst (deliver c w s x) in
  grants_ok w s' /\
  exists added, ran s' = added ++ ran s /\ forall l, In l added -> admitted_in s x l.
Proof.
  intros Hc Hw Hwf Hg.
  pose proof Hc as (Hsigon & Hsig & Hwasm & Hrecov & Hgas & Hexact & Hseq & _ & _ & _ & Hno & Hother & Hevm).
  destruct (route_tx c (t_ext x)) eqn:Hroute.
  - (* non-EVM route: nothing runs *)
    destruct (nonevm_deliver_frame w c Hw Hwasm Hrecov Hsigon Hsig s x Hwf Hg Hroute) as (Hg' & Hran & _).
    split; [exact Hg'|]. exists []. split; [exact Hran|]. intros l [].
  - (* EVM route *)
    assert (Hext : t_ext x = EvmExt).
    { destruct (t_ext x); auto; congruence. }
    unfold deliver. rewrite Hroute. unfold evm_ante.
    match goal with |- context [if ?b then _ else _] => destruct b end;
      [|simpl; split; [exact Hg|exists []; split; [reflexivity|intros l []]]].
    destruct (evm_admit c (t_msgs x) s) as [s1|] eqn:Ha;
      [|simpl; split; [exact Hg|exists []; split; [reflexivity|intros l []]]].
    destruct (evm_admit_admits c _ _ _ Hgas Hexact Hseq (proj1 (cfg_ok_floor c Hc)) Ha) as (ls & Hd & Hadm).
    assert (Hgr1 : grants s1 = grants s).
    { clear -Hadm. induction Hadm; [reflexivity|]. rewrite IHHadm. reflexivity. }
    assert (Hran1 : ran s1 = ran s).
    { clear -Hadm. induction Hadm; [reflexivity|]. rewrite IHHadm. reflexivity. }
    destruct (run_msgs c w (t_msgs x) s1) as [s2|] eqn:Hr; simpl.
    + destruct (run_direct_eth c w _ _ Hd s1 s2 Hr) as [Hran2 Hgr2].
      split; [unfold grants_ok; rewrite Hgr2, Hgr1; exact Hg|].
      exists (rev ls). split; [rewrite Hran2, Hran1; reflexivity|].
      intros l Hin. apply in_rev in Hin. split; [exact Hext|]. split; [eapply direct_eth_In; eauto|].
      exists ls, s1. auto.
    + split; [unfold grants_ok; rewrite Hgr1; exact Hg|]. exists []. split; [exact Hran1|]. intros l [].
  - unfold deliver. rewrite Hroute. simpl. split; [exact Hg|]. exists []. split; [reflexivity|]. intros l [].
  - unfold deliver. rewrite Hroute. simpl. split; [exact Hg|]. exists []. split; [reflexivity|]. intros l [].
Qed.

(** ---------------------------------------------------------------- histories *)
Lemma run_history_app c w s h1 h2 : run_history c w s (h1 ++ h2) = run_history c w (run_history c w s h1) h2.
Proof. unfold run_history. apply fold_left_app. Qed.

Theorem history_eth_only_behind_evm_ante c w s0 h :
  cfg_ok c -> world_ok w -> Forall (tx_wf w) h -> grants_ok w s0 ->
  grants_ok w (run_history c w s0 h) /\
  forall l, In l (ran (run_history c w s0 h)) ->
    In l (ran s0) \/
    exists h1 x h2, h = h1 ++ x :: h2 /\ admitted_in (run_history c w s0 h1) x l.
Proof.
  intros Hc Hw Hwf Hg.
  induction h as [|x h IH] using rev_ind.
  - simpl. split; [exact Hg|]. intros l Hl. now left.
  - apply Forall_app in Hwf as [Hwf1 Hwf2]. inversion Hwf2 as [|? ? Hx _]. subst.
    destruct (IH Hwf1) as [Hg1 Hran1]. rewrite run_history_app.
    change (run_history c w (run_history c w s0 h) [x]) with (fst (deliver c w (run_history c w s0 h) x)).
    destruct (deliver_eth_only_behind_evm_ante c w (run_history c w s0 h) x Hc Hw Hx Hg1) as [Hg2 (added & Hadd & Hall)].
    split; [exact Hg2|].
    intros l Hl. rewrite Hadd in Hl. apply in_app_or in Hl as [Hl|Hl].
    + right. exists h, x, []. split; [reflexivity|]. apply Hall. exact Hl.
    + destruct (Hran1 l Hl) as [H0|(h1 & y & h2 & E & Hy)]; [now left|].
      right. exists h1, y, (h2 ++ [x]). split; [|exact Hy]. rewrite E. rewrite <- app_assoc. reflexivity.
Qed.

(** ---------------------------------------------------------------- nonces: matched, consumed once, never again *)

(** admission only moves sequences forward, and every admitted nonce is at least the sender's sequence
    at the start of the transaction *)
Lemma admit_seq_mono s ls s1 : admit_seq s ls s1 -> forall b, (seq_of s b <= seq_of s1 b)%nat.
Proof.
  induction 1 as [|s a n g p v xi r s' Hn Hb _ IH]; intro b; [lia|].
  specialize (IH b). rewrite seq_of_set_seq in IH. rewrite seq_of_add_fee, seq_of_add_bal in IH.
  destruct (Nat.eqb b a) eqn:E; [apply Nat.eqb_eq in E; subst; lia|lia].
Qed.

Lemma admit_seq_nonce_ge s ls s1 :
  admit_seq s ls s1 -> forall a n g p v xi, In (EthTx a n g p v xi) ls -> (seq_of s a <= n)%nat.
Proof.
  induction 1 as [|s a n g p v xi r s' Hn Hb Hadm IH]; intros a' n' g' p' v' xi' Hin; [contradiction|].
  destruct Hin as [E|Hin].
  - inversion E. subst. lia.
  - specialize (IH a' n' g' p' v' xi' Hin). rewrite seq_of_set_seq in IH. rewrite seq_of_add_fee, seq_of_add_bal in IH.
    destruct (Nat.eqb a' a) eqn:E; [apply Nat.eqb_eq in E; subst; lia|lia].
Qed.

(** … and below the sender's sequence after the admission: the nonce is used up *)
Lemma admit_seq_nonce_lt s ls s1 :
  admit_seq s ls s1 -> forall a n g p v xi, In (EthTx a n g p v xi) ls -> (n < seq_of s1 a)%nat.
Proof.
  induction 1 as [|s a n g p v xi r s' Hn Hb Hadm IH]; intros a' n' g' p' v' xi' Hin; [contradiction|].
  destruct Hin as [E|Hin]; [|eapply IH; eauto].
  inversion E. subst. pose proof (admit_seq_mono _ _ _ Hadm a') as Hm.
  rewrite seq_of_set_seq, Nat.eqb_refl in Hm. lia.
Qed.

(** the admission advances every sender's sequence by the number of its messages: each nonce is consumed once *)
Lemma admit_seq_count s ls s1 : admit_seq s ls s1 -> forall b, seq_of s1 b = (seq_of s b + count_from b ls)%nat.
Proof.
  induction 1 as [|s a n g p v xi r s' Hn Hb _ IH]; intro b; [unfold count_from; simpl; lia|].
  rewrite (IH b), seq_of_set_seq, seq_of_add_fee, seq_of_add_bal. unfold count_from. simpl.
  destruct (Nat.eqb b a) eqn:E; simpl; [apply Nat.eqb_eq in E; subst; lia|lia].
Qed.

(** what the msg server writes into the sequences, message by message: msg.nonce + 1 for the sender *)
Definition step_seq (b : addr) (cur : nat) (l : leaf) : nat :=
  match l with EthTx a n _ _ _ _ => if Nat.eqb b a then S n else cur | _ => cur end.

Lemma run_direct_eth_fold c w ms ls :
  cfg_ok c -> direct_eth ms = Some ls ->
  forall s s', run_msgs c w ms s = Some s' -> forall b, seq_of s' b = fold_left (step_seq b) ls (seq_of s b).
Proof.
  intro Hc. revert ls. induction ms as [|m ms IH]; intros ls Hd s s' Hrun b.
  - simpl in Hd. inversion Hd. subst. unfold run_msgs in Hrun. simpl in Hrun. inversion Hrun. reflexivity.
  - simpl in Hd. destruct m as [[a n g p v xi|?|? ? ?|? ? ? ? ? ? ?]| | | |]; try discriminate.
    destruct (direct_eth ms) as [r|] eqn:E; [|discriminate]. inversion Hd. subst. clear Hd.
    rewrite run_msgs_cons, run_msg_leaf in Hrun.
    destruct (leaf_run c w s (EthTx a n g p v xi)) as [s1|] eqn:Hl; [|discriminate].
    rewrite (IH r eq_refl s1 s' Hrun b). simpl.
    rewrite (leaf_run_eth_seq c w s a n g p v xi s1 (cfg_ok_post_nonce c _ Hc) Hl b). reflexivity.
Qed.

Lemma admit_seq_fold s ls s1 :
  admit_seq s ls s1 ->
  forall b v, fold_left (step_seq b) ls v = if Nat.eqb (count_from b ls) 0 then v else seq_of s1 b.
Proof.
  induction 1 as [|s a n g p v xi r s' Hn Hb Hadm IH]; intros b v0; [reflexivity|].
  simpl. unfold count_from. simpl. destruct (Nat.eqb b a) eqn:E; simpl.
  - rewrite IH. fold (count_from b r). destruct (Nat.eqb (count_from b r) 0) eqn:E0; [|reflexivity].
    apply Nat.eqb_eq in E0. rewrite (admit_seq_count _ _ _ Hadm b), E0, seq_of_set_seq, E. lia.
  - apply IH.
Qed.

(** with the committed msg server, the handlers of an admitted transaction leave every sequence exactly where the
    ante chain put it *)
Lemma run_admitted_keeps_seq c w ms ls s s1 s2 :
  cfg_ok c -> direct_eth ms = Some ls -> admit_seq s ls s1 -> run_msgs c w ms s1 = Some s2 ->
  forall b, seq_of s2 b = seq_of s1 b.
Proof.
  intros Hc Hd Hadm Hr b. rewrite (run_direct_eth_fold c w ms ls Hc Hd s1 s2 Hr b), (admit_seq_fold _ _ _ Hadm b).
  destruct (Nat.eqb _ 0); reflexivity.
Qed.

Lemma deliver_evm_unfold c w s x :
  route_tx c (t_ext x) = RouteEVM ->
  deliver c w s x = match evm_ante c w s x with
                    | None => (s, false)
                    | Some s1 => match run_msgs c w (t_msgs x) s1 with Some s2 => (s2, true) | None => (s1, false) end
                    end.
Proof. intro H. unfold deliver. rewrite H. reflexivity. Qed.

(** NONCE MATCHED AND CONSUMED ONCE, on the state DeliverTx commits: a transaction on the EVM route is either turned
    away by the ante chain (nothing changes) or every message's nonce equalled its sender's sequence ([admit_seq])
    and afterwards — whether the messages succeeded or failed as a whole, whatever each EVM execution did (ran,
    reverted, ran out of gas, was refused for lack of funds before the EVM touched the nonce) — every sender's
    sequence has advanced by exactly the number of its messages *)
Theorem evm_tx_consumes_nonces_once c w s x :
  cfg_ok c -> route_tx c (t_ext x) = RouteEVM ->
  (evm_ante c w s x = None /\ deliver c w s x = (s, false)) \/
  (exists ls s1, evm_ante c w s x = Some s1 /\ direct_eth (t_msgs x) = Some ls /\ admit_seq s ls s1 /\
     forall b, seq_of (fst (deliver c w s x)) b = (seq_of s b + count_from b ls)%nat).
Proof.
  intros Hc Hroute. rewrite (deliver_evm_unfold c w s x Hroute).
  pose proof Hc as (_ & _ & _ & _ & Hgas & Hexact & Hseq & _).
  destruct (evm_ante c w s x) as [s1|] eqn:Ha; [right|left; auto].
  destruct (evm_admit_admits c _ _ _ Hgas Hexact Hseq (proj1 (cfg_ok_floor c Hc)) (evm_ante_admit _ _ _ _ _ Ha)) as (ls & Hd & Hadm).
  exists ls, s1. repeat split; auto. intro b.
  destruct (run_msgs c w (t_msgs x) s1) as [s2|] eqn:Hr; simpl.
  - rewrite (run_admitted_keeps_seq c w _ ls s s1 s2 Hc Hd Hadm Hr b). apply admit_seq_count. exact Hadm.
  - apply admit_seq_count. exact Hadm.
Qed.

(** no transaction — of any shape, through any route — rewinds the sequence (nonce) of an
    Ethereum-derived account *)
Theorem nonce_never_rewound c w s x :
  cfg_ok c -> world_ok w -> tx_wf w x -> grants_ok w s ->
  forall a, w_is_eth w a = true -> (seq_of s a <= seq_of (fst (deliver c w s x)) a)%nat.
Proof.
  intros Hc Hw Hwf Hg a Ha.
  pose proof Hc as (Hsigon & Hsig & Hwasm & Hrecov & Hgas & Hexact & Hseq & _ & _ & _ & Hno & Hother & Hevm).
  destruct (route_tx c (t_ext x)) eqn:Hroute.
  - destruct (nonevm_deliver_frame w c Hw Hwasm Hrecov Hsigon Hsig s x Hwf Hg Hroute) as (_ & _ & He).
    destruct (He a Ha) as [E _]. simpl in E. rewrite E. lia.
  - destruct (evm_tx_consumes_nonces_once c w s x Hc Hroute) as [[_ E]|(ls & s1 & _ & _ & _ & E)].
    + rewrite E. simpl. lia.
    + rewrite E. lia.
  - unfold deliver. rewrite Hroute. simpl. lia.
  - unfold deliver. rewrite Hroute. simpl. lia.
Qed.

Lemma history_grants_ok c w s h :
  cfg_ok c -> world_ok w -> Forall (tx_wf w) h -> grants_ok w s -> grants_ok w (run_history c w s h).
Proof. intros Hc Hw Hwf Hg. exact (proj1 (history_eth_only_behind_evm_ante c w s h Hc Hw Hwf Hg)). Qed.

Lemma history_seq_mono c w h :
  cfg_ok c -> world_ok w -> Forall (tx_wf w) h ->
  forall s, grants_ok w s -> forall a, w_is_eth w a = true -> (seq_of s a <= seq_of (run_history c w s h) a)%nat.
Proof.
  intros Hc Hw. induction h as [|x h IH]; intros Hwf s Hg a Ha; [simpl; lia|].
  inversion Hwf as [|? ? Hx Hh]. subst.
  change (run_history c w s (x :: h)) with (run_history c w (fst (deliver c w s x)) h).
  pose proof (nonce_never_rewound c w s x Hc Hw Hx Hg a Ha) as H1.
  assert (Hg1 : grants_ok w (fst (deliver c w s x))).
  { exact (proj1 (deliver_eth_only_behind_evm_ante c w s x Hc Hw Hx Hg)). }
  pose proof (IH Hh _ Hg1 a Ha). lia.
Qed.

(** A NONCE ONCE ADMITTED IS NEVER ADMITTED AGAIN: after the EVM ante chain admitted a transaction [x], whatever
    happened to its messages and whatever history [h] follows, every transaction [y] carrying a message with the same
    sender and nonce as one of [x]'s — in particular the very same signed bytes delivered again — is turned away by
    the ante chain and changes nothing *)
Theorem admitted_nonce_never_admitted_again c w s x h y :
  cfg_ok c -> world_ok w -> tx_wf w x -> Forall (tx_wf w) h -> grants_ok w s ->
  route_tx c (t_ext x) = RouteEVM -> route_tx c (t_ext y) = RouteEVM ->
  forall s1 a n g p v xi g' p' v' xi',
    evm_ante c w s x = Some s1 ->
    In (Leaf (EthTx a n g p v xi)) (t_msgs x) -> In (Leaf (EthTx a n g' p' v' xi')) (t_msgs y) ->
    let t := run_history c w (fst (deliver c w s x)) h in
    evm_ante c w t y = None /\ deliver c w t y = (t, false).
Proof.
  intros Hc Hw Hx Hh Hg Hrx Hry s1 a n g p v xi g' p' v' xi' Hax Hinx Hiny t.
  pose proof Hc as (_ & _ & _ & _ & Hgas & Hexact & Hseq & _).
  assert (Ha : w_is_eth w a = true).
  { unfold tx_wf in Hx. rewrite Forall_forall in Hx. specialize (Hx _ Hinx). unfold msg_wf in Hx. simpl in Hx.
    inversion Hx as [|? ? Hl _]. exact Hl. }
  assert (Hlt : (n < seq_of (fst (deliver c w s x)) a)%nat).
  { destruct (evm_tx_consumes_nonces_once c w s x Hc Hrx) as [[E _]|(ls & s1' & E1 & Hd & Hadm & E)]; [congruence|].
    rewrite E, <- (admit_seq_count _ _ _ Hadm a). eapply admit_seq_nonce_lt; eauto. eapply direct_eth_In_rev; eauto. }
  assert (Hg1 : grants_ok w (fst (deliver c w s x))).
  { exact (proj1 (deliver_eth_only_behind_evm_ante c w s x Hc Hw Hx Hg)). }
  pose proof (history_seq_mono c w h Hc Hw Hh _ Hg1 a Ha) as Hmono. fold t in Hmono.
  assert (Hnone : evm_ante c w t y = None).
  { destruct (evm_ante c w t y) as [t1|] eqn:Hay; [exfalso|reflexivity].
    destruct (evm_admit_admits c _ _ _ Hgas Hexact Hseq (proj1 (cfg_ok_floor c Hc)) (evm_ante_admit _ _ _ _ _ Hay)) as (ls' & Hd' & Hadm').
    pose proof (admit_seq_nonce_ge _ _ _ Hadm' a n g' p' v' xi' (direct_eth_In_rev _ _ _ Hd' Hiny)). lia. }
  split; [exact Hnone|]. rewrite (deliver_evm_unfold c w t y Hry), Hnone. reflexivity.
Qed.

(** ---------------------------------------------------------------- refunds are covered by prepayments *)
Definition cost_of (a : addr) (ls : list leaf) : Z :=
  sumZ (map (fun l => match l with EthTx b _ g p _ _ => if Nat.eqb a b then (g * p) / WEI else 0 | _ => 0 end) ls).

Lemma admit_seq_bal s ls s1 : admit_seq s ls s1 -> forall b, bal_of s1 b = bal_of s b - cost_of b ls.
Proof.
  induction 1 as [|s a n g p v xi r s' Hn Hb _ IH]; intro b; [unfold cost_of; simpl; lia|].
  rewrite (IH b). rewrite bal_of_set_seq, bal_of_add_fee, bal_of_add_bal.
  unfold cost_of. simpl. fold (cost_of b r).
  destruct (Nat.eqb b a) eqn:E; [apply Nat.eqb_eq in E; subst|]; unfold cost_of; lia.
Qed.

Definition leaf_nonneg (l : leaf) : Prop :=
  match l with EthTx _ _ g p v x => 0 <= g /\ 0 <= p /\ 0 <= v /\ 0 <= x_intr x /\ 0 <= x_exec x | _ => True end.

Lemma cost_of_nonneg a ls : Forall leaf_nonneg ls -> 0 <= cost_of a ls.
Proof.
  induction 1 as [|l r Hl _ IH]; [unfold cost_of; simpl; lia|].
  unfold cost_of in *. simpl. destruct l as [b n g p v xi|?|? ? ?|? ? ? ? ? ? ?]; simpl in *; try lia.
  destruct (Nat.eqb a b); [|lia]. destruct Hl as (Hg & Hp & Hv & _).
  assert (0 <= g * p / WEI) by (apply Z.div_pos; [nia|unfold WEI; lia]). lia.
Qed.

Lemma run_direct_eth_bal c w ms ls :
  (forall p x, refund_price c p x = p) ->
  direct_eth ms = Some ls -> Forall leaf_nonneg ls ->
  forall s s', run_msgs c w ms s = Some s' ->
  forall b, b <> w_sink w -> bal_of s' b <= bal_of s b + cost_of b ls.
Proof.
  intro Hrf. revert ls. induction ms as [|m ms IH]; intros ls Hd Hnn s s' Hrun b Hb.
  - simpl in Hd. inversion Hd. subst. unfold run_msgs in Hrun. simpl in Hrun. inversion Hrun. subst.
    unfold cost_of. simpl. lia.
  - simpl in Hd. destruct m as [[a n g p v xi|?|? ? ?|? ? ? ? ? ? ?]| | | |]; try discriminate.
    destruct (direct_eth ms) as [r|] eqn:E; [|discriminate]. inversion Hd. subst. clear Hd.
    inversion Hnn as [|? ? Hpv Hnn']. subst. simpl in Hpv. destruct Hpv as (Hg0 & Hp & Hv & Hi & He).
    rewrite run_msgs_cons, run_msg_leaf in Hrun.
    destruct (leaf_run c w s (EthTx a n g p v xi)) as [s1|] eqn:Hl; [|discriminate].
    specialize (IH r eq_refl Hnn' s1 s' Hrun b Hb).
    pose proof (leaf_run_eth_bal c w s a n g p v xi s1 (Hrf p xi) Hp Hv Hi He Hl b Hb) as H1.
    unfold cost_of. simpl. fold (cost_of b r). lia.
Qed.

Lemma direct_eth_basic ms ls :
  direct_eth ms = Some ls -> forallb basic_msg ms = true -> Forall leaf_nonneg ls.
Proof.
  revert ls. induction ms as [|m ms IH]; intros ls Hd Hb; simpl in Hd.
  - inversion Hd. constructor.
  - destruct m as [[a n g p v xi|?|? ? ?|? ? ? ? ? ? ?]| | | |]; try discriminate.
    destruct (direct_eth ms) as [r|] eqn:E; [|discriminate]. inversion Hd. subst.
    simpl in Hb. apply andb_true_iff in Hb as [H1 H2].
    constructor; [|apply IH; auto].
    simpl. repeat (apply andb_true_iff in H1 as [H1 ?]). lia.
Qed.

(** whatever the transaction, an Ethereum-derived account never ends with more than it had: the only credit
    the Ethereum handler makes to the sender — the refund of leftover gas — is covered by what the EVM ante
    chain took from that sender in the same transaction *)
Theorem refund_covered_by_prepayment c w s x :
  cfg_ok c -> e_vb c = true -> world_ok w -> tx_wf w x -> grants_ok w s ->
  forall a, w_is_eth w a = true -> bal_of (fst (deliver c w s x)) a <= bal_of s a.
Proof.
  intros Hc Hvb Hw Hwf Hg a Ha.
  pose proof Hc as (Hsigon & Hsig & Hwasm & Hrecov & Hgas & Hexact & Hseq & _ & _ & _ & Hno & Hother & Hevm).
  destruct (route_tx c (t_ext x)) eqn:Hroute.
  - destruct (nonevm_deliver_frame w c Hw Hwasm Hrecov Hsigon Hsig s x Hwf Hg Hroute) as (_ & _ & He).
    destruct (He a Ha) as [_ E]. simpl in E. rewrite E. lia.
  - unfold deliver. rewrite Hroute. unfold evm_ante. rewrite Hvb.
    match goal with |- context [if ?b then _ else _] => destruct b eqn:Hcond end; [|simpl; lia].
    destruct (evm_admit c (t_msgs x) s) as [s1|] eqn:Hadm0; [|simpl; lia].
    destruct (evm_admit_admits c _ _ _ Hgas Hexact Hseq (proj1 (cfg_ok_floor c Hc)) Hadm0) as (ls & Hd & Hadm).
    pose proof (admit_seq_bal _ _ _ Hadm a) as Hb1.
    apply andb_true_iff in Hcond as [Hcond _]. apply andb_true_iff in Hcond as [_ Hcond].
    apply andb_true_iff in Hcond as [Hcond _]. apply andb_true_iff in Hcond as [_ Hbasic].
    pose proof (direct_eth_basic _ _ Hd Hbasic) as Hnn.
    pose proof (cost_of_nonneg a ls Hnn) as Hcost.
    destruct (run_msgs c w (t_msgs x) s1) as [s2|] eqn:Hr; simpl; [|lia].
    assert (Hsink : a <> w_sink w) by (intro E; subst; rewrite (sink_non_eth w Hw) in Ha; discriminate).
    pose proof (run_direct_eth_bal c w _ _ (fun p x => cfg_ok_refund_price c p x Hc) Hd Hnn s1 s2 Hr a Hsink). lia.
  - unfold deliver. rewrite Hroute. simpl. lia.
  - unfold deliver. rewrite Hroute. simpl. lia.
Qed.

(** ---------------------------------------------------------------- what the statement needs: refutations *)
Definition eth (a : addr) (n : nat) (g : Z) : msg := Leaf (EthTx a n g WEI 1 (x_transfer WEI)).
Definition evm_tx (ms : list msg) : tx := {| t_ext := EvmExt; t_signer := 98; t_key := KNone; t_fee := 1000000; t_msgs := ms |}.
Definition cos_tx (s : addr) (ms : list msg) : tx := {| t_ext := NoExt; t_signer := s; t_key := KCosmos; t_fee := 1000000; t_msgs := ms |}.
Definition ek_tx (s : addr) (ms : list msg) : tx := {| t_ext := NoExt; t_signer := s; t_key := KEth; t_fee := 1000000; t_msgs := ms |}.

(** a violation visible in the model state: in a transaction WITHOUT the EVM extension option the Ethereum
    handler ran, rewound the sender's nonce and paid it a refund nobody prepaid *)
Definition violated_by (c : cfg) (h : list tx) (x : tx) (a : addr) : Prop :=
  let s := run_history c harness_world harness_init h in
  let s' := fst (deliver c harness_world s x) in
  t_ext x = NoExt /\ ran s' <> ran s /\ (seq_of s' a < seq_of s a)%nat /\ bal_of s a < bal_of s' a.

(** Hsig dropped: if the Cosmos signature path accepted eth_secp256k1 keys, the key's owner could wrap its
    own MsgEthereumTx in MsgExec{self,[MsgExec{self,[…]}]} (one level deeper than the authz guard looks) *)
Definition cfg_eth_keys_accepted : cfg :=
  {| nonevm_known := true; evm_route := RouteEVM; other_route := RouteReject; other_decodable := false;
     g_prevent := true; g_authz := true; g_authz_exec := true; g_authz_rec := false; vb_on := true; sig_on := true; sig_accepts_eth := true; signer_recovered := true;
     fee_on := true; seq_on := true; e_vb := true; e_sig := true; e_acc := true; e_gas := true; fee_exact := true; e_seq := true;
     fee_floor := fun _ => true; refund_floor := fun _ => true;
     pre_nonce_call := PreNext; pre_nonce_create := PreSame; post_nonce_call := true; post_nonce_create := true;
     wasm_signer := true; wasm_no_eth := true |}.

Lemma refuted_if_eth_keys_sign_cosmos_txs :
  exists h x a, Forall (tx_wf harness_world) (h ++ [x]) /\ violated_by cfg_eth_keys_accepted h x a.
Proof.
  (* E signs one Cosmos tx granting its MsgEthereumTx to account 1 (nested, so that the top-level guard does
     not see the grant); account 1 then replays E's old message two MsgExec levels deep *)
  exists [evm_tx [eth 20 0 21000]; evm_tx [eth 20 1 21000]; evm_tx [eth 20 2 21000];
          ek_tx 20 [Exec 20 [Leaf (Grant 20 1 (MKLeaf K_ETH))]]],
         (cos_tx 1 [Exec 1 [Exec 1 [eth 20 0 50000]]]), 20%nat.
  split.
  - repeat constructor.
  - unfold violated_by. vm_compute. repeat split; try discriminate; auto.
Qed.

(** GetSigners reading the unsigned `From` field: anyone can name himself the signer of somebody else's signed
    Ethereum transaction and replay it two MsgExec levels deep *)
Definition cfg_signer_from_field : cfg :=
  {| nonevm_known := true; evm_route := RouteEVM; other_route := RouteReject; other_decodable := false;
     g_prevent := true; g_authz := true; g_authz_exec := true; g_authz_rec := false; vb_on := true; sig_on := true; sig_accepts_eth := false; signer_recovered := false;
     fee_on := true; seq_on := true; e_vb := true; e_sig := true; e_acc := true; e_gas := true; fee_exact := true; e_seq := true;
     fee_floor := fun _ => true; refund_floor := fun _ => true;
     pre_nonce_call := PreNext; pre_nonce_create := PreSame; post_nonce_call := true; post_nonce_create := true;
     wasm_signer := true; wasm_no_eth := true |}.

Lemma refuted_if_signers_read_from_field :
  exists h x a, Forall (tx_wf harness_world) (h ++ [x]) /\ violated_by cfg_signer_from_field h x a.
Proof.
  exists [evm_tx [eth 20 0 21000]; evm_tx [eth 20 1 21000]; evm_tx [eth 20 2 21000]],
         (cos_tx 1 [Exec 1 [Exec 1 [Leaf (EthTxAs 1 20 0 50000 WEI 1 (x_transfer WEI))]]]), 20%nat.
  split.
  - repeat constructor.
  - unfold violated_by. vm_compute. repeat split; try discriminate; auto.
Qed.

(** the wasm handler's signer check dropped: a contract could dispatch MsgExec{grantee = E,[MsgEthereumTx of E]} *)
Definition cfg_wasm_signer_unchecked : cfg :=
  {| nonevm_known := true; evm_route := RouteEVM; other_route := RouteReject; other_decodable := false;
     g_prevent := true; g_authz := true; g_authz_exec := true; g_authz_rec := false; vb_on := true; sig_on := true; sig_accepts_eth := false; signer_recovered := true;
     fee_on := true; seq_on := true; e_vb := true; e_sig := true; e_acc := true; e_gas := true; fee_exact := true; e_seq := true;
     fee_floor := fun _ => true; refund_floor := fun _ => true;
     pre_nonce_call := PreNext; pre_nonce_create := PreSame; post_nonce_call := true; post_nonce_create := true;
     wasm_signer := false; wasm_no_eth := true |}.

Lemma refuted_if_wasm_signer_unchecked :
  exists h x a, Forall (tx_wf harness_world) (h ++ [x]) /\ violated_by cfg_wasm_signer_unchecked h x a.
Proof.
  exists [evm_tx [eth 20 0 21000]; evm_tx [eth 20 1 21000]; evm_tx [eth 20 2 21000]],
         (cos_tx 0 [Wasm 0 10 [Exec 20 [eth 20 0 50000]]]), 20%nat.
  split.
  - repeat constructor.
  - unfold violated_by. vm_compute. repeat split; try discriminate; auto.
Qed.

(** the nonce decorator dropped from the EVM chain: the same signed message executes twice *)
Definition cfg_no_nonce_check : cfg :=
  {| nonevm_known := true; evm_route := RouteEVM; other_route := RouteReject; other_decodable := false;
     g_prevent := true; g_authz := true; g_authz_exec := true; g_authz_rec := false; vb_on := true; sig_on := true; sig_accepts_eth := false; signer_recovered := true;
     fee_on := true; seq_on := true; e_vb := true; e_sig := true; e_acc := true; e_gas := true; fee_exact := true; e_seq := false;
     fee_floor := fun _ => true; refund_floor := fun _ => true;
     pre_nonce_call := PreNext; pre_nonce_create := PreSame; post_nonce_call := true; post_nonce_create := true;
     wasm_signer := true; wasm_no_eth := true |}.

Lemma refuted_if_nonce_decorator_dropped :
  exists h l, ran (run_history cfg_no_nonce_check harness_world harness_init h) = [l; l].
Proof.
  exists [evm_tx [eth 20 0 21000]; evm_tx [eth 20 0 21000]]. eexists. vm_compute. reflexivity.
Qed.

(** per message: the refund never exceeds the exact prepayment WeiToNative(gas limit × price) … *)
Lemma refund_le_exact_prepay g used p : 0 <= p -> 0 <= used -> refund_of g used p <= prepay true g p.
Proof.
  intros Hp Hu. unfold refund_of, prepay. apply Z.div_le_mono; [unfold WEI; lia|nia].
Qed.

(** … but it does exceed a prepayment computed from the price truncated to whole unibi per gas: with
    VerifyFee = WeiToNative(price) × gasLimit, a sender paying 2·10^12 − 1 wei per gas with a generous gas limit is
    refunded more than was taken from him, out of the fees of the other message of the same transaction *)
Definition cfg_fee_per_gas : cfg :=
  {| nonevm_known := true; evm_route := RouteEVM; other_route := RouteReject; other_decodable := false;
     g_prevent := true; g_authz := true; g_authz_exec := true; g_authz_rec := false; vb_on := true; sig_on := true; sig_accepts_eth := false; signer_recovered := true;
     fee_on := true; seq_on := true; e_vb := true; e_sig := true; e_acc := true; e_gas := true; fee_exact := false; e_seq := true;
     fee_floor := fun _ => true; refund_floor := fun _ => true;
     pre_nonce_call := PreNext; pre_nonce_create := PreSame; post_nonce_call := true; post_nonce_create := true;
     wasm_signer := true; wasm_no_eth := true |}.

Lemma refuted_if_fee_priced_per_truncated_gas_price :
  exists x a, tx_wf harness_world x /\ t_ext x = EvmExt /\
    bal_of harness_init a < bal_of (fst (deliver cfg_fee_per_gas harness_world harness_init x)) a.
Proof.
  exists (evm_tx [Leaf (EthTx 20 0 21000 (3 * WEI) 1 (x_transfer (3 * WEI))); Leaf (EthTx 21 0 100000 (2 * WEI - 1) 1 (x_transfer (2 * WEI - 1)))]), 21%nat.
  split; [repeat constructor|]. split; [reflexivity|]. vm_compute. reflexivity.
Qed.

(** … for ANY price, as long as BOTH sides use the same one: the refund of leftover gas at price [q] never exceeds the
    deduction of the gas limit at the same price [q] (whatever the transaction type, floored at the base fee or not) *)
Lemma refund_le_prepay_same_price c g used p x :
  pay_price c p x = refund_price c p x -> 0 <= refund_price c p x -> 0 <= used ->
  refund_of g used (refund_price c p x) <= prepay true g (pay_price c p x).
Proof. intros E Hq Hu. rewrite E. apply refund_le_exact_prepay; assumption. Qed.

(** AccessListTx.EffectiveFeeWei losing the base-fee floor ("the same as Fee for AccessListTx") while
    EffectiveGasPriceWeiPerGas keeps it: a type-1 transaction naming 1 wei per gas prepays ⌊gas limit × 1 wei⌋ = 0 unibi
    and is refunded its leftover gas at the base fee, out of what the other message of the transaction paid *)
Definition cfg_access_fee_not_floored : cfg :=
  {| nonevm_known := true; evm_route := RouteEVM; other_route := RouteReject; other_decodable := false;
     g_prevent := true; g_authz := true; g_authz_exec := true; g_authz_rec := false; vb_on := true; sig_on := true; sig_accepts_eth := false; signer_recovered := true;
     fee_on := true; seq_on := true; e_vb := true; e_sig := true; e_acc := true; e_gas := true; fee_exact := true; e_seq := true;
     fee_floor := fun ty => match ty with TAccess => false | _ => true end; refund_floor := fun _ => true;
     pre_nonce_call := PreNext; pre_nonce_create := PreSame; post_nonce_call := true; post_nonce_create := true;
     wasm_signer := true; wasm_no_eth := true |}.

Definition x_access_1wei : xinfo :=
  {| x_kind := XCall; x_ty := TAccess; x_raw := 1; x_cap := 1; x_intr := 21000; x_exec := 0; x_out := XStop |}.
Definition tx_access_below_base : tx :=
  evm_tx [Leaf (EthTx 20 0 21000 (5 * WEI) 1 (x_transfer (5 * WEI))); Leaf (EthTx 21 0 100000 (eff_legacy 1) 1 x_access_1wei)].

Lemma refuted_if_access_list_fee_not_floored :
  exists x a, tx_wf harness_world x /\ t_ext x = EvmExt /\
    snd (deliver cfg_access_fee_not_floored harness_world harness_init x) = true /\
    bal_of harness_init a < bal_of (fst (deliver cfg_access_fee_not_floored harness_world harness_init x)) a.
Proof.
  exists tx_access_below_base, 21%nat. split; [repeat constructor|]. split; [reflexivity|]. vm_compute. split; reflexivity.
Qed.

(** the write of msg.nonce + 1 after evm.Create dropped ("evm.Create increments the caller nonce itself"): a contract
    creation carrying a value the sender can pay, or pay the gas prepayment at the base fee for, but not both (gas
    price below the base fee: the balance check prices the gas lower than the deduction does) is admitted, charged
    and INCLUDED with a VM error — evm.Create stopped at its balance check, before its own nonce increment, and the
    write of msg.nonce before evm.Create stands: the sequence is back where it was, and the very same signed bytes are admitted again *)
Definition cfg_create_nonce_not_bumped : cfg :=
  {| nonevm_known := true; evm_route := RouteEVM; other_route := RouteReject; other_decodable := false;
     g_prevent := true; g_authz := true; g_authz_exec := true; g_authz_rec := false; vb_on := true; sig_on := true; sig_accepts_eth := false; signer_recovered := true;
     fee_on := true; seq_on := true; e_vb := true; e_sig := true; e_acc := true; e_gas := true; fee_exact := true; e_seq := true;
     fee_floor := fun _ => true; refund_floor := fun _ => true;
     pre_nonce_call := PreNext; pre_nonce_create := PreSame; post_nonce_call := true; post_nonce_create := false;
     wasm_signer := true; wasm_no_eth := true |}.

Definition x_create_for_free : xinfo := {| x_kind := XCreate; x_ty := TLegacy; x_raw := 0; x_cap := 0; x_intr := 53004; x_exec := 0; x_out := XStop |}.
Definition tx_create_with_value : tx := evm_tx [Leaf (EthTx 23 0 100000 WEI 320000 x_create_for_free)].

Lemma refuted_if_create_skips_post_nonce :
  exists x l, tx_wf harness_world x /\ t_ext x = EvmExt /\
    let d1 := deliver cfg_create_nonce_not_bumped harness_world harness_init x in
    let d2 := deliver cfg_create_nonce_not_bumped harness_world (fst d1) x in
    snd d1 = true /\ seq_of (fst d1) 23 = seq_of harness_init 23 /\ bal_of (fst d1) 23 < bal_of harness_init 23 /\
    snd d2 = true /\ ran (fst d2) = [l; l].
Proof.
  exists tx_create_with_value. eexists. split; [repeat constructor|]. split; [reflexivity|].
  vm_compute. repeat split; reflexivity.
Qed.

(** ---------------------------------------------------------------- non-vacuity *)
Example cfg_current_ok : cfg_ok cfg_current.
Proof. apply cfg_okb_sound. vm_compute. reflexivity. Qed.

Example harness_world_ok : world_ok harness_world.
Proof.
  constructor; simpl; auto.
  - intros ctr snd H. apply andb_true_iff in H as [H _]. apply Nat.eqb_eq in H. subst. reflexivity.
  - intros a H. discriminate.
Qed.

(** the same transaction on the committed code: admitted once (the creation fails in the VM for lack of funds, the
    nonce is consumed, the gas is paid), turned away the second time *)
Example create_with_value_consumes_nonce_once :
  let d1 := deliver cfg_current harness_world harness_init tx_create_with_value in
  let d2 := deliver cfg_current harness_world (fst d1) tx_create_with_value in
  snd d1 = true /\ seq_of (fst d1) 23 = 1%nat /\ bal_of (fst d1) 23 = POOR - 53004 /\
  snd d2 = false /\ fst d2 = fst d1 /\ List.length (ran (fst d2)) = 1%nat.
Proof. vm_compute. repeat split; reflexivity. Qed.

(** the same type-1 transaction on the committed code: the gas limit is prepaid at the base fee, nobody gains *)
Example access_list_below_base_prepays_at_base_fee :
  let d := deliver cfg_current harness_world harness_init tx_access_below_base in
  snd d = true /\ bal_of (fst d) 21 = FUND - 21000 - 1 /\ bal_of (fst d) 20 = FUND - 105000 - 1 /\ feecol (fst d) = 126000.
Proof. vm_compute. repeat split; reflexivity. Qed.

Example harness_init_grants_ok : grants_ok harness_world harness_init.
Proof. intros a b k []. Qed.

(** with the committed code Ethereum messages DO execute — behind the EVM ante chain: three messages of two
    senders in one transaction, then a deeper Cosmos-side attempt that changes nothing for them *)
Definition h_nonvacuous : list tx := [
  evm_tx [eth 20 0 50000; eth 21 0 21000; eth 20 1 21000];
  cos_tx 1 [Exec 1 [Exec 1 [eth 20 0 50000]]];
  cos_tx 0 [Wasm 0 10 [Exec 10 [Leaf (Send 10)]]]
].

Example eth_runs_behind_evm_ante :
  Forall (tx_wf harness_world) h_nonvacuous /\
  let s := run_history cfg_current harness_world harness_init h_nonvacuous in
  List.length (ran s) = 3%nat /\ seq_of s 20 = 2%nat /\ seq_of s 21 = 1%nat /\
  bal_of s 20 = FUND - 2 * 21001 /\ feecol s = 3 * 21000 + 2 * 1000000.
Proof. split; [repeat constructor|]. vm_compute. repeat split; reflexivity. Qed.
