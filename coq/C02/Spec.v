(** C02 — the property as a Prop over model states / observed traces, and as boolean checkers. *)
From Coq Require Import List Bool Arith ZArith Lia.
Import ListNotations.
Require Import Nib.C17.AnteFacts Nib.C17.MsgTree Nib.C02.Model.
Local Open Scope Z_scope.

(** ---------------------------------------------------------------- on the model *)

(** what the EVM admission pipeline must have done for a message, from state [s] to [s']:
    the nonce equals the account sequence and is consumed, WeiToNative(gas limit × price) is deducted up front *)
Inductive admit_seq : st -> list leaf -> st -> Prop :=
| admit_nil s : admit_seq s [] s
| admit_cons s a n g p v x r s' :
    n = seq_of s a ->
    (g * p) / WEI <= bal_of s a ->
    admit_seq (set_seq (add_fee (add_bal s a (- ((g * p) / WEI))) ((g * p) / WEI)) a (S n)) r s' ->
    admit_seq s (EthTx a n g p v x :: r) s'.

(** the messages of a tx, when they are all direct MsgEthereumTx *)
Fixpoint direct_eth (ms : list msg) : option (list leaf) :=
  match ms with
  | [] => Some []
  | Leaf (EthTx a n g p v x) :: r => option_map (cons (EthTx a n g p v x)) (direct_eth r)
  | _ => None
  end.

(** number of messages of sender [a] *)
Definition leaf_from_is (a : addr) (l : leaf) : bool :=
  match l with EthTx b _ _ _ _ _ => Nat.eqb a b | _ => false end.
Definition count_from (a : addr) (ls : list leaf) : nat := List.length (filter (leaf_from_is a) ls).

(** ---------------------------------------------------------------- observed traces *)
Record ethobs := { eo_id : addr; eo_seq0 : nat; eo_dseq : Z; eo_dbal : Z }.
Record txobs := {
  o_ok : bool;
  o_fired : list nat;          (* pre-order indices, among the Ethereum leaves of the tx, whose handler ran *)
  o_exec : list (Z * bool);    (* per fired handler, as reported by EventEthereumTx: gas used, VM error? *)
  o_eth : list ethobs;         (* every Ethereum account: sequence before, sequence delta, balance delta *)
  o_dfee : Z                   (* fee collector delta *)
}.

Definition is_evm (e : ext_option) : bool := match e with EvmExt => true | _ => false end.

(** nonces of one account's messages are seq0, seq0+1, … *)
Fixpoint nonces_from (n : nat) (ls : list leaf) : bool :=
  match ls with
  | [] => true
  | EthTx _ m _ _ _ _ :: r => Nat.eqb m n && nonces_from (S n) r
  | _ :: r => nonces_from n r
  end.

(** a message together with what its handler reported *)
Definition lx := (leaf * (Z * bool))%type.

(** the sender's net charge: prepayment − refund of the gas NOT used + the value unless the VM failed *)
Definition net_cost (le : lx) : Z :=
  match le with (EthTx _ _ g p v _, (used, failed)) => (g * p) / WEI - refund_of g used p + (if failed then 0 else v) | _ => 0 end.
Definition gas_fee (le : lx) : Z :=
  match le with (EthTx _ _ g p _ _, (used, _)) => (g * p) / WEI - refund_of g used p | _ => 0 end.
(** the reported gas lies between the intrinsic gas and the gas limit *)
Definition exec_sane (le : lx) : bool :=
  match le with (EthTx _ _ g _ _ x, (used, _)) => (x_intr x <=? used) && (used <=? g) | _ => true end.
Definition prepaid (l : leaf) : Z := match l with EthTx _ _ g p _ _ => (g * p) / WEI | _ => 0 end.

Definition sumZ (l : list Z) : Z := fold_right Z.add 0 l.

Definition acct_paid (les : list lx) (e : ethobs) : bool :=
  let mine := filter (fun le => leaf_from_is (eo_id e) (fst le)) les in
  nonces_from (eo_seq0 e) (map fst mine)
  && (eo_dseq e =? Z.of_nat (List.length mine))
  && (- eo_dbal e =? sumZ (map net_cost mine)).

(** admitted, then the messages failed as a whole: nonces consumed, prepayments kept, nothing else *)
Definition acct_charged (ls : list leaf) (e : ethobs) : bool :=
  let mine := filter (leaf_from_is (eo_id e)) ls in
  nonces_from (eo_seq0 e) mine
  && (eo_dseq e =? Z.of_nat (List.length mine))
  && (- eo_dbal e =? sumZ (map prepaid mine)).

Fixpoint nat_list_eqb (a b : list nat) : bool :=
  match a, b with
  | [], [] => true
  | x :: a', y :: b' => Nat.eqb x y && nat_list_eqb a' b'
  | _, _ => false
  end.

(** an ACCEPTED tx with the EVM extension option: all its messages are direct Ethereum messages, each
    fired once, each sender's nonces matched its sequence and were consumed once — whatever the EVM did with the
    message (ran it, reverted, ran out of gas, refused it for lack of funds) —, each sender paid exactly
    gas used × price (+ value unless the VM failed), the fee collector kept gas used × price *)
Definition accepted_evm_okb (x : tx) (o : txobs) : bool :=
  match direct_eth (t_msgs x) with
  | None => false
  | Some ls =>
      let les := combine ls (o_exec o) in
      nat_list_eqb (o_fired o) (seq 0 (List.length ls))
      && Nat.eqb (List.length (o_exec o)) (List.length ls)
      && forallb exec_sane les
      && forallb (fun l => existsb (fun e => leaf_from_is (eo_id e) l) (o_eth o)) ls
      && forallb (acct_paid les) (o_eth o)
      && (o_dfee o =? sumZ (map gas_fee les))
  end.

Definition untouchedb (o : txobs) : bool :=
  forallb (fun e => (eo_dseq e =? 0) && (eo_dbal e =? 0)) (o_eth o) && (o_dfee o =? 0).

(** a REJECTED tx with the EVM extension option: either the ante handler turned it away (nothing moved at all) or
    it admitted every message and the messages then failed as a whole: the admission stays — every nonce consumed
    once, every prepayment kept by the fee collector *)
Definition rejected_evm_okb (x : tx) (o : txobs) : bool :=
  untouchedb o
  || match direct_eth (t_msgs x) with
     | None => false
     | Some ls =>
         forallb (fun l => existsb (fun e => leaf_from_is (eo_id e) l) (o_eth o)) ls
         && forallb (acct_charged ls) (o_eth o) && (o_dfee o =? sumZ (map prepaid ls))
     end.

Definition untouched (e : ethobs) : Prop := eo_dseq e = 0 /\ eo_dbal e = 0.

(** what a single delivered transaction may do to Ethereum accounts *)
Definition P_tx (x : tx) (o : txobs) : Prop :=
  (* a handler ran only in an EVM-extension tx whose messages are all direct Ethereum messages *)
  (o_fired o <> [] -> t_ext x = EvmExt /\ direct_eth (t_msgs x) <> None) /\
  (* no Ethereum account's nonce is rewound, none gains funds, the fee collector never pays out on balance *)
  Forall (fun e => 0 <= eo_dseq e /\ eo_dbal e <= 0) (o_eth o) /\ 0 <= o_dfee o /\
  (* a tx without the EVM extension option leaves every Ethereum account untouched *)
  (t_ext x <> EvmExt -> Forall untouched (o_eth o)) /\
  (* admitted = nonce matched and consumed once, gas paid — seen on the committed state *)
  (o_ok o = true -> t_ext x = EvmExt -> accepted_evm_okb x o = true) /\
  (o_ok o = false -> t_ext x = EvmExt -> rejected_evm_okb x o = true).

(** a transaction the EVM ante chain admitted, as far as the committed state shows: accepted, or something moved *)
Definition tx_admitted (x : tx) (o : txobs) : bool := is_evm (t_ext x) && (o_ok o || negb (untouchedb o)).
Definition leaf_key (l : leaf) : list (addr * nat) := match l with EthTx a n _ _ _ _ => [(a, n)] | _ => [] end.
Definition admitted_keys (p : tx * txobs) : list (addr * nat) :=
  if tx_admitted (fst p) (snd p)
  then match direct_eth (t_msgs (fst p)) with Some ls => flat_map leaf_key ls | None => [] end
  else [].

(** over a history: every transaction is fine, and no (sender, nonce) is admitted twice — in particular the same
    signed bytes delivered again are turned away *)
Definition P (t : list (tx * txobs)) : Prop :=
  Forall (fun p => P_tx (fst p) (snd p)) t /\ NoDup (flat_map admitted_keys t).

Definition Pb_tx (x : tx) (o : txobs) : bool :=
  (match o_fired o with [] => true | _ => is_evm (t_ext x) && match direct_eth (t_msgs x) with Some _ => true | None => false end end)
  && forallb (fun e => (0 <=? eo_dseq e) && (eo_dbal e <=? 0)) (o_eth o) && (0 <=? o_dfee o)
  && (is_evm (t_ext x) || forallb (fun e => (eo_dseq e =? 0) && (eo_dbal e =? 0)) (o_eth o))
  && (negb (o_ok o && is_evm (t_ext x)) || accepted_evm_okb x o)
  && (negb (negb (o_ok o) && is_evm (t_ext x)) || rejected_evm_okb x o).

Definition key_eqb (a b : addr * nat) : bool := Nat.eqb (fst a) (fst b) && Nat.eqb (snd a) (snd b).
Fixpoint nodupb (l : list (addr * nat)) : bool :=
  match l with
  | [] => true
  | k :: r => negb (existsb (key_eqb k) r) && nodupb r
  end.

Definition Pb (t : list (tx * txobs)) : bool :=
  forallb (fun p => Pb_tx (fst p) (snd p)) t && nodupb (flat_map admitted_keys t).

Lemma is_evm_true e : is_evm e = true <-> e = EvmExt.
Proof. destruct e; simpl; split; intro H; try discriminate; auto. Qed.

Lemma Pb_tx_sound x o : Pb_tx x o = true -> P_tx x o.
Proof.
  unfold Pb_tx, P_tx. intro H.
  repeat (apply andb_true_iff in H as [H ?]).
  rename H into H1, H4 into H2, H3 into H3, H2 into H4, H1 into H5, H0 into H6.
  repeat split.
  - destruct (o_fired o); [congruence|]. apply andb_true_iff in H1 as [Ha _]. now apply is_evm_true.
  - destruct (o_fired o); [congruence|]. apply andb_true_iff in H1 as [_ Hb].
    destruct (direct_eth (t_msgs x)); congruence.
  - apply Forall_forall. intros e He. rewrite forallb_forall in H2. specialize (H2 e He).
    apply andb_true_iff in H2 as [A B]. lia.
  - lia.
  - intro Hne. apply orb_true_iff in H4 as [H4|H4]; [apply is_evm_true in H4; contradiction|].
    apply Forall_forall. intros e He. rewrite forallb_forall in H4. specialize (H4 e He).
    apply andb_true_iff in H4 as [A B]. unfold untouched. lia.
  - intros Hok Hevm. apply orb_true_iff in H5 as [H5|H5]; [|exact H5].
    rewrite Hok in H5. subst. rewrite Hevm in H5. simpl in H5. discriminate.
  - intros Hok Hevm. apply orb_true_iff in H6 as [H6|H6]; [|exact H6].
    rewrite Hok in H6. subst. rewrite Hevm in H6. simpl in H6. discriminate.
Qed.

Lemma key_eqb_eq a b : key_eqb a b = true <-> a = b.
Proof.
  destruct a as [a1 a2], b as [b1 b2]. unfold key_eqb. simpl. rewrite andb_true_iff, !Nat.eqb_eq.
  split; [intros [-> ->]; reflexivity|intro E; inversion E; auto].
Qed.

Lemma nodupb_sound l : nodupb l = true -> NoDup l.
Proof.
  induction l as [|k r IH]; intro H; [constructor|].
  simpl in H. apply andb_true_iff in H as [Hn Hr]. constructor; [|auto].
  intro Hin. apply negb_true_iff in Hn.
  assert (existsb (key_eqb k) r = true) by (apply existsb_exists; exists k; split; [exact Hin|now apply key_eqb_eq]).
  congruence.
Qed.

Lemma Pb_sound t : Pb t = true -> P t.
Proof.
  unfold Pb, P. intro H. apply andb_true_iff in H as [H Hn]. split; [|now apply nodupb_sound].
  apply Forall_forall. intros p Hp.
  rewrite forallb_forall in H. apply Pb_tx_sound. exact (H p Hp).
Qed.
