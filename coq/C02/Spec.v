(** C02 — the property as a Prop over model states / observed traces, and as boolean checkers. *)
From Coq Require Import List Bool Arith ZArith Lia.
Import ListNotations.
Require Import Nib.C17.AnteFacts Nib.C17.MsgTree Nib.C02.Model.
Local Open Scope Z_scope.

(** ---------------------------------------------------------------- on the model *)

(** what the EVM admission pipeline must have done for a message, from state [s] to [s']:
    the nonce equals the account sequence and is consumed, WeiToNative(gas limit × price) is deducted up front *)
Inductive admit_seq : st -> list leaf -> st -> Prop :=
| admit_nil s : admit_seq s [] s
| admit_cons s a n g p v r s' :
    n = seq_of s a ->
    (g * p) / WEI <= bal_of s a ->
    admit_seq (set_seq (add_fee (add_bal s a (- ((g * p) / WEI))) ((g * p) / WEI)) a (S n)) r s' ->
    admit_seq s (EthTx a n g p v :: r) s'.

(** the messages of a tx, when they are all direct MsgEthereumTx *)
Fixpoint direct_eth (ms : list msg) : option (list leaf) :=
  match ms with
  | [] => Some []
  | Leaf (EthTx a n g p v) :: r => option_map (cons (EthTx a n g p v)) (direct_eth r)
  | _ => None
  end.

(** ---------------------------------------------------------------- observed traces *)
Record ethobs := { eo_id : addr; eo_seq0 : nat; eo_dseq : Z; eo_dbal : Z }.
Record txobs := {
  o_ok : bool;
  o_fired : list nat;     (* pre-order indices, among the Ethereum leaves of the tx, whose handler ran *)
  o_eth : list ethobs;    (* every Ethereum account: sequence before, sequence delta, balance delta *)
  o_dfee : Z              (* fee collector delta *)
}.

Definition is_evm (e : ext_option) : bool := match e with EvmExt => true | _ => false end.

Definition leaf_from_is (a : addr) (l : leaf) : bool :=
  match l with EthTx b _ _ _ _ => Nat.eqb a b | _ => false end.

(** nonces of one account's messages are seq0, seq0+1, … *)
Fixpoint nonces_from (n : nat) (ls : list leaf) : bool :=
  match ls with
  | [] => true
  | EthTx _ m _ _ _ :: r => Nat.eqb m n && nonces_from (S n) r
  | _ :: r => nonces_from n r
  end.

Definition net_cost (l : leaf) : Z :=
  match l with EthTx _ _ g p v => (g * p) / WEI - refund_of g p + v | _ => 0 end.
Definition gas_fee (l : leaf) : Z :=
  match l with EthTx _ _ g p _ => (g * p) / WEI - refund_of g p | _ => 0 end.

Definition sumZ (l : list Z) : Z := fold_right Z.add 0 l.

Definition acct_paid (ls : list leaf) (e : ethobs) : bool :=
  let mine := filter (leaf_from_is (eo_id e)) ls in
  nonces_from (eo_seq0 e) mine
  && (eo_dseq e =? Z.of_nat (List.length mine))
  && (- eo_dbal e =? sumZ (map net_cost mine)).

Fixpoint nat_list_eqb (a b : list nat) : bool :=
  match a, b with
  | [], [] => true
  | x :: a', y :: b' => Nat.eqb x y && nat_list_eqb a' b'
  | _, _ => false
  end.

(** an ACCEPTED tx with the EVM extension option: all its messages are direct Ethereum messages, each
    fired once, each sender's nonces matched its sequence and were consumed once, each sender paid exactly
    gas used × price + value, the fee collector kept gas used × price *)
Definition accepted_evm_okb (x : tx) (o : txobs) : bool :=
  match direct_eth (t_msgs x) with
  | None => false
  | Some ls =>
      nat_list_eqb (o_fired o) (seq 0 (List.length ls))
      && forallb (fun l => existsb (fun e => leaf_from_is (eo_id e) l) (o_eth o)) ls
      && forallb (acct_paid ls) (o_eth o)
      && (o_dfee o =? sumZ (map gas_fee ls))
  end.

Definition untouched (e : ethobs) : Prop := eo_dseq e = 0 /\ eo_dbal e = 0.

(** what a single delivered transaction may do to Ethereum accounts *)
Definition P_tx (x : tx) (o : txobs) : Prop :=
  (* a handler ran only in an EVM-extension tx whose messages are all direct Ethereum messages *)
  (o_fired o <> [] -> t_ext x = EvmExt /\ direct_eth (t_msgs x) <> None) /\
  (* no Ethereum account's nonce is rewound, none gains funds, the fee collector never pays out on balance *)
  Forall (fun e => 0 <= eo_dseq e /\ eo_dbal e <= 0) (o_eth o) /\ 0 <= o_dfee o /\
  (* a tx without the EVM extension option leaves every Ethereum account untouched *)
  (t_ext x <> EvmExt -> Forall untouched (o_eth o)) /\
  (* admitted = nonce matched and consumed once, gas paid *)
  (o_ok o = true -> t_ext x = EvmExt -> accepted_evm_okb x o = true).

Definition P (t : list (tx * txobs)) : Prop := Forall (fun p => P_tx (fst p) (snd p)) t.

Definition Pb_tx (x : tx) (o : txobs) : bool :=
  (match o_fired o with [] => true | _ => is_evm (t_ext x) && match direct_eth (t_msgs x) with Some _ => true | None => false end end)
  && forallb (fun e => (0 <=? eo_dseq e) && (eo_dbal e <=? 0)) (o_eth o) && (0 <=? o_dfee o)
  && (is_evm (t_ext x) || forallb (fun e => (eo_dseq e =? 0) && (eo_dbal e =? 0)) (o_eth o))
  && (negb (o_ok o && is_evm (t_ext x)) || accepted_evm_okb x o).

Definition Pb (t : list (tx * txobs)) : bool := forallb (fun p => Pb_tx (fst p) (snd p)) t.

Lemma is_evm_true e : is_evm e = true <-> e = EvmExt.
Proof. destruct e; simpl; split; intro H; try discriminate; auto. Qed.

Lemma Pb_tx_sound x o : Pb_tx x o = true -> P_tx x o.
Proof.
  unfold Pb_tx, P_tx. intro H.
  repeat (apply andb_true_iff in H as [H ?]).
  rename H into H1, H3 into H2, H2 into H3, H1 into H4, H0 into H5.
  repeat split.
  - destruct (o_fired o); [congruence|]. apply andb_true_iff in H1 as [Ha _]. now apply is_evm_true.
  - destruct (o_fired o); [congruence|]. apply andb_true_iff in H1 as [_ Hb].
    destruct (direct_eth (t_msgs x)); congruence.
  - apply Forall_forall. intros e He. rewrite forallb_forall in H2. specialize (H2 e He).
    apply andb_true_iff in H2 as [A B]. lia.
  - lia.
  - intro Hne. apply orb_true_iff in H4 as [H4|H4]; [apply is_evm_true in H4; contradiction|].
    apply Forall_forall. intros e He. rewrite forallb_forall in H4. specialize (H4 e He).
    apply andb_true_iff in H4 as [A B]. unfold untouched. lia.
  - intros Hok Hevm. apply orb_true_iff in H5 as [H5|H5]; [|exact H5].
    rewrite Hok in H5. subst. rewrite Hevm in H5. simpl in H5. discriminate.
Qed.

Lemma Pb_sound t : Pb t = true -> P t.
Proof.
  unfold Pb, P. intro H. apply Forall_forall. intros p Hp.
  rewrite forallb_forall in H. apply Pb_tx_sound. exact (H p Hp).
Qed.
