(** C02 — executable model of how a MsgEthereumTx can get executed:
    DeliverTx = routing on the first extension option (facts about app.NewAnteHandler) →
      EVM route:     NewAnteHandlerEVM as listed by the generated facts (validate-basic: only MsgEthereumTx,
                     no Cosmos signatures; account/balance check; gas prepayment; nonce check + increment)
      non-EVM route: NewAnteHandlerNonEVM as listed (the two Nibiru guards, ValidateBasic, signature
                     verification with the installed SigGasConsumer, fee, sequence)
    → message router with the dispatch rules of authz MsgExec / wasm dispatch / gov proposals / ICA host
    → Keeper.EthereumTx / ApplyEvmMsg: intrinsic-gas check, sender nonce reset to msg.nonce, evm.Create / evm.Call
      (an execution that may stop before the EVM touches the nonce — insufficient balance for the value —, run to
      the end, REVERT, abort or run out of gas), sender nonce := msg.nonce+1 after either branch (one switch per
      branch, read off the source), leftover gas refunded from the fee collector unconditionally.
    No proofs in this file. *)
From Coq Require Import List Bool Arith ZArith String.
Import ListNotations.
Require Import Nib.C17.AnteFacts Nib.C17.MsgTree.
Local Open Scope Z_scope.

(** ---------------------------------------------------------------- messages *)
(** what the signed Ethereum transaction asks the EVM to do.  The interpreter is not modelled: the descriptor says
    how the code that gets run behaves, everything that depends on the chain state (can the sender pay the value?
    is the gas limit enough?) is computed by [eth_exec] *)
Inductive xkind := XCall | XCreate.            (* To != nil: evm.Call;  To = nil: evm.Create *)
Inductive xout :=
| XStop      (* the code (or the init code incl. the code deposit) runs to a normal end *)
| XRevert    (* … ends in REVERT: state changes undone, leftover gas kept *)
| XInvalid.  (* … aborts (invalid opcode, …): state changes undone, all gas consumed *)
(** the three Ethereum transaction types (TxData implementations LegacyTx / AccessListTx / DynamicFeeTx) *)
Inductive txty := TLegacy | TAccess | TDynamic.
Record xinfo := {
  x_kind : xkind;
  x_ty : txty;
  x_raw : Z;      (* the price the sender named, NOT floored at the base fee: gasPrice (types 0, 1) / min(baseFee + tipCap, feeCap)
                     (type 2).  The leaf's [price] is the EFFECTIVE one: max(base fee, x_raw) *)
  x_cap : Z;      (* NOMINAL wei per gas of the sender-balance check: gasPrice (legacy) / gasFeeCap (dynamic fee) *)
  x_intr : Z;     (* intrinsic gas: 21000 (+ 32000 for a creation) + calldata *)
  x_exec : Z;     (* gas the code needs to get to its end *)
  x_out : xout
}.
(** plain transfer to an account without code, legacy price [p] at least the base fee *)
Definition x_transfer (p : Z) : xinfo :=
  {| x_kind := XCall; x_ty := TLegacy; x_raw := p; x_cap := p; x_intr := 21000; x_exec := 0; x_out := XStop |}.

Inductive leaf :=
| EthTx (from : addr) (nonce : nat) (gas price value : Z) (x : xinfo)
    (* MsgEthereumTx whose signature recovers to [from], carrying [value] (unibi); [price] = EFFECTIVE gas
       price in WEI per gas (see [eff_legacy] / [eff_dynamic]); 10^12 wei = 1 unibi; [x] = call / creation *)
| Send (from : addr)                           (* bank MsgSend of 1 unibi to a sink account *)
| Grant (granter grantee : addr) (k : mkind)   (* authz MsgGrant with a GenericAuthorization *)
| EthTxAs (claimed : addr) (from : addr) (nonce : nat) (gas price value : Z) (x : xinfo).
    (* the same MsgEthereumTx (signature recovers to [from]) whose unsigned `From` field is filled with [claimed] *)

Definition K_ETH := 0%nat.
Definition K_SEND := 1%nat.
Definition K_GRANT := 2%nat.

(** MsgEthereumTx.GetSigners: the address recovered from the Ethereum signature — or, if the code read the
    unsigned `From` field instead ([recovered = false]), whatever the sender of the bytes wrote there *)
Definition leaf_signer (recovered : bool) (l : leaf) : addr :=
  match l with
  | EthTx a _ _ _ _ _ => a | Send a => a | Grant a _ _ => a
  | EthTxAs cl a _ _ _ _ _ => if recovered then a else cl
  end.
Definition leaf_kind (l : leaf) : nat :=
  match l with EthTx _ _ _ _ _ _ | EthTxAs _ _ _ _ _ _ _ => K_ETH | Send _ => K_SEND | Grant _ _ _ => K_GRANT end.
Definition is_eth_leaf (l : leaf) : bool := match l with EthTx _ _ _ _ _ _ | EthTxAs _ _ _ _ _ _ _ => true | _ => false end.

Definition msg := tree leaf.
Definition is_eth_msg (t : msg) : bool := match t with Leaf l => is_eth_leaf l | _ => false end.

Definition leaf_basic (l : leaf) : bool :=
  match l with
  | EthTx _ _ gas price value x | EthTxAs _ _ _ gas price value x =>
      (0 <=? gas) && (0 <=? price) && (0 <=? value) && (0 <=? x_cap x) && (0 <=? x_intr x) && (0 <=? x_exec x)
  | Send _ => true
  | Grant a b _ => negb (Nat.eqb a b)
  end.

(** intrinsic gas of a plain transfer = all the gas it uses *)
Definition GAS_TRANSFER : Z := 21000.

(** bank amounts are unibi, Ethereum prices are wei: evm.WeiToNative truncates wei / 10^12 *)
Definition WEI : Z := 1000000000000.
Definition BASE_FEE_WEI : Z := WEI.     (* evm.BASE_FEE_WEI: 1 unibi per gas *)
(** TxData.EffectiveGasPriceWeiPerGas: legacy / access-list txs pay max(gasPrice, baseFee); dynamic-fee txs pay
    max(baseFee, min(baseFee + tipCap, feeCap)) *)
Definition eff_legacy (gas_price : Z) : Z := Z.max gas_price BASE_FEE_WEI.
Definition eff_dynamic (fee_cap tip_cap : Z) : Z := Z.max BASE_FEE_WEI (Z.min (BASE_FEE_WEI + tip_cap) fee_cap).
Definition raw_dynamic (fee_cap tip_cap : Z) : Z := Z.min (BASE_FEE_WEI + tip_cap) fee_cap.
(** what keeper.VerifyFee makes the ante handler deduct for gas limit [g] at effective price [p]:
    WeiToNative(p × g) — or, if the code converted the price first, WeiToNative(p) × g *)
Definition prepay (exact : bool) (g p : Z) : Z := if exact then (g * p) / WEI else (p / WEI) * g.
(** what Keeper.RefundGas pays back: WeiToNative(leftover gas × p) *)
Definition refund_of (g used p : Z) : Z := ((g - used) * p) / WEI.

(** ---------------------------------------------------------------- state *)
Record st := {
  seqs : list (addr * nat);             (* account sequence = EVM nonce (absent = 0) *)
  bals : list (addr * Z);               (* unibi balances (absent = 0) *)
  feecol : Z;                           (* fee collector balance *)
  grants : list (addr * addr * mkind);  (* authz grants (granter, grantee, type) *)
  ran : list leaf                       (* ghost: Ethereum messages whose handler ran (newest first) *)
}.

Fixpoint lookup {V} (d : V) (l : list (addr * V)) (a : addr) : V :=
  match l with
  | [] => d
  | (b, v) :: r => if Nat.eqb a b then v else lookup d r a
  end.

Definition seq_of (s : st) (a : addr) : nat := lookup 0%nat (seqs s) a.
Definition bal_of (s : st) (a : addr) : Z := lookup 0 (bals s) a.

Definition set_seq (s : st) (a : addr) (n : nat) : st :=
  {| seqs := (a, n) :: seqs s; bals := bals s; feecol := feecol s; grants := grants s; ran := ran s |}.
Definition add_bal (s : st) (a : addr) (d : Z) : st :=
  {| seqs := seqs s; bals := (a, bal_of s a + d) :: bals s; feecol := feecol s; grants := grants s; ran := ran s |}.
Definition add_fee (s : st) (d : Z) : st :=
  {| seqs := seqs s; bals := bals s; feecol := feecol s + d; grants := grants s; ran := ran s |}.
Definition add_grant (s : st) (g : addr * addr * mkind) : st :=
  {| seqs := seqs s; bals := bals s; feecol := feecol s; grants := g :: grants s; ran := ran s |}.
Definition add_ran (s : st) (l : leaf) : st :=
  {| seqs := seqs s; bals := bals s; feecol := feecol s; grants := grants s; ran := l :: ran s |}.

Definition granted (s : st) (granter grantee : addr) (k : mkind) : bool :=
  existsb (fun g => match g with (a, b, k') => Nat.eqb a granter && Nat.eqb b grantee && mkind_eqb k k' end) (grants s).

(** things that are chain state / deployment / cryptography rather than this repository's code *)
Record world := {
  w_is_eth : addr -> bool;              (* the address is derived (keccak) from an Ethereum key *)
  w_reflects : addr -> addr -> bool;    (* contract → sender → the contract dispatches the given messages *)
  w_gov : addr;
  w_sink : addr;                        (* receiver of MsgSend / transfers (never an actor) *)
  w_ica_acct : addr -> bool;            (* registered interchain accounts *)
  w_ica_allow : mkind -> bool
}.

(** the sender-nonce write of ApplyEvmMsg before the EVM invocation, per branch of the Create-vs-Call dispatch *)
Inductive prew :=
| PreNone      (* no write *)
| PreSame      (* StateDB.SetNonce(from, msg.Nonce()) *)
| PreNext      (* StateDB.SetNonce(from, msg.Nonce()+1) *)
| PreUnknown.  (* the extractor saw different writes on different paths: modelled as no write, refused by the obligation *)
Definition prew_of_nat (n : nat) : prew :=
  match n with 0%nat => PreNone | 1%nat => PreSame | 2%nat => PreNext | _ => PreUnknown end.

(** ---------------------------------------------------------------- what the code is, per generated facts *)
Record cfg := {
  nonevm_known : bool;      (* no extension option → NewAnteHandlerNonEVM *)
  evm_route : route;        (* the EVM extension option → ? *)
  other_route : route;      (* any other (decodable) extension option → ? *)
  other_decodable : bool;   (* some extension option besides the EVM one is registered with the codec *)
  (* non-EVM chain *)
  g_prevent : bool;         (* AnteDecoratorPreventEtheruemTxMsgs active: rejects a top-level MsgEthereumTx *)
  g_authz : bool;           (* AnteDecoratorAuthzGuard active: rejects generic grants for MsgEthereumTx *)
  g_authz_exec : bool;      (* … and MsgExec directly carrying MsgEthereumTx *)
  g_authz_rec : bool;       (* … at any depth *)
  vb_on : bool;
  sig_on : bool;            (* SetPubKey + SigVerification: every message signer signed, pubkey.Address() = signer *)
  sig_accepts_eth : bool;   (* the installed SigGasConsumer accepts eth_secp256k1 keys *)
  signer_recovered : bool;  (* MsgEthereumTx.GetSigners recovers the signer from the signature (never reads `From`) *)
  fee_on : bool;
  seq_on : bool;
  (* EVM chain *)
  e_vb : bool;              (* EthValidateBasic: only MsgEthereumTx, no signer infos *)
  e_sig : bool;             (* EthSigVerification *)
  e_acc : bool;             (* VerifyEthAcc: balance covers cost *)
  e_gas : bool;             (* EthGasConsume: gas × price deducted up front *)
  fee_exact : bool;         (* keeper.VerifyFee: the deducted amount is WeiToNative(price × gasLimit) *)
  e_seq : bool;             (* EthIncrementSenderSequence: nonce = sequence, then sequence + 1 *)
  (* per TxData implementation: which price the two sides of the gas accounting use *)
  fee_floor : txty -> bool;    (* EffectiveFeeWei (what VerifyFee makes the ante handler DEDUCT) prices the gas limit at
                                  max(base fee, named price) — false: at the named price as it is *)
  refund_floor : txty -> bool; (* EffectiveGasPriceWeiPerGas (the price Keeper.RefundGas REFUNDS leftover gas at) is
                                  max(base fee, named price) *)
  (* msg server, ApplyEvmMsg *)
  pre_nonce_call : prew;    (* what ApplyEvmMsg writes into the sender nonce BEFORE evm.Call: msg.Nonce()+1 (as go-ethereum) *)
  pre_nonce_create : prew;  (* … before evm.Create: msg.Nonce() (evm.Create increments it itself, after its balance check) *)
  post_nonce_call : bool;   (* StateDB.SetNonce(from, msg.Nonce()+1) after evm.Call, whatever its result *)
  post_nonce_create : bool; (* … after evm.Create, whatever its result *)
  (* wasm message handler *)
  wasm_signer : bool;       (* signer of a dispatched message must be the contract *)
  wasm_no_eth : bool        (* MsgEthereumTx refused *)
}.

(** ---------------------------------------------------------------- the msg-server handlers *)
(** evm.Call / evm.Create for the sender [from] in state [s] with [gas] (the whole gas limit):
    gas used, did it end without a VM error (only then the value moves), did evm.Create get as far as bumping
    the caller's nonce (it does so right after the balance check, before its snapshot) *)
Record xres := { r_used : Z; r_ok : bool; r_evm_nonce : bool }.

Definition eth_exec (s : st) (from : addr) (gas value : Z) (x : xinfo) : xres :=
  if bal_of s from <? value
  then {| r_used := x_intr x; r_ok := false; r_evm_nonce := false |}   (* ErrInsufficientBalance: nothing ran *)
  else
    let bump := match x_kind x with XCreate => true | XCall => false end in
    if gas - x_intr x <? x_exec x
    then {| r_used := gas; r_ok := false; r_evm_nonce := bump |}         (* out of gas: all of it is gone *)
    else match x_out x with
         | XStop => {| r_used := x_intr x + x_exec x; r_ok := true; r_evm_nonce := bump |}
         | XRevert => {| r_used := x_intr x + x_exec x; r_ok := false; r_evm_nonce := bump |}
         | XInvalid => {| r_used := gas; r_ok := false; r_evm_nonce := bump |}
         end.

(** the price the ante handler deducts the gas limit at / the msg server refunds leftover gas at, for a message
    whose effective (floored) price is [p] *)
Definition pay_price (c : cfg) (p : Z) (x : xinfo) : Z := if fee_floor c (x_ty x) then p else x_raw x.
Definition refund_price (c : cfg) (p : Z) (x : xinfo) : Z := if refund_floor c (x_ty x) then p else x_raw x.

Definition pre_nonce (c : cfg) (k : xkind) : prew :=
  match k with XCall => pre_nonce_call c | XCreate => pre_nonce_create c end.
Definition pre_apply (c : cfg) (k : xkind) (s : st) (from : addr) (nonce : nat) : st :=
  match pre_nonce c k with
  | PreSame => set_seq s from nonce
  | PreNext => set_seq s from (S nonce)
  | PreNone | PreUnknown => s
  end.

Definition post_nonce (c : cfg) (k : xkind) : bool :=
  match k with XCall => post_nonce_call c | XCreate => post_nonce_create c end.

(** Keeper.EthereumTx: ApplyEvmMsg fails the MESSAGE when the gas limit is below the intrinsic gas; otherwise it
    writes the sender nonce (msg.nonce before a creation, msg.nonce + 1 before a call), runs the EVM (a VM error is NOT a message failure), writes
    msg.nonce + 1, and RefundGas pays (gas − used) × price back from the fee collector — it ASSUMES the ante
    handler charged gas × price and checked the nonce *)
Definition leaf_run (c : cfg) (w : world) (s : st) (l : leaf) : option st :=
  match l with
  | EthTx from nonce gas price value x | EthTxAs _ from nonce gas price value x =>
      (* the msg server recovers the sender from the signature itself; the `From` field plays no role *)
      if gas <? x_intr x then None                     (* intrinsic gas too low: the message fails *)
      else
        let r := eth_exec s from gas value x in
        let s0 := pre_apply c (x_kind x) s from nonce in
        let s1 := if r_evm_nonce r then set_seq s0 from (S (seq_of s0 from)) else s0 in
        let s2 := if post_nonce c (x_kind x) then set_seq s1 from (S nonce) else s1 in
        let s3 := if r_ok r then add_bal (add_bal s2 from (- value)) (w_sink w) value else s2 in
        let refund := refund_of gas (r_used r) (refund_price c price x) in
        if feecol s <? refund then None
        else Some (add_ran (add_fee (add_bal s3 from refund) (- refund)) l)
  | Send from =>
      if bal_of s from <? 1 then None else Some (add_bal (add_bal s from (-1)) (w_sink w) 1)
  | Grant a b k => Some (add_grant s (a, b, k))
  end.

(** AnteDecoratorAuthzGuard on one top-level message *)
Fixpoint authz_guard_inner (t : msg) : bool :=   (* used only when the guard recurses *)
  match t with
  | Leaf l => is_eth_leaf l
  | Exec _ cs => existsb authz_guard_inner cs
  | _ => false
  end.

Definition authz_guard_rejects (c : cfg) (t : msg) : bool :=
  match t with
  | Leaf (Grant _ _ (MKLeaf k)) => Nat.eqb k K_ETH
  | Exec _ cs => if g_authz_exec c then (if g_authz_rec c then existsb authz_guard_inner cs else existsb is_eth_msg cs) else false
  | _ => false
  end.

(** wasmext.handleSdkMessage on one dispatched message *)
Definition wasm_admits (c : cfg) (ctr : addr) (t : msg) : bool :=
  (negb (wasm_signer c) || Nat.eqb (signer leaf (leaf_signer (signer_recovered c)) t) ctr) && negb (wasm_no_eth c && is_eth_msg t).

Definition run_msg (c : cfg) (w : world) : msg -> st -> option st :=
  run leaf (leaf_signer (signer_recovered c)) leaf_kind st leaf_basic (leaf_run c w) granted (w_reflects w) (wasm_admits c) (w_gov w)
      (w_ica_acct w) (w_ica_allow w).

Definition run_msgs (c : cfg) (w : world) (ms : list msg) (s : st) : option st :=
  seq_opt (run_msg c w) (fun _ _ => true) ms s.

Definition basic_msg : msg -> bool := basic leaf leaf_basic.
Definition signer_msg (c : cfg) : msg -> addr := signer leaf (leaf_signer (signer_recovered c)).

(** ---------------------------------------------------------------- transactions *)
Inductive key_kind := KCosmos | KEth | KNone.   (* key type that signed the Cosmos tx; KNone: no signatures *)

Record tx := { t_ext : ext_option; t_signer : addr; t_key : key_kind; t_fee : Z; t_msgs : list msg }.

Definition route_tx (c : cfg) (e : ext_option) : route :=
  match e with
  | NoExt => if nonevm_known c then RouteNonEVM else RouteUnknown
  | EvmExt => evm_route c
  | OtherExt => if other_decodable c then other_route c else RouteReject   (* tx decoding fails *)
  end.

(** signature verification of the Cosmos path: the key must be of an accepted type and its address must be
    the signer.  A secp256k1 key never has an Ethereum-derived address and an eth_secp256k1 key always has one
    (this is where the address-disjointness hypothesis enters the model) *)
Definition key_ok (c : cfg) (w : world) (x : tx) : bool :=
  match t_key x with
  | KCosmos => negb (w_is_eth w (t_signer x))
  | KEth => sig_accepts_eth c && w_is_eth w (t_signer x)
  | KNone => false
  end.

Definition nonevm_ante (c : cfg) (w : world) (s : st) (x : tx) : option st :=
  if negb (Nat.eqb (List.length (t_msgs x)) 0)
     && negb (g_prevent c && existsb is_eth_msg (t_msgs x))
     && negb (g_authz c && existsb (authz_guard_rejects c) (t_msgs x))
     && (if vb_on c then forallb basic_msg (t_msgs x) else true)
     && (if sig_on c then key_ok c w x && forallb (fun m => Nat.eqb (signer_msg c m) (t_signer x)) (t_msgs x) else true)
     && (if fee_on c then t_fee x <=? bal_of s (t_signer x) else true)
  then
    let s1 := if fee_on c then add_fee (add_bal s (t_signer x) (- t_fee x)) (t_fee x) else s in
    Some (if seq_on c then set_seq s1 (t_signer x) (S (seq_of s1 (t_signer x))) else s1)
  else None.

(** the EVM ante chain.  In the code each decorator loops over all messages before the next decorator
    runs; EthGasConsume touches balances only and EthIncrementSenderSequence sequences only, so the two
    loops are folded into one pass per message here (same failures, same final state) *)
Definition eth_parts (t : msg) : option (addr * nat * Z * Z * Z * xinfo) :=
  match t with Leaf (EthTx a n g p v x) => Some (a, n, g, p, v, x) | _ => None end.

Definition evm_admit_one (c : cfg) (s : st) (a : addr) (n : nat) (g p : Z) : option st :=
  match (if e_gas c then let fee := prepay (fee_exact c) g p in
                         if bal_of s a <? fee then None else Some (add_fee (add_bal s a (- fee)) fee)
         else Some s) with
  | None => None
  | Some s1 => if e_seq c then if Nat.eqb n (seq_of s1 a) then Some (set_seq s1 a (S n)) else None
               else Some s1
  end.

Fixpoint evm_admit (c : cfg) (ms : list msg) (s : st) : option st :=
  match ms with
  | [] => Some s
  | m :: r =>
      match eth_parts m with
      | Some (a, n, g, p, _, x) =>
          match evm_admit_one c s a n g (pay_price c p x) with Some s1 => evm_admit c r s1 | None => None end
      | None => None
      end
  end.

Definition evm_ante (c : cfg) (w : world) (s : st) (x : tx) : option st :=
  if negb (Nat.eqb (List.length (t_msgs x)) 0)
     && (if e_vb c then forallb is_eth_msg (t_msgs x) && forallb basic_msg (t_msgs x)
                        && match t_key x with KNone => true | _ => false end
         else true)
     (* VerifyEthAcc: balance (in wei) >= TxData.Cost() = gas limit × NOMINAL price + value, every message against
        the balance before the transaction; CanTransferDecorator's "balance >= value" is implied by it *)
     && (if e_acc c then forallb (fun m => match eth_parts m with
                                          | Some (a, _, g, _, v, x) => g * x_cap x + v * WEI <=? bal_of s a * WEI
                                          | None => true end) (t_msgs x) else true)
  then evm_admit c (t_msgs x) s   (* every later decorator also rejects a message that is not a MsgEthereumTx *)
  else None.

(** one DeliverTx: new state and "accepted?".  The ante handler's writes are kept when it succeeds even if
    the messages then fail; the messages are all-or-nothing *)
Definition deliver (c : cfg) (w : world) (s : st) (x : tx) : st * bool :=
  let after_ante :=
    match route_tx c (t_ext x) with
    | RouteNonEVM => nonevm_ante c w s x
    | RouteEVM => evm_ante c w s x
    | RouteReject | RouteUnknown => None
    end in
  match after_ante with
  | None => (s, false)
  | Some s1 =>
      match run_msgs c w (t_msgs x) s1 with
      | Some s2 => (s2, true)
      | None => (s1, false)
      end
  end.

Definition run_history (c : cfg) (w : world) (s : st) (h : list tx) : st :=
  fold_left (fun s x => fst (deliver c w s x)) h s.

(** ---------------------------------------------------------------- cfg from the generated facts *)
Definition guard_active (chain : list string) (name : string) (g : guard) (needs : list string) : bool :=
  mem name chain && g_found g && g_rejects g && forallb (fun t => mem t (g_tests g)) needs.

(** generated per TxData implementation: (EffectiveFeeWei floored at the base fee?, EffectiveGasPriceWeiPerGas floored?) *)
Definition txty_name (ty : txty) : string :=
  match ty with TLegacy => "LegacyTx" | TAccess => "AccessListTx" | TDynamic => "DynamicFeeTx" end.
Fixpoint price_fact (l : list (string * (bool * bool))) (ty : txty) : bool * bool :=
  match l with
  | [] => (false, false)
  | (n, f) :: r => if String.eqb n (txty_name ty) then f else price_fact r ty
  end.

Definition cfg_of_facts (nonevm evm : list string) (x : ext_facts) (gp ga : guard) (wh : wasm_facts)
           (sgc : string) (registered_ext : list string) (eth_signers_recovered : bool) (fee_of_total : bool)
           (apply_pre : nat * nat) (apply_post : bool * bool) (price_facts : list (string * (bool * bool))) : cfg :=
  {| nonevm_known := match route_of x NoExt with RouteNonEVM => true | _ => false end;
     evm_route := route_of x EvmExt;
     other_route := route_of x OtherExt;
     other_decodable := negb (forallb (String.eqb "ExtensionOptionsEthereumTx") registered_ext);
     g_prevent := guard_active nonevm N_PREVENT_ETH gp [T_ETH];
     g_authz := guard_active nonevm N_AUTHZ_GUARD ga [T_GRANT; "authz.GenericAuthorization"];
     g_authz_exec := mem T_EXEC (g_tests ga) && mem T_ETH (g_tests ga) && g_into_exec ga;
     g_authz_rec := g_recursive ga;
     vb_on := mem N_VALIDATE_BASIC nonevm;
     sig_on := mem N_SET_PUBKEY nonevm && mem N_SIG_VERIFY nonevm;
     (* eth_secp256k1 keys are turned away by DefaultSigVerificationGasConsumer inside SigGasConsumeDecorator *)
     sig_accepts_eth := negb (mem N_SIG_GAS nonevm && String.eqb sgc "DefaultSigVerificationGasConsumer");
     signer_recovered := eth_signers_recovered;
     fee_on := mem N_DEDUCT_FEE nonevm;
     seq_on := mem N_INCR_SEQ nonevm;
     e_vb := mem N_ETH_VALIDATE_BASIC evm;
     e_sig := mem N_ETH_SIG evm;
     e_acc := mem N_ETH_VERIFY_ACC evm;
     e_gas := mem N_ETH_GAS evm;
     fee_exact := fee_of_total;
     e_seq := mem N_ETH_INCR_SEQ evm;
     fee_floor := fun ty => fst (price_fact price_facts ty); refund_floor := fun ty => snd (price_fact price_facts ty);
     pre_nonce_call := prew_of_nat (fst apply_pre); pre_nonce_create := prew_of_nat (snd apply_pre);
     post_nonce_call := fst apply_post; post_nonce_create := snd apply_post;
     wasm_signer := w_signer_is_contract wh;
     wasm_no_eth := w_refuses_eth wh |}.

(** the committed code *)
Definition cfg_current : cfg :=
  {| nonevm_known := true; evm_route := RouteEVM; other_route := RouteReject; other_decodable := false;
     g_prevent := true; g_authz := true; g_authz_exec := true; g_authz_rec := false; vb_on := true; sig_on := true; sig_accepts_eth := false; signer_recovered := true;
     fee_on := true; seq_on := true; e_vb := true; e_sig := true; e_acc := true; e_gas := true; fee_exact := true; e_seq := true;
     fee_floor := fun _ => true; refund_floor := fun _ => true;
     pre_nonce_call := PreNext; pre_nonce_create := PreSame; post_nonce_call := true; post_nonce_create := true;
     wasm_signer := true; wasm_no_eth := true |}.

Definition st_init (accts : list addr) (bal : Z) : st :=
  {| seqs := []; bals := map (fun a => (a, bal)) accts; feecol := 0; grants := []; ran := [] |}.
