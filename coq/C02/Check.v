(** C02 — evaluation of implementation traces: correspondence (model vs observed) and the property
    predicate [Pb] on the observed trace itself. *)
From Coq Require Import List Bool Arith ZArith.
Import ListNotations.
Require Import Nib.C17.AnteFacts Nib.C17.MsgTree Nib.C02.Model Nib.C02.Spec.
Local Open Scope Z_scope.

(** the harness world: actors 0..2 Cosmos key accounts, 10 the reflect contract (dispatches only for its
    owner, actor 0), 11 the gov account, 20.. Ethereum accounts (29: address recovered from a tampered
    signature — unknown, unfunded; 23: an Ethereum account holding only POOR unibi), 99 the sink (also stands
    for the contracts a call / creation pays its value to); no ICA channel exists *)
Definition harness_world : world :=
  {| w_is_eth := fun a => Nat.leb 20 a && Nat.leb a 29;
     w_reflects := fun ctr snd => Nat.eqb ctr 10 && Nat.eqb snd 0;
     w_gov := 11%nat;
     w_sink := 99%nat;
     w_ica_acct := fun _ => false;
     w_ica_allow := fun _ => false |}.

Definition FUND : Z := 1000000000000000.
Definition POOR : Z := 400000.   (* account 23: a gas prepayment is a large part of what it owns *)
Definition harness_init : st :=
  {| seqs := [];
     bals := [(0%nat, FUND); (1%nat, FUND); (2%nat, FUND); (20%nat, FUND); (21%nat, FUND); (22%nat, FUND); (23%nat, POOR);
              (10%nat, 10000000000000)];
     feecol := 0; grants := []; ran := [] |}.

Definition case := list (tx * txobs).

Definition xinfo_eqb (x y : xinfo) : bool :=
  match x_kind x, x_kind y with XCall, XCall | XCreate, XCreate => true | _, _ => false end
  && match x_ty x, x_ty y with TLegacy, TLegacy | TAccess, TAccess | TDynamic, TDynamic => true | _, _ => false end
  && (x_raw x =? x_raw y)
  && (x_cap x =? x_cap y) && (x_intr x =? x_intr y) && (x_exec x =? x_exec y)
  && match x_out x, x_out y with XStop, XStop | XRevert, XRevert | XInvalid, XInvalid => true | _, _ => false end.

Definition leaf_eqb (a b : leaf) : bool :=
  match a, b with
  | EthTx a1 n1 g1 p1 v1 x1, EthTx a2 n2 g2 p2 v2 x2 =>
      Nat.eqb a1 a2 && Nat.eqb n1 n2 && (g1 =? g2) && (p1 =? p2) && (v1 =? v2) && xinfo_eqb x1 x2
  | Send a1, Send a2 => Nat.eqb a1 a2
  | Grant a1 b1 k1, Grant a2 b2 k2 => Nat.eqb a1 a2 && Nat.eqb b1 b2 && mkind_eqb k1 k2
  | EthTxAs c1 a1 n1 g1 p1 v1 x1, EthTxAs c2 a2 n2 g2 p2 v2 x2 =>
      Nat.eqb c1 c2 && Nat.eqb a1 a2 && Nat.eqb n1 n2 && (g1 =? g2) && (p1 =? p2) && (v1 =? v2) && xinfo_eqb x1 x2
  | _, _ => false
  end.

Fixpoint leaves_eqb (a b : list leaf) : bool :=
  match a, b with
  | [], [] => true
  | x :: a', y :: b' => leaf_eqb x y && leaves_eqb a' b'
  | _, _ => false
  end.

Definition eth_leaves (ms : list msg) : list leaf := filter is_eth_leaf (flat_map (leaves leaf) ms).

(** the leaves the observed indices point at *)
Definition fired_leaves (ms : list msg) (idx : list nat) : list leaf :=
  flat_map (fun i => match nth_error (eth_leaves ms) i with Some l => [l] | None => [Send 0] end) idx.

(** handlers the model ran during this tx, oldest first *)
Definition new_ran (s s' : st) : list leaf := rev (firstn (List.length (ran s') - List.length (ran s)) (ran s')).

Definition eth_matches (s s' : st) (e : ethobs) : bool :=
  Nat.eqb (seq_of s (eo_id e)) (eo_seq0 e)
  && (Z.of_nat (seq_of s' (eo_id e)) - Z.of_nat (seq_of s (eo_id e)) =? eo_dseq e)
  && (bal_of s' (eo_id e) - bal_of s (eo_id e) =? eo_dbal e).

(** what the model's msg server reports for the direct Ethereum messages [ms] run from state [s]: gas used, VM error? *)
Fixpoint exec_trace (c : cfg) (w : world) (ms : list msg) (s : st) : list (Z * bool) :=
  match ms with
  | [] => []
  | m :: r =>
      match run_msg c w m s with
      | None => []
      | Some s1 =>
          match m with
          | Leaf (EthTx a _ g _ v x) => let e := eth_exec s a g v x in (r_used e, negb (r_ok e)) :: exec_trace c w r s1
          | _ => exec_trace c w r s1
          end
      end
  end.

Definition model_exec (c : cfg) (w : world) (s : st) (x : tx) : list (Z * bool) :=
  match route_tx c (t_ext x) with
  | RouteEVM => match evm_ante c w s x with Some s1 => exec_trace c w (t_msgs x) s1 | None => [] end
  | _ => []
  end.

Fixpoint exec_eqb (a b : list (Z * bool)) : bool :=
  match a, b with
  | [], [] => true
  | (u1, f1) :: a', (u2, f2) :: b' => (u1 =? u2) && Bool.eqb f1 f2 && exec_eqb a' b'
  | _, _ => false
  end.

Definition obs_matches (c : cfg) (x : tx) (s s' : st) (ok : bool) (o : txobs) : bool :=
  Bool.eqb ok (o_ok o)
  && leaves_eqb (if ok then new_ran s s' else []) (fired_leaves (t_msgs x) (o_fired o))
  && exec_eqb (if ok then model_exec c harness_world s x else []) (o_exec o)
  && forallb (eth_matches s s') (o_eth o)
  && (feecol s' - feecol s =? o_dfee o).

Fixpoint replay (c : cfg) (s : st) (l : list (tx * txobs)) : bool :=
  match l with
  | [] => true
  | (x, o) :: r => let '(s', ok) := deliver c harness_world s x in obs_matches c x s s' ok o && replay c s' r
  end.

Definition mismatch (c : cfg) (k : case) : bool := negb (replay c harness_init k).

Definition violates (k : case) : bool := negb (Pb k).
