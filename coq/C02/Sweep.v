(** C02 — a fixed family of short histories evaluated on the MODEL when a proof obligation or the
    correspondence breaks (tools/props/c02.py model_search mirrors [sweep_cases] index by index and replays
    the failing ones on the implementation).  No proofs. *)
From Coq Require Import List Bool Arith ZArith.
Import ListNotations.
Require Import Nib.C17.AnteFacts Nib.C17.MsgTree Nib.C02.Model Nib.C02.Spec Nib.C02.Check.
Local Open Scope Z_scope.

Definition eth (a : addr) (n : nat) (g : Z) : msg := Leaf (EthTx a n g WEI 1 (x_transfer WEI)).
(** contract creation / contract call carrying [v] unibi at a gas price of 0 (charged at the base fee) *)
Definition xc (k : xkind) (out : xout) (intr : Z) : xinfo := {| x_kind := k; x_ty := TLegacy; x_raw := 0; x_cap := 0; x_intr := intr; x_exec := 0; x_out := out |}.
(** plain transfer of transaction type [ty] naming [raw] wei per gas *)
Definition xt (ty : txty) (raw cap : Z) : xinfo :=
  {| x_kind := XCall; x_ty := ty; x_raw := raw; x_cap := cap; x_intr := 21000; x_exec := 0; x_out := XStop |}.
Definition ethx (a : addr) (n : nat) (g v : Z) (x : xinfo) : msg := Leaf (EthTx a n g WEI v x).
Definition evm_tx (ms : list msg) : tx := {| t_ext := EvmExt; t_signer := 98; t_key := KNone; t_fee := 1000000; t_msgs := ms |}.
Definition cos_tx (s : addr) (ms : list msg) : tx := {| t_ext := NoExt; t_signer := s; t_key := KCosmos; t_fee := 1000000; t_msgs := ms |}.
Definition ek_tx (s : addr) (ms : list msg) : tx := {| t_ext := NoExt; t_signer := s; t_key := KEth; t_fee := 1000000; t_msgs := ms |}.

Definition sweep_cases : list (list tx) := [
  [evm_tx [eth 20 0 21000]; cos_tx 1 [eth 20 0 50000]];
  [evm_tx [eth 20 0 21000]; cos_tx 1 [Exec 1 [eth 20 0 50000]]];
  [evm_tx [eth 20 0 21000]; cos_tx 1 [Exec 1 [Exec 1 [eth 20 0 50000]]]];
  [evm_tx [eth 20 0 21000]; cos_tx 1 [Exec 1 [Exec 1 [Exec 1 [eth 20 0 50000]]]]];
  [evm_tx [eth 20 0 21000]; ek_tx 20 [Exec 20 [eth 20 0 50000]]];
  [evm_tx [eth 20 0 21000]; ek_tx 20 [Exec 20 [Exec 20 [eth 20 0 50000]]]];
  [evm_tx [eth 20 0 21000]; cos_tx 0 [Wasm 0 10 [eth 20 0 50000]]];
  [evm_tx [eth 20 0 21000]; cos_tx 0 [Wasm 0 10 [Exec 20 [eth 20 0 50000]]]];
  [evm_tx [eth 20 0 21000]; cos_tx 0 [Wasm 0 10 [Exec 10 [Exec 20 [eth 20 0 50000]]]]];
  [evm_tx [eth 20 0 21000]; evm_tx [eth 20 0 21000]];
  [evm_tx [eth 20 0 21000]; evm_tx [eth 20 3 21000]];
  [evm_tx [eth 20 0 21000]; {| t_ext := NoExt; t_signer := 98; t_key := KNone; t_fee := 1000000; t_msgs := [eth 20 0 50000] |}];
  [evm_tx [eth 20 0 21000]; {| t_ext := OtherExt; t_signer := 98; t_key := KNone; t_fee := 1000000; t_msgs := [eth 20 0 50000] |}];
  [ek_tx 20 [Exec 20 [Leaf (Grant 20 1 (MKLeaf K_ETH))]]; cos_tx 1 [Exec 1 [Exec 1 [eth 20 0 50000]]]];
  [evm_tx [eth 20 0 21000]; cos_tx 1 [Exec 1 [Exec 1 [Leaf (EthTxAs 1 20 0 50000 WEI 1 (x_transfer WEI))]]]];
  [evm_tx [eth 20 0 21000]; cos_tx 0 [Wasm 0 10 [Exec 10 [Leaf (EthTxAs 10 20 0 50000 WEI 1 (x_transfer WEI))]]]];
  [evm_tx [eth 20 0 21000]; cos_tx 1 [Exec 1 [Leaf (EthTxAs 1 20 0 50000 WEI 1 (x_transfer WEI))]]];
  [evm_tx [eth 20 0 21000]; cos_tx 1 [Leaf (EthTxAs 1 20 0 50000 WEI 1 (x_transfer WEI))]];
  (* the three transaction types naming 1 wei per gas, with leftover gas, next to another payer *)
  [evm_tx [Leaf (EthTx 20 0 21000 (5 * WEI) 1 (x_transfer (5 * WEI))); Leaf (EthTx 21 0 100000 (eff_legacy 1) 1 (xt TAccess 1 1))]];
  [evm_tx [Leaf (EthTx 20 0 21000 (5 * WEI) 1 (x_transfer (5 * WEI))); Leaf (EthTx 21 0 100000 (eff_legacy 1) 1 (xt TLegacy 1 1))]];
  [evm_tx [Leaf (EthTx 20 0 21000 (5 * WEI) 1 (x_transfer (5 * WEI))); Leaf (EthTx 21 0 100000 (eff_dynamic 1 1) 1 (xt TDynamic (raw_dynamic 1 1) 1))]];
  (* executions that fail: the sender can pay the value or the prepayment but not both; REVERT; invalid opcode;
     each delivered twice *)
  [evm_tx [ethx 23 0 100000 350000 (xc XCreate XStop 53004)]; evm_tx [ethx 23 0 100000 350000 (xc XCreate XStop 53004)]];
  [evm_tx [ethx 23 0 100000 350000 (xc XCall XStop 21000)]; evm_tx [ethx 23 0 100000 350000 (xc XCall XStop 21000)]];
  [evm_tx [ethx 20 0 100000 7 (xc XCreate XRevert 53056)]; evm_tx [ethx 20 0 100000 7 (xc XCreate XRevert 53056)]];
  [evm_tx [ethx 20 0 60000 0 (xc XCreate XInvalid 53016)]; evm_tx [ethx 20 0 60000 0 (xc XCreate XInvalid 53016)]];
  [evm_tx [ethx 21 0 21000 600000000000000 (xc XCall XStop 21000); ethx 21 1 80000 600000000000000 (xc XCreate XStop 53004)];
   evm_tx [ethx 21 1 80000 600000000000000 (xc XCreate XStop 53004)]]
].

(** what must never be seen after one transaction, on the model's own states *)
(** the EVM ante chain admitted the transaction (whether or not its messages then succeeded) *)
Definition ante_admitted (c : cfg) (s : st) (x : tx) : bool :=
  match route_tx c (t_ext x) with
  | RouteEVM => match evm_ante c harness_world s x with Some _ => true | None => false end
  | _ => false
  end.

Definition tx_bad (c : cfg) (s : st) (x : tx) : bool :=
  let '(s', ok) := deliver c harness_world s x in
  let touched a := negb (Nat.eqb (seq_of s' a) (seq_of s a)) || negb (bal_of s' a =? bal_of s a) in
  let accts := [20%nat; 21%nat; 22%nat; 23%nat] in
  (negb (is_evm (t_ext x)) && (negb (Nat.eqb (List.length (ran s')) (List.length (ran s))) || existsb touched accts))
  || existsb (fun a => Nat.ltb (seq_of s' a) (seq_of s a) || (bal_of s a <? bal_of s' a)) accts
  || (feecol s' <? feecol s)
  || (is_evm (t_ext x) && (ok || ante_admitted c s x) &&
      negb (match direct_eth (t_msgs x) with
            | Some ls => forallb (fun a => let mine := filter (leaf_from_is a) ls in
                                           nonces_from (seq_of s a) mine
                                           && Nat.eqb (seq_of s' a) (seq_of s a + List.length mine)) accts
            | None => false
            end)).

Fixpoint history_bad (c : cfg) (s : st) (h : list tx) : bool :=
  match h with
  | [] => false
  | x :: r => tx_bad c s x || history_bad c (fst (deliver c harness_world s x)) r
  end.

Fixpoint number {A} (n : nat) (l : list A) : list (nat * A) :=
  match l with [] => [] | x :: r => (n, x) :: number (S n) r end.

Definition sweep_bad (c : cfg) : list nat :=
  map fst (filter (fun p => history_bad c harness_init (snd p)) (number 0 sweep_cases)).
