(** C13 — the shape of the period roll-over comparison as it stands in x/inflation/keeper/hooks.go, re-extracted
    on every run (Gen/C13Facts.v: [gen_rollover]), with Go's evaluation rules for uint64 / int64 operands.
    No proofs in this file. *)
From Coq Require Import ZArith Bool.
Require Import Nib.C13.Model.
Local Open Scope Z_scope.

Inductive rvar := VE | VEpp | VPer | VSk.   (* epochNumber, epochsPerPeriod, period, numSkippedEpochs: all uint64 *)

Inductive rexp :=
| RVar (v : rvar)
| RI64 (a : rexp)            (* int64(a) *)
| RU64 (a : rexp)            (* uint64(a) *)
| RSub (a b : rexp) | RAdd (a b : rexp) | RMul (a b : rexp)
| ROther.                    (* anything the extractor does not know *)

Inductive rcmp := CGe | CGt | CLe | CLt | COther.

(** static type of an expression: true = int64, false = uint64 (binary operands have the same type in Go) *)
Fixpoint rsigned (x : rexp) : bool :=
  match x with
  | RVar _ | RU64 _ | ROther => false
  | RI64 _ => true
  | RSub a _ | RAdd a _ | RMul a _ => rsigned a
  end.

Definition rnorm (signed : bool) (z : Z) : Z := if signed then to_i64 z else wrap_u64 z.

Fixpoint rval (env : rvar -> Z) (x : rexp) : Z :=
  match x with
  | RVar v => env v
  | RI64 a => to_i64 (rval env a)
  | RU64 a => wrap_u64 (rval env a)
  | RSub a b => rnorm (rsigned a) (rval env a - rval env b)
  | RAdd a b => rnorm (rsigned a) (rval env a + rval env b)
  | RMul a b => rnorm (rsigned a) (rval env a * rval env b)
  | ROther => 0
  end.

Definition rtest (t : rcmp * rexp * rexp) (env : rvar -> Z) : bool :=
  let '(c, l, r) := t in
  match c with
  | CGe => rval env r <=? rval env l
  | CGt => rval env r <? rval env l
  | CLe => rval env l <=? rval env r
  | CLt => rval env l <? rval env r
  | COther => false
  end.

Definition renv (e epp per sk : Z) (v : rvar) : Z :=
  match v with VE => e | VEpp => epp | VPer => per | VSk => sk end.
