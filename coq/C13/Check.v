(** C13 — evaluation of implementation traces: correspondence (model vs observed) and the schedule
    predicate [Pb_trace] on the observed trace itself. *)
From Coq Require Import String ZArith List Bool.
Import ListNotations.
Require Import Nib.Lib.Dec Nib.C13.Model Nib.C13.Spec.
Local Open Scope Z_scope.

Record case := {
  c_zp : bool;                   (* probe: does a positive provision below one unibi panic on this tree? *)
  c_blocked : list string;       (* probe: module accounts the application's bank keeper refuses as recipients (BlockedAddr) *)
  c_init : st;                   (* params, counters (None = never written), module balance and sudo root at the start (observed) *)
  c_tr : list (op * out)         (* ops with the observed effect of each *)
}.

Definition out_eqb (a b : out) : bool :=
  Bool.eqb (o_ok a) (o_ok b) && Bool.eqb (o_panic a) (o_panic b) && (o_minted a =? o_minted b) && (o_staking a =? o_staking b) &&
  (o_community a =? o_community b) && (o_strategic a =? o_strategic b) && (o_module a =? o_module b) &&
  (o_period a =? o_period b) && (o_skipped a =? o_skipped b).

Fixpoint outs_eqb (a b : list out) : bool :=
  match a, b with
  | [], [] => true
  | x :: a', y :: b' => out_eqb x y && outs_eqb a' b'
  | _, _ => false
  end.

Definition mismatch (c : case) : bool :=
  negb (outs_eqb (snd (run (c_blocked c) (c_zp c) (c_init c) (map fst (c_tr c)))) (map snd (c_tr c))).

(* ---- the precondition under which the schedule is claimed (boolean forms of Spec.Consistent / hist_ok) *)

Fixpoint first_day (ops : list op) : option Z :=
  match ops with
  | [] => None
  | EpochEnd true e :: _ => Some e
  | _ :: r => first_day r
  end.

Definition consistentb (s : st) (e : Z) : bool :=
  let p := s_params s in
  let n := n_of s e in
  (implb (p_enabled p) (p_started p)) && (1 <=? n) &&
  (peek (s_period s) =? Z.min ((n - 1) / p_epp p) (p_max p)) &&
  (p_started p || (n =? 1)).

Definition prov_okb (p : params) (c : Z) : bool :=
  if c / p_epp p <? p_max p then 0 <? poly_provision p (c / p_epp p) else true.

Fixpoint hist_okb (E M : Z) (p : params) (c e : Z) (ops : list op) : bool :=
  match ops with
  | [] => true
  | o :: r =>
      match o with
      | EpochEnd true e' =>
          (e' =? e) && (0 <=? e) && (e <? two62) && (implb (p_enabled p) (prov_okb p c && dist_okb p)) &&
          hist_okb E M p (if p_enabled p then c + 1 else c) (e + 1) r
      | Fund _ => false
      | ChangeRoot auth rt => implb auth (operable rt) && (p_epp p =? E) && (p_max p =? M) && hist_okb E M p c e r
      | _ =>
          let p' := next_params p o in
          (p_epp p' =? E) && (p_max p' =? M) && hist_okb E M p' c e r
      end
  end.

Definition smallb (E M : Z) : bool := (0 <? E) && (0 <=? M) && (E * (M + 1) <? two62).

Definition pre (c : case) : bool :=
  let s := c_init c in
  let p := s_params s in
  let ops := map fst (c_tr c) in
  match first_day ops with
  | None => false
  | Some e =>
      operable (s_root s) && consistentb s e && (s_module s =? 0) && smallb (p_epp p) (p_max p) && (0 <=? peek (s_skipped s)) &&
      hist_okb (p_epp p) (p_max p) p (n_of s e - 1) e ops
  end.

Definition start_q (c : case) : sst :=
  {| q_params := s_params (c_init c);
     q_c := match first_day (map fst (c_tr c)) with Some e => n_of (c_init c) e - 1 | None => 0 end |}.

(** stray coins are never negative *)
Definition funds_ok (c : case) : bool :=
  (0 <=? s_module (c_init c)) && forallb (fun x => match fst x with Fund a => 0 <=? a | _ => true end) (c_tr c).

(** the schedule where it is claimed ([pre]: in particular the sudo root is an operable account — an ordinary one or
    governance — throughout); the distribution and the integer roll-over on EVERY trace, at every day-epoch end at which
    the sudo root is an operable account.  None of the three looks at [c_blocked]: a tree whose bank refuses an
    operable root is a violation. *)
Definition violates (c : case) : bool :=
  (pre c && negb (Pb_trace (start_q c) (c_tr c))) ||
  (funds_ok c && negb (Pb_dist (s_params (c_init c)) (s_root (c_init c)) (s_module (c_init c)) (c_tr c))) ||
  negb (Pb_roll (s_params (c_init c)) (s_root (c_init c)) (s_module (c_init c)) (peek (s_period (c_init c)))
          (peek (s_skipped (c_init c))) (c_tr c)).
