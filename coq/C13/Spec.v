(** C13 — the property as the closed-form schedule ([spec_run]: a counter of enabled day epochs, no
    epoch numbers, no skipped-epoch bookkeeping), as Prop ([P_trace]) and as boolean checker
    ([Pb_trace]) with [Pb_trace_sound]; the consistency condition under which the bookkeeping of the
    code follows the schedule. *)
From Coq Require Import String ZArith List Bool Lia.
Import ListNotations.
Require Import Nib.Lib.Dec Nib.C13.Model.
Local Open Scope Z_scope.

(** what the property says about one op: supply change, the three recipients, module balance afterwards,
    and the period counter afterwards *)
Record view := { v_panic : bool; v_minted : Z; v_staking : Z; v_community : Z; v_strategic : Z; v_module : Z; v_period : Z }.

Definition view_of (o : out) : view :=
  {| v_panic := o_panic o; v_minted := o_minted o; v_staking := o_staking o; v_community := o_community o;
     v_strategic := o_strategic o; v_module := o_module o; v_period := o_period o |}.

(** schedule state: the parameters and [c] = number of day epochs that ended while inflation was enabled,
    counted since inflation first started (the next enabled epoch is the (c+1)-th) *)
Record sst := { q_params : params; q_c : Z }.

(** amount the (c+1)-th enabled epoch mints: floor(polynomial(p)*10^6 / EpochsPerPeriod), p = floor(c / EpochsPerPeriod),
    nothing once p reaches MaxPeriod *)
Definition sched_mint (p : params) (c : Z) : Z :=
  let per := c / p_epp p in
  if per <? p_max p then truncate_int (poly_provision p per) else 0.

Definition sched_period (p : params) (c : Z) : Z := Z.min (c / p_epp p) (p_max p).

Definition quiet_view (q : sst) : view :=
  {| v_panic := false; v_minted := 0; v_staking := 0; v_community := 0; v_strategic := 0; v_module := 0;
     v_period := sched_period (q_params q) (q_c q) |}.

Definition spec_step (q : sst) (o : op) : sst * view :=
  match o with
  | EpochEnd true _ =>
      let p := q_params q in
      if p_enabled p then
        let m := sched_mint p (q_c q) in
        let stk := share m (p_staking p) in
        let cm := share m (p_community p) in
        let q' := {| q_params := p; q_c := q_c q + 1 |} in
        (q', {| v_panic := false; v_minted := m; v_staking := stk; v_community := cm; v_strategic := m - stk - cm;
                v_module := 0; v_period := sched_period p (q_c q') |})
      else (q, quiet_view q)                (* disabled: nothing minted, the schedule does not advance *)
  | EpochEnd false _ => (q, quiet_view q)   (* other identifiers *)
  | Toggle auth b =>
      let q' := if auth then {| q_params := toggle_params (q_params q) b; q_c := q_c q |} else q in (q', quiet_view q')
  | Edit auth ed =>
      let q' := if auth && valid (merge ed (q_params q))
                then {| q_params := merge ed (q_params q); q_c := q_c q |} else q in (q', quiet_view q')
  | Fund _ => (q, quiet_view q)             (* outside the property (excluded by [hist_ok]) *)
  | ChangeRoot _ _ => (q, quiet_view q)     (* who the strategic reserve is does not move the schedule *)
  end.

Fixpoint spec_run (q : sst) (ops : list op) : sst * list view :=
  match ops with
  | [] => (q, [])
  | o :: r => let '(q1, x) := spec_step q o in let '(q2, xs) := spec_run q1 r in (q2, x :: xs)
  end.

(** the property on a trace (ops with what they published), from schedule state [q] *)
Definition P_trace (q : sst) (tr : list (op * out)) : Prop :=
  map (fun x => view_of (snd x)) tr = snd (spec_run q (map fst tr)).

(* ---------------------------------------------------------------- who may be the sudo root *)

(** the module account that signs the messages of passed governance proposals (x/gov: the only module account that
    can ever act as a message sender, hence as sudo root); Gen/C13Oblig.v ties it to the linked cosmos-sdk constant *)
Definition gov_account : string := "gov"%string.

(** accounts that can operate as sudo root: every ordinary account, and governance.  MsgChangeRoot accepts any
    address — handing the root to another module account leaves nobody who can sign as root again. *)
Definition operable (r : root) : bool :=
  match r with RAcct _ => true | RMod m => String.eqb m gov_account end.

(** the wiring fact under which "everything minted is distributed" is claimed: the bank's blocked-recipient table
    lets every operable root receive (obligation over the generated table: Gen/C13Oblig.v) *)
Definition wiring_ok (B : list string) : Prop := forall r, operable r = true -> blocked B r = false.
Definition wiring_okb (B : list string) : bool := negb (mem gov_account B).

Definition next_root (r : root) (o : op) : root := match o with ChangeRoot true r' => r' | _ => r end.

(* ---------------------------------------------------------------- when the code's counters follow the schedule *)

(** [e] = number of the next day epoch to end; n = e - skipped is what the code takes for "the n-th enabled epoch" *)
Definition n_of (s : st) (e : Z) : Z := e - peek (s_skipped s).

Definition Consistent (s : st) (e : Z) : Prop :=
  let p := s_params s in
  (p_enabled p = true -> p_started p = true) /\
  1 <= n_of s e /\
  peek (s_period s) = Z.min ((n_of s e - 1) / p_epp p) (p_max p) /\
  (p_started p = false -> n_of s e = 1).

Definition dist_ok (p : params) : Prop :=
  0 <= p_staking p /\ 0 <= p_community p /\ 0 <= p_strategic p /\
  p_staking p + p_strategic p + p_community p = PREC.

(** the polynomial is positive below MaxPeriod *)
Definition poly_pos (p : params) : Prop := forall per, 0 <= per < p_max p -> 0 < poly_provision p per.
(** … and yields at least one unibi per epoch (true of the default polynomial, Gen/C13Oblig.v) *)
Definition poly_unit (p : params) : Prop := forall per, 0 <= per < p_max p -> PREC <= poly_provision p per.

Definition two62 : Z := 4611686018427387904.

(** sizes for which the uint64 / int64 arithmetic of the roll-over test does not wrap *)
Definition small (E M : Z) : Prop := 0 < E /\ 0 <= M /\ E * (M + 1) < two62.

Definition next_params (p : params) (o : op) : params :=
  match o with
  | Toggle true b => toggle_params p b
  | Edit auth ed => if auth && valid (merge ed p) then merge ed p else p
  | _ => p
  end.

(** what the schedule needs of the polynomial at the (c+1)-th enabled epoch: while the schedule has not ended the
    provision is positive.  [poly_pos] implies it for every c. *)
Definition prov_ok (p : params) (c : Z) : Prop :=
  c / p_epp p < p_max p -> 0 < poly_provision p (c / p_epp p).

(** histories the property quantifies over: day epochs end with consecutive numbers starting at [e];
    EpochsPerPeriod = E and MaxPeriod = M throughout; the sudo root is handed over (MsgChangeRoot) to operable
    accounts only; whenever an enabled day epoch ends the polynomial is
    positive at the scheduled period and the proportions are valid; no stray coins in the module account.
    [c] = enabled day epochs so far. *)
Fixpoint hist_ok (E M : Z) (p : params) (c e : Z) (ops : list op) : Prop :=
  match ops with
  | [] => True
  | o :: r =>
      match o with
      | EpochEnd true e' =>
          e' = e /\ 0 <= e < two62 /\ (p_enabled p = true -> prov_ok p c /\ dist_ok p) /\
          hist_ok E M p (if p_enabled p then c + 1 else c) (e + 1) r
      | Fund _ => False
      | ChangeRoot auth rt => (auth = true -> operable rt = true) /\ p_epp p = E /\ p_max p = M /\ hist_ok E M p c e r
      | _ => p_epp (next_params p o) = E /\ p_max (next_params p o) = M /\ hist_ok E M (next_params p o) c e r
      end
  end.

(* ---------------------------------------------------------------- distribution, claimed for EVERY state *)

(** what one day-epoch end must publish given the proportions [p] and the module balance before it [m0]
    (no consistency, no schedule: "everything minted is distributed in the same block") *)
Definition dist_step (p : params) (m0 : Z) (x : out) : Prop :=
  0 <= o_minted x /\
  (0 < o_minted x ->
     o_staking x + o_community x + o_strategic x = o_minted x + m0 /\ o_module x = 0 /\
     o_staking x = o_minted x * p_staking p / PREC /\ o_community x = o_minted x * p_community p / PREC) /\
  (o_minted x = 0 -> o_staking x = 0 /\ o_community x = 0 /\ o_strategic x = 0 /\ o_module x = m0).

Definition dist_okb (p : params) : bool :=
  (0 <=? p_staking p) && (0 <=? p_community p) && (0 <=? p_strategic p) &&
  (p_staking p + p_strategic p + p_community p =? PREC).

(** along a trace: parameters follow the toggles / edits, the sudo root [rt] follows the root changes, the module
    balance is what the previous op published; claimed whenever the root is an operable account *)
Fixpoint P_dist (p : params) (rt : root) (m0 : Z) (tr : list (op * out)) : Prop :=
  match tr with
  | [] => True
  | (o, x) :: r =>
      match o with
      | EpochEnd true _ => (dist_okb p = true -> operable rt = true -> dist_step p m0 x) /\ P_dist p rt (o_module x) r
      | _ => P_dist (next_params p o) (next_root rt o) (o_module x) r
      end
  end.

Definition dist_stepb (p : params) (m0 : Z) (x : out) : bool :=
  (0 <=? o_minted x) &&
  (if 0 <? o_minted x then
     (o_staking x + o_community x + o_strategic x =? o_minted x + m0) && (o_module x =? 0) &&
     (o_staking x =? o_minted x * p_staking p / PREC) && (o_community x =? o_minted x * p_community p / PREC)
   else true) &&
  (if o_minted x =? 0 then
     (o_staking x =? 0) && (o_community x =? 0) && (o_strategic x =? 0) && (o_module x =? m0)
   else true).

Fixpoint Pb_dist (p : params) (rt : root) (m0 : Z) (tr : list (op * out)) : bool :=
  match tr with
  | [] => true
  | (o, x) :: r =>
      match o with
      | EpochEnd true _ => (negb (dist_okb p) || negb (operable rt) || dist_stepb p m0 x) && Pb_dist p rt (o_module x) r
      | _ => Pb_dist (next_params p o) (next_root rt o) (o_module x) r
      end
  end.

Lemma dist_stepb_sound p m0 x : dist_stepb p m0 x = true -> dist_step p m0 x.
Proof.
  unfold dist_stepb, dist_step. intro H.
  apply andb_true_iff in H. destruct H as [H H3]. apply andb_true_iff in H. destruct H as [H1 H2].
  apply Z.leb_le in H1. split; [exact H1|]. split.
  - intro Pos. apply Z.ltb_lt in Pos. rewrite Pos in H2.
    repeat (apply andb_true_iff in H2; destruct H2 as [H2 ?]).
    repeat match goal with X : (_ =? _) = true |- _ => apply Z.eqb_eq in X end. auto.
  - intro Zr. apply Z.eqb_eq in Zr. rewrite Zr in H3.
    repeat (apply andb_true_iff in H3; destruct H3 as [H3 ?]).
    repeat match goal with X : (_ =? _) = true |- _ => apply Z.eqb_eq in X end. auto.
Qed.

Lemma Pb_dist_sound tr : forall p rt m0, Pb_dist p rt m0 tr = true -> P_dist p rt m0 tr.
Proof.
  induction tr as [|[o x] r IH]; intros p rt m0 H; [exact I|].
  destruct o as [[|] e|auth b|auth ed|amt|auth r']; cbn [Pb_dist P_dist] in *; try (apply IH; exact H).
  apply andb_true_iff in H. destruct H as [H1 H2]. split; [|apply IH; exact H2].
  intros D O. rewrite D, O in H1. cbn in H1. apply dist_stepb_sound. exact H1.
Qed.

(* ---------------------------------------------------------------- the roll-over on the integers, claimed for EVERY state *)

(** what a minting day-epoch end (number [e]) does to the counters, whatever they were ([per], [sk] before):
    the period advances by one iff, ON THE INTEGERS, e - EPP*per - sk >= EPP.  In particular when the counters are
    ahead of the epoch number (the difference is negative) the period must not advance; the skipped counter is
    untouched.  (Sizes below 2^62; [m0] = module balance before; the sudo root an operable account — with a blocked
    root the hook returns before the test: Proofs.blocked_root_partial_effects.) *)
Definition roll_step (p : params) (m0 per sk e : Z) (x : out) : Prop :=
  0 <= m0 -> 0 <= e < two62 -> 0 <= sk < two62 -> 0 < p_epp p < two62 -> 0 <= per -> p_epp p * per < two62 ->
  0 < o_minted x ->
  o_period x = (if p_epp p <=? e - p_epp p * per - sk then per + 1 else per) /\ o_skipped x = sk.

Fixpoint P_roll (p : params) (rt : root) (m0 per sk : Z) (tr : list (op * out)) : Prop :=
  match tr with
  | [] => True
  | (o, x) :: r =>
      match o with
      | EpochEnd true e => (dist_okb p = true -> operable rt = true -> roll_step p m0 per sk e x) /\
                           P_roll p rt (o_module x) (o_period x) (o_skipped x) r
      | _ => P_roll (next_params p o) (next_root rt o) (o_module x) (o_period x) (o_skipped x) r
      end
  end.

Definition roll_stepb (p : params) (m0 per sk e : Z) (x : out) : bool :=
  if (0 <=? m0) && (0 <=? e) && (e <? two62) && (0 <=? sk) && (sk <? two62) && (0 <? p_epp p) && (p_epp p <? two62) &&
     (0 <=? per) && (p_epp p * per <? two62) && (0 <? o_minted x)
  then (o_period x =? (if p_epp p <=? e - p_epp p * per - sk then per + 1 else per)) && (o_skipped x =? sk)
  else true.

Fixpoint Pb_roll (p : params) (rt : root) (m0 per sk : Z) (tr : list (op * out)) : bool :=
  match tr with
  | [] => true
  | (o, x) :: r =>
      match o with
      | EpochEnd true e => (negb (dist_okb p) || negb (operable rt) || roll_stepb p m0 per sk e x) &&
                           Pb_roll p rt (o_module x) (o_period x) (o_skipped x) r
      | _ => Pb_roll (next_params p o) (next_root rt o) (o_module x) (o_period x) (o_skipped x) r
      end
  end.

Lemma roll_stepb_sound p m0 per sk e x : roll_stepb p m0 per sk e x = true -> roll_step p m0 per sk e x.
Proof.
  unfold roll_stepb, roll_step. intros H A1 A2 A3 A4 A5 A6 A7.
  assert (G : (0 <=? m0) && (0 <=? e) && (e <? two62) && (0 <=? sk) && (sk <? two62) && (0 <? p_epp p) && (p_epp p <? two62) &&
              (0 <=? per) && (p_epp p * per <? two62) && (0 <? o_minted x) = true).
  { repeat (apply andb_true_iff; split); try (apply Z.leb_le; lia); apply Z.ltb_lt; lia. }
  rewrite G in H. apply andb_true_iff in H. destruct H as [H1 H2].
  apply Z.eqb_eq in H1. apply Z.eqb_eq in H2. auto.
Qed.

Lemma Pb_roll_sound tr : forall p rt m0 per sk, Pb_roll p rt m0 per sk tr = true -> P_roll p rt m0 per sk tr.
Proof.
  induction tr as [|[o x] r IH]; intros p rt m0 per sk H; [exact I|].
  destruct o as [[|] e|auth b|auth ed|amt|auth r']; cbn [Pb_roll P_roll] in *; try (apply IH; exact H).
  apply andb_true_iff in H. destruct H as [H1 H2]. split; [|apply IH; exact H2].
  intros D O. rewrite D, O in H1. cbn in H1. apply roll_stepb_sound. exact H1.
Qed.

(* ---------------------------------------------------------------- boolean checker *)

Definition view_eqb (a b : view) : bool :=
  Bool.eqb (v_panic a) (v_panic b) && (v_minted a =? v_minted b) && (v_staking a =? v_staking b) && (v_community a =? v_community b) &&
  (v_strategic a =? v_strategic b) && (v_module a =? v_module b) && (v_period a =? v_period b).

Fixpoint views_eqb (a b : list view) : bool :=
  match a, b with
  | [], [] => true
  | x :: a', y :: b' => view_eqb x y && views_eqb a' b'
  | _, _ => false
  end.

Definition Pb_trace (q : sst) (tr : list (op * out)) : bool :=
  views_eqb (map (fun x => view_of (snd x)) tr) (snd (spec_run q (map fst tr))).

Lemma view_eqb_eq a b : view_eqb a b = true -> a = b.
Proof.
  unfold view_eqb. intro H. repeat (apply andb_true_iff in H; destruct H as [H ?]).
  repeat match goal with X : (_ =? _) = true |- _ => apply Z.eqb_eq in X end.
  apply eqb_prop in H.
  destruct a, b; simpl in *; subst; reflexivity.
Qed.

Lemma views_eqb_eq a : forall b, views_eqb a b = true -> a = b.
Proof.
  induction a as [|x a IH]; intros [|y b] H; simpl in H; try discriminate; auto.
  apply andb_true_iff in H. destruct H as [H1 H2]. apply view_eqb_eq in H1. apply IH in H2. subst. reflexivity.
Qed.

Lemma Pb_trace_sound q tr : Pb_trace q tr = true -> P_trace q tr.
Proof. unfold Pb_trace, P_trace. apply views_eqb_eq. Qed.
