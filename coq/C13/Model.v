(** C13 — executable model of the inflation module's epoch hook
    (x/inflation/keeper/hooks.go AfterEpochEnd, inflation.go MintAndAllocateInflation /
     AllocatePolynomialInflation / GetProportions, sudo.go ToggleInflation / EditInflationParams,
     types/inflation_calculation.go, types/params.go Validate; collections.Sequence).
    No proofs in this file.

    Decimals are raw integers scaled by 10^18 (Lib/Dec.v); uint64 / int64 conversions of the
    roll-over test are explicit.

    The sudo root — recipient of the strategic reserve — is part of the state ([s_root]: an ordinary
    account or a module account named as in app/app_config.go) and is changed by MsgChangeRoot
    ([ChangeRoot]).  The x/bank blocked-recipient table of the application wiring is a parameter [B]
    of the model (module account names that may not receive funds); when the root is blocked the
    last transfer of AllocatePolynomialInflation fails after mint + staking + community-pool steps
    and the hook returns before the period roll-over. *)
From Coq Require Import String ZArith List Bool.
Import ListNotations.
Require Import Nib.Lib.Dec.
Local Open Scope Z_scope.

Record params := {
  p_enabled : bool;          (* InflationEnabled *)
  p_started : bool;          (* HasInflationStarted *)
  p_factors : list Z;        (* PolynomialFactors, highest degree first (Dec) *)
  p_staking : Z;             (* InflationDistribution.StakingRewards (Dec) *)
  p_community : Z;           (* InflationDistribution.CommunityPool (Dec) *)
  p_strategic : Z;           (* InflationDistribution.StrategicReserves (Dec) *)
  p_epp : Z;                 (* EpochsPerPeriod (uint64) *)
  p_ppy : Z;                 (* PeriodsPerYear (uint64) *)
  p_max : Z                  (* MaxPeriod (uint64) *)
}.

(* ---------------------------------------------------------------- machine integers *)

Definition two63 : Z := 9223372036854775808.
Definition two64 : Z := 18446744073709551616.
Definition wrap_u64 (z : Z) : Z := z mod two64.
(** Go's int64(x) of a uint64 (and the wrap-around of int64 subtraction) *)
Definition to_i64 (z : Z) : Z := let w := z mod two64 in if w <? two63 then w else w - two64.

(* ---------------------------------------------------------------- the polynomial *)

(** polynomial(factors, x): sum of factor_i * x^(len-1-i), then * 1_000_000 (all LegacyDec ops) *)
Fixpoint poly_sum (fs : list Z) (x : Z) : Z :=
  match fs with
  | [] => 0
  | f :: r => mul f (power x (Z.of_nat (length r))) + poly_sum r x
  end.

Definition polynomial (fs : list Z) (x : Z) : Z := mul (poly_sum fs x) (1000000 * PREC).

(** the part of CalculateEpochMintProvision after its guards *)
Definition poly_provision (p : params) (period : Z) : Z :=
  let v := polynomial (p_factors p) (to_i64 period * PREC) in
  if v <? 0 then 0 else quo v (to_i64 (p_epp p) * PREC).

Definition provision (p : params) (period : Z) : Z :=
  if (p_epp p =? 0) || negb (p_enabled p) || (p_max p <=? period) then 0 else poly_provision p period.

(* ---------------------------------------------------------------- the sudo root and the bank's blocked recipients *)

(** who the sudo root is: an ordinary account (numbered by the driver) or the module account [name] *)
Inductive root := RAcct (n : nat) | RMod (name : string).

Definition mem (x : string) (l : list string) : bool := existsb (String.eqb x) l.

(** x/bank BlockedAddr(root) under the blocked-recipient table [B] of the application wiring (module account names,
    app/app_config.go BlockedModuleAccountsOverride): only module accounts are ever blocked *)
Definition blocked (B : list string) (r : root) : bool :=
  match r with RAcct _ => false | RMod m => mem m B end.

(* ---------------------------------------------------------------- state *)

(** a collections.Sequence: unset reads as DefaultSequenceStart *)
Definition seq_default : Z := 1.
Definition peek (o : option Z) : Z := match o with Some v => v | None => seq_default end.

Record st := {
  s_params : params;
  s_period : option Z;       (* CurrentPeriod *)
  s_skipped : option Z;      (* NumSkippedEpochs *)
  s_module : Z;              (* unibi balance of the inflation module account *)
  s_root : root              (* x/sudo Sudoers.Root: the strategic-reserve recipient *)
}.

(** what one op does to the quantities the property talks about *)
Record out := {
  o_ok : bool;               (* the call returned no error (toggle / edit) *)
  o_panic : bool;            (* the call panicked (in BeginBlock: the chain halts) *)
  o_minted : Z;              (* change of the unibi supply *)
  o_staking : Z;             (* change of the fee collector balance *)
  o_community : Z;           (* change of the community pool *)
  o_strategic : Z;           (* change of the sudo root balance (net of the staking / community / module change
                                when the root IS the fee collector / distribution / inflation module account) *)
  o_module : Z;              (* inflation module balance afterwards *)
  o_period : Z;              (* CurrentPeriod.Peek afterwards *)
  o_skipped : Z              (* NumSkippedEpochs.Peek afterwards *)
}.

Definition quiet (ok : bool) (s : st) : out :=
  {| o_ok := ok; o_panic := false; o_minted := 0; o_staking := 0; o_community := 0; o_strategic := 0;
     o_module := s_module s; o_period := peek (s_period s); o_skipped := peek (s_skipped s) |}.

(* ---------------------------------------------------------------- AfterEpochEnd *)

(** GetProportions: NewDecFromInt(amount).Mul(proportion).TruncateInt() *)
Definition share (amt prop : Z) : Z := truncate_int (mul (amt * PREC) prop).

(** MintCoins + AllocatePolynomialInflation on a module balance [m0]:
    (staking, community, strategic, module balance afterwards, no error).
    [recv]: the bank lets the sudo root receive (SendCoinsFromModuleToAccount checks BlockedAddr before
    anything else, whatever the amount); when it does not, the mint, the staking transfer and the
    community-pool funding have already happened and stay. *)
Definition allocate (recv : bool) (p : params) (m0 amt : Z) : Z * Z * Z * Z * bool :=
  let m := m0 + amt in
  let stk := share amt (p_staking p) in
  if m <? stk then (0, 0, 0, m, false) else
  let cm := share amt (p_community p) in
  if m - stk <? cm then (stk, 0, 0, m - stk, false) else
  if negb recv then (stk, cm, 0, m - stk - cm, false) else
  (stk, cm, m - stk - cm, 0, true).

(** the roll-over test:  int64(e) - int64(epp*period) - int64(skipped) >= int64(epp) *)
Definition rollover (e epp period skipped : Z) : bool :=
  to_i64 epp <=? to_i64 (to_i64 (to_i64 e - to_i64 (wrap_u64 (epp * period))) - to_i64 skipped).

Definition set_skipped (s : st) (v : Z) : st :=
  {| s_params := s_params s; s_period := s_period s; s_skipped := Some v; s_module := s_module s; s_root := s_root s |}.

(** [zp]: does the path "provision positive but below one unibi" panic?  On the pinned tree it does
    (hooks.go: the deferred telemetry closure calls IsInt64 on the nil Amount of the empty coins returned
    by MintAndAllocateInflation, after the roll-over test ran).  The driver probes the implementation
    once per run and passes the answer, so the model describes the tree with and without a repair. *)
Definition with_panic (b : bool) (o : out) : out :=
  {| o_ok := o_ok o; o_panic := b; o_minted := o_minted o; o_staking := o_staking o; o_community := o_community o;
     o_strategic := o_strategic o; o_module := o_module o; o_period := o_period o; o_skipped := o_skipped o |}.

(** [recv] = the sudo root of [s] can receive *)
Definition epoch_end (recv : bool) (zp : bool) (s : st) (day : bool) (e : Z) : st * out :=
  if negb day then (s, quiet true s) else
  let p := s_params s in
  if negb (p_enabled p) then
    let s' := if negb (p_started p) then set_skipped s e
              else set_skipped s (wrap_u64 (peek (s_skipped s) + 1)) in
    (s', quiet true s')
  else
    let period := peek (s_period s) in
    let prov := provision p period in
    if negb (0 <? prov) then (s, quiet true s) else
    let amt := truncate_int prov in
    if negb (0 <? amt) then
      (* nothing minted; the roll-over test still runs *)
      let s' := {| s_params := p;
                   s_period := if rollover e (p_epp p) period (peek (s_skipped s))
                               then Some (wrap_u64 (period + 1)) else s_period s;
                   s_skipped := s_skipped s; s_module := s_module s; s_root := s_root s |} in
      (s', with_panic zp (quiet true s'))
    else
      let '(stk, cm, sr, m, ok) := allocate recv p (s_module s) amt in
      let s' := {| s_params := p;
                   s_period := if ok && rollover e (p_epp p) period (peek (s_skipped s))
                               then Some (wrap_u64 (period + 1)) else s_period s;
                   s_skipped := s_skipped s; s_module := m; s_root := s_root s |} in
      (s', {| o_ok := true; o_panic := false; o_minted := amt; o_staking := stk; o_community := cm; o_strategic := sr;
              o_module := m; o_period := peek (s_period s'); o_skipped := peek (s_skipped s') |}).

Definition after_epoch_end (B : list string) (zp : bool) (s : st) (day : bool) (e : Z) : st * out :=
  epoch_end (negb (blocked B (s_root s))) zp s day e.

(* ---------------------------------------------------------------- sudo operations *)

Definition set_params (s : st) (p : params) : st :=
  {| s_params := p; s_period := s_period s; s_skipped := s_skipped s; s_module := s_module s; s_root := s_root s |}.

(** MsgChangeRoot: Sudoers.Root := NewRoot (any address; the sender must be the current root) *)
Definition set_root (s : st) (r : root) : st :=
  {| s_params := s_params s; s_period := s_period s; s_skipped := s_skipped s; s_module := s_module s; s_root := r |}.

Definition toggle_params (p : params) (b : bool) : params :=
  {| p_enabled := b; p_started := p_started p || b; p_factors := p_factors p;
     p_staking := p_staking p; p_community := p_community p; p_strategic := p_strategic p;
     p_epp := p_epp p; p_ppy := p_ppy p; p_max := p_max p |}.

Definition toggle (s : st) (b : bool) : st := set_params s (toggle_params (s_params s) b).

(** MsgEditInflationParams: every field optional *)
Record edit := {
  ed_factors : option (list Z);
  ed_dist : option (Z * Z * Z);      (* staking, community, strategic *)
  ed_epp : option Z; ed_ppy : option Z; ed_max : option Z
}.

Definition opt {A} (o : option A) (d : A) : A := match o with Some x => x | None => d end.

Definition merge (ed : edit) (p : params) : params :=
  {| p_enabled := p_enabled p; p_started := p_started p;
     p_factors := opt (ed_factors ed) (p_factors p);
     p_staking := match ed_dist ed with Some (a, _, _) => a | None => p_staking p end;
     p_community := match ed_dist ed with Some (_, b, _) => b | None => p_community p end;
     p_strategic := match ed_dist ed with Some (_, _, c) => c | None => p_strategic p end;
     p_epp := opt (ed_epp ed) (p_epp p); p_ppy := opt (ed_ppy ed) (p_ppy p); p_max := opt (ed_max ed) (p_max p) |}.

(** Params.Validate *)
Definition valid (p : params) : bool :=
  (0 <? p_epp p) && (0 <? p_ppy p) && negb (match p_factors p with [] => true | _ => false end) &&
  (0 <=? p_staking p) && (0 <=? p_community p) && (0 <=? p_strategic p) &&
  (p_staking p + p_strategic p + p_community p =? PREC).

Inductive op :=
| EpochEnd (day : bool) (e : Z)            (* EpochsKeeper.AfterEpochEnd(ctx, id, e); day = (id == "day") *)
| Toggle (auth : bool) (b : bool)          (* Sudo().ToggleInflation(ctx, b, sender); auth = sender is a sudoer *)
| Edit (auth : bool) (ed : edit)           (* Sudo().EditInflationParams(ctx, msg, sender) *)
| Fund (amt : Z)                           (* stray unibi minted into the inflation module account *)
| ChangeRoot (auth : bool) (r : root).     (* sudo MsgServer.ChangeRoot(sender, new root r); auth = sender is the current root *)

Definition step (B : list string) (zp : bool) (s : st) (o : op) : st * out :=
  match o with
  | EpochEnd day e => after_epoch_end B zp s day e
  | Toggle auth b => if auth then let s' := toggle s b in (s', quiet true s') else (s, quiet false s)
  | Edit auth ed =>
      if auth && valid (merge ed (s_params s))
      then let s' := set_params s (merge ed (s_params s)) in (s', quiet true s')
      else (s, quiet false s)
  | Fund amt =>
      let s' := {| s_params := s_params s; s_period := s_period s; s_skipped := s_skipped s;
                   s_module := s_module s + amt; s_root := s_root s |} in
      (s', {| o_ok := true; o_panic := false; o_minted := amt; o_staking := 0; o_community := 0; o_strategic := 0;
              o_module := s_module s'; o_period := peek (s_period s'); o_skipped := peek (s_skipped s') |})
  | ChangeRoot auth r => if auth then let s' := set_root s r in (s', quiet true s') else (s, quiet false s)
  end.

Fixpoint run (B : list string) (zp : bool) (s : st) (ops : list op) : st * list out :=
  match ops with
  | [] => (s, [])
  | o :: r => let '(s1, x) := step B zp s o in let '(s2, xs) := run B zp s1 r in (s2, x :: xs)
  end.
