(** C13 — lemmas and invariants. *)
From Coq Require Import ZArith List Bool Lia.
Import ListNotations.
Require Import Nib.Lib.Dec Nib.C13.Model Nib.C13.Spec Nib.C13.Check.
Local Open Scope Z_scope.
