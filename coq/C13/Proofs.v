(** C13 — lemmas and invariants: the code's bookkeeping (epoch number - skipped epochs - EPP*period)
    refines the closed-form schedule. *)
From Coq Require Import String ZArith List Bool Lia.
Import ListNotations.
Require Import Nib.Lib.Dec Nib.C13.Model Nib.C13.Spec Nib.C13.Check Nib.C13.Arith.
Local Open Scope Z_scope.

(* ---------------------------------------------------------------- the coupling relation *)

(** [R E M s e c]: state [s], with [e] the number of the next day epoch to end, stands at position [c] of the
    schedule (c enabled day epochs so far) *)
Definition R (E M : Z) (s : st) (e c : Z) : Prop :=
  let p := s_params s in
  p_epp p = E /\ p_max p = M /\ s_module s = 0 /\
  (p_enabled p = true -> p_started p = true) /\
  0 <= peek (s_skipped s) /\ c = e - peek (s_skipped s) - 1 /\ 0 <= c /\
  peek (s_period s) = Z.min (c / E) M /\
  (p_started p = false -> c = 0) /\
  operable (s_root s) = true.

Lemma Consistent_R s e :
  Consistent s e -> s_module s = 0 -> 0 <= peek (s_skipped s) -> operable (s_root s) = true ->
  R (p_epp (s_params s)) (p_max (s_params s)) s e (n_of s e - 1).
Proof.
  intros [C1 [C2 [C3 C4]]] Hm Hk Ho. unfold R, n_of in *. repeat split; auto; try lia.
  intro X. specialize (C4 X). lia.
Qed.

Lemma R_Consistent E M s e c : R E M s e c -> Consistent s e /\ c = n_of s e - 1.
Proof.
  intros [R1 [R2 [R3 [R4 [R5 [R6 [R7 [R8 [R9 R10]]]]]]]]]. unfold Consistent, n_of. subst E M.
  replace (e - peek (s_skipped s) - 1) with c by lia.
  repeat split; auto; try lia. intro X. specialize (R9 X). lia.
Qed.

Lemma view_quiet ok s c :
  s_module s = 0 -> peek (s_period s) = sched_period (s_params s) c ->
  view_of (quiet ok s) = quiet_view {| q_params := s_params s; q_c := c |}.
Proof. intros Hm Hp. unfold view_of, quiet, quiet_view. simpl. rewrite Hm, Hp. reflexivity. Qed.

(* ---------------------------------------------------------------- a day epoch ends while inflation is enabled *)

Lemma provision_below p per :
  p_enabled p = true -> 0 < p_epp p -> per < p_max p -> provision p per = poly_provision p per.
Proof.
  intros He HE Hp. unfold provision. rewrite He.
  assert (p_epp p =? 0 = false) as -> by (apply Z.eqb_neq; lia).
  assert (p_max p <=? per = false) as -> by (apply Z.leb_gt; lia). reflexivity.
Qed.

Lemma provision_past_end p per : p_max p <= per -> provision p per = 0.
Proof.
  intro H. unfold provision. assert (p_max p <=? per = true) as -> by (apply Z.leb_le; lia).
  rewrite !orb_true_r. reflexivity.
Qed.

Lemma enabled_day BL E M s e c :
  wiring_ok BL -> small E M -> R E M s e c -> 0 <= e < two62 ->
  p_enabled (s_params s) = true -> prov_ok (s_params s) c -> dist_ok (s_params s) ->
  view_of (snd (after_epoch_end BL false s true e)) = snd (spec_step {| q_params := s_params s; q_c := c |} (EpochEnd true e)) /\
  R E M (fst (after_epoch_end BL false s true e)) (e + 1) (c + 1) /\
  s_params (fst (after_epoch_end BL false s true e)) = s_params s.
Proof.
  intros HW [HE [HM HEM]] [R1 [R2 [R3 [R4 [R5 [R6 [R7 [R8 [R9 R10]]]]]]]]] He Hen Hpo Hd.
  destruct two62_lt as [T1 [T2 T3]].
  set (p := s_params s) in *. set (k := peek (s_skipped s)) in *.
  assert (Hst : p_started p = true) by auto.
  unfold after_epoch_end. rewrite (HW _ R10). cbn [negb]. unfold epoch_end, spec_step. cbn [negb q_params q_c]. fold p. rewrite Hen. cbn [negb].
  rewrite R8. unfold prov_ok in Hpo. rewrite R1, R2 in Hpo.
  pose proof (Z.div_pos c E R7 HE) as Hdiv.
  assert (HcE : c / E * E <= c) by (rewrite Z.mul_comm; apply Z.mul_div_le; lia).
  destruct (Z_lt_le_dec (c / E) M) as [Lt|Ge].
  - (* the schedule has not ended: period = c / E *)
    rewrite Z.min_l by lia. specialize (Hpo Lt).
    rewrite provision_below by (try rewrite R1; try rewrite R2; auto; lia).
    set (prov := poly_provision p (c / E)) in *.
    assert (Hprov : 0 < prov) by exact Hpo.
    assert (0 <? prov = true) as -> by (apply Z.ltb_lt; exact Hprov). cbn [negb].
    assert (Hamt : 0 <= truncate_int prov) by (apply truncate_nonneg; lia).
    (* the roll-over test *)
    assert (Hroll : rollover e (p_epp p) (c / E) k = (E <=? (c + 1) - E * (c / E))).
    { rewrite R1.
      assert (B1 : 0 <= k < two62) by lia.
      assert (B2 : 0 < E < two62) by nia.
      assert (B3 : 0 <= E * (c / E) < two62) by nia.
      rewrite (rollover_small e E (c / E) k He B1 B2 B3). f_equal. lia. }
    assert (Hsm : sched_mint p c = truncate_int prov).
    { unfold sched_mint. rewrite R1, R2. assert (c / E <? M = true) as -> by (apply Z.ltb_lt; lia). reflexivity. }
    assert (Hnext : peek (if E <=? (c + 1) - E * (c / E) then Some (wrap_u64 (c / E + 1)) else s_period s)
                    = Z.min ((c + 1) / E) M).
    { destruct (next_period E c HE R7) as [[A B]|[A B]]; rewrite A, B.
      - cbn [peek]. rewrite wrap_small by (rewrite <- T2, <- T1; nia). rewrite Z.min_l by lia. reflexivity.
      - rewrite R8. rewrite !Z.min_l by lia. reflexivity. }
    destruct (0 <? truncate_int prov) eqn:Pos; cbn [negb].
    + (* something is minted *)
      apply Z.ltb_lt in Pos.
      rewrite R3, (allocate_ok p 0 (truncate_int prov) Hd ltac:(lia) ltac:(lia)). cbn [andb].
      fold k. rewrite Hroll. cbn [fst snd]. split; [|split; [|reflexivity]].
      * unfold view_of. cbn. rewrite Hsm, Hnext. unfold sched_period. rewrite R1, R2.
        reflexivity.
      * unfold R. cbn [s_params s_module s_period s_skipped]. fold p. fold k.
        repeat split; auto; try lia. intro X. congruence.
    + (* positive provision below one unibi: nothing minted, the roll-over test still runs (and the pinned tree panics) *)
      apply Z.ltb_ge in Pos. assert (Z0 : truncate_int prov = 0) by lia.
      fold k. rewrite Hroll. cbn [fst snd]. split; [|split; [|reflexivity]].
      * unfold view_of, with_panic, quiet. cbn. rewrite Hsm, Z0, !share_zero, R3, Hnext.
        unfold sched_period. rewrite R1, R2. reflexivity.
      * unfold R. cbn [s_params s_module s_period s_skipped]. fold p. fold k.
        repeat split; auto; try lia. intro X. congruence.
  - (* past the end of the schedule: period = MaxPeriod, nothing is minted any more *)
    rewrite Z.min_r by lia. rewrite provision_past_end by (rewrite R2; lia).
    cbn [Z.ltb Z.compare negb fst snd]. split; [|split; [|reflexivity]].
    + assert (Hsm : sched_mint p c = 0).
      { unfold sched_mint. rewrite R1, R2. assert (c / E <? M = false) as -> by (apply Z.ltb_ge; lia). reflexivity. }
      unfold view_of, quiet. cbn. rewrite Hsm, !share_zero, R3, R8. unfold sched_period. rewrite R1, R2.
      assert ((c + 1) / E >= M).
      { pose proof (Z.div_le_mono c (c + 1) E HE ltac:(lia)). lia. }
      rewrite !Z.min_r by lia. reflexivity.
    + unfold R. fold p. fold k. repeat split; auto; try lia.
      * pose proof (Z.div_le_mono c (c + 1) E HE ltac:(lia)). rewrite R8. rewrite !Z.min_r by lia. reflexivity.
      * intro X. congruence.
Qed.

(* ---------------------------------------------------------------- a day epoch ends while inflation is disabled *)

Lemma disabled_day BL zp E M s e c :
  small E M -> R E M s e c -> 0 <= e < two62 -> p_enabled (s_params s) = false ->
  view_of (snd (after_epoch_end BL zp s true e)) = snd (spec_step {| q_params := s_params s; q_c := c |} (EpochEnd true e)) /\
  R E M (fst (after_epoch_end BL zp s true e)) (e + 1) c /\
  s_params (fst (after_epoch_end BL zp s true e)) = s_params s.
Proof.
  intros [HE [HM HEM]] [R1 [R2 [R3 [R4 [R5 [R6 [R7 [R8 [R9 R10]]]]]]]]] He Hen.
  destruct two62_lt as [T1 [T2 T3]].
  unfold after_epoch_end, epoch_end, spec_step. cbn [negb q_params q_c]. rewrite Hen. cbn [negb fst snd].
  destruct (p_started (s_params s)) eqn:Hst; cbn [negb].
  - (* started before: one more skipped epoch, the position does not move *)
    rewrite wrap_small by (rewrite <- T2, <- T1; lia).
    split; [|split; [|reflexivity]].
    + apply (view_quiet true (set_skipped s (peek (s_skipped s) + 1)) c); [exact R3|].
      cbn. unfold sched_period. rewrite R1, R2. exact R8.
    + unfold R. cbn [set_skipped s_params s_module s_period s_skipped peek]. rewrite Hst, Hen.
      repeat split; auto; try lia; try discriminate.
  - (* never started: the skipped counter becomes the epoch number, the next epoch is the first *)
    specialize (R9 eq_refl). assert (Hc0 : c = 0) by exact R9. clear R9. rewrite Hc0 in *.
    split; [|split; [|reflexivity]].
    + apply (view_quiet true (set_skipped s e) 0); [exact R3|].
      cbn. unfold sched_period. rewrite R1, R2. exact R8.
    + unfold R. cbn [set_skipped s_params s_module s_period s_skipped peek]. rewrite Hst, Hen.
      repeat split; auto; try lia; try discriminate.
Qed.

(* ---------------------------------------------------------------- one op *)

Definition next_c (p : params) (o : op) (c : Z) : Z :=
  match o with EpochEnd true _ => if p_enabled p then c + 1 else c | _ => c end.
Definition next_e (o : op) (e : Z) : Z := match o with EpochEnd true _ => e + 1 | _ => e end.

Lemma R_set_params E M s e c p' :
  R E M s e c -> p_epp p' = E -> p_max p' = M ->
  (p_enabled p' = true -> p_started p' = true) -> (p_started p' = false -> p_started (s_params s) = false) ->
  R E M (set_params s p') e c.
Proof.
  intros [R1 [R2 [R3 [R4 [R5 [R6 [R7 [R8 [R9 R10]]]]]]]]] A B C D. unfold R. cbn [set_params s_params s_module s_period s_skipped].
  repeat split; auto.
Qed.

Lemma step_refines BL E M s e c o :
  wiring_ok BL -> small E M -> R E M s e c -> hist_ok E M (s_params s) c e [o] ->
  view_of (snd (step BL false s o)) = snd (spec_step {| q_params := s_params s; q_c := c |} o) /\
  R E M (fst (step BL false s o)) (next_e o e) (next_c (s_params s) o c) /\
  s_params (fst (step BL false s o)) = next_params (s_params s) o.
Proof.
  intros HW Hs HR Hh. pose proof HR as [R1 [R2 [R3 [R4 [R5 [R6 [R7 [R8 [R9 R10]]]]]]]]].
  assert (Hq : peek (s_period s) = sched_period (s_params s) c) by (unfold sched_period; rewrite R1, R2; exact R8).
  destruct o as [day e'|auth b|auth ed|amt|auth rt]; cbn [step next_e next_c next_params].
  - destruct day.
    + cbn [hist_ok] in Hh. destruct Hh as [-> [He [Hen _]]].
      destruct (p_enabled (s_params s)) eqn:En.
      * destruct (Hen eq_refl) as [Hpo Hd]. apply enabled_day; auto.
      * apply disabled_day; auto.
    + unfold after_epoch_end, epoch_end. cbn [negb fst snd spec_step].
      split; [apply view_quiet; auto|]. split; [exact HR|reflexivity].
  - cbn [hist_ok next_params] in Hh. destruct auth.
    + destruct Hh as [H1 [H2 _]]. cbn [fst snd spec_step].
      assert (HR' : R E M (toggle s b) e c).
      { apply R_set_params; auto.
        - cbn. intros ->. apply orb_true_r.
        - cbn. intro X. apply orb_false_iff in X. tauto. }
      split; [|split; [exact HR'|reflexivity]].
      destruct HR' as [Q1 [Q2 [Q3 [_ [_ [_ [_ [Q8 _]]]]]]]].
      apply (view_quiet true (toggle s b) c); [exact Q3|]. unfold sched_period. rewrite Q1, Q2. exact Q8.
    + cbn [fst snd spec_step]. split; [apply view_quiet; auto|]. split; [exact HR|reflexivity].
  - cbn [hist_ok next_params] in Hh. destruct Hh as [H1 [H2 _]]. cbn [spec_step q_params q_c].
    destruct (auth && valid (merge ed (s_params s))) eqn:Ok; cbn [fst snd].
    + assert (HR' : R E M (set_params s (merge ed (s_params s))) e c).
      { apply R_set_params; auto. }
      split; [|split; [exact HR'|reflexivity]].
      destruct HR' as [Q1 [Q2 [Q3 [_ [_ [_ [_ [Q8 _]]]]]]]].
      apply (view_quiet true (set_params s (merge ed (s_params s))) c); [exact Q3|].
      unfold sched_period. rewrite Q1, Q2. exact Q8.
    + split; [apply view_quiet; auto|]. split; [exact HR|reflexivity].
  - cbn [hist_ok] in Hh. contradiction.
  - (* MsgChangeRoot: only the recipient of the strategic reserve changes — to an operable account *)
    cbn [hist_ok] in Hh. destruct Hh as [Ho _]. destruct auth; cbn [fst snd spec_step].
    + assert (HR' : R E M (set_root s rt) e c).
      { unfold R. cbn [set_root s_params s_module s_period s_skipped s_root]. repeat split; auto. }
      split; [|split; [exact HR'|reflexivity]].
      apply (view_quiet true (set_root s rt) c); [exact R3|exact Hq].
    + split; [apply view_quiet; auto|]. split; [exact HR|reflexivity].
Qed.

(* ---------------------------------------------------------------- histories *)

Lemma run_cons BL zp s o r :
  run BL zp s (o :: r) = (fst (run BL zp (fst (step BL zp s o)) r), snd (step BL zp s o) :: snd (run BL zp (fst (step BL zp s o)) r)).
Proof. cbn [run]. destruct (step BL zp s o) as [s1 x]. cbn [fst snd]. destruct (run BL zp s1 r). reflexivity. Qed.

Lemma spec_run_cons q o r :
  spec_run q (o :: r) =
  (fst (spec_run (fst (spec_step q o)) r), snd (spec_step q o) :: snd (spec_run (fst (spec_step q o)) r)).
Proof. cbn [spec_run]. destruct (spec_step q o) as [q1 x]. cbn [fst snd]. destruct (spec_run q1 r). reflexivity. Qed.

Lemma hist_ok_head E M p c e o r : hist_ok E M p c e (o :: r) -> hist_ok E M p c e [o].
Proof.
  destruct o as [[|] e'|auth b|auth ed|amt|auth rt]; cbn [hist_ok]; intro H; try tauto.
Qed.

Lemma hist_ok_tail E M p c e o r :
  hist_ok E M p c e (o :: r) -> hist_ok E M (next_params p o) (next_c p o c) (next_e o e) r.
Proof.
  destruct o as [[|] e'|auth b|auth ed|amt|auth rt]; cbn [hist_ok next_params next_c next_e]; intro H; try tauto.
Qed.

Lemma spec_step_state q o :
  fst (spec_step q o) = {| q_params := next_params (q_params q) o; q_c := next_c (q_params q) o (q_c q) |}.
Proof.
  destruct q as [p c]. destruct o as [[|] e'|[|] b|auth ed|amt|auth rt]; cbn [spec_step next_params next_c q_params q_c fst]; try reflexivity.
  - destruct (p_enabled p); reflexivity.
  - destruct (auth && valid (merge ed p)); reflexivity.
Qed.

(** MAIN: from a consistent state, over every admissible history, what the code does is what the
    closed-form schedule prescribes, op by op; and the coupling holds again at the end *)
Theorem refines_schedule : forall BL E M ops, wiring_ok BL -> forall s e c,
  small E M -> R E M s e c -> hist_ok E M (s_params s) c e ops ->
  map view_of (snd (run BL false s ops)) = snd (spec_run {| q_params := s_params s; q_c := c |} ops) /\
  exists e' c', R E M (fst (run BL false s ops)) e' c' /\
                fst (spec_run {| q_params := s_params s; q_c := c |} ops) =
                {| q_params := s_params (fst (run BL false s ops)); q_c := c' |}.
Proof.
  intros BL E M ops HW. induction ops as [|o r IH]; intros s e c Hs HR Hh.
  - cbn. split; [reflexivity|]. exists e, c. auto.
  - rewrite run_cons, spec_run_cons. cbn [fst snd map].
    destruct (step_refines BL E M s e c o HW Hs HR (hist_ok_head _ _ _ _ _ _ _ Hh)) as [V [HR' Hp]].
    pose proof (hist_ok_tail _ _ _ _ _ _ _ Hh) as Ht. rewrite <- Hp in Ht.
    rewrite spec_step_state. cbn [q_params q_c]. rewrite <- Hp.
    destruct (IH _ _ _ Hs HR' Ht) as [Vr Er].
    split; [rewrite V, Vr; reflexivity|exact Er].
Qed.

(* ---------------------------------------------------------------- the position is the count of enabled day epochs *)

Fixpoint enabled_days (p : params) (ops : list op) : Z :=
  match ops with
  | [] => 0
  | o :: r => (next_c p o 0) + enabled_days (next_params p o) r
  end.

Lemma spec_position : forall ops p c,
  q_c (fst (spec_run {| q_params := p; q_c := c |} ops)) = c + enabled_days p ops.
Proof.
  induction ops as [|o r IH]; intros p c; [cbn; lia|].
  rewrite spec_run_cons. cbn [fst]. rewrite spec_step_state. cbn [q_params q_c enabled_days].
  rewrite IH. destruct o as [[|] e'|auth b|auth ed|amt|auth rt]; cbn [next_c]; try lia. destruct (p_enabled p); lia.
Qed.

(* ---------------------------------------------------------------- everything minted is distributed *)

(** one day-epoch end, any state with valid proportions (also with stray coins in the module account, also an
    inconsistent one): the three recipients receive exactly what was minted plus what lay in the module account;
    staking and community are the floors of their proportions; the module account ends empty *)
Lemma all_distributed BL zp s e :
  blocked BL (s_root s) = false -> dist_ok (s_params s) -> 0 <= s_module s ->
  let x := snd (after_epoch_end BL zp s true e) in
  0 <= o_minted x /\
  (0 < o_minted x ->
     o_staking x + o_community x + o_strategic x = o_minted x + s_module s /\ o_module x = 0 /\
     o_staking x = o_minted x * p_staking (s_params s) / PREC /\
     o_community x = o_minted x * p_community (s_params s) / PREC) /\
  (o_minted x = 0 -> o_staking x = 0 /\ o_community x = 0 /\ o_strategic x = 0 /\ o_module x = s_module s).
Proof.
  intros Hb Hd Hm. unfold after_epoch_end. rewrite Hb. cbn [negb]. unfold epoch_end. cbn [negb].
  destruct (p_enabled (s_params s)); cbn [negb].
  - destruct (0 <? provision (s_params s) (peek (s_period s))) eqn:Pv; cbn [negb].
    + apply Z.ltb_lt in Pv.
      destruct (0 <? truncate_int (provision (s_params s) (peek (s_period s)))) eqn:Pa; cbn [negb].
      * apply Z.ltb_lt in Pa.
        rewrite (allocate_ok _ _ _ Hd Hm (Z.lt_le_incl _ _ Pa)). cbn.
        destruct Hd as [D1 [D2 [D3 D4]]].
        split; [lia|]. split; [|intro; lia]. intros _.
        rewrite !share_eq by lia. repeat split; lia.
      * cbn. split; [lia|]. split; [intro; lia|]. auto.
    + cbn. split; [lia|]. split; [intro; lia|]. auto.
  - destruct (p_started (s_params s)); cbn; (split; [lia|]; split; [intro; lia|]; auto).
Qed.

(* ---------------------------------------------------------------- disabled epochs *)

Lemma disabled_epochs_mint_nothing BL zp s e :
  p_enabled (s_params s) = false -> 0 <= peek (s_skipped s) < two64 - 1 ->
  let s' := fst (after_epoch_end BL zp s true e) in
  let x := snd (after_epoch_end BL zp s true e) in
  o_minted x = 0 /\ o_staking x = 0 /\ o_community x = 0 /\ o_strategic x = 0 /\ o_panic x = false /\
  s_module s' = s_module s /\ s_period s' = s_period s /\ s_params s' = s_params s /\
  (p_started (s_params s) = true -> n_of s' (e + 1) = n_of s e) /\
  (p_started (s_params s) = false -> n_of s' (e + 1) = 1).
Proof.
  intros Hen Hk. unfold after_epoch_end, epoch_end, n_of. cbn [negb]. rewrite Hen. cbn [negb fst snd].
  destruct (p_started (s_params s)); cbn [negb set_skipped quiet o_minted o_staking o_community o_strategic o_panic
                                            s_module s_period s_params s_skipped peek].
  - rewrite wrap_small by lia. repeat split; auto; try discriminate. intros _. lia.
  - repeat split; auto; try discriminate. intros _. lia.
Qed.

(* ---------------------------------------------------------------- fresh start *)

(** a module that never started (whatever its skipped counter says) is consistent after the first day epoch that
    ends while it is still disabled — which is how a chain starts, and how a chain that adds the module by an
    upgrade repairs a stale counter *)
Lemma fresh_start_consistent BL zp s e :
  p_started (s_params s) = false -> p_enabled (s_params s) = false -> peek (s_period s) = 0 ->
  0 <= p_max (s_params s) -> 0 < p_epp (s_params s) ->
  Consistent (fst (after_epoch_end BL zp s true e)) (e + 1).
Proof.
  intros Hst Hen Hp HM HE. unfold after_epoch_end, epoch_end. cbn [negb]. rewrite Hen, Hst. cbn [negb fst].
  unfold Consistent, n_of. cbn [set_skipped s_params s_skipped s_period peek].
  rewrite Hen, Hst. replace (e + 1 - e) with 1 by lia. replace (1 - 1) with 0 by lia.
  rewrite Z.div_0_l by lia. rewrite Z.min_l by lia.
  repeat split; auto; try discriminate; lia.
Qed.

(** the genesis of a new chain (default genesis: period 0, skipped 0, never started) is consistent at day epoch 1 *)
Lemma genesis_consistent s :
  p_started (s_params s) = false -> p_enabled (s_params s) = false ->
  peek (s_period s) = 0 -> peek (s_skipped s) = 0 -> 0 <= p_max (s_params s) -> 0 < p_epp (s_params s) ->
  Consistent s 1.
Proof.
  intros Hst Hen Hp Hk HM HE. unfold Consistent, n_of. rewrite Hk, Hp, Hen.
  replace (1 - 0 - 1) with 0 by lia. rewrite Z.div_0_l by lia. rewrite Z.min_l by lia.
  repeat split; auto; try discriminate; lia.
Qed.

(* ---------------------------------------------------------------- inconsistent genesis *)

(** the raw step of an enabled epoch at period [per] < MaxPeriod with a provision of at least one unibi *)
Lemma enabled_step_raw BL zp s e :
  let p := s_params s in let per := peek (s_period s) in let k := peek (s_skipped s) in
  blocked BL (s_root s) = false -> p_enabled p = true -> dist_ok p -> s_module s = 0 ->
  0 < p_epp p < two62 -> 0 <= per < p_max p -> 0 <= p_epp p * per < two62 -> 0 <= e < two62 -> 0 <= k < two62 ->
  PREC <= poly_provision p per ->
  o_minted (snd (after_epoch_end BL zp s true e)) = truncate_int (poly_provision p per) /\
  peek (s_period (fst (after_epoch_end BL zp s true e))) =
    (if p_epp p <=? e - p_epp p * per - k then per + 1 else per) /\
  s_skipped (fst (after_epoch_end BL zp s true e)) = s_skipped s.
Proof.
  intros p per k Hb Hen Hd Hm HE Hper Hmul He Hk Hprov. destruct two62_lt as [T1 [T2 T3]].
  unfold after_epoch_end. rewrite Hb. cbn [negb]. unfold epoch_end. cbn [negb]. fold p per k. rewrite Hen. cbn [negb].
  rewrite provision_below by (auto; lia).
  pose proof PREC_pos as P.
  assert (0 <? poly_provision p per = true) as -> by (apply Z.ltb_lt; lia). cbn [negb].
  pose proof (truncate_ge1 _ Hprov) as Hamt.
  assert (0 <? truncate_int (poly_provision p per) = true) as -> by (apply Z.ltb_lt; lia). cbn [negb].
  rewrite Hm, (allocate_ok p 0 (truncate_int (poly_provision p per)) Hd ltac:(lia) ltac:(lia)). cbn [andb fst snd o_minted s_period s_skipped].
  rewrite rollover_small by lia.
  split; [reflexivity|]. split; [|reflexivity].
  destruct (p_epp p <=? e - p_epp p * per - k); [|reflexivity].
  cbn [peek]. apply wrap_small. rewrite <- T2, <- T1. nia.
Qed.

(** behind the schedule (period < floor((n-1)/EPP)): every enabled epoch mints the amount of the lagging
    period and advances the period by one; the lag never grows (it shrinks except when n crosses a multiple of EPP) *)
Lemma behind_catches_up BL zp s e :
  let p := s_params s in let per := peek (s_period s) in let n := n_of s e in
  blocked BL (s_root s) = false -> p_enabled p = true -> dist_ok p -> s_module s = 0 ->
  0 < p_epp p < two62 -> 0 <= per < p_max p -> 0 <= p_epp p * per < two62 -> 0 <= e < two62 ->
  0 <= peek (s_skipped s) < two62 -> PREC <= poly_provision p per ->
  per < (n - 1) / p_epp p ->
  let s' := fst (after_epoch_end BL zp s true e) in
  o_minted (snd (after_epoch_end BL zp s true e)) = truncate_int (poly_provision p per) /\
  peek (s_period s') = per + 1 /\
  (n_of s' (e + 1) - 1) / p_epp p - peek (s_period s') <= (n - 1) / p_epp p - per.
Proof.
  intros p per n Hb Hen Hd Hm HE Hper Hmul He Hk Hprov Hbehind.
  destruct (enabled_step_raw BL zp s e Hb Hen Hd Hm HE Hper Hmul He Hk Hprov) as [A [B C]].
  fold p per in A, B. unfold n, n_of in *.
  set (E := p_epp p) in *. set (k := peek (s_skipped s)) in *.
  assert (Roll : E <=? e - E * per - k = true).
  { apply Z.leb_le.
    assert (E * (per + 1) <= E * ((e - k - 1) / E)) by nia.
    pose proof (Z.mul_div_le (e - k - 1) E ltac:(lia)). lia. }
  rewrite Roll in B. split; [exact A|]. split; [exact B|].
  rewrite B. unfold n_of. rewrite C. fold k.
  replace (e + 1 - k - 1) with ((e - k - 1) + 1) by lia.
  assert (0 <= e - k - 1).
  { destruct (Z_lt_le_dec (e - k - 1) 0) as [N|N]; [|exact N].
    pose proof (Z.div_lt_upper_bound (e - k - 1) E 0 ltac:(lia) ltac:(lia)). lia. }
  destruct (next_period E (e - k - 1) ltac:(lia) ltac:(lia)) as [[_ X]|[_ X]]; rewrite X; lia.
Qed.

(** ahead of the schedule (period > floor((n-1)/EPP)): the period waits *)
Lemma ahead_waits BL zp s e :
  let p := s_params s in let per := peek (s_period s) in let n := n_of s e in
  blocked BL (s_root s) = false -> p_enabled p = true -> dist_ok p -> s_module s = 0 ->
  0 < p_epp p < two62 -> 0 <= per < p_max p -> 0 <= p_epp p * per < two62 -> 0 <= e < two62 ->
  0 <= peek (s_skipped s) < two62 -> PREC <= poly_provision p per ->
  (n - 1) / p_epp p < per -> 1 <= n ->
  o_minted (snd (after_epoch_end BL zp s true e)) = truncate_int (poly_provision p per) /\
  peek (s_period (fst (after_epoch_end BL zp s true e))) = per.
Proof.
  intros p per n Hb Hen Hd Hm HE Hper Hmul He Hk Hprov Hahead Hn.
  destruct (enabled_step_raw BL zp s e Hb Hen Hd Hm HE Hper Hmul He Hk Hprov) as [A [B C]].
  fold p per in A, B. unfold n, n_of in *.
  set (E := p_epp p) in *. set (k := peek (s_skipped s)) in *.
  assert (Roll : E <=? e - E * per - k = false).
  { apply Z.leb_gt.
    assert (e - k - 1 < E * per).
    { pose proof (Z.mul_succ_div_gt (e - k - 1) E ltac:(lia)). nia. }
    lia. }
  rewrite Roll in B. auto.
Qed.

(* concrete witnesses *)

Definition lin_params (en st : bool) : params :=
  {| p_enabled := en; p_started := st; p_factors := [-10 * PREC; 1000 * PREC];
     p_staking := 281250000000000000; p_community := 354825000000000000; p_strategic := 363925000000000000;
     p_epp := 2; p_ppy := 12; p_max := 5 |}.

(** a running chain imported with zeroed counters while the day epoch stands at 7 *)
Definition bad_genesis : st :=
  {| s_params := lin_params true true; s_period := Some 0; s_skipped := Some 0; s_module := 0; s_root := RAcct 0 |}.

Lemma closed_form_refuted_for_inconsistent_genesis BL :
  exists s e, dist_ok (s_params s) /\ poly_unit (s_params s) /\ s_module s = 0 /\
              p_started (s_params s) = true /\ ~ Consistent s e /\
              o_minted (snd (after_epoch_end BL true s true e)) <> sched_mint (s_params s) (n_of s e - 1).
Proof.
  exists bad_genesis, 7. split; [vm_compute; repeat split; discriminate|].
  split.
  { intros per Hper. change (p_max (s_params bad_genesis)) with 5 in Hper.
    assert (per = 0 \/ per = 1 \/ per = 2 \/ per = 3 \/ per = 4) as [->|[->|[->|[->| ->]]]] by lia;
      vm_compute; discriminate. }
  split; [reflexivity|]. split; [reflexivity|]. split.
  - intros [_ [_ [C _]]]. vm_compute in C. discriminate.
  - vm_compute. discriminate.
Qed.

(** never started, but switched on before any day epoch ended while the epoch counter is already at 7 *)
Lemma first_enable_without_a_disabled_epoch_refuted BL :
  exists s e, p_started (s_params s) = false /\ p_enabled (s_params s) = false /\ peek (s_period s) = 0 /\
    let s1 := fst (step BL true s (Toggle true true)) in
    ~ Consistent s1 e /\
    (* the 4 epochs 7..10 are the first four enabled ones: the schedule keeps period 0 for two of them and period 1
       for the next two; the code rolls over after every one of them *)
    map o_period (snd (run BL true s1 [EpochEnd true 7; EpochEnd true 8; EpochEnd true 9; EpochEnd true 10])) = [1; 2; 3; 4].
Proof.
  exists {| s_params := lin_params false false; s_period := Some 0; s_skipped := Some 0; s_module := 0; s_root := RAcct 0 |}, 7.
  split; [reflexivity|]. split; [reflexivity|]. split; [reflexivity|]. split.
  - intros [_ [_ [C _]]]. vm_compute in C. discriminate.
  - vm_compute. reflexivity.
Qed.

(** DEFECT (repaired by fix: 2259f46): polynomial positive below MaxPeriod, state consistent, proportions valid — but
    the provision is below one unibi: on a tree where the probe reports the panic ([zp] = true) the epoch hook panics
    (in BeginBlock: the chain halts); with the repair ([zp] = false) it does not *)
Definition tiny_state : st :=
  {| s_params := {| p_enabled := true; p_started := true; p_factors := [400000000000];
                    p_staking := 281250000000000000; p_community := 354825000000000000; p_strategic := 363925000000000000;
                    p_epp := 30; p_ppy := 12; p_max := 2 |};
     s_period := Some 0; s_skipped := Some 0; s_module := 0; s_root := RAcct 0 |}.

Lemma sub_unit_provision_panics BL :
  exists s e, Consistent s e /\ dist_ok (s_params s) /\ poly_pos (s_params s) /\ s_module s = 0 /\
              o_panic (snd (after_epoch_end BL true s true e)) = true /\
              o_panic (snd (after_epoch_end BL false s true e)) = false.
Proof.
  exists tiny_state, 1. split; [vm_compute; repeat split; try discriminate; auto|].
  split; [vm_compute; repeat split; discriminate|]. split.
  { intros per Hper. change (p_max (s_params tiny_state)) with 2 in Hper.
    assert (per = 0 \/ per = 1) as [->| ->] by lia; vm_compute; reflexivity. }
  split; [reflexivity|]. split; reflexivity.
Qed.

(* ---------------------------------------------------------------- the checker's precondition *)

Lemma dist_okb_sound p : dist_okb p = true -> dist_ok p.
Proof.
  unfold dist_okb, dist_ok. intro H. repeat (apply andb_true_iff in H; destruct H as [H ?]).
  repeat match goal with X : (_ <=? _) = true |- _ => apply Z.leb_le in X end.
  apply Z.eqb_eq in H0. auto.
Qed.

Lemma prov_okb_sound p c : prov_okb p c = true -> prov_ok p c.
Proof.
  unfold prov_okb, prov_ok. intros H L. apply Z.ltb_lt in L. rewrite L in H. apply Z.ltb_lt in H. exact H.
Qed.

Lemma hist_okb_sound E M : forall ops p c e, hist_okb E M p c e ops = true -> hist_ok E M p c e ops.
Proof.
  induction ops as [|o r IH]; intros p c e H; [exact I|].
  destruct o as [[|] e'|auth b|auth ed|amt|auth rt]; cbn [hist_okb hist_ok] in *.
  - repeat (apply andb_true_iff in H; destruct H as [H ?]).
    apply Z.eqb_eq in H. apply Z.leb_le in H3. apply Z.ltb_lt in H2.
    split; [exact H|]. split; [lia|]. split; [|apply IH; assumption].
    intro En. rewrite En in H1. cbn in H1. apply andb_true_iff in H1. destruct H1 as [A B].
    split; [apply prov_okb_sound; exact A|apply dist_okb_sound; exact B].
  - repeat (apply andb_true_iff in H; destruct H as [H ?]). apply Z.eqb_eq in H. apply Z.eqb_eq in H1. auto.
  - repeat (apply andb_true_iff in H; destruct H as [H ?]). apply Z.eqb_eq in H. apply Z.eqb_eq in H1. auto.
  - repeat (apply andb_true_iff in H; destruct H as [H ?]). apply Z.eqb_eq in H. apply Z.eqb_eq in H1. auto.
  - discriminate.
  - repeat (apply andb_true_iff in H; destruct H as [H ?]). apply Z.eqb_eq in H1. apply Z.eqb_eq in H2.
    split; [intros ->; exact H|]. auto.
Qed.

Lemma consistentb_sound s e : consistentb s e = true -> Consistent s e.
Proof.
  unfold consistentb, Consistent. intro H. repeat (apply andb_true_iff in H; destruct H as [H ?]).
  apply Z.leb_le in H2. apply Z.eqb_eq in H1.
  split; [intro X; rewrite X in H; exact H|]. split; [exact H2|]. split; [exact H1|].
  intro X. rewrite X in H0. cbn in H0. apply Z.eqb_eq in H0. exact H0.
Qed.

Lemma combine_fst {A B} (a : list A) : forall (b : list B), length b = length a -> map fst (combine a b) = a.
Proof.
  induction a as [|x a IH]; intros [|y b] L; cbn in *; try discriminate; [reflexivity|].
  f_equal. apply IH. lia.
Qed.

Lemma combine_snd_map {A B C} (f : B -> C) (a : list A) :
  forall (b : list B), length b = length a -> map (fun x => f (snd x)) (combine a b) = map f b.
Proof.
  induction a as [|x a IH]; intros [|y b] L; cbn in *; try discriminate; [reflexivity|].
  f_equal. apply IH. lia.
Qed.

Lemma run_length BL zp : forall ops s, length (snd (run BL zp s ops)) = length ops.
Proof.
  induction ops as [|o r IH]; intro s; [reflexivity|]. rewrite run_cons. cbn [snd length]. rewrite IH. reflexivity.
Qed.

(** wherever the check evaluates the schedule predicate ([pre] holds), the case is inside the hypotheses of
    [refines_schedule]; hence the MODEL's trace of that case satisfies the predicate *)
Lemma pre_sound BL c :
  wiring_ok BL -> pre c = true ->
  P_trace (start_q c) (combine (map fst (c_tr c)) (snd (run BL false (c_init c) (map fst (c_tr c))))).
Proof.
  intro HW. unfold pre, start_q. destruct (first_day (map fst (c_tr c))) as [e|] eqn:Fd; [|discriminate].
  intro H.
  apply andb_true_iff in H. destruct H as [H H0].
  apply andb_true_iff in H. destruct H as [H H1].
  apply andb_true_iff in H. destruct H as [H H2].
  apply andb_true_iff in H. destruct H as [H H3].
  apply andb_true_iff in H. destruct H as [Hop H].
  apply consistentb_sound in H. apply Z.eqb_eq in H3. apply Z.leb_le in H1. apply hist_okb_sound in H0.
  assert (Hs : small (p_epp (s_params (c_init c))) (p_max (s_params (c_init c)))).
  { unfold smallb in H2.
    apply andb_true_iff in H2. destruct H2 as [H2 H4]. apply andb_true_iff in H2. destruct H2 as [H2 H5].
    apply Z.ltb_lt in H2. apply Z.leb_le in H5. apply Z.ltb_lt in H4. repeat split; assumption. }
  pose proof (Consistent_R _ _ H H3 H1 Hop) as HR.
  destruct (refines_schedule BL _ _ _ HW _ _ _ Hs HR H0) as [V _].
  unfold P_trace.
  set (ops := map fst (c_tr c)) in *. set (outs := snd (run BL false (c_init c) ops)) in *.
  assert (L : length outs = length ops) by apply run_length.
  pose proof (combine_fst ops outs L) as M1.
  pose proof (combine_snd_map view_of ops outs L) as M2.
  rewrite M1, M2. exact V.
Qed.

(* ---------------------------------------------------------------- non-vacuity *)

(** the default parameters of the module, as printed by the driver from the linked package *)
Definition default_params (en st : bool) : params :=
  {| p_enabled := en; p_started := st;
     p_factors := [-147085524000000; 74291982762000000; -18867415611180000000; 3128641926954698000000;
                   -334834740631598223000000; 17827464906540066004000000];
     p_staking := 281250000000000000; p_community := 354825000000000000; p_strategic := 363925000000000000;
     p_epp := 30; p_ppy := 12; p_max := 96 |}.

Definition genesis_state : st :=
  {| s_params := default_params false false; s_period := Some 0; s_skipped := Some 0; s_module := 0; s_root := RAcct 0 |}.

Example genesis_state_consistent : Consistent genesis_state 1 /\ small 30 96 /\ dist_ok (s_params genesis_state).
Proof.
  split; [apply genesis_consistent; vm_compute; try reflexivity; discriminate|].
  split; vm_compute; repeat split; discriminate.
Qed.

(** two disabled days, switch on, 31 enabled days (crossing the first period boundary), off for a day, on again *)
Definition ex_ops : list op :=
  [EpochEnd true 1; EpochEnd true 2; Toggle true true] ++
  map (fun i => EpochEnd true (Z.of_nat i)) (seq 3 31) ++
  [Toggle true false; EpochEnd true 34; Toggle true true; EpochEnd true 35; EpochEnd false 9].

Example ex_hist_ok : hist_ok 30 96 (s_params genesis_state) 0 1 ex_ops.
Proof. apply hist_okb_sound. vm_compute. reflexivity. Qed.

Example ex_periods BL :
  map o_period (snd (run BL true genesis_state ex_ops)) =
  [0; 0; 0] ++ repeat 0 29 ++ [1; 1] ++ [1; 1; 1; 1; 1].
Proof. vm_compute. reflexivity. Qed.

Example ex_mints BL :
  (nth 3 (map o_minted (snd (run BL true genesis_state ex_ops))) 0,
   nth 33 (map o_minted (snd (run BL true genesis_state ex_ops))) 0,
   nth 35 (map o_minted (snd (run BL true genesis_state ex_ops))) 0) =
  (594248830218, 583191333818, 0).
Proof. vm_compute. reflexivity. Qed.

Example behind_nonvacuous :
  let s := bad_genesis in
  peek (s_period s) < (n_of s 7 - 1) / p_epp (s_params s) /\ PREC <= poly_provision (s_params s) (peek (s_period s)).
Proof. vm_compute. split; [reflexivity|discriminate]. Qed.

(* ---------------------------------------------------------------- statements in terms of [Consistent] *)

Theorem period_tracks_schedule : forall BL ops s e,
  let p := s_params s in
  wiring_ok BL -> operable (s_root s) = true ->
  Consistent s e -> s_module s = 0 -> 0 <= peek (s_skipped s) -> small (p_epp p) (p_max p) ->
  hist_ok (p_epp p) (p_max p) p (n_of s e - 1) e ops ->
  map view_of (snd (run BL false s ops)) = snd (spec_run {| q_params := p; q_c := n_of s e - 1 |} ops) /\
  exists e', Consistent (fst (run BL false s ops)) e' /\ operable (s_root (fst (run BL false s ops))) = true /\
             fst (spec_run {| q_params := p; q_c := n_of s e - 1 |} ops) =
             {| q_params := s_params (fst (run BL false s ops)); q_c := n_of (fst (run BL false s ops)) e' - 1 |}.
Proof.
  intros BL ops s e p HW Ho Hc Hm Hk Hs Hh.
  pose proof (Consistent_R s e Hc Hm Hk Ho) as HR.
  destruct (refines_schedule BL _ _ ops HW s e _ Hs HR Hh) as [V [e' [c' [HR' Eq]]]].
  split; [exact V|]. exists e'. destruct (R_Consistent _ _ _ _ _ HR') as [C' Ec]. split; [exact C'|].
  split; [apply HR'|].
  unfold p. rewrite Eq. rewrite Ec. reflexivity.
Qed.

(** "polynomial positive below MaxPeriod" gives the pointwise hypothesis of [hist_ok] at every position *)
Lemma poly_pos_prov_ok p c : poly_pos p -> 0 < p_epp p -> 0 <= c -> prov_ok p c.
Proof.
  intros H HE Hc L. pose proof (Z.div_pos c (p_epp p) Hc HE) as D. apply H. lia.
Qed.

(* ---------------------------------------------------------------- deciding positivity of a concrete polynomial *)

Definition poly_unitb (p : params) : bool :=
  forallb (fun i => PREC <=? poly_provision p (Z.of_nat i)) (seq 0 (Z.to_nat (p_max p))).

Lemma poly_unitb_sound p : poly_unitb p = true -> poly_unit p.
Proof.
  unfold poly_unitb, poly_unit. intros H per Hper. rewrite forallb_forall in H.
  specialize (H (Z.to_nat per)). rewrite Z2Nat.id in H by lia. apply Z.leb_le. apply H.
  apply in_seq. lia.
Qed.

Lemma poly_unit_pos p : poly_unit p -> poly_pos p.
Proof. intros H per Hper. specialize (H per Hper). pose proof PREC_pos. lia. Qed.

(* ---------------------------------------------------------------- the distribution along EVERY history *)

Lemma step_module BL zp s o : o_module (snd (step BL zp s o)) = s_module (fst (step BL zp s o)).
Proof.
  destruct o as [day e|auth b|auth ed|amt|auth rt]; cbn [step].
  - unfold after_epoch_end, epoch_end. destruct day; cbn [negb]; [|reflexivity].
    destruct (p_enabled (s_params s)); cbn [negb].
    + destruct (0 <? provision (s_params s) (peek (s_period s))); cbn [negb]; [|reflexivity].
      destruct (0 <? truncate_int (provision (s_params s) (peek (s_period s)))); cbn [negb]; [|reflexivity].
      destruct (allocate _ (s_params s) (s_module s) _) as [[[[a b] c] d] f]. reflexivity.
    + destruct (p_started (s_params s)); reflexivity.
  - destruct auth; reflexivity.
  - destruct (auth && valid (merge ed (s_params s))); reflexivity.
  - reflexivity.
  - destruct auth; reflexivity.
Qed.

Lemma step_params BL zp s o : s_params (fst (step BL zp s o)) = next_params (s_params s) o.
Proof.
  destruct o as [day e|auth b|auth ed|amt|auth rt]; cbn [step next_params].
  - unfold after_epoch_end, epoch_end. destruct day; cbn [negb]; [|reflexivity].
    destruct (p_enabled (s_params s)); cbn [negb].
    + destruct (0 <? provision (s_params s) (peek (s_period s))); cbn [negb]; [|reflexivity].
      destruct (0 <? truncate_int (provision (s_params s) (peek (s_period s)))); cbn [negb]; [|reflexivity].
      destruct (allocate _ (s_params s) (s_module s) _) as [[[[a b] c] d] f]. reflexivity.
    + destruct (p_started (s_params s)); reflexivity.
  - destruct auth; reflexivity.
  - destruct (auth && valid (merge ed (s_params s))); reflexivity.
  - reflexivity.
  - destruct auth; reflexivity.
Qed.

Lemma step_root BL zp s o : s_root (fst (step BL zp s o)) = next_root (s_root s) o.
Proof.
  destruct o as [day e|auth b|auth ed|amt|auth rt]; cbn [step next_root].
  - unfold after_epoch_end, epoch_end. destruct day; cbn [negb]; [|reflexivity].
    destruct (p_enabled (s_params s)); cbn [negb].
    + destruct (0 <? provision (s_params s) (peek (s_period s))); cbn [negb]; [|reflexivity].
      destruct (0 <? truncate_int (provision (s_params s) (peek (s_period s)))); cbn [negb]; [|reflexivity].
      destruct (allocate _ (s_params s) (s_module s) _) as [[[[a b] c] d] f]. reflexivity.
    + destruct (p_started (s_params s)); reflexivity.
  - destruct auth; reflexivity.
  - destruct (auth && valid (merge ed (s_params s))); reflexivity.
  - reflexivity.
  - destruct auth; reflexivity.
Qed.

Definition fund_nonneg (o : op) : Prop := match o with Fund a => 0 <= a | _ => True end.

Lemma allocate_module_nonneg recv p m0 amt :
  0 <= m0 -> 0 <= amt -> let '(_, _, _, m, _) := allocate recv p m0 amt in 0 <= m.
Proof.
  intros Hm Ha. unfold allocate.
  destruct (m0 + amt <? share amt (p_staking p)) eqn:A; [lia|]. apply Z.ltb_ge in A.
  destruct (m0 + amt - share amt (p_staking p) <? share amt (p_community p)) eqn:B; [lia|]. apply Z.ltb_ge in B.
  destruct recv; cbn [negb]; lia.
Qed.

Lemma step_module_nonneg BL zp s o : 0 <= s_module s -> fund_nonneg o -> 0 <= s_module (fst (step BL zp s o)).
Proof.
  intros Hm Hf. destruct o as [day e|auth b|auth ed|amt|auth rt]; cbn [step].
  - unfold after_epoch_end, epoch_end. destruct day; cbn [negb]; [|exact Hm].
    destruct (p_enabled (s_params s)); cbn [negb].
    + destruct (0 <? provision (s_params s) (peek (s_period s))); cbn [negb]; [|exact Hm].
      destruct (0 <? truncate_int (provision (s_params s) (peek (s_period s)))) eqn:Pa; cbn [negb]; [|exact Hm].
      apply Z.ltb_lt in Pa.
      pose proof (allocate_module_nonneg (negb (blocked BL (s_root s))) (s_params s) (s_module s) _ Hm (Z.lt_le_incl _ _ Pa)) as X.
      destruct (allocate _ (s_params s) (s_module s) _) as [[[[a b] c] d] f]. exact X.
    + destruct (p_started (s_params s)); exact Hm.
  - destruct auth; exact Hm.
  - destruct (auth && valid (merge ed (s_params s))); exact Hm.
  - cbn in *. lia.
  - destruct auth; exact Hm.
Qed.

(** EVERY history from EVERY state (consistent or not, any parameters): at each day-epoch end with valid
    proportions everything minted is distributed and the module account is swept *)
Theorem distributed_along_every_history BL zp : wiring_ok BL -> forall ops s,
  0 <= s_module s -> Forall fund_nonneg ops ->
  P_dist (s_params s) (s_root s) (s_module s) (combine ops (snd (run BL zp s ops))).
Proof.
  intro HW. induction ops as [|o r IH]; intros s Hm Hf; [exact I|].
  inversion Hf as [|? ? Hf1 Hf2]; subst.
  rewrite run_cons. cbn [snd combine P_dist].
  pose proof (step_module_nonneg BL zp s o Hm Hf1) as Hm'.
  pose proof (IH (fst (step BL zp s o)) Hm' Hf2) as Hr.
  rewrite step_params, step_root, <- step_module in Hr.
  destruct o as [[|] e|auth b|auth ed|amt|auth rt]; try exact Hr.
  split; [|exact Hr].
  intros D O. apply (all_distributed BL zp s e); [apply HW; exact O|apply dist_okb_sound; exact D|exact Hm].
Qed.

(* ---------------------------------------------------------------- the integer roll-over along EVERY history *)

Lemma step_counters BL zp s o :
  o_period (snd (step BL zp s o)) = peek (s_period (fst (step BL zp s o))) /\
  o_skipped (snd (step BL zp s o)) = peek (s_skipped (fst (step BL zp s o))).
Proof.
  destruct o as [day e|auth b|auth ed|amt|auth rt]; cbn [step].
  - unfold after_epoch_end, epoch_end. destruct day; cbn [negb]; [|split; reflexivity].
    destruct (p_enabled (s_params s)); cbn [negb].
    + destruct (0 <? provision (s_params s) (peek (s_period s))); cbn [negb]; [|split; reflexivity].
      destruct (0 <? truncate_int (provision (s_params s) (peek (s_period s)))); cbn [negb]; [|split; reflexivity].
      destruct (allocate _ (s_params s) (s_module s) _) as [[[[a b] c] d] f]. split; reflexivity.
    + destruct (p_started (s_params s)); split; reflexivity.
  - destruct auth; split; reflexivity.
  - destruct (auth && valid (merge ed (s_params s))); split; reflexivity.
  - split; reflexivity.
  - destruct auth; split; reflexivity.
Qed.

(** one minting day-epoch end from ANY state with valid proportions: the period moves by the integer test *)
Lemma roll_one BL zp s e :
  blocked BL (s_root s) = false -> dist_ok (s_params s) ->
  roll_step (s_params s) (s_module s) (peek (s_period s)) (peek (s_skipped s)) e (snd (after_epoch_end BL zp s true e)).
Proof.
  intros Hb Hd Hm He Hk HE Hper Hmul. destruct two62_lt as [T1 [T2 T3]].
  unfold after_epoch_end. rewrite Hb. cbn [negb]. unfold epoch_end. cbn [negb].
  destruct (p_enabled (s_params s)); cbn [negb].
  - destruct (0 <? provision (s_params s) (peek (s_period s))) eqn:Pv; cbn [negb]; [|cbn; intro; lia].
    destruct (0 <? truncate_int (provision (s_params s) (peek (s_period s)))) eqn:Pa; cbn [negb]; [|cbn; intro; lia].
    apply Z.ltb_lt in Pa.
    rewrite (allocate_ok _ _ _ Hd Hm (Z.lt_le_incl _ _ Pa)). cbn [andb snd o_minted o_period o_skipped s_period s_skipped].
    intros _. rewrite rollover_small by lia. split; [|reflexivity].
    destruct (p_epp (s_params s) <=? e - p_epp (s_params s) * peek (s_period s) - peek (s_skipped s)); [|reflexivity].
    cbn [peek]. apply wrap_small. rewrite <- T2, <- T1. nia.
  - destruct (p_started (s_params s)); cbn; intro; lia.
Qed.

(** EVERY history from EVERY state (consistent or not; counters behind, on, or AHEAD of the epoch number): at each
    minting day-epoch end the period advances iff e - EPP*period - skipped >= EPP on the integers *)
Theorem roll_along_every_history BL zp : wiring_ok BL -> forall ops s,
  P_roll (s_params s) (s_root s) (s_module s) (peek (s_period s)) (peek (s_skipped s)) (combine ops (snd (run BL zp s ops))).
Proof.
  intro HW. induction ops as [|o r IH]; intro s; [exact I|].
  rewrite run_cons. cbn [snd combine P_roll].
  pose proof (IH (fst (step BL zp s o))) as Hr.
  destruct (step_counters BL zp s o) as [C1 C2].
  rewrite step_params, step_root, <- step_module, <- C1, <- C2 in Hr.
  destruct o as [[|] e|auth b|auth ed|amt|auth rt]; try exact Hr.
  split; [|exact Hr].
  intros D O. apply (roll_one BL zp s e); [apply HW; exact O|]. apply dist_okb_sound. exact D.
Qed.

(* ---------------------------------------------------------------- the sudo root and the bank's blocked recipients *)

Lemma wiring_okb_sound BL : wiring_okb BL = true -> wiring_ok BL.
Proof.
  unfold wiring_okb, wiring_ok. intros H [n|m] O; cbn [blocked operable] in *; [reflexivity|].
  apply String.eqb_eq in O. subst m. apply negb_true_iff in H. exact H.
Qed.

Lemma wiring_ok_gov BL : wiring_ok BL <-> blocked BL (RMod gov_account) = false.
Proof.
  split.
  - intro H. apply H. reflexivity.
  - intro H. apply wiring_okb_sound. unfold wiring_okb. cbn [blocked] in H. rewrite H. reflexivity.
Qed.

(** an ordinary account is never a blocked recipient, whatever the table *)
Lemma ordinary_root_receives BL n : blocked BL (RAcct n) = false.
Proof. reflexivity. Qed.

(** THE FAILING-TRANSFER BRANCH.  The bank refuses the sudo root: a minting day-epoch end still mints, still pays the
    staking and community shares, pays NOTHING to the strategic reserve — its share stays in the inflation module
    account — and the hook returns before the roll-over test: period and skipped counter are untouched. *)
Lemma blocked_root_partial_effects BL zp s e :
  blocked BL (s_root s) = true -> dist_ok (s_params s) -> 0 <= s_module s ->
  let x := snd (after_epoch_end BL zp s true e) in
  let s' := fst (after_epoch_end BL zp s true e) in
  0 < o_minted x ->
  o_staking x = o_minted x * p_staking (s_params s) / PREC /\
  o_community x = o_minted x * p_community (s_params s) / PREC /\
  o_strategic x = 0 /\
  o_module x = s_module s + o_minted x - o_staking x - o_community x /\
  s_period s' = s_period s /\ s_skipped s' = s_skipped s /\ o_period x = peek (s_period s).
Proof.
  intros Hb Hd Hm. unfold after_epoch_end. rewrite Hb. cbn [negb]. unfold epoch_end. cbn [negb].
  destruct (p_enabled (s_params s)); cbn [negb].
  - destruct (0 <? provision (s_params s) (peek (s_period s))) eqn:Pv; cbn [negb]; [|cbn; intro; lia].
    destruct (0 <? truncate_int (provision (s_params s) (peek (s_period s)))) eqn:Pa; cbn [negb]; [|cbn; intro; lia].
    apply Z.ltb_lt in Pa.
    rewrite (allocate_blocked _ _ _ Hd Hm (Z.lt_le_incl _ _ Pa)).
    cbn [andb fst snd o_minted o_staking o_community o_strategic o_module o_period s_period s_skipped].
    destruct Hd as [D1 [D2 [D3 D4]]]. intros _.
    rewrite !share_eq by lia. repeat split; lia.
  - destruct (p_started (s_params s)); cbn; intro; lia.
Qed.

(** hence, with valid proportions, stray-free module account and a strategic proportion that leaves the root at least
    one unibi, the parts do NOT sum to the minted amount and the module account is NOT left empty *)
Lemma blocked_root_not_distributed BL zp s e :
  blocked BL (s_root s) = true -> dist_ok (s_params s) -> 0 <= s_module s ->
  let x := snd (after_epoch_end BL zp s true e) in
  0 < o_minted x -> o_staking x + o_community x < o_minted x + s_module s ->
  o_staking x + o_community x + o_strategic x <> o_minted x + s_module s /\ o_module x <> 0.
Proof.
  intros Hb Hd Hm x Pos Lt.
  destruct (blocked_root_partial_effects BL zp s e Hb Hd Hm Pos) as [_ [_ [S [M _]]]].
  fold x in S, M. split; lia.
Qed.

(** REFUTATION for every wiring whose bank blocks the governance module account (the seeded variant of app_config.go:
    blocked list derived from the module-account permissions): governance is an operable sudo root, the state is
    consistent, proportions valid, polynomial >= 1 unibi — and the first enabled day epoch leaves the strategic share
    in the module account, the parts fall short of the minted amount, and after EpochsPerPeriod = 2 epochs the period
    is still 0 where the schedule says 1. *)
Definition gov_root_state : st :=
  {| s_params := {| p_enabled := true; p_started := true; p_factors := [-10 * PREC; 1000 * PREC];
                    p_staking := 281250000000000000; p_community := 354825000000000000; p_strategic := 363925000000000000;
                    p_epp := 2; p_ppy := 12; p_max := 5 |};
     s_period := Some 0; s_skipped := Some 0; s_module := 0; s_root := RMod gov_account |}.

Lemma gov_blocked_refuted BL :
  blocked BL (RMod gov_account) = true ->
  exists s e, operable (s_root s) = true /\ Consistent s e /\ dist_ok (s_params s) /\ poly_unit (s_params s) /\
    s_module s = 0 /\
    let x := snd (after_epoch_end BL false s true e) in
    let s1 := fst (after_epoch_end BL false s true e) in
    let x2 := snd (after_epoch_end BL false s1 true (e + 1)) in
    0 < o_minted x /\ o_staking x + o_community x + o_strategic x < o_minted x /\ 0 < o_module x /\
    o_period x2 = 0 /\ sched_period (s_params s) 2 = 1 /\
    o_minted x2 + o_minted x = o_module x2 + o_staking x + o_community x + o_staking x2 + o_community x2.
Proof.
  intro Hb. exists gov_root_state, 1.
  split; [reflexivity|]. split; [vm_compute; repeat split; try discriminate; auto|].
  split; [vm_compute; repeat split; discriminate|]. split.
  { intros per Hper. change (p_max (s_params gov_root_state)) with 5 in Hper.
    assert (per = 0 \/ per = 1 \/ per = 2 \/ per = 3 \/ per = 4) as [->|[->|[->|[->| ->]]]] by lia;
      vm_compute; discriminate. }
  split; [reflexivity|].
  assert (E1 : after_epoch_end BL false gov_root_state true 1 = epoch_end false false gov_root_state true 1).
  { unfold after_epoch_end. cbn [s_root gov_root_state]. rewrite Hb. reflexivity. }
  rewrite E1.
  set (s1 := fst (epoch_end false false gov_root_state true 1)).
  assert (Hr : s_root s1 = RMod gov_account) by (vm_compute; reflexivity).
  assert (E2 : after_epoch_end BL false s1 true (1 + 1) = epoch_end false false s1 true 2).
  { unfold after_epoch_end. rewrite Hr, Hb. reflexivity. }
  cbv zeta. rewrite E2. vm_compute. repeat split; reflexivity.
Qed.

(** non-vacuity of the enlarged history class: the root is handed to governance, inflation is switched on, the
    root goes to another ordinary account and back — all inside [hist_ok] *)
Definition ex_root_ops : list op :=
  [EpochEnd true 1; ChangeRoot true (RMod gov_account); Toggle true true; EpochEnd true 2; EpochEnd true 3;
   ChangeRoot false (RMod "distribution"%string); ChangeRoot true (RAcct 1); EpochEnd true 4;
   ChangeRoot true (RMod gov_account); EpochEnd true 5].

Example ex_root_hist_ok : hist_ok 30 96 (s_params genesis_state) 0 1 ex_root_ops.
Proof. apply hist_okb_sound. vm_compute. reflexivity. Qed.

(** the same history on a wiring that lets governance receive (strategic share every enabled epoch) and on one that
    blocks it (nothing while governance is the root, the shares pile up in the module account — 216262005538, then
    432524011076 — and are swept to the next ordinary root: 648786016614 = 3 shares) *)
Example ex_root_strategic :
  map o_strategic (snd (run [] true genesis_state ex_root_ops)) =
  [0; 0; 0; 216262005538; 216262005538; 0; 0; 216262005538; 0; 216262005538] /\
  map (fun x => (o_strategic x, o_module x)) (snd (run [gov_account] true genesis_state ex_root_ops)) =
  [(0, 0); (0, 0); (0, 0); (0, 216262005538); (0, 432524011076); (0, 432524011076); (0, 432524011076);
   (648786016614, 0); (0, 0); (0, 216262005538)].
Proof. vm_compute. split; reflexivity. Qed.
