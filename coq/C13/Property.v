(** C13 — inflation mints exactly the scheduled amount and distributes all of it.
    This file holds only the exported statements (model: Model.v; schedule, [Consistent], [hist_ok]: Spec.v). *)
From Coq Require Import String ZArith List Bool.
Import ListNotations.
Require Import Nib.Lib.Dec Nib.C13.Model Nib.C13.Spec Nib.C13.Check Nib.C13.Arith Nib.C13.Proofs.
Local Open Scope Z_scope.

(** THE PROPERTY.  From every consistent state, over every history of day-epoch ends with consecutive numbers,
    toggles (by anybody), edits of the params that keep EpochsPerPeriod / MaxPeriod and other identifiers' epoch ends,
    the effects of the code, op by op — supply change, fee collector / community pool / sudo root changes, module
    balance afterwards, CurrentPeriod afterwards, no panic — are those of the closed-form schedule [spec_run]:
    the (c+1)-th enabled day epoch mints floor(polynomial(p)*10^6/EPP) with p = floor(c/EPP), nothing once p reaches
    MaxPeriod; disabled epochs mint nothing and leave c alone; staking and community receive the floors of their
    proportions, the strategic reserve the remainder, the module account is left empty; CurrentPeriod = min(c/EPP, MaxPeriod).
    The final state is consistent again.
    THE SUDO ROOT is part of the state and of the history: it is any OPERABLE account — an ordinary account or the
    governance module account — at the start and after every MsgChangeRoot of the history (by the current root; attempts
    by others change nothing), and the statement holds for every application wiring [B] (the x/bank blocked-recipient
    table, module account names) that lets every operable root receive: [wiring_ok B].  For the table of this tree that
    is the obligation C13_operable_roots_can_receive (Gen/C13Oblig.v, re-extracted from the linked application on every
    run); where it fails the statement is false (C13_governance_root_blocked_refuted).
    [run B false] is the model of a tree on which a positive provision below one unibi does not panic (true since the
    fix: commit 2259f46; the driver probes it on every run, and on a tree where it panics the schedule predicate is
    false on the implementation trace — C13_sub_unit_provision_panics_before_fix). *)
Theorem C13_period_tracks_schedule :
  forall (B : list string) (ops : list op) (s : st) (e : Z),
    let p := s_params s in
    wiring_ok B -> operable (s_root s) = true ->
    Consistent s e -> s_module s = 0 -> 0 <= peek (s_skipped s) -> small (p_epp p) (p_max p) ->
    hist_ok (p_epp p) (p_max p) p (n_of s e - 1) e ops ->
    map view_of (snd (run B false s ops)) = snd (spec_run {| q_params := p; q_c := n_of s e - 1 |} ops) /\
    exists e', Consistent (fst (run B false s ops)) e' /\ operable (s_root (fst (run B false s ops))) = true /\
               fst (spec_run {| q_params := p; q_c := n_of s e - 1 |} ops) =
               {| q_params := s_params (fst (run B false s ops)); q_c := n_of (fst (run B false s ops)) e' - 1 |}.
Proof. exact period_tracks_schedule. Qed.
Print Assumptions C13_period_tracks_schedule.

(** The schedule position is the number of day epochs that ended while inflation was enabled. *)
Theorem C13_schedule_position_counts_enabled_epochs :
  forall (ops : list op) (p : params) (c : Z),
    q_c (fst (spec_run {| q_params := p; q_c := c |} ops)) = c + enabled_days p ops.
Proof. exact spec_position. Qed.
Print Assumptions C13_schedule_position_counts_enabled_epochs.

(** "The polynomial is positive below MaxPeriod" implies the pointwise hypothesis used in [hist_ok]. *)
Theorem C13_positive_polynomial_suffices :
  forall (p : params) (c : Z), poly_pos p -> 0 < p_epp p -> 0 <= c -> prov_ok p c.
Proof. exact poly_pos_prov_ok. Qed.
Print Assumptions C13_positive_polynomial_suffices.

(** A new chain (period 0, skipped 0, never started) is consistent at day epoch 1 … *)
Theorem C13_genesis_consistent :
  forall s : st,
    p_started (s_params s) = false -> p_enabled (s_params s) = false ->
    peek (s_period s) = 0 -> peek (s_skipped s) = 0 -> 0 <= p_max (s_params s) -> 0 < p_epp (s_params s) ->
    Consistent s 1.
Proof. exact genesis_consistent. Qed.
Print Assumptions C13_genesis_consistent.

(** … and a module that never started becomes consistent with the first day epoch that ends while it is
    disabled, whatever its skipped counter and the epoch number were. *)
Theorem C13_fresh_start_consistent :
  forall (B : list string) (zp : bool) (s : st) (e : Z),
    p_started (s_params s) = false -> p_enabled (s_params s) = false -> peek (s_period s) = 0 ->
    0 <= p_max (s_params s) -> 0 < p_epp (s_params s) ->
    Consistent (fst (after_epoch_end B zp s true e)) (e + 1).
Proof. exact fresh_start_consistent. Qed.
Print Assumptions C13_fresh_start_consistent.

(** Epochs while disabled mint nothing, move nothing, and do not advance the schedule. *)
Theorem C13_disabled_epochs_mint_nothing_and_do_not_advance :
  forall (B : list string) (zp : bool) (s : st) (e : Z),
    p_enabled (s_params s) = false -> 0 <= peek (s_skipped s) < two64 - 1 ->
    let s' := fst (after_epoch_end B zp s true e) in
    let x := snd (after_epoch_end B zp s true e) in
    o_minted x = 0 /\ o_staking x = 0 /\ o_community x = 0 /\ o_strategic x = 0 /\ o_panic x = false /\
    s_module s' = s_module s /\ s_period s' = s_period s /\ s_params s' = s_params s /\
    (p_started (s_params s) = true -> n_of s' (e + 1) = n_of s e) /\
    (p_started (s_params s) = false -> n_of s' (e + 1) = 1).
Proof. exact disabled_epochs_mint_nothing. Qed.
Print Assumptions C13_disabled_epochs_mint_nothing_and_do_not_advance.

(** Everything minted is distributed in the same call, in ANY state with valid proportions (consistent or not) whose
    sudo root the bank does not refuse as a recipient (every ordinary account; a module account not in the table):
    staking = floor(minted * p_staking), community = floor(minted * p_community), strategic = the remainder
    (plus whatever lay in the module account), module account empty. *)
Theorem C13_all_distributed :
  forall (B : list string) (zp : bool) (s : st) (e : Z),
    blocked B (s_root s) = false -> dist_ok (s_params s) -> 0 <= s_module s ->
    let x := snd (after_epoch_end B zp s true e) in
    0 <= o_minted x /\
    (0 < o_minted x ->
       o_staking x + o_community x + o_strategic x = o_minted x + s_module s /\ o_module x = 0 /\
       o_staking x = o_minted x * p_staking (s_params s) / PREC /\
       o_community x = o_minted x * p_community (s_params s) / PREC) /\
    (o_minted x = 0 -> o_staking x = 0 /\ o_community x = 0 /\ o_strategic x = 0 /\ o_module x = s_module s).
Proof. exact all_distributed. Qed.
Print Assumptions C13_all_distributed.

(** … and along EVERY history from EVERY state (any counters, any edits of the params, stray coins, any sudo root and
    any MsgChangeRoot) under a wiring that lets every operable root receive: at each day-epoch end with valid
    proportions at which the sudo root is an operable account [dist_step] holds — minted >= 0, the three recipients receive the minted
    amount plus what lay in the module account, floors for staking / community, module account empty. *)
Theorem C13_distributed_along_every_history :
  forall (B : list string) (zp : bool) (ops : list op) (s : st),
    wiring_ok B -> 0 <= s_module s -> Forall fund_nonneg ops ->
    P_dist (s_params s) (s_root s) (s_module s) (combine ops (snd (run B zp s ops))).
Proof. intros B zp ops s HW. exact (distributed_along_every_history B zp HW ops s). Qed.
Print Assumptions C13_distributed_along_every_history.

(** … and along EVERY history from EVERY state — counters consistent, behind, or AHEAD of the epoch number — every
    minting day-epoch end moves the period by the test ON THE INTEGERS (e - EPP*period - skipped >= EPP): while the
    counters are ahead the period does not advance until the epoch number has caught up; the skipped counter is
    untouched.  (Evaluated on every implementation trace.) *)
Theorem C13_integer_rollover_along_every_history :
  forall (B : list string) (zp : bool) (ops : list op) (s : st),
    wiring_ok B ->
    P_roll (s_params s) (s_root s) (s_module s) (peek (s_period s)) (peek (s_skipped s)) (combine ops (snd (run B zp s ops))).
Proof. intros B zp ops s HW. exact (roll_along_every_history B zp HW ops s). Qed.
Print Assumptions C13_integer_rollover_along_every_history.

Theorem C13_rollover_checker_sound :
  forall tr p rt m0 per sk, Pb_roll p rt m0 per sk tr = true -> P_roll p rt m0 per sk tr.
Proof. exact Pb_roll_sound. Qed.
Print Assumptions C13_rollover_checker_sound.

(** The roll-over test on uint64 / int64 is the integer comparison when nothing exceeds 2^62. *)
Theorem C13_rollover_test_without_wraparound :
  forall e E per k : Z,
    0 <= e < two62 -> 0 <= k < two62 -> 0 < E < two62 -> 0 <= E * per < two62 ->
    rollover e E per k = (E <=? e - E * per - k).
Proof. exact rollover_small. Qed.
Print Assumptions C13_rollover_test_without_wraparound.

(** Inconsistent genesis, period behind the schedule: every enabled epoch mints the amount of the LAGGING period
    and advances the period by one; the lag never grows. *)
Theorem C13_inconsistent_genesis_catches_up :
  forall (B : list string) (zp : bool) (s : st) (e : Z),
    let p := s_params s in let per := peek (s_period s) in let n := n_of s e in
    blocked B (s_root s) = false -> p_enabled p = true -> dist_ok p -> s_module s = 0 ->
    0 < p_epp p < two62 -> 0 <= per < p_max p -> 0 <= p_epp p * per < two62 -> 0 <= e < two62 ->
    0 <= peek (s_skipped s) < two62 -> PREC <= poly_provision p per ->
    per < (n - 1) / p_epp p ->
    let s' := fst (after_epoch_end B zp s true e) in
    o_minted (snd (after_epoch_end B zp s true e)) = truncate_int (poly_provision p per) /\
    peek (s_period s') = per + 1 /\
    (n_of s' (e + 1) - 1) / p_epp p - peek (s_period s') <= (n - 1) / p_epp p - per.
Proof. exact behind_catches_up. Qed.
Print Assumptions C13_inconsistent_genesis_catches_up.

(** Inconsistent genesis, period ahead of the schedule: the period waits (and its amount keeps being minted). *)
Theorem C13_period_ahead_of_schedule_waits :
  forall (B : list string) (zp : bool) (s : st) (e : Z),
    let p := s_params s in let per := peek (s_period s) in let n := n_of s e in
    blocked B (s_root s) = false -> p_enabled p = true -> dist_ok p -> s_module s = 0 ->
    0 < p_epp p < two62 -> 0 <= per < p_max p -> 0 <= p_epp p * per < two62 -> 0 <= e < two62 ->
    0 <= peek (s_skipped s) < two62 -> PREC <= poly_provision p per ->
    (n - 1) / p_epp p < per -> 1 <= n ->
    o_minted (snd (after_epoch_end B zp s true e)) = truncate_int (poly_provision p per) /\
    peek (s_period (fst (after_epoch_end B zp s true e))) = per.
Proof. exact ahead_waits. Qed.
Print Assumptions C13_period_ahead_of_schedule_waits.

(** The quantifier of the property allows any genesis counters; the closed form is FALSE for an inconsistent one
    (a started chain imported with zeroed counters at day epoch 7 mints the amount of period 0 instead of period 3). *)
Theorem C13_closed_form_refuted_for_inconsistent_genesis :
  forall B : list string, exists s e, dist_ok (s_params s) /\ poly_unit (s_params s) /\ s_module s = 0 /\
              p_started (s_params s) = true /\ ~ Consistent s e /\
              o_minted (snd (after_epoch_end B true s true e)) <> sched_mint (s_params s) (n_of s e - 1).
Proof. exact closed_form_refuted_for_inconsistent_genesis. Qed.
Print Assumptions C13_closed_form_refuted_for_inconsistent_genesis.

(** … and for a never-started module that is switched on before any day epoch ended while the epoch counter is
    ahead of the skipped counter (periods roll over after every epoch instead of every second one). *)
Theorem C13_first_enable_without_a_disabled_epoch_refuted :
  forall B : list string, exists s e, p_started (s_params s) = false /\ p_enabled (s_params s) = false /\ peek (s_period s) = 0 /\
    let s1 := fst (step B true s (Toggle true true)) in
    ~ Consistent s1 e /\
    map o_period (snd (run B true s1 [EpochEnd true 7; EpochEnd true 8; EpochEnd true 9; EpochEnd true 10])) = [1; 2; 3; 4].
Proof. exact first_enable_without_a_disabled_epoch_refuted. Qed.
Print Assumptions C13_first_enable_without_a_disabled_epoch_refuted.

(** DEFECT found by this check on the pinned tree, repaired by fix: commit 2259f46 ([true] = the model of a tree where
    the deferred telemetry block dereferences the nil amounts): a polynomial that is positive below MaxPeriod but
    yields less than one unibi per epoch makes the epoch hook panic in a consistent state — in BeginBlock this
    halts the chain.  The reverse of the fix is reported as a violation (the schedule predicate demands no panic). *)
Theorem C13_sub_unit_provision_panics_before_fix :
  forall B : list string, exists s e, Consistent s e /\ dist_ok (s_params s) /\ poly_pos (s_params s) /\ s_module s = 0 /\
              o_panic (snd (after_epoch_end B true s true e)) = true /\
              o_panic (snd (after_epoch_end B false s true e)) = false.
Proof. exact sub_unit_provision_panics. Qed.
Print Assumptions C13_sub_unit_provision_panics_before_fix.

(** The boolean checker evaluated on implementation traces is sound for the schedule predicate … *)
Theorem C13_checker_sound : forall q tr, Pb_trace q tr = true -> P_trace q tr.
Proof. exact Pb_trace_sound. Qed.
Print Assumptions C13_checker_sound.

Theorem C13_distribution_checker_sound : forall tr p rt m0, Pb_dist p rt m0 tr = true -> P_dist p rt m0 tr.
Proof. exact Pb_dist_sound. Qed.
Print Assumptions C13_distribution_checker_sound.

(** … and wherever the check evaluates it ([pre]), the case lies inside the hypotheses of the main theorem, so the
    model's own trace of that case satisfies it. *)
Theorem C13_check_precondition_sound :
  forall (B : list string) (c : case), wiring_ok B -> pre c = true ->
    P_trace (start_q c) (combine (map fst (c_tr c)) (snd (run B false (c_init c) (map fst (c_tr c))))).
Proof. exact pre_sound. Qed.
Print Assumptions C13_check_precondition_sound.

(* ---------------------------------------------------------------- the sudo root and the bank's blocked-recipient table *)

(** The wiring fact, decidable on a table: the governance module account is not blocked (ordinary accounts never are). *)
Theorem C13_wiring_fact_decidable :
  forall B : list string, (wiring_okb B = true -> wiring_ok B) /\ (wiring_ok B <-> blocked B (RMod gov_account) = false).
Proof. intro B. split; [exact (wiring_okb_sound B)|exact (wiring_ok_gov B)]. Qed.
Print Assumptions C13_wiring_fact_decidable.

(** THE FAILING-TRANSFER BRANCH of AllocatePolynomialInflation / AfterEpochEnd, exactly: when the bank refuses the
    sudo root (a module account in the blocked table [B]) a minting day-epoch end still mints and still pays the
    staking and community floors, pays nothing to the strategic reserve, leaves that share in the inflation module
    account, and returns before the roll-over test — CurrentPeriod and NumSkippedEpochs untouched.  So the failure is
    NOT atomic, and with such a root the period never advances. *)
Theorem C13_blocked_root_partial_effects :
  forall (B : list string) (zp : bool) (s : st) (e : Z),
    blocked B (s_root s) = true -> dist_ok (s_params s) -> 0 <= s_module s ->
    let x := snd (after_epoch_end B zp s true e) in
    let s' := fst (after_epoch_end B zp s true e) in
    0 < o_minted x ->
    o_staking x = o_minted x * p_staking (s_params s) / PREC /\
    o_community x = o_minted x * p_community (s_params s) / PREC /\
    o_strategic x = 0 /\
    o_module x = s_module s + o_minted x - o_staking x - o_community x /\
    s_period s' = s_period s /\ s_skipped s' = s_skipped s /\ o_period x = peek (s_period s).
Proof. exact blocked_root_partial_effects. Qed.
Print Assumptions C13_blocked_root_partial_effects.

Theorem C13_blocked_root_not_distributed :
  forall (B : list string) (zp : bool) (s : st) (e : Z),
    blocked B (s_root s) = true -> dist_ok (s_params s) -> 0 <= s_module s ->
    let x := snd (after_epoch_end B zp s true e) in
    0 < o_minted x -> o_staking x + o_community x < o_minted x + s_module s ->
    o_staking x + o_community x + o_strategic x <> o_minted x + s_module s /\ o_module x <> 0.
Proof. exact blocked_root_not_distributed. Qed.
Print Assumptions C13_blocked_root_not_distributed.

(** REFUTED for every wiring that blocks the governance module account (e.g. a blocked list derived from the module
    account permissions): governance is an operable sudo root (MsgChangeRoot to it, proposals sign as it); from a
    consistent state with valid proportions and a polynomial >= 1 unibi the first enabled day epoch pays the root
    nothing, the parts fall short of the minted amount, the module account is not empty, and after EpochsPerPeriod
    enabled epochs the period is still 0 where the schedule says 1. *)
Theorem C13_governance_root_blocked_refuted :
  forall B : list string,
    blocked B (RMod gov_account) = true ->
    exists s e, operable (s_root s) = true /\ Consistent s e /\ dist_ok (s_params s) /\ poly_unit (s_params s) /\
      s_module s = 0 /\
      let x := snd (after_epoch_end B false s true e) in
      let s1 := fst (after_epoch_end B false s true e) in
      let x2 := snd (after_epoch_end B false s1 true (e + 1)) in
      0 < o_minted x /\ o_staking x + o_community x + o_strategic x < o_minted x /\ 0 < o_module x /\
      o_period x2 = 0 /\ sched_period (s_params s) 2 = 1 /\
      o_minted x2 + o_minted x = o_module x2 + o_staking x + o_community x + o_staking x2 + o_community x2.
Proof. exact gov_blocked_refuted. Qed.
Print Assumptions C13_governance_root_blocked_refuted.
