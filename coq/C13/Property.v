(** C13 — exported statements only. *)
From Coq Require Import ZArith List Bool.
Import ListNotations.
Require Import Nib.Lib.Dec Nib.C13.Model Nib.C13.Spec Nib.C13.Check Nib.C13.Proofs.
Local Open Scope Z_scope.

Theorem C13_checker_sound : forall q tr, Pb_trace q tr = true -> P_trace q tr.
Proof. exact Pb_trace_sound. Qed.
Print Assumptions C13_checker_sound.
