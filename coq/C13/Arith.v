(** C13 — arithmetic lemmas: machine integers of the roll-over test, LegacyDec shares (lemmas about
    Lib/Dec.v that this property needs), period arithmetic. *)
From Coq Require Import String ZArith List Bool Lia.
Import ListNotations.
Require Import Nib.Lib.Dec Nib.C13.Model Nib.C13.Spec.
Local Open Scope Z_scope.

Lemma PREC_pos : 0 < PREC.
Proof. reflexivity. Qed.

Lemma two_consts : two62 = 2 ^ 62 /\ two63 = 2 ^ 63 /\ two64 = 2 ^ 64.
Proof. repeat split; reflexivity. Qed.

Lemma two62_lt : two62 * 2 = two63 /\ two63 * 2 = two64 /\ 0 < two62.
Proof. repeat split; reflexivity. Qed.

(* ---------------------------------------------------------------- machine integers *)

Lemma wrap_small z : 0 <= z < two64 -> wrap_u64 z = z.
Proof. intro H. unfold wrap_u64. apply Z.mod_small. exact H. Qed.

Lemma to_i64_small z : - two63 <= z < two63 -> to_i64 z = z.
Proof.
  intro H. unfold to_i64. destruct two62_lt as [_ [T _]].
  destruct (Z_lt_le_dec z 0) as [N|N].
  - assert (E : z mod two64 = z + two64).
    { rewrite <- (Z.mod_add z 1 two64) by (rewrite <- T; lia). apply Z.mod_small. lia. }
    rewrite E. destruct (z + two64 <? two63) eqn:C; [apply Z.ltb_lt in C; lia|lia].
  - rewrite Z.mod_small by lia. destruct (z <? two63) eqn:C; [reflexivity|apply Z.ltb_ge in C; lia].
Qed.

(** without wrap-around the roll-over test is the comparison on integers *)
Lemma rollover_small e E per k :
  0 <= e < two62 -> 0 <= k < two62 -> 0 < E < two62 -> 0 <= E * per < two62 ->
  rollover e E per k = (E <=? e - E * per - k).
Proof.
  intros He Hk HE Hp. unfold rollover. destruct two62_lt as [T1 [T2 T3]].
  rewrite (wrap_small (E * per)) by lia.
  rewrite (to_i64_small E) by lia. rewrite (to_i64_small e) by lia.
  rewrite (to_i64_small (E * per)) by lia. rewrite (to_i64_small k) by lia.
  rewrite (to_i64_small (e - E * per)) by lia. rewrite (to_i64_small (e - E * per - k)) by lia.
  reflexivity.
Qed.

(* ---------------------------------------------------------------- LegacyDec shares *)

Lemma chop_round_exact x : 0 <= x -> chop_round (x * PREC) = x.
Proof.
  intro H. pose proof PREC_pos as P. unfold chop_round.
  assert (x * PREC <? 0 = false) as -> by (apply Z.ltb_ge; nia).
  unfold chop_round_pos. rewrite Z.div_mul by lia. rewrite Z.mod_mul by lia. reflexivity.
Qed.

(** GetProportions is the floor of amount * proportion *)
Lemma share_eq amt a : 0 <= amt -> 0 <= a -> share amt a = (amt * a) / PREC.
Proof.
  intros Ha Hb. pose proof PREC_pos as P. unfold share, mul, truncate_int.
  replace (amt * PREC * a) with (amt * a * PREC) by ring.
  rewrite chop_round_exact by nia. apply Z.quot_div_nonneg; nia.
Qed.

Lemma share_zero a : share 0 a = 0.
Proof. reflexivity. Qed.

Lemma share_nonneg amt a : 0 <= amt -> 0 <= a -> 0 <= share amt a.
Proof. intros. rewrite share_eq by assumption. apply Z.div_pos; [nia|apply PREC_pos]. Qed.

Lemma share_sum_le amt a b :
  0 <= amt -> 0 <= a -> 0 <= b -> a + b <= PREC -> share amt a + share amt b <= amt.
Proof.
  intros Hm Ha Hb Hs. pose proof PREC_pos as P. rewrite !share_eq by assumption.
  pose proof (Z.mul_div_le (amt * a) PREC P). pose proof (Z.mul_div_le (amt * b) PREC P).
  nia.
Qed.

Lemma truncate_nonneg x : 0 <= x -> 0 <= truncate_int x.
Proof. intro H. unfold truncate_int. apply Z.quot_pos; [exact H|]. pose proof PREC_pos. lia. Qed.

Lemma truncate_ge1 x : PREC <= x -> 1 <= truncate_int x.
Proof.
  intro H. pose proof PREC_pos as P. unfold truncate_int. rewrite Z.quot_div_nonneg by lia.
  apply Z.div_le_lower_bound; lia.
Qed.

(** with valid proportions the two sends succeed and the strategic reserve receives the remainder *)
Lemma allocate_ok p m0 amt :
  dist_ok p -> 0 <= m0 -> 0 <= amt ->
  allocate true p m0 amt =
    (share amt (p_staking p), share amt (p_community p),
     m0 + amt - share amt (p_staking p) - share amt (p_community p), 0, true).
Proof.
  intros [D1 [D2 [D3 D4]]] Hm Ha. unfold allocate.
  pose proof (share_sum_le amt (p_staking p) (p_community p) Ha D1 D2 ltac:(lia)) as S.
  pose proof (share_nonneg amt (p_staking p) Ha D1). pose proof (share_nonneg amt (p_community p) Ha D2).
  assert (m0 + amt <? share amt (p_staking p) = false) as -> by (apply Z.ltb_ge; lia).
  assert (m0 + amt - share amt (p_staking p) <? share amt (p_community p) = false) as -> by (apply Z.ltb_ge; lia).
  reflexivity.
Qed.

(** … and when the bank refuses the sudo root as a recipient, the two sends have happened, the strategic share
    stays in the module account and the call reports an error *)
Lemma allocate_blocked p m0 amt :
  dist_ok p -> 0 <= m0 -> 0 <= amt ->
  allocate false p m0 amt =
    (share amt (p_staking p), share amt (p_community p), 0,
     m0 + amt - share amt (p_staking p) - share amt (p_community p), false).
Proof.
  intros [D1 [D2 [D3 D4]]] Hm Ha. unfold allocate.
  pose proof (share_sum_le amt (p_staking p) (p_community p) Ha D1 D2 ltac:(lia)) as S.
  pose proof (share_nonneg amt (p_staking p) Ha D1). pose proof (share_nonneg amt (p_community p) Ha D2).
  assert (m0 + amt <? share amt (p_staking p) = false) as -> by (apply Z.ltb_ge; lia).
  assert (m0 + amt - share amt (p_staking p) <? share amt (p_community p) = false) as -> by (apply Z.ltb_ge; lia).
  reflexivity.
Qed.

(* ---------------------------------------------------------------- periods *)

(** the roll-over test fires exactly when the next enabled epoch belongs to the next period *)
Lemma next_period E c :
  0 < E -> 0 <= c ->
  (E <=? (c + 1) - E * (c / E)) = true /\ (c + 1) / E = c / E + 1 \/
  (E <=? (c + 1) - E * (c / E)) = false /\ (c + 1) / E = c / E.
Proof.
  intros HE Hc. pose proof (Z.div_mod c E ltac:(lia)) as D. pose proof (Z.mod_pos_bound c E HE) as B.
  destruct (Z_lt_le_dec (c mod E + 1) E) as [L|L].
  - right. split; [apply Z.leb_gt; lia|].
    symmetry. apply (Z.div_unique (c + 1) E (c / E) (c mod E + 1)); lia.
  - left. split; [apply Z.leb_le; lia|].
    symmetry. apply (Z.div_unique (c + 1) E (c / E + 1) 0); lia.
Qed.
