(** C11 — a hash-exact reveal is accepted only if the revealed string is a VALID vote: well formed
    and one tuple per pair (abstain entries included); a refused reveal leaves the prevote pending. *)
From Coq Require Import List Bool Arith ZArith Lia.
Import ListNotations.
Require Import Nib.C11.Model Nib.C11.Spec Nib.C11.Proofs Nib.C11.ProofsPreimage.

Lemma distinctb_NoDup l : distinctb l = true <-> NoDup l.
Proof.
  induction l as [|x r IH]; simpl.
  - split; [constructor|reflexivity].
  - rewrite andb_true_iff, negb_true_iff, IH. split.
    + intros [E N]. constructor; auto. intro I.
      assert (X : existsb (Nat.eqb x) r = true) by (apply existsb_exists; exists x; split; auto; apply Nat.eqb_refl).
      congruence.
    + intro N. inversion N; subst. split; auto.
      destruct (existsb (Nat.eqb x) r) eqn:E; auto.
      apply existsb_exists in E as (y & I & Ey). apply Nat.eqb_eq in Ey. subst. contradiction.
Qed.

(** acceptance of a vote with the pinned tree's duplicate rule, exactly *)
Theorem vote_msg_accepted_iff H n s h f v salt rates tuples wf ts wl :
  accepted (fst (step H n s h (vote_msg DupAll f v salt rates tuples wf ts wl))) = true <->
  feeder_ok s f v = true /\ status s v = Bonded /\
  (exists p, prevotes s v = Some p /\ period_ok (vp s) h (p_submit p) = true /\
             p_hash p = H salt rates v) /\
  (wf = true /\ NoDup (map fst ts)) /\ wl = true.
Proof.
  unfold vote_msg. rewrite vote_accepted_iff. unfold valid_rates.
  rewrite andb_true_iff, distinctb_NoDup. tauto.
Qed.

Theorem accepted_vote_pairs_distinct H n s h f v salt rates tuples wf ts wl :
  accepted (fst (step H n s h (vote_msg DupAll f v salt rates tuples wf ts wl))) = true ->
  wf = true /\ NoDup (map fst ts).
Proof. intro A. apply vote_msg_accepted_iff in A. tauto. Qed.

(** a reveal of an invalid string — even hash-exact, in its window, by the right signer — is refused
    and changes nothing: the prevote stays pending, no vote is stored *)
Theorem invalid_rates_refused_prevote_pending H n s h f v salt rates tuples wf ts wl :
  (wf = false \/ ~ NoDup (map fst ts)) ->
  let r := step H n s h (vote_msg DupAll f v salt rates tuples wf ts wl) in
  accepted (fst r) = false /\ snd r = s /\ prevotes (snd r) v = prevotes s v /\ votes (snd r) v = votes s v.
Proof.
  intros Bad r.
  assert (A : accepted (fst r) = false).
  { destruct (accepted (fst r)) eqn:E; auto. apply accepted_vote_pairs_distinct in E.
    destruct E as [W N]. destruct Bad; [congruence|contradiction]. }
  assert (K : snd r = s) by (apply rejected_no_change; exact A).
  rewrite K. auto.
Qed.

(** the variant that does not track abstain entries accepts a hash-exact reveal naming one pair
    twice (abstain + priced), consuming the prevote *)
Theorem dup_priced_only_refuted H :
  exists s ts, ~ NoDup (map fst ts) /\
    let r := step H 0 s 2%Z (vote_msg DupPricedOnly 0 0 1 1 7 true ts true) in
    accepted (fst r) = true /\ prevotes (snd r) 0 = None /\ votes (snd r) 0 = Some 7 /\
    accepted (fst (step H 0 s 2%Z (vote_msg DupAll 0 0 1 1 7 true ts true))) = false.
Proof.
  exists (wit_state (H 1 1 0)), [(1, false); (1, true)].
  split. { intro N. inversion N as [|? ? NI _]; subst. apply NI. left. reflexivity. }
  assert (A : accepted (fst (step H 0 (wit_state (H 1 1 0)) 2%Z (Vote 0 0 1 1 7 true true))) = true)
    by (apply wit_vote_accepted_iff; reflexivity).
  change (vote_msg DupPricedOnly 0 0 1 1 7 true [(1, false); (1, true)] true) with (Vote 0 0 1 1 7 true true).
  cbv zeta. split; [exact A|].
  destruct (vote_effect H 0 (wit_state (H 1 1 0)) 2%Z 0 0 1 1 7 true true A _ eq_refl) as (P1 & P2 & _).
  split; [exact P1|]. split; [exact P2|].
  apply (invalid_rates_refused_prevote_pending H 0 (wit_state (H 1 1 0)) 2%Z 0 0 1 1 7 true [(1, false); (1, true)] true).
  right. intro N. inversion N as [|? ? NI _]; subst. apply NI. left. reflexivity.
Qed.
