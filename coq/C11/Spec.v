(** C11 — the property over an observable trace (what the message server answered and what
    the Prevotes / Votes / FeederDelegations stores and VotePeriod held after every message),
    as a [Prop] ([P]) and as a boolean checker ([Pb]) with [Pb_sound : Pb … = true -> P …].
    [Pb] is what check.py evaluates on traces of the implementation. *)
From Coq Require Import List Bool Arith ZArith Lia.
Import ListNotations.
Require Import Nib.C11.Model.

(** observable part of a state (no ghost field) *)
Record view := {
  w_prev   : nat -> option (nat * Z);     (* validator -> (hash id, SubmitBlock) *)
  w_votes  : nat -> option nat;           (* validator -> parsed tuples id *)
  w_feed   : nat -> option nat;           (* validator -> delegate *)
  w_status : nat -> vstat;
  w_vp     : Z
}.

Definition view_of (s : state) : view :=
  {| w_prev := fun v => match prevotes s v with Some p => Some (p_hash p, p_submit p) | None => None end;
     w_votes := votes s; w_feed := feeders s; w_status := status s; w_vp := vp s |}.

(** height, message, accepted?, view after the message *)
Definition ostep : Type := (Z * msg * bool * view)%type.

Definition w_feeder_ok (w : view) (f v : nat) : Prop := f = v \/ w_feed w v = Some f.

(** stores of the ids below [n] other than [v] *)
Definition others_kept (n v : nat) (pre post : view) : Prop :=
  forall x, x < n -> x <> v -> w_prev post x = w_prev pre x /\ w_votes post x = w_votes pre x.

Definition votes_kept (n : nat) (pre post : view) : Prop :=
  forall x, x < n -> w_prev post x = w_prev pre x /\ w_votes post x = w_votes pre x.

Definition feeders_kept (n : nat) (pre post : view) : Prop :=
  forall x, x < n -> w_feed post x = w_feed pre x.

Definition drop_stale (vp h : Z) (e : option (nat * Z)) : option (nat * Z) :=
  match e with
  | Some (hh, sb) => if stale vp h sb then None else Some (hh, sb)
  | None => None
  end.

(** The property, for one observed step from view [pre]:
    - a vote is accepted ONLY IF its signer is the validator or its current delegate, the validator
      is bonded, a prevote of that validator is stored whose submit block lies exactly one vote
      period before the current height (the code's integer arithmetic), the rate string parses to
      whitelisted pairs, and the stored hash is the hash of (salt, exact rate string, validator);
      an accepted vote removes the prevote and stores the parsed tuples;
    - a prevote is accepted only from an authorised signer for a bonded validator;
    - nothing else touches a validator's prevote / vote (a rejected message changes nothing);
    - the period end drops all votes and exactly the stale prevotes. *)
Definition step_P (n : nat) (H : nat -> nat -> nat -> nat) (pre : view) (e : ostep) : Prop :=
  let '(h, m, acc, post) := e in
  match m with
  | Vote f v salt rates tuples parses wl =>
      (acc = true ->
         w_feeder_ok pre f v /\ w_status pre v = Bonded /\
         (exists hash submit, w_prev pre v = Some (hash, submit) /\
                              period_ok (w_vp pre) h submit = true /\ hash = H salt rates v) /\
         parses = true /\ wl = true /\
         w_prev post v = None /\ w_votes post v = Some tuples) /\
      (acc = false -> w_prev post v = w_prev pre v /\ w_votes post v = w_votes pre v) /\
      others_kept n v pre post /\ feeders_kept n pre post
  | Prevote f v hash hex_ok =>
      (acc = true ->
         w_feeder_ok pre f v /\ w_status pre v = Bonded /\ hex_ok = true /\
         w_prev post v = Some (hash, to_u64 h) /\ w_votes post v = w_votes pre v) /\
      (acc = false -> w_prev post v = w_prev pre v /\ w_votes post v = w_votes pre v) /\
      others_kept n v pre post /\ feeders_kept n pre post
  | Delegate op d =>
      (acc = true -> w_status pre op <> NoVal /\ w_feed post op = Some d) /\
      (acc = false -> w_feed post op = w_feed pre op) /\
      (forall x, x < n -> x <> op -> w_feed post x = w_feed pre x) /\
      votes_kept n pre post
  | EndBlock =>
      feeders_kept n pre post /\
      if is_period_last (w_vp pre) h
      then forall x, x < n -> w_votes post x = None /\
                              w_prev post x = drop_stale (w_vp pre) h (w_prev pre x)
      else votes_kept n pre post
  | EditParams _ _ _ | SetStatus _ _ | Malformed =>
      votes_kept n pre post /\ feeders_kept n pre post
  end.

Fixpoint P (n : nat) (H : nat -> nat -> nat -> nat) (pre : view) (t : list ostep) : Prop :=
  match t with
  | [] => True
  | e :: r => step_P n H pre e /\ P n H (snd e) r
  end.

(* ------------------------------------------------------------------ boolean checker *)

Definition onat_eqb (a b : option nat) : bool :=
  match a, b with
  | Some x, Some y => x =? y
  | None, None => true
  | _, _ => false
  end.

Definition oprev_eqb (a b : option (nat * Z)) : bool :=
  match a, b with
  | Some (x, s), Some (y, t) => (x =? y) && (s =? t)%Z
  | None, None => true
  | _, _ => false
  end.

Lemma onat_eqb_eq a b : onat_eqb a b = true -> a = b.
Proof.
  destruct a, b; simpl; intro E; try discriminate; auto.
  apply Nat.eqb_eq in E. congruence.
Qed.

Lemma oprev_eqb_eq a b : oprev_eqb a b = true -> a = b.
Proof.
  destruct a as [[x s]|], b as [[y t]|]; simpl; intro E; try discriminate; auto.
  apply andb_true_iff in E as [E1 E2]. apply Nat.eqb_eq in E1. apply Z.eqb_eq in E2. congruence.
Qed.

Definition vstat_is_bonded (x : vstat) : bool := match x with Bonded => true | _ => false end.
Definition vstat_is_noval (x : vstat) : bool := match x with NoVal => true | _ => false end.

Definition w_feeder_okb (w : view) (f v : nat) : bool :=
  (f =? v) || onat_eqb (w_feed w v) (Some f).

Definition below (n : nat) (p : nat -> bool) : bool := forallb p (seq 0 n).

Lemma below_spec n p : below n p = true -> forall x, x < n -> p x = true.
Proof.
  unfold below. intros E x L. rewrite forallb_forall in E. apply E. apply in_seq. lia.
Qed.

Definition others_keptb (n v : nat) (pre post : view) : bool :=
  below n (fun x => (x =? v) || (oprev_eqb (w_prev post x) (w_prev pre x) &&
                                  onat_eqb (w_votes post x) (w_votes pre x))).

Definition votes_keptb (n : nat) (pre post : view) : bool :=
  below n (fun x => oprev_eqb (w_prev post x) (w_prev pre x) &&
                    onat_eqb (w_votes post x) (w_votes pre x)).

Definition feeders_keptb (n : nat) (pre post : view) : bool :=
  below n (fun x => onat_eqb (w_feed post x) (w_feed pre x)).

Definition step_Pb (n : nat) (H : nat -> nat -> nat -> nat) (pre : view) (e : ostep) : bool :=
  let '(h, m, acc, post) := e in
  match m with
  | Vote f v salt rates tuples parses wl =>
      (if acc then
         w_feeder_okb pre f v && vstat_is_bonded (w_status pre v) &&
         match w_prev pre v with
         | Some (hash, submit) => period_ok (w_vp pre) h submit && (hash =? H salt rates v)
         | None => false
         end &&
         parses && wl &&
         oprev_eqb (w_prev post v) None && onat_eqb (w_votes post v) (Some tuples)
       else oprev_eqb (w_prev post v) (w_prev pre v) && onat_eqb (w_votes post v) (w_votes pre v)) &&
      others_keptb n v pre post && feeders_keptb n pre post
  | Prevote f v hash hex_ok =>
      (if acc then
         w_feeder_okb pre f v && vstat_is_bonded (w_status pre v) && hex_ok &&
         oprev_eqb (w_prev post v) (Some (hash, to_u64 h)) &&
         onat_eqb (w_votes post v) (w_votes pre v)
       else oprev_eqb (w_prev post v) (w_prev pre v) && onat_eqb (w_votes post v) (w_votes pre v)) &&
      others_keptb n v pre post && feeders_keptb n pre post
  | Delegate op d =>
      (if acc then negb (vstat_is_noval (w_status pre op)) && onat_eqb (w_feed post op) (Some d)
       else onat_eqb (w_feed post op) (w_feed pre op)) &&
      below n (fun x => (x =? op) || onat_eqb (w_feed post x) (w_feed pre x)) &&
      votes_keptb n pre post
  | EndBlock =>
      feeders_keptb n pre post &&
      if is_period_last (w_vp pre) h
      then below n (fun x => onat_eqb (w_votes post x) None &&
                             oprev_eqb (w_prev post x) (drop_stale (w_vp pre) h (w_prev pre x)))
      else votes_keptb n pre post
  | EditParams _ _ _ | SetStatus _ _ | Malformed =>
      votes_keptb n pre post && feeders_keptb n pre post
  end.

Fixpoint Pb (n : nat) (H : nat -> nat -> nat -> nat) (pre : view) (t : list ostep) : bool :=
  match t with
  | [] => true
  | e :: r => step_Pb n H pre e && Pb n H (snd e) r
  end.

Lemma others_keptb_sound n v pre post : others_keptb n v pre post = true -> others_kept n v pre post.
Proof.
  intros E x L N. pose proof (below_spec _ _ E x L) as B. simpl in B.
  apply orb_true_iff in B as [B|B]; [apply Nat.eqb_eq in B; contradiction|].
  apply andb_true_iff in B as [B1 B2]. split; [apply oprev_eqb_eq|apply onat_eqb_eq]; assumption.
Qed.

Lemma votes_keptb_sound n pre post : votes_keptb n pre post = true -> votes_kept n pre post.
Proof.
  intros E x L. pose proof (below_spec _ _ E x L) as B. simpl in B.
  apply andb_true_iff in B as [B1 B2]. split; [apply oprev_eqb_eq|apply onat_eqb_eq]; assumption.
Qed.

Lemma feeders_keptb_sound n pre post : feeders_keptb n pre post = true -> feeders_kept n pre post.
Proof.
  intros E x L. pose proof (below_spec _ _ E x L) as B. simpl in B. apply onat_eqb_eq; assumption.
Qed.

Lemma w_feeder_okb_sound w f v : w_feeder_okb w f v = true -> w_feeder_ok w f v.
Proof.
  unfold w_feeder_okb, w_feeder_ok. intro E. apply orb_true_iff in E as [E|E].
  - left. apply Nat.eqb_eq; assumption.
  - right. apply onat_eqb_eq; assumption.
Qed.

Lemma vstat_is_bonded_sound x : vstat_is_bonded x = true -> x = Bonded.
Proof. destruct x; simpl; congruence. Qed.

Ltac split_andb :=
  repeat match goal with
         | H : _ && _ = true |- _ => apply andb_true_iff in H; destruct H
         end.

Lemma step_Pb_sound n H pre e : step_Pb n H pre e = true -> step_P n H pre e.
Proof.
  destruct e as [[[h m] acc] post]. unfold step_Pb, step_P.
  destruct m as [f v hash hex_ok|f v salt rates tuples parses wl|op d|sd nvp vd|v st| |]; intro E.
  - (* Prevote *)
    split_andb. split; [|split; [|split]].
    + intro A. subst acc. split_andb.
      repeat split; auto using w_feeder_okb_sound, vstat_is_bonded_sound, oprev_eqb_eq, onat_eqb_eq.
    + intro A. subst acc. split_andb. split; auto using oprev_eqb_eq, onat_eqb_eq.
    + apply others_keptb_sound; assumption.
    + apply feeders_keptb_sound; assumption.
  - (* Vote *)
    split_andb. split; [|split; [|split]].
    + intro A. subst acc. split_andb.
      destruct (w_prev pre v) as [[hash submit]|] eqn:EP; [|discriminate].
      split_andb.
      repeat split; auto using w_feeder_okb_sound, vstat_is_bonded_sound, oprev_eqb_eq, onat_eqb_eq.
      exists hash, submit. repeat split; auto. apply Nat.eqb_eq; assumption.
    + intro A. subst acc. split_andb. split; auto using oprev_eqb_eq, onat_eqb_eq.
    + apply others_keptb_sound; assumption.
    + apply feeders_keptb_sound; assumption.
  - (* Delegate *)
    split_andb. split; [|split; [|split]].
    + intro A. subst acc. split_andb.
      split; [|apply onat_eqb_eq; assumption].
      intro C. rewrite C in *. discriminate.
    + intro A. subst acc. apply onat_eqb_eq; assumption.
    + intros x L N. match goal with B : below _ _ = true |- _ => pose proof (below_spec _ _ B x L) as B' end.
      simpl in B'. apply orb_true_iff in B' as [B'|B']; [apply Nat.eqb_eq in B'; contradiction|].
      apply onat_eqb_eq; assumption.
    + apply votes_keptb_sound; assumption.
  - split_andb. split; [apply votes_keptb_sound|apply feeders_keptb_sound]; assumption.
  - split_andb. split; [apply votes_keptb_sound|apply feeders_keptb_sound]; assumption.
  - (* EndBlock *)
    split_andb. split; [apply feeders_keptb_sound; assumption|].
    destruct (is_period_last (w_vp pre) h).
    + intros x L. match goal with B : below _ _ = true |- _ => pose proof (below_spec _ _ B x L) as B' end.
      simpl in B'. split_andb. split; [apply onat_eqb_eq|apply oprev_eqb_eq]; assumption.
    + apply votes_keptb_sound; assumption.
  - split_andb. split; [apply votes_keptb_sound|apply feeders_keptb_sound]; assumption.
Qed.

Lemma Pb_sound n H pre t : Pb n H pre t = true -> P n H pre t.
Proof.
  revert pre. induction t as [|e r IH]; intros pre E; simpl in *; auto.
  apply andb_true_iff in E as [E1 E2]. split; [apply step_Pb_sound; assumption|apply IH; assumption].
Qed.
