(** C11 — executable model of the oracle commit-reveal message handlers
    (x/oracle/keeper/msg_server.go: AggregateExchangeRatePrevote, AggregateExchangeRateVote,
     DelegateFeedConsent, EditOracleParams; keeper.go: ValidateFeeder; ballot.go:
     clearVotesAndPrevotes; abci.go / types/core.go: IsPeriodLastBlock).

    Identifiers are small naturals handed over by the harness:
      address ids   one id per 20-byte address; a validator's operator address and its own
                    account address are the same bytes, hence the same id
      hash ids      one id per (normalised, lower-case hex) hash string; 0 is never a stored hash
      salt / rates  one id per exact string
      tuples        one id per *parsed* list of (pair, rate) tuples (0 = does not parse)
    Heights and the vote period are [Z]; the uint64/int64 conversions and wrap-arounds of the Go
    code are modelled explicitly.  This file contains no proofs. *)
From Coq Require Import List Bool Arith ZArith.
Import ListNotations.

(* ------------------------------------------------------------------ machine integers *)

Definition two64 : Z := 18446744073709551616%Z.
Definition two63 : Z := 9223372036854775808%Z.

(** uint64(x) of an int64 [x] (ctx.BlockHeight()) *)
Definition to_u64 (x : Z) : Z := (x mod two64)%Z.
(** int64(x) of a uint64 [x] *)
Definition to_i64 (x : Z) : Z := if (x <? two63)%Z then x else (x - two64)%Z.
Definition u64add (a b : Z) : Z := ((a + b) mod two64)%Z.
Definition u64sub (a b : Z) : Z := ((a - b) mod two64)%Z.

(** msg_server.go: (uint64(ctx.BlockHeight())/params.VotePeriod) - (SubmitBlock/params.VotePeriod) != 1 *)
Definition period_ok (vp h submit : Z) : bool :=
  (u64sub (to_u64 h / vp) (submit / vp) =? 1)%Z.

(** types/core.go IsPeriodLastBlock: (uint64(h)+1) % period == 0 *)
Definition is_period_last (vp h : Z) : bool :=
  ((u64add (to_u64 h) 1) mod vp =? 0)%Z.

(** ballot.go clearVotesAndPrevotes: ctx.BlockHeight() >= int64(SubmitBlock+votePeriod) *)
Definition stale (vp h submit : Z) : bool :=
  (to_i64 (u64add submit vp) <=? h)%Z.

(* ------------------------------------------------------------------ state *)

(** [p_origin] is a ghost: the position in the history of the Prevote message that created the
    entry.  No decision of the model depends on it (Proofs.v: [step_ghost_irrelevant]). *)
Record prevote := { p_hash : nat; p_submit : Z; p_origin : nat }.

(** what staking says about an address used as validator operator *)
Inductive vstat := NoVal | NotBonded | Bonded.

Record state := {
  prevotes : nat -> option prevote;   (* Prevotes collection *)
  votes    : nat -> option nat;       (* Votes collection: parsed tuples id *)
  feeders  : nat -> option nat;       (* FeederDelegations collection *)
  status   : nat -> vstat;            (* StakingKeeper.Validator(v) : nil / !IsBonded / IsBonded *)
  vp       : Z                        (* Params.VotePeriod *)
}.

Definition upd {A} (f : nat -> A) (k : nat) (x : A) : nat -> A :=
  fun y => if y =? k then x else f y.

Definition set_prevotes (s : state) f :=
  {| prevotes := f; votes := votes s; feeders := feeders s; status := status s; vp := vp s |}.
Definition set_votes (s : state) f :=
  {| prevotes := prevotes s; votes := f; feeders := feeders s; status := status s; vp := vp s |}.
Definition set_feeders (s : state) f :=
  {| prevotes := prevotes s; votes := votes s; feeders := f; status := status s; vp := vp s |}.
Definition set_status (s : state) f :=
  {| prevotes := prevotes s; votes := votes s; feeders := feeders s; status := f; vp := vp s |}.
Definition set_vp (s : state) x :=
  {| prevotes := prevotes s; votes := votes s; feeders := feeders s; status := status s; vp := x |}.

Definition init (st : nat -> vstat) (vp0 : Z) : state :=
  {| prevotes := fun _ => None; votes := fun _ => None; feeders := fun _ => None;
     status := st; vp := vp0 |}.

(* ------------------------------------------------------------------ messages *)

Inductive msg :=
| Prevote (feeder val hash : nat) (hex_ok : bool)
    (* MsgAggregateExchangeRatePrevote; [hash] = id of the decoded-and-re-encoded hex string,
       [hex_ok] = the hash field is valid hex *)
| Vote (feeder val salt rates tuples : nat) (parses wl : bool)
    (* MsgAggregateExchangeRateVote; [parses] = ParseExchangeRateTuples succeeds (then [tuples] is
       the id of its result), [wl] = every parsed pair is in the WhitelistedPairs store *)
| Delegate (operator delegate : nat)                 (* MsgDelegateFeedConsent *)
| EditParams (sudoer : bool) (new_vp : Z) (valid : bool)
    (* MsgEditOracleParams; 0 = leave VotePeriod; [valid] = the merged params pass Params.Validate
       (for the fields the model knows: SlashWindow >= the new VotePeriod) *)
| SetStatus (val : nat) (st : vstat)                 (* environment: staking changed a validator *)
| EndBlock                                           (* oracle.EndBlocker at this height *)
| Malformed.                                         (* an address field is not valid bech32 *)

Inductive reason :=
| RFeeder | RNotActive | RNoPrevote | RPeriod | RParse | RUnknownPair | RHash
| RBadHash | RNoValidator | RUnauthorized | RInvalidParams | RMalformed | ROther.

Inductive outcome := Accepted | Rejected (rs : list reason).

Definition accepted (o : outcome) : bool := match o with Accepted => true | Rejected _ => false end.

(* ------------------------------------------------------------------ handlers *)

(** keeper.go ValidateFeeder, first half: the feeder is the validator's own account or equals
    FeederDelegations.GetOr(validator, validator) *)
Definition feeder_ok (s : state) (f v : nat) : bool :=
  (f =? v) || match feeders s v with Some d => d =? f | None => false end.

(** second half: the validator exists and is bonded *)
Definition bonded (s : state) (v : nat) : bool :=
  match status s v with Bonded => true | _ => false end.

Definition auth_reasons (s : state) (f v : nat) : list reason :=
  (if feeder_ok s f v then [] else [RFeeder]) ++ (if bonded s v then [] else [RNotActive]).

(** every reason for which the vote handler would refuse the message *)
Definition vote_reasons (H : nat -> nat -> nat -> nat) (s : state) (h : Z)
           (f v salt rates : nat) (parses wl : bool) : list reason :=
  auth_reasons s f v ++
  match prevotes s v with
  | None => [RNoPrevote]
  | Some p =>
      (if period_ok (vp s) h (p_submit p) then [] else [RPeriod]) ++
      (if p_hash p =? H salt rates v then [] else [RHash])
  end ++
  (if parses then [] else [RParse]) ++
  (if parses && negb wl then [RUnknownPair] else []).

Definition clear_period_end (s : state) (h : Z) : state :=
  {| prevotes := fun v => match prevotes s v with
                          | Some p => if stale (vp s) h (p_submit p) then None else Some p
                          | None => None
                          end;
     votes := fun _ => None;
     feeders := feeders s; status := status s; vp := vp s |}.

Definition is_nil {A} (l : list A) : bool := match l with [] => true | _ => false end.

(** one message / event at block height [h]; [n] = position in the history (ghost);
    [H salt rates v] = id of hex(SHA256(salt ":" rates ":" valoper(v))[:20]) *)
Definition step (H : nat -> nat -> nat -> nat) (n : nat) (s : state) (h : Z) (m : msg)
  : outcome * state :=
  match m with
  | Prevote f v hash hex_ok =>
      let rs := auth_reasons s f v ++ (if hex_ok then [] else [RBadHash]) in
      if is_nil rs
      then (Accepted, set_prevotes s (upd (prevotes s) v
                        (Some {| p_hash := hash; p_submit := to_u64 h; p_origin := n |})))
      else (Rejected rs, s)
  | Vote f v salt rates tuples parses wl =>
      let rs := vote_reasons H s h f v salt rates parses wl in
      if is_nil rs
      then (Accepted, set_prevotes (set_votes s (upd (votes s) v (Some tuples)))
                                   (upd (prevotes s) v None))
      else (Rejected rs, s)
  | Delegate op d =>
      match status s op with
      | NoVal => (Rejected [RNoValidator], s)
      | _ => (Accepted, set_feeders s (upd (feeders s) op (Some d)))
      end
  | EditParams sudoer nvp valid =>
      if sudoer
      then if valid then (Accepted, if (nvp =? 0)%Z then s else set_vp s nvp)
           else (Rejected [RInvalidParams], s)
      else (Rejected [RUnauthorized], s)
  | SetStatus v st => (Accepted, set_status s (upd (status s) v st))
  | EndBlock => (Accepted, if is_period_last (vp s) h then clear_period_end s h else s)
  | Malformed => (Rejected [RMalformed], s)
  end.

Definition event : Type := Z * msg.

(** run a history; returns, per event, the outcome and the state after it *)
Fixpoint run (H : nat -> nat -> nat -> nat) (n : nat) (s : state) (evs : list event)
  : list (outcome * state) :=
  match evs with
  | [] => []
  | (h, m) :: r => let '(o, s1) := step H n s h m in (o, s1) :: run H (S n) s1 r
  end.

(** the state after a history *)
Fixpoint final (H : nat -> nat -> nat -> nat) (n : nat) (s : state) (evs : list event) : state :=
  match evs with
  | [] => s
  | (h, m) :: r => final H (S n) (snd (step H n s h m)) r
  end.

(** the state in which event number [j] of the history [evs] (started at position 0) is handled *)
Definition state_before (H : nat -> nat -> nat -> nat) (s0 : state) (evs : list event) (j : nat) : state :=
  final H 0 s0 (firstn j evs).

(** ghost log: (position of an accepted vote, origin of the prevote entry it consumed) *)
Definition consume_at (H : nat -> nat -> nat -> nat) (n : nat) (s : state) (h : Z) (m : msg)
  : list (nat * nat) :=
  match m with
  | Vote _ v _ _ _ _ _ =>
      if accepted (fst (step H n s h m))
      then match prevotes s v with Some p => [(n, p_origin p)] | None => [] end
      else []
  | _ => []
  end.

Fixpoint consumed (H : nat -> nat -> nat -> nat) (n : nat) (s : state) (evs : list event)
  : list (nat * nat) :=
  match evs with
  | [] => []
  | (h, m) :: r => consume_at H n s h m ++ consumed H (S n) (snd (step H n s h m)) r
  end.

(* ------------------------------------------------------------------ the hash preimage *)

(** How the vote handler turns the two user-supplied fields of MsgAggregateExchangeRateVote into
    the preimage of the reveal hash (msg_server.go AggregateExchangeRateVote ->
    types/hash.go GetAggregateVoteHash: SHA256(salt ":" rates ":" valoper)[:20]).
    Salts and rate strings are ids of EXACT byte strings (two strings that differ in one byte —
    a trailing blank, a tab, the case of a letter, a Unicode normalisation form — have two ids);
    [pi_salt x] / [pi_rates x] is the id of the byte string that is hashed in the place of string
    [x].  On the pinned tree nothing is applied to either field: both are the identity
    ([pi_exact]; generated facts Gen/C11Facts.v [hash_preimage] / [vote_hash_calls], obligation
    C11_hash_preimage_exact), and [step_pi pi_exact H] is [step H].  Any normalisation in the
    helper or in the handler (TrimSpace, ToLower, re-rendering of the parsed tuples, …) is a
    non-identity [pi]. *)
Record preimage := { pi_salt : nat -> nat; pi_rates : nat -> nat }.

Definition pi_exact : preimage := {| pi_salt := fun x => x; pi_rates := fun x => x |}.

(** the hash the CODE compares with the stored commitment, given the hash oracle [H] over exact
    triples *)
Definition H_code (pi : preimage) (H : nat -> nat -> nat -> nat) : nat -> nat -> nat -> nat :=
  fun salt rates v => H (pi_salt pi salt) (pi_rates pi rates) v.

Definition step_pi (pi : preimage) (H : nat -> nat -> nat -> nat) := step (H_code pi H).
Definition run_pi (pi : preimage) (H : nat -> nat -> nat -> nat) := run (H_code pi H).
Definition consumed_pi (pi : preimage) (H : nat -> nat -> nat -> nat) := consumed (H_code pi H).

(** a normalisation given as a finite table (string id -> id of its normal form; identity elsewhere) *)
Fixpoint norm_of (tbl : list (nat * nat)) (x : nat) : nat :=
  match tbl with
  | [] => x
  | (a, b) :: r => if a =? x then b else norm_of r x
  end.

(* ------------------------------------------------------------------ validity of the revealed rate string *)

(** A revealed rate string as the DRIVER's own lexer sees it (not the repo's parser): per tuple
    (pair id, rate > 0).  A vote string is valid only if it is well formed and names every pair at
    most once — whatever the rates are (an abstain entry, rate <= 0, counts like any other).
    [dup_rule] is how the parser detects repeated pairs (generated fact [rates_dup_check],
    harness/gen/c11): [DupAll] = a set of ALL pairs seen so far (pinned tree); [DupPricedOnly] =
    abstain entries are not tracked; [DupOff] = no test. *)
Inductive dup_rule := DupAll | DupPricedOnly | DupOff.

Fixpoint distinctb (l : list nat) : bool :=
  match l with
  | [] => true
  | x :: r => negb (existsb (Nat.eqb x) r) && distinctb r
  end.

Definition valid_rates (d : dup_rule) (wellformed : bool) (ts : list (nat * bool)) : bool :=
  wellformed &&
  match d with
  | DupAll => distinctb (map fst ts)
  | DupPricedOnly => distinctb (map fst (filter snd ts))
  | DupOff => true
  end.

(** MsgAggregateExchangeRateVote whose [parses] flag is the validity of the revealed string:
    [wellformed] = every tuple is "(pair,decimal)" (repo's tuple parser AND the driver's lexer),
    [ts] = the driver's view of the tuples *)
Definition vote_msg (d : dup_rule) (f v salt rates tuples : nat) (wellformed : bool)
           (ts : list (nat * bool)) (wl : bool) : msg :=
  Vote f v salt rates tuples (valid_rates d wellformed ts) wl.
