(** C11 — which code may write the commit-reveal stores, and which handler of the model
    (Model.v [step]) stands for it.  The inventory of actual writers is regenerated from /repo on
    every run (Gen/C11Facts.v, harness/gen/c11); Gen/C11Oblig.v proves that every writer found is
    in this table and that every writer the model relies on is still there. *)
From Coq Require Import String List Bool.
Import ListNotations.
Open Scope string_scope.

Inductive handler := HPrevote | HVote | HDelegate | HEditParams | HEndBlock | HGenesis.

(** (store, method, enclosing function) -> the model handler that accounts for the write *)
Definition writer_table : list (string * string * string * handler) := [
  ("Prevotes", "Insert", "AggregateExchangeRatePrevote", HPrevote);
  ("Votes", "Insert", "AggregateExchangeRateVote", HVote);
  ("Prevotes", "Delete", "AggregateExchangeRateVote", HVote);
  ("FeederDelegations", "Insert", "DelegateFeedConsent", HDelegate);
  ("Params", "Set", "UpdateParams", HEditParams);
  ("Prevotes", "Delete", "clearVotesAndPrevotes", HEndBlock);
  ("Votes", "Delete", "clearVotesAndPrevotes", HEndBlock);
  (* InitGenesis builds the initial state of a history; ValidateGenesis is outside C11 *)
  ("Prevotes", "Insert", "InitGenesis", HGenesis);
  ("Votes", "Insert", "InitGenesis", HGenesis);
  ("FeederDelegations", "Insert", "InitGenesis", HGenesis);
  ("Params", "Set", "InitGenesis", HGenesis)
].

(** (callee, caller): UpdateParams only from the sudo-gated handler, the clearing only from the
    period-end routine, the period-end routine only from the EndBlocker; no direct caller of a
    message handler (the gRPC service code generated from the proto files is excluded by the
    extractor) *)
Definition call_table : list (string * string) := [
  ("UpdateParams", "EditOracleParams");
  ("clearVotesAndPrevotes", "UpdateExchangeRates");
  ("UpdateExchangeRates", "EndBlocker")
].

Definition writer_known (w : string * string * string * string) : bool :=
  let '(st, me, fn, _) := w in
  existsb (fun e => let '(st', me', fn', _) := e in
                    String.eqb st st' && String.eqb me me' && String.eqb fn fn') writer_table.

Definition writer_present (ws : list (string * string * string * string))
           (e : string * string * string * handler) : bool :=
  let '(st, me, fn, _) := e in
  existsb (fun w => let '(st', me', fn', _) := w in
                    String.eqb st st' && String.eqb me me' && String.eqb fn fn') ws.

Definition call_known (c : string * string * string) : bool :=
  let '(callee, caller, _) := c in
  existsb (fun e => String.eqb callee (fst e) && String.eqb caller (snd e)) call_table.

Definition call_present (cs : list (string * string * string)) (e : string * string) : bool :=
  existsb (fun c => let '(callee, caller, _) := c in
                    String.eqb callee (fst e) && String.eqb caller (snd e)) cs.

(** the inventory matches the table exactly (as sets of (store, method, function)) *)
Definition writers_ok (ws : list (string * string * string * string)) : bool :=
  forallb writer_known ws && forallb (writer_present ws) writer_table.

Definition calls_ok (cs : list (string * string * string)) : bool :=
  forallb call_known cs && forallb (call_present cs) call_table.
