(** C11 — which code may write the commit-reveal stores, and which handler of the model
    (Model.v [step]) stands for it.  The inventory of actual writers is regenerated from /repo on
    every run (Gen/C11Facts.v, harness/gen/c11); Gen/C11Oblig.v proves that every writer found is
    in this table and that every writer the model relies on is still there. *)
From Coq Require Import String List Bool.
Import ListNotations.
Require Import Nib.C11.Model.
Open Scope string_scope.

Inductive handler := HPrevote | HVote | HDelegate | HEditParams | HEndBlock | HGenesis.

(** (store, method, enclosing function) -> the model handler that accounts for the write *)
Definition writer_table : list (string * string * string * handler) := [
  ("Prevotes", "Insert", "AggregateExchangeRatePrevote", HPrevote);
  ("Votes", "Insert", "AggregateExchangeRateVote", HVote);
  ("Prevotes", "Delete", "AggregateExchangeRateVote", HVote);
  ("FeederDelegations", "Insert", "DelegateFeedConsent", HDelegate);
  ("Params", "Set", "UpdateParams", HEditParams);
  ("Prevotes", "Delete", "clearVotesAndPrevotes", HEndBlock);
  ("Votes", "Delete", "clearVotesAndPrevotes", HEndBlock);
  (* InitGenesis builds the initial state of a history; ValidateGenesis is outside C11 *)
  ("Prevotes", "Insert", "InitGenesis", HGenesis);
  ("Votes", "Insert", "InitGenesis", HGenesis);
  ("FeederDelegations", "Insert", "InitGenesis", HGenesis);
  ("Params", "Set", "InitGenesis", HGenesis)
].

(** (callee, caller): UpdateParams only from the sudo-gated handler, the clearing only from the
    period-end routine, the period-end routine only from the EndBlocker; no direct caller of a
    message handler (the gRPC service code generated from the proto files is excluded by the
    extractor) *)
Definition call_table : list (string * string) := [
  ("UpdateParams", "EditOracleParams");
  ("clearVotesAndPrevotes", "UpdateExchangeRates");
  ("UpdateExchangeRates", "EndBlocker")
].

Definition writer_known (w : string * string * string * string) : bool :=
  let '(st, me, fn, _) := w in
  existsb (fun e => let '(st', me', fn', _) := e in
                    String.eqb st st' && String.eqb me me' && String.eqb fn fn') writer_table.

Definition writer_present (ws : list (string * string * string * string))
           (e : string * string * string * handler) : bool :=
  let '(st, me, fn, _) := e in
  existsb (fun w => let '(st', me', fn', _) := w in
                    String.eqb st st' && String.eqb me me' && String.eqb fn fn') ws.

Definition call_known (c : string * string * string) : bool :=
  let '(callee, caller, _) := c in
  existsb (fun e => String.eqb callee (fst e) && String.eqb caller (snd e)) call_table.

Definition call_present (cs : list (string * string * string)) (e : string * string) : bool :=
  existsb (fun c => let '(callee, caller, _) := c in
                    String.eqb callee (fst e) && String.eqb caller (snd e)) cs.

(** the inventory matches the table exactly (as sets of (store, method, function)) *)
Definition writers_ok (ws : list (string * string * string * string)) : bool :=
  forallb writer_known ws && forallb (writer_present ws) writer_table.

Definition calls_ok (cs : list (string * string * string)) : bool :=
  forallb call_known cs && forallb (call_present cs) call_table.

(* ------------------------------------------------------------------ the reveal-hash preimage *)

(** What the generated facts must say for the model's preimage parameter to be the identity
    (Model.v [pi_exact]): inside types.GetAggregateVoteHash the hashed byte string is
    <parameter 0> ":" <parameter 1> ":" <parameter 2>.String() with NOTHING applied to parameters
    0 and 1, and every on-chain caller passes the Salt and ExchangeRates fields of the message as
    they are.  (kind, text, functions applied outermost first) *)
Definition preimage_expected : list (string * string * list string) := [
  ("arg", "param:0", []);
  ("lit", ":", []);
  ("arg", "param:1", []);
  ("lit", ":", []);
  ("arg", "param:2", [".String"])
].

Fixpoint strs_eqb (a b : list string) : bool :=
  match a, b with
  | [], [] => true
  | x :: a', y :: b' => String.eqb x y && strs_eqb a' b'
  | _, _ => false
  end.

Fixpoint parts_eqb (a b : list (string * string * list string)) : bool :=
  match a, b with
  | [], [] => true
  | (k, t, f) :: a', (k', t', f') :: b' =>
      String.eqb k k' && String.eqb t t' && strs_eqb f f' && parts_eqb a' b'
  | _, _ => false
  end.

(** the functions applied to the salt / the rate string between the message field and the hash,
    over the helper and all its on-chain callers (the variant a changed tree would need as
    non-identity [pi_salt] / [pi_rates]) *)
Definition helper_transforms (i : string) (ps : list (string * string * list string)) : list string :=
  flat_map (fun p => let '(k, t, f) := p in
                     if String.eqb k "arg" && String.eqb t i then f else []) ps.

Definition caller_transforms (i : nat) (cs : list (string * string * list (string * list string))) : list string :=
  flat_map (fun c => match nth_error (snd c) i with Some (_, f) => f | None => ["<missing argument>"] end) cs.

Definition salt_transforms ps cs : list string := (caller_transforms 0 cs ++ helper_transforms "param:0" ps)%list.
Definition rates_transforms ps cs : list string := (caller_transforms 1 cs ++ helper_transforms "param:1" ps)%list.

Definition hash_call_ok (c : string * string * list (string * list string)) : bool :=
  match snd c with
  | [(s0, t0); (s1, t1); _] =>
      String.eqb s0 "field:Salt" && strs_eqb t0 [] &&
      String.eqb s1 "field:ExchangeRates" && strs_eqb t1 []
  | _ => false
  end.

(** the variant flag: true = the tree hashes exactly the revealed byte strings *)
Definition preimage_exact (ps : list (string * string * list string)) (sink : list string)
           (cs : list (string * string * list (string * list string))) : bool :=
  parts_eqb ps preimage_expected && strs_eqb sink ["[]byte"] &&
  negb (match cs with [] => true | _ => false end) && forallb hash_call_ok cs.

(** the model's preimage parameter for a tree with that flag: the identity when the flag is set,
    otherwise whatever normalisation [variant] the tree applies *)
Definition pi_of_facts (exact : bool) (variant : preimage) : preimage :=
  if exact then pi_exact else variant.

(* ------------------------------------------------------------------ repeated pairs in a vote string *)

(** generated fact [rates_dup_check] = (form, skips): form "seen-set" = inside the loop of
    NewExchangeRateTuplesFromString the pair of every tuple is looked up in AND recorded into one
    map / set; skips = the conditions under which an iteration leaves (continue / break) BEFORE that
    lookup.  The model's [DupAll] needs the seen-set with no skip. *)
Definition dup_rule_of_facts (f : string * list string) : option dup_rule :=
  let '(form, skips) := f in
  if String.eqb form "seen-set"
  then match skips with [] => Some DupAll | _ => None end
  else if String.eqb form "none" then Some DupOff else None.
