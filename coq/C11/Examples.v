(** C11 — non-vacuity: concrete histories that meet the hypotheses of the exported theorems and
    exercise both sides of every equivalence. *)
From Coq Require Import List Bool Arith ZArith Lia Cantor.
Import ListNotations.
Require Import Nib.C11.Model Nib.C11.Spec Nib.C11.Proofs Nib.C11.ProofsPreimage Nib.C11.ProofsRates.

(** an injective stand-in for the hash *)
Definition Hx (salt rates v : nat) : nat := Cantor.to_nat (salt, Cantor.to_nat (rates, v)).

Lemma Hx_injective : H_injective_fn Hx.
Proof.
  intros s r v s' r' v' E. unfold Hx in E.
  apply (Cantor.to_nat_inj (s, Cantor.to_nat (r, v)) (s', Cantor.to_nat (r', v'))) in E.
  assert (E1 : s = s') by congruence.
  assert (E2 : Cantor.to_nat (r, v) = Cantor.to_nat (r', v')) by congruence.
  apply (Cantor.to_nat_inj (r, v) (r', v')) in E2.
  repeat split; congruence.
Qed.

(** validators 0,1,2 bonded, 3 exists but is not bonded, everything else is not a validator *)
Definition st0 (v : nat) : vstat :=
  match v with 0 | 1 | 2 => Bonded | 3 => NotBonded | _ => NoVal end.
Definition s0 : state := init st0 5%Z.

Definition outcomes (evs : list event) : list bool :=
  map (fun x => accepted (fst x)) (run Hx 0 s0 evs).

(** the valid flow: prevote in period 1 (height 7), reveal in period 2 (height 10) *)
Definition flow : list event :=
  [ (7%Z, Prevote 0 0 (Hx 1 1 0) true);     (* 0 *)
    (8%Z, Vote 0 0 1 1 7 true true);        (* 1: same period — refused *)
    (9%Z, EndBlock);                        (* 2: period end, prevote not stale *)
    (10%Z, Vote 0 0 1 2 7 true true);       (* 3: other rate string, same tuples — refused *)
    (10%Z, Vote 0 0 1 1 7 true true);       (* 4: accepted *)
    (10%Z, Vote 0 0 1 1 7 true true);       (* 5: replay — refused *)
    (11%Z, Prevote 1 1 (Hx 1 1 0) true);    (* 6: validator 1 copies validator 0's commitment *)
    (14%Z, EndBlock);                       (* 7 *)
    (15%Z, Vote 1 1 1 1 7 true true);       (* 8: … and cannot reveal it *)
    (16%Z, Prevote 2 2 (Hx 2 1 2) true);    (* 9 *)
    (19%Z, EndBlock); (24%Z, EndBlock);     (* 10, 11: the prevote of 2 is dropped at height 24 *)
    (25%Z, Vote 2 2 2 1 7 true true) ].     (* 12: two periods late — refused (no prevote) *)

Example flow_outcomes_nonvacuous :
  outcomes flow = [true; false; true; false; true; false; true; true; false; true; true; true; false].
Proof. vm_compute. reflexivity. Qed.

Example flow_consumed_nonvacuous : consumed Hx 0 s0 flow = [(4, 0)].
Proof. vm_compute. reflexivity. Qed.

Example flow_ev_ok_nonvacuous : Forall ev_ok flow /\ ranges s0 /\ (forall v, prevotes s0 v = None).
Proof.
  split; [|split; [split; [reflexivity|discriminate]|reflexivity]].
  repeat constructor; simpl; unfold two63; try lia.
Qed.

(** both sides of C11_vote_accepted_iff at event 4 *)
Example vote_iff_nonvacuous :
  let s := state_before Hx s0 flow 4 in
  accepted (fst (step Hx 4 s 10%Z (Vote 0 0 1 1 7 true true))) = true /\
  status s 0 = Bonded /\
  (exists p, prevotes s 0 = Some p /\ (10 / vp s - p_submit p / vp s = 1)%Z /\ p_hash p = Hx 1 1 0).
Proof.
  split; [vm_compute; reflexivity|]. split; [vm_compute; reflexivity|].
  eexists. split; [vm_compute; reflexivity|]. split; vm_compute; reflexivity.
Qed.

(** feeder delegation changing hands *)
Definition handover : list event :=
  [ (1%Z, Delegate 0 5);
    (2%Z, Prevote 5 0 (Hx 1 1 0) true);     (* current delegate: accepted *)
    (2%Z, Delegate 0 6);
    (3%Z, Prevote 5 0 (Hx 1 1 0) true);     (* former delegate: refused *)
    (4%Z, EndBlock);
    (5%Z, Vote 5 0 1 1 7 true true);        (* former delegate: refused *)
    (5%Z, Vote 7 0 1 1 7 true true);        (* stranger: refused *)
    (5%Z, Vote 6 0 1 1 7 true true);        (* new delegate reveals the commitment: accepted *)
    (5%Z, Prevote 0 0 (Hx 1 1 0) true);     (* the validator itself can always sign *)
    (5%Z, Prevote 6 3 (Hx 1 1 3) true);     (* validator 3 is not bonded *)
    (5%Z, Delegate 7 6) ].                  (* 7 is not a validator *)

Example handover_outcomes_nonvacuous :
  outcomes handover = [true; true; true; false; true; false; false; true; true; false; false].
Proof. vm_compute. reflexivity. Qed.

(** VotePeriod edited between prevote and vote: the window is computed with the current period *)
Definition edited : list event :=
  [ (7%Z, Prevote 0 0 (Hx 1 1 0) true);
    (7%Z, EditParams false 2%Z true);       (* not a sudoer *)
    (7%Z, EditParams true 0%Z true);        (* 0 = leave unchanged *)
    (7%Z, EditParams true 2%Z true);
    (8%Z, Vote 0 0 1 1 7 true true);        (* 8/2 - 7/2 = 1: accepted (8/5 - 7/5 = 0 before the edit) *)
    (8%Z, SetStatus 1 NotBonded);
    (8%Z, Prevote 1 1 (Hx 1 1 1) true);     (* unbonded *)
    (8%Z, Vote 2 2 1 1 0 false false);      (* unparsable, and no prevote *)
    (8%Z, Malformed);
    (8%Z, EditParams true 9%Z false) ].     (* merged params fail Params.Validate *)

Example edited_outcomes_nonvacuous :
  outcomes edited = [true; false; true; true; true; true; false; false; false; false].
Proof. vm_compute. reflexivity. Qed.

(** the model's own trace of [flow] passes the checker evaluated on implementation traces *)
Example flow_Pb_nonvacuous :
  Pb 8 Hx (view_of s0) (otrace_of flow (run Hx 0 s0 flow)) = true.
Proof. vm_compute. reflexivity. Qed.

(** … and the checker is not trivially true: an implementation that kept the prevote after the
    accepted vote (event 4) is flagged *)
Definition keep_prevote (t : list ostep) : list ostep :=
  map (fun e => match e with
                | (h, Vote f v a b c d e', true, w) =>
                    (h, Vote f v a b c d e', true,
                     {| w_prev := upd (w_prev w) v (Some (Hx 1 1 0, 7%Z)); w_votes := w_votes w;
                        w_feed := w_feed w; w_status := w_status w; w_vp := w_vp w |})
                | x => x end) t.

Example Pb_rejects_reuse_nonvacuous :
  Pb 8 Hx (view_of s0) (keep_prevote (otrace_of flow (run Hx 0 s0 flow))) = false.
Proof. vm_compute. reflexivity. Qed.

(** lifetime: the prevote of height 16 (period 3) survives the end of period 3 and is dropped at
    the end of period 4 *)
Example lifetime_nonvacuous :
  let s := state_before Hx s0 flow 10 in
  exists p, prevotes s 2 = Some p /\ p_submit p = 16%Z /\
            prevotes (snd (step Hx 10 s 19%Z EndBlock)) 2 = Some p /\
            prevotes (snd (step Hx 11 s 24%Z EndBlock)) 2 = None.
Proof.
  exists {| p_hash := Hx 2 1 2; p_submit := 16%Z; p_origin := 9 |}.
  split; [vm_compute; reflexivity|]. split; [reflexivity|]. split; vm_compute; reflexivity.
Qed.

(* ------------------------------------------------------------------ the hash preimage is exact *)

(** salt ids: 1 = "ab", 2 = "ab " (trailing blank), 3 = " ab", 4 = "AB"; rate-string ids:
    1 = "(ubtc:uusd,20000.5)", 2 = the same followed by a newline.  [pi_trim] is what
    strings.TrimSpace on both fields does to these ids (the seeded variant
    C11-hash-trims-salt-whitespace); [pi_fold] is a case fold of the salt. *)
Definition pi_trim : preimage := {| pi_salt := norm_of [(2, 1); (3, 1)]; pi_rates := norm_of [(2, 1)] |}.
Definition pi_fold : preimage := {| pi_salt := norm_of [(4, 1)]; pi_rates := fun x => x |}.

Definition commit_ab_reveal_ab_blank : list event :=
  [ (1%Z, Prevote 0 0 (Hx 1 1 0) true); (2%Z, Vote 0 0 2 1 7 true true) ].
Definition commit_ab_blank_reveal_ab_blank : list event :=
  [ (1%Z, Prevote 0 0 (Hx 2 1 0) true); (2%Z, Vote 0 0 2 1 7 true true) ].

Definition outcomes_pi (pi : preimage) (evs : list event) : list bool :=
  map (fun x => accepted (fst x)) (run_pi pi Hx 0 all_bonded evs).

(** the exact model: a reveal that differs in one trailing blank is refused, the exact reveal accepted *)
Example exact_preimage_nonvacuous :
  outcomes_pi pi_exact commit_ab_reveal_ab_blank = [true; false] /\
  outcomes_pi pi_exact commit_ab_blank_reveal_ab_blank = [true; true].
Proof. split; vm_compute; reflexivity. Qed.

(** the trimming variant does the opposite on both histories, and the checker flags its trace *)
Example trim_preimage_refuted_nonvacuous :
  outcomes_pi pi_trim commit_ab_reveal_ab_blank = [true; true] /\
  outcomes_pi pi_trim commit_ab_blank_reveal_ab_blank = [true; false] /\
  consumed_pi pi_trim Hx 0 all_bonded commit_ab_reveal_ab_blank = [(1, 0)] /\
  Pb 1 Hx (view_of all_bonded)
     (otrace_of commit_ab_reveal_ab_blank (run_pi pi_trim Hx 0 all_bonded commit_ab_reveal_ab_blank)) = false.
Proof. repeat split; vm_compute; reflexivity. Qed.

(** the hypotheses of C11_normalising_preimage_refuted are met by both variants *)
Example inexact_hypotheses_nonvacuous :
  (pi_salt pi_trim 2 <> 2 \/ pi_rates pi_trim 1 <> 1) /\ (pi_salt pi_trim 1 <> 1 \/ pi_rates pi_trim 2 <> 2) /\
  (pi_salt pi_fold 4 <> 4 \/ pi_rates pi_fold 1 <> 1) /\ pi_is_exact pi_exact.
Proof.
  split; [left; vm_compute; discriminate|]. split; [right; vm_compute; discriminate|].
  split; [left; vm_compute; discriminate|]. exact pi_exact_is_exact.
Qed.

(** the same two histories as they come out of the general witness construction *)
Example witness_shapes_nonvacuous :
  commit_normal_reveal_raw pi_trim Hx 2 1 7 = commit_ab_reveal_ab_blank /\
  commit_raw_reveal_raw Hx 2 1 7 = commit_ab_blank_reveal_ab_blank.
Proof. split; vm_compute; reflexivity. Qed.

(* ------------------------------------------------------------------ valid vote strings *)

(** pair ids: 1 = ubtc:uusd, 2 = ueth:uusd.  Commitment to a string, hash-exact reveal in window:
    accepted when the pairs are distinct; refused (prevote kept) for abstain+priced, priced+priced,
    abstain+abstain, non-adjacent repeats and malformed strings. *)
Definition reveal_of (d : dup_rule) (wf : bool) (ts : list (nat * bool)) : list bool * bool :=
  let rs := run Hx 0 all_bonded [ (1%Z, Prevote 0 0 (Hx 1 1 0) true);
                                  (2%Z, vote_msg d 0 0 1 1 7 wf ts true) ] in
  (map (fun x => accepted (fst x)) rs,
   match rs with [_; (_, s)] => match prevotes s 0 with Some _ => true | None => false end | _ => false end).

Example valid_rates_nonvacuous :
  reveal_of DupAll true [(1, true); (2, true)] = ([true; true], false) /\
  reveal_of DupAll true [(1, false); (1, true)] = ([true; false], true) /\
  reveal_of DupAll true [(1, true); (1, false)] = ([true; false], true) /\
  reveal_of DupAll true [(1, false); (1, false)] = ([true; false], true) /\
  reveal_of DupAll true [(1, true); (2, true); (1, false)] = ([true; false], true) /\
  reveal_of DupAll false [(1, true)] = ([true; false], true) /\
  reveal_of DupPricedOnly true [(1, false); (1, true)] = ([true; true], false) /\
  reveal_of DupPricedOnly true [(1, true); (1, true)] = ([true; false], true).
Proof. repeat split; vm_compute; reflexivity. Qed.
