(** C11 — the reveal hash is taken over the EXACT revealed byte strings.
    The model parameter [pi : preimage] (Model.v) says which string is hashed in the place of the
    revealed salt / rate string.  Here: the property "an accepted vote's stored commitment is the
    hash of the revealed salt, the exact rate string and the validator" holds for ALL states and
    messages exactly when [pi] is the identity; for any other [pi] a two-message history is a
    counterexample (in both directions: a non-identical reveal is accepted, the exact reveal of
    a commitment is refused). *)
From Coq Require Import List Bool Arith ZArith Lia.
Import ListNotations.
Require Import Nib.C11.Model Nib.C11.Spec Nib.C11.Proofs.

Definition pi_is_exact (pi : preimage) : Prop :=
  (forall x, pi_salt pi x = x) /\ (forall x, pi_rates pi x = x).

Lemma pi_exact_is_exact : pi_is_exact pi_exact.
Proof. split; reflexivity. Qed.

(** with the identity preimage the parameterised model IS the model all other theorems are about *)
Lemma step_pi_exact H : step_pi pi_exact H = step H.
Proof. reflexivity. Qed.

Lemma run_pi_exact H : run_pi pi_exact H = run H.
Proof. reflexivity. Qed.

Lemma H_code_exact pi H salt rates v : pi_is_exact pi -> H_code pi H salt rates v = H salt rates v.
Proof. intros [A B]. unfold H_code. rewrite A, B. reflexivity. Qed.

(* ------------------------------------------------------------------ the witness state *)

(** every address is a bonded validator, VotePeriod 1, validator 0 holds a prevote with hash [hh]
    submitted at height 1 *)
Definition wit_state (hh : nat) : state :=
  {| prevotes := fun v => if v =? 0 then Some {| p_hash := hh; p_submit := 1%Z; p_origin := 0 |} else None;
     votes := fun _ => None; feeders := fun _ => None; status := fun _ => Bonded; vp := 1%Z |}.

Lemma wit_vote_accepted_iff Hc hh n salt rates tuples :
  accepted (fst (step Hc n (wit_state hh) 2%Z (Vote 0 0 salt rates tuples true true))) = true <->
  hh = Hc salt rates 0.
Proof.
  rewrite vote_accepted_iff. split.
  - intros (_ & _ & (p & Pp & _ & Hh) & _). simpl in Pp. inversion Pp; subst p. exact Hh.
  - intro E. repeat split; auto.
    eexists. split; [reflexivity|]. split; [vm_compute; reflexivity|exact E].
Qed.

(* ------------------------------------------------------------------ soundness direction *)

(** "accepted => the stored commitment is the hash of exactly what was revealed", for all states
    and votes, holds iff nothing is applied to salt and rate string before hashing *)
Theorem reveal_exact_iff_preimage_exact pi H :
  H_injective_fn H ->
  ((forall n s h f v salt rates tuples parses wl,
      accepted (fst (step_pi pi H n s h (Vote f v salt rates tuples parses wl))) = true ->
      exists p, prevotes s v = Some p /\ p_hash p = H salt rates v)
   <-> pi_is_exact pi).
Proof.
  intro Inj. split.
  - intro A.
    assert (K : forall x r, pi_salt pi x = x /\ pi_rates pi r = r).
    { intros x r.
      destruct (A 0 (wit_state (H_code pi H x r 0)) 2%Z 0 0 x r 0 true true) as (p & Pp & Hh).
      { unfold step_pi. apply wit_vote_accepted_iff. reflexivity. }
      simpl in Pp. inversion Pp; subst p. simpl in Hh. unfold H_code in Hh.
      apply Inj in Hh. tauto. }
    split; intro x; [apply (K x 0)|apply (K 0 x)].
  - intros E n s h f v salt rates tuples parses wl Acc. unfold step_pi in Acc.
    apply vote_accepted_iff in Acc. destruct Acc as (_ & _ & (p & Pp & _ & Hh) & _).
    exists p. split; auto. rewrite Hh. apply H_code_exact; assumption.
Qed.

(* ------------------------------------------------------------------ completeness direction *)

(** "the exact reveal of a stored commitment, in its window, by an authorised signer, parsing to
    whitelisted pairs, is accepted", for all states and votes, holds iff [pi] is the identity *)
Theorem exact_reveal_accepted_iff_preimage_exact pi H :
  H_injective_fn H ->
  ((forall n s h f v salt rates tuples p,
      feeder_ok s f v = true -> status s v = Bonded -> prevotes s v = Some p ->
      period_ok (vp s) h (p_submit p) = true -> p_hash p = H salt rates v ->
      accepted (fst (step_pi pi H n s h (Vote f v salt rates tuples true true))) = true)
   <-> pi_is_exact pi).
Proof.
  intro Inj. split.
  - intro A.
    assert (K : forall x r, pi_salt pi x = x /\ pi_rates pi r = r).
    { intros x r.
      assert (Acc : accepted (fst (step_pi pi H 0 (wit_state (H x r 0)) 2%Z (Vote 0 0 x r 0 true true))) = true).
      { eapply A; reflexivity. }
      unfold step_pi in Acc. apply wit_vote_accepted_iff in Acc. unfold H_code in Acc.
      apply Inj in Acc. intuition congruence. }
    split; intro x; [apply (K x 0)|apply (K 0 x)].
  - intros E n s h f v salt rates tuples p F B Pp Pd Hh. unfold step_pi.
    apply vote_accepted_iff. repeat split; auto. exists p. repeat split; auto.
    rewrite Hh. symmetry. apply H_code_exact; assumption.
Qed.

(* ------------------------------------------------------------------ history-level witnesses *)

Definition all_bonded : state := init (fun _ => Bonded) 1%Z.

(** commit to the NORMALISED strings at height 1, reveal the raw strings [x], [r] at height 2 *)
Definition commit_normal_reveal_raw (pi : preimage) (H : nat -> nat -> nat -> nat) (x r t : nat) : list event :=
  [ (1%Z, Prevote 0 0 (H (pi_salt pi x) (pi_rates pi r) 0) true); (2%Z, Vote 0 0 x r t true true) ].

(** commit to the raw strings [x], [r], reveal exactly them *)
Definition commit_raw_reveal_raw (H : nat -> nat -> nat -> nat) (x r t : nat) : list event :=
  [ (1%Z, Prevote 0 0 (H x r 0) true); (2%Z, Vote 0 0 x r t true true) ].

Lemma after_prevote Hc hh :
  step Hc 0 all_bonded 1%Z (Prevote 0 0 hh true) =
  (Accepted, set_prevotes all_bonded (upd (prevotes all_bonded) 0
     (Some {| p_hash := hh; p_submit := to_u64 1; p_origin := 0 |}))).
Proof. reflexivity. Qed.

Lemma second_vote_accepted_iff Hc hh salt rates tuples :
  accepted (fst (step Hc 1 (snd (step Hc 0 all_bonded 1%Z (Prevote 0 0 hh true))) 2%Z
                      (Vote 0 0 salt rates tuples true true))) = true <->
  hh = Hc salt rates 0.
Proof.
  rewrite after_prevote. cbn [snd]. rewrite vote_accepted_iff. split.
  - intros (_ & _ & (p & Pp & _ & Hh) & _). cbn in Pp. inversion Pp; subst p. exact Hh.
  - intro E. repeat split; auto.
    eexists. split; [reflexivity|]. split; [vm_compute; reflexivity|exact E].
Qed.

(** A preimage that changes the salt [x] or the rate string [r]: the vote revealing [x], [r] is
    ACCEPTED against a commitment that is not H(x, r, validator) — it consumes the Prevote message
    0 that committed to another triple — and the trace violates [P]. *)
Theorem inexact_preimage_refuted pi H x r t :
  H_injective_fn H -> (pi_salt pi x <> x \/ pi_rates pi r <> r) ->
  let evs := commit_normal_reveal_raw pi H x r t in
  map (fun o => accepted (fst o)) (run_pi pi H 0 all_bonded evs) = [true; true] /\
  consumed_pi pi H 0 all_bonded evs = [(1, 0)] /\
  H (pi_salt pi x) (pi_rates pi r) 0 <> H x r 0 /\
  ~ P 1 H (view_of all_bonded) (otrace_of evs (run_pi pi H 0 all_bonded evs)).
Proof.
  intros Inj Ne evs.
  assert (NE : H (pi_salt pi x) (pi_rates pi r) 0 <> H x r 0).
  { intro E. apply Inj in E. tauto. }
  assert (Acc : accepted (fst (step (H_code pi H) 1
                  (snd (step (H_code pi H) 0 all_bonded 1%Z (Prevote 0 0 (H (pi_salt pi x) (pi_rates pi r) 0) true)))
                  2%Z (Vote 0 0 x r t true true))) = true).
  { apply second_vote_accepted_iff. reflexivity. }
  unfold evs, commit_normal_reveal_raw, run_pi, consumed_pi.
  cbn [run consumed consume_at map app].
  rewrite after_prevote in *. cbn [fst snd accepted map] in *.
  destruct (step (H_code pi H) 1 _ 2%Z (Vote 0 0 x r t true true)) as [o2 s2] eqn:E2.
  cbn [fst snd map] in *. rewrite !Acc.
  split; [reflexivity|]. split; [reflexivity|]. split; [exact NE|].
  cbn [otrace_of P snd]. intros (_ & SP & _). cbn [step_P] in SP.
  destruct SP as (A & _). rewrite Acc in A. destruct (A eq_refl) as (_ & _ & (hash & submit & Pv & _ & Hh) & _).
  cbn in Pv. apply NE. inversion Pv. congruence.
Qed.

(** … and conversely the EXACT reveal of a commitment over [x], [r] is refused. *)
Theorem inexact_preimage_refuses_exact_reveal pi H x r t :
  H_injective_fn H -> (pi_salt pi x <> x \/ pi_rates pi r <> r) ->
  map (fun o => accepted (fst o)) (run_pi pi H 0 all_bonded (commit_raw_reveal_raw H x r t)) = [true; false].
Proof.
  intros Inj Ne. unfold commit_raw_reveal_raw, run_pi. cbn [run map].
  rewrite after_prevote. cbn [fst snd accepted map].
  destruct (step (H_code pi H) 1 _ 2%Z (Vote 0 0 x r t true true)) as [o2 s2] eqn:E2.
  cbn [fst map]. f_equal. f_equal.
  destruct (accepted o2) eqn:A; [exfalso|reflexivity].
  assert (Acc : accepted (fst (step (H_code pi H) 1
                  (snd (step (H_code pi H) 0 all_bonded 1%Z (Prevote 0 0 (H x r 0) true)))
                  2%Z (Vote 0 0 x r t true true))) = true).
  { rewrite after_prevote. cbn [snd]. rewrite E2. exact A. }
  apply second_vote_accepted_iff in Acc. unfold H_code in Acc. apply Inj in Acc. intuition congruence.
Qed.

(** with the identity preimage both histories behave as the property demands *)
Theorem exact_preimage_histories H x r t x' r' :
  H_injective_fn H -> (x' <> x \/ r' <> r) ->
  map (fun o => accepted (fst o)) (run H 0 all_bonded (commit_raw_reveal_raw H x r t)) = [true; true] /\
  map (fun o => accepted (fst o))
      (run H 0 all_bonded [ (1%Z, Prevote 0 0 (H x' r' 0) true); (2%Z, Vote 0 0 x r t true true) ]) = [true; false].
Proof.
  intros Inj Ne. unfold commit_raw_reveal_raw. cbn [run map]. rewrite !after_prevote. cbn [fst snd accepted map].
  split.
  - destruct (step H 1 _ 2%Z (Vote 0 0 x r t true true)) as [o2 s2] eqn:E2. cbn [fst map]. do 2 f_equal.
    assert (Acc : accepted (fst (step H 1 (snd (step H 0 all_bonded 1%Z (Prevote 0 0 (H x r 0) true)))
                                  2%Z (Vote 0 0 x r t true true))) = true)
      by (apply second_vote_accepted_iff; reflexivity).
    rewrite after_prevote in Acc. cbn [snd] in Acc. rewrite E2 in Acc. exact Acc.
  - destruct (step H 1 _ 2%Z (Vote 0 0 x r t true true)) as [o2 s2] eqn:E2. cbn [fst map]. do 2 f_equal.
    destruct (accepted o2) eqn:A; [exfalso|reflexivity].
    assert (Acc : accepted (fst (step H 1 (snd (step H 0 all_bonded 1%Z (Prevote 0 0 (H x' r' 0) true)))
                                  2%Z (Vote 0 0 x r t true true))) = true).
    { rewrite after_prevote. cbn [snd]. rewrite E2. exact A. }
    apply second_vote_accepted_iff in Acc. apply Inj in Acc. intuition congruence.
Qed.
