(** C11 — oracle votes are commit-reveal bound, period-exact and feeder-authorised.
    This file holds only the exported statements. *)
From Coq Require Import List Bool Arith ZArith.
Import ListNotations.
Require Import Nib.C11.Model Nib.C11.Spec Nib.C11.Proofs.

(** The boolean checker evaluated on implementation traces is sound for [P]. *)
Theorem C11_checker_sound : forall n H pre t, Pb n H pre t = true -> P n H pre t.
Proof. exact Pb_sound. Qed.
Print Assumptions C11_checker_sound.
