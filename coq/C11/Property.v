(** C11 — oracle votes are commit-reveal bound, period-exact and feeder-authorised.
    This file holds only the exported statements (proofs: Proofs.v; non-vacuity: Examples.v).

    [step H n s h m] is the model of one oracle message / event handled at block height [h] in
    state [s] (x/oracle/keeper/msg_server.go, keeper.go ValidateFeeder, ballot.go
    clearVotesAndPrevotes); [H salt rates v] stands for hex(SHA256(salt ":" rates ":" valoper v)[:20]);
    [run] / [final] / [consumed] run a whole history. *)
From Coq Require Import List Bool Arith ZArith.
Import ListNotations.
Require Import Nib.C11.Model Nib.C11.Spec Nib.C11.Proofs Nib.C11.ProofsPreimage Nib.C11.ProofsRates Nib.C11.Examples.

(** A vote is accepted IF AND ONLY IF its signer is the validator's own account or the account
    the validator currently delegates to, the validator is bonded, a prevote of that validator is
    stored whose submit block lies exactly one vote period (integer division by the current
    VotePeriod) before the current height, the rate string parses, all its pairs are whitelisted,
    and the stored hash equals the hash of (revealed salt, exact rate string, validator).
    [ranges s]: VotePeriod > 0 and stored submit blocks fit int64 — an invariant of all reachable
    states (C11_ranges_invariant). *)
Theorem C11_vote_accepted_iff :
  forall H n s h f v salt rates tuples parses wl,
  ranges s -> (0 <= h < two63)%Z ->
  (accepted (fst (step H n s h (Vote f v salt rates tuples parses wl))) = true <->
   (f = v \/ feeders s v = Some f) /\ status s v = Bonded /\
   (exists p, prevotes s v = Some p /\ (h / vp s - p_submit p / vp s = 1)%Z /\
              p_hash p = H salt rates v) /\
   parses = true /\ wl = true).
Proof. exact vote_accepted_iff_arith. Qed.
Print Assumptions C11_vote_accepted_iff.

(** the same with the code's uint64 arithmetic ([period_ok]), without any range assumption *)
Theorem C11_vote_accepted_iff_machine :
  forall H n s h f v salt rates tuples parses wl,
  accepted (fst (step H n s h (Vote f v salt rates tuples parses wl))) = true <->
  feeder_ok s f v = true /\ status s v = Bonded /\
  (exists p, prevotes s v = Some p /\ period_ok (vp s) h (p_submit p) = true /\
             p_hash p = H salt rates v) /\
  parses = true /\ wl = true.
Proof. exact vote_accepted_iff. Qed.
Print Assumptions C11_vote_accepted_iff_machine.

(** [period_ok] is the plain statement "h / vp − submit / vp = 1", i.e. "h lies in the vote period
    after the prevote's" *)
Theorem C11_period_exact :
  forall vp h sb, (0 < vp)%Z -> (0 <= h < two63)%Z -> (0 <= sb < two63)%Z ->
  (period_ok vp h sb = true <-> (h / vp - sb / vp = 1)%Z) /\
  (period_ok vp h sb = true <-> ((sb / vp + 1) * vp <= h < (sb / vp + 2) * vp)%Z).
Proof. exact period_exact. Qed.
Print Assumptions C11_period_exact.

Theorem C11_prevote_accepted_iff :
  forall H n s h f v hash hex_ok,
  accepted (fst (step H n s h (Prevote f v hash hex_ok))) = true <->
  feeder_ok s f v = true /\ status s v = Bonded /\ hex_ok = true.
Proof. exact prevote_accepted_iff. Qed.
Print Assumptions C11_prevote_accepted_iff.

(** The accepted vote consumes the prevote: afterwards the validator has no prevote, its vote is
    the parsed tuples, and nobody else's entries, the delegations, staking status and VotePeriod
    are touched. *)
Theorem C11_prevote_consumed :
  forall H n s h f v salt rates tuples parses wl,
  accepted (fst (step H n s h (Vote f v salt rates tuples parses wl))) = true ->
  forall s', s' = snd (step H n s h (Vote f v salt rates tuples parses wl)) ->
  prevotes s' v = None /\ votes s' v = Some tuples /\
  (forall x, x <> v -> prevotes s' x = prevotes s x /\ votes s' x = votes s x) /\
  feeders s' = feeders s /\ status s' = status s /\ vp s' = vp s.
Proof. exact vote_effect. Qed.
Print Assumptions C11_prevote_consumed.

(** A refused message (any kind) changes nothing. *)
Theorem C11_rejected_changes_nothing :
  forall H n s h m, accepted (fst (step H n s h m)) = false -> snd (step H n s h m) = s.
Proof. exact rejected_no_change. Qed.
Print Assumptions C11_rejected_changes_nothing.

(** No reuse, over arbitrary histories (any messages, heights, VotePeriod edits, staking changes):
    [consumed] lists, for every accepted vote, (its position, the position of the Prevote message
    whose entry it consumed).  No Prevote message backs two accepted votes. *)
Theorem C11_no_reuse :
  forall H s0 all, (forall v, prevotes s0 v = None) -> NoDup (map snd (consumed H 0 s0 all)).
Proof. exact no_reuse. Qed.
Print Assumptions C11_no_reuse.

(** Every accepted vote of a history is in that list … *)
Theorem C11_every_accepted_vote_consumes :
  forall H evs n s k h f v salt rates tuples parses wl,
  nth_error evs k = Some (h, Vote f v salt rates tuples parses wl) ->
  accepted (fst (step H (n + k) (final H n s (firstn k evs)) h (Vote f v salt rates tuples parses wl))) = true ->
  exists o, In (n + k, o) (consumed H n s evs).
Proof. exact accepted_vote_logged. Qed.
Print Assumptions C11_every_accepted_vote_consumes.

(** … and is backed by an EARLIER Prevote message for the SAME validator carrying exactly the
    hash of the revealed (salt, rate string, validator), submitted at a height one vote period
    (VotePeriod current at the vote) before the vote's height. *)
Theorem C11_vote_backed_by_prevote :
  forall H s0 all j o, (forall v, prevotes s0 v = None) ->
  In (j, o) (consumed H 0 s0 all) ->
  exists hj f v salt rates tuples hk f' hex_ok,
    nth_error all j = Some (hj, Vote f v salt rates tuples true true) /\
    nth_error all o = Some (hk, Prevote f' v (H salt rates v) hex_ok) /\
    o < j /\
    period_ok (vp (state_before H s0 all j)) hj (to_u64 hk) = true.
Proof. exact vote_backed_by_prevote. Qed.
Print Assumptions C11_vote_backed_by_prevote.

(** Binding (hypothesis: the hash separates triples — collision freeness of SHA-256 on these
    strings): if the backing Prevote message committed to H(salt', rates', w), then the accepted
    vote revealed exactly salt' and the textually identical rates', and w is the voting validator.
    A commitment copied from another validator, or made for a different spelling of the same
    rates, never backs a vote. *)
Theorem C11_commit_reveal_binding :
  forall H s0 all j o, H_injective_fn H -> (forall v, prevotes s0 v = None) ->
  In (j, o) (consumed H 0 s0 all) ->
  forall hk f' v' salt' rates' w hex_ok,
    nth_error all o = Some (hk, Prevote f' v' (H salt' rates' w) hex_ok) ->
    w = v' /\ exists hj f tuples, nth_error all j = Some (hj, Vote f v' salt' rates' tuples true true).
Proof. exact commit_reveal_binding. Qed.
Print Assumptions C11_commit_reveal_binding.

(** Feeder exclusivity: the signer of an accepted prevote / vote is the validator itself or its
    current delegate, and the validator is bonded. *)
Theorem C11_feeder_exclusive :
  forall H n s h m f v, signer_of m = Some (f, v) -> accepted (fst (step H n s h m)) = true ->
  (f = v \/ feeders s v = Some f) /\ status s v = Bonded.
Proof. exact accepted_signer_authorised. Qed.
Print Assumptions C11_feeder_exclusive.

(** An accepted MsgDelegateFeedConsent makes [d] THE delegate … *)
Theorem C11_delegate_sets :
  forall H n s h v d, accepted (fst (step H n s h (Delegate v d))) = true ->
  feeders (snd (step H n s h (Delegate v d))) v = Some d.
Proof. exact delegate_sets. Qed.
Print Assumptions C11_delegate_sets.

(** … and from then on, over any history without a further delegation by [v], every prevote /
    vote for [v] signed by anyone other than [v] or [d'] — in particular by a former delegate —
    is refused, starting with the very next message. *)
Theorem C11_former_delegate_refused :
  forall H evs n s v d', feeders s v = Some d' ->
  (forall h d, ~ In (h, Delegate v d) evs) ->
  Forall2 (fun e r => forall f, signer_of (snd e) = Some (f, v) -> f <> v -> f <> d' ->
                                accepted (fst r) = false) evs (run H n s evs).
Proof. exact only_current_delegate. Qed.
Print Assumptions C11_former_delegate_refused.

(** Period end: the delegations, staking status and VotePeriod stay; at a period-last block all
    votes are dropped and a prevote survives iff it is not stale (the code's test
    height >= int64(SubmitBlock + VotePeriod)); at any other block nothing changes. *)
Theorem C11_stale_prevotes_dropped :
  forall H n s h,
  let s' := snd (step H n s h EndBlock) in
  feeders s' = feeders s /\ status s' = status s /\ vp s' = vp s /\
  if is_period_last (vp s) h
  then (forall v, votes s' v = None) /\
       (forall v p, prevotes s' v = Some p <->
                    prevotes s v = Some p /\ stale (vp s) h (p_submit p) = false)
  else s' = s.
Proof. exact endblock_effect. Qed.
Print Assumptions C11_stale_prevotes_dropped.

(** The clearing rule agrees with the reveal window: a prevote survives the end of its own
    period and is dropped at the end of the next one (the only period in which it can be
    revealed). *)
Theorem C11_prevote_lifetime :
  forall H n s v p, ranges s -> (p_submit p + 2 * vp s < two63)%Z -> prevotes s v = Some p ->
  prevotes (snd (step H n s ((p_submit p / vp s + 1) * vp s - 1)%Z EndBlock)) v = Some p /\
  prevotes (snd (step H n s ((p_submit p / vp s + 2) * vp s - 1)%Z EndBlock)) v = None.
Proof. exact prevote_lifetime. Qed.
Print Assumptions C11_prevote_lifetime.

(** [ranges] is an invariant: every state reachable through events at int64 heights and with
    uint64 VotePeriod edits has VotePeriod > 0 and submit blocks that fit int64. *)
Theorem C11_ranges_invariant :
  forall H evs n s, Forall ev_ok evs -> ranges s -> ranges (final H n s evs).
Proof. exact ranges_final. Qed.
Print Assumptions C11_ranges_invariant.

(** The ghost field [p_origin] used to state C11_no_reuse influences no outcome and no store. *)
Theorem C11_ghost_irrelevant :
  forall H n1 n2 a b h m, same_view a b ->
  fst (step H n1 a h m) = fst (step H n2 b h m) /\
  same_view (snd (step H n1 a h m)) (snd (step H n2 b h m)).
Proof. exact step_ghost_irrelevant. Qed.
Print Assumptions C11_ghost_irrelevant.

(** Every trace of the model satisfies the trace property [P] that check.py evaluates (through
    [Pb]) on traces of the implementation … *)
Theorem C11_model_traces_satisfy_P :
  forall k H evs n s, P k H (view_of s) (otrace_of evs (run H n s evs)).
Proof. exact model_trace_P. Qed.
Print Assumptions C11_model_traces_satisfy_P.

(** … and the boolean checker is sound for [P]. *)
Theorem C11_checker_sound : forall n H pre t, Pb n H pre t = true -> P n H pre t.
Proof. exact Pb_sound. Qed.
Print Assumptions C11_checker_sound.

(* ------------------------------------------------------------------ the hash is over the EXACT revealed bytes *)

(** Salt and rate-string ids stand for exact byte strings (a trailing blank, a tab, the case of a
    letter, a Unicode normalisation form make a different id).  [step_pi pi H] is the handler of a
    tree that hashes string [pi_salt pi x] in the place of the revealed salt [x] and
    [pi_rates pi r] in the place of the rate string [r] (Model.v); the pinned tree applies nothing
    (Gen/C11Oblig.v C11_hash_preimage_exact, C11_current_tree_model_is_exact), and with the identity
    the parameterised model is the model of every theorem above. *)
Theorem C11_exact_preimage_is_the_model :
  pi_is_exact pi_exact /\ forall H, step_pi pi_exact H = step H /\ run_pi pi_exact H = run H.
Proof. split; [exact pi_exact_is_exact|]. intro H. split; [apply step_pi_exact|apply run_pi_exact]. Qed.
Print Assumptions C11_exact_preimage_is_the_model.

(** The property's hash clause — "an accepted vote's stored commitment equals the hash of the
    revealed salt, the exact rate string and the validator" — holds for ALL states, heights and
    votes IF AND ONLY IF nothing is applied to salt and rate string before hashing. *)
Theorem C11_reveal_exact_iff_preimage_exact :
  forall pi H, H_injective_fn H ->
  ((forall n s h f v salt rates tuples parses wl,
      accepted (fst (step_pi pi H n s h (Vote f v salt rates tuples parses wl))) = true ->
      exists p, prevotes s v = Some p /\ p_hash p = H salt rates v)
   <-> pi_is_exact pi).
Proof. exact reveal_exact_iff_preimage_exact. Qed.
Print Assumptions C11_reveal_exact_iff_preimage_exact.

(** Conversely "the byte-exact reveal of a stored commitment — in its window, by an authorised
    signer of a bonded validator, parsing to whitelisted pairs — is accepted" holds for all states
    and votes iff the preimage is exact. *)
Theorem C11_exact_reveal_accepted_iff_preimage_exact :
  forall pi H, H_injective_fn H ->
  ((forall n s h f v salt rates tuples p,
      feeder_ok s f v = true -> status s v = Bonded -> prevotes s v = Some p ->
      period_ok (vp s) h (p_submit p) = true -> p_hash p = H salt rates v ->
      accepted (fst (step_pi pi H n s h (Vote f v salt rates tuples true true))) = true)
   <-> pi_is_exact pi).
Proof. exact exact_reveal_accepted_iff_preimage_exact. Qed.
Print Assumptions C11_exact_reveal_accepted_iff_preimage_exact.

(** Any normalising variant is refuted by a two-message history from the initial state: a
    commitment to the normalised strings, then a reveal of a salt / rate string [x] / [r] that the
    normalisation changes.  The vote is accepted, consumes Prevote message 0 although that message
    did not commit to H(x, r, validator), and the trace violates [P]. *)
Theorem C11_normalising_preimage_refuted :
  forall pi H x r t, H_injective_fn H -> (pi_salt pi x <> x \/ pi_rates pi r <> r) ->
  let evs := commit_normal_reveal_raw pi H x r t in
  map (fun o => accepted (fst o)) (run_pi pi H 0 all_bonded evs) = [true; true] /\
  consumed_pi pi H 0 all_bonded evs = [(1, 0)] /\
  H (pi_salt pi x) (pi_rates pi r) 0 <> H x r 0 /\
  ~ P 1 H (view_of all_bonded) (otrace_of evs (run_pi pi H 0 all_bonded evs)).
Proof. exact inexact_preimage_refuted. Qed.
Print Assumptions C11_normalising_preimage_refuted.

(** … and the byte-exact reveal of a commitment over such [x], [r] is refused by that variant,
    whereas the exact model accepts it and refuses every non-identical reveal. *)
Theorem C11_normalising_preimage_refuses_exact_reveal :
  forall pi H x r t, H_injective_fn H -> (pi_salt pi x <> x \/ pi_rates pi r <> r) ->
  map (fun o => accepted (fst o)) (run_pi pi H 0 all_bonded (commit_raw_reveal_raw H x r t)) = [true; false].
Proof. exact inexact_preimage_refuses_exact_reveal. Qed.
Print Assumptions C11_normalising_preimage_refuses_exact_reveal.

Theorem C11_exact_preimage_histories :
  forall H x r t x' r', H_injective_fn H -> (x' <> x \/ r' <> r) ->
  map (fun o => accepted (fst o)) (run H 0 all_bonded (commit_raw_reveal_raw H x r t)) = [true; true] /\
  map (fun o => accepted (fst o))
      (run H 0 all_bonded [ (1%Z, Prevote 0 0 (H x' r' 0) true); (2%Z, Vote 0 0 x r t true true) ]) = [true; false].
Proof. exact exact_preimage_histories. Qed.
Print Assumptions C11_exact_preimage_histories.

(** The seeded variant (strings.TrimSpace on salt and rate string inside GetAggregateVoteHash),
    concretely: salt 1 = "ab", salt 2 = "ab "; the reveal of "ab " against a commitment to "ab" is
    accepted, the exact reveal of a commitment to "ab " is refused, and the checker [Pb] that
    check.py runs on implementation traces flags the first trace. *)
Theorem C11_trim_preimage_refuted :
  exists evs evs',
    map (fun o => accepted (fst o)) (run_pi pi_trim Hx 0 all_bonded evs) = [true; true] /\
    map (fun o => accepted (fst o)) (run Hx 0 all_bonded evs) = [true; false] /\
    Pb 1 Hx (view_of all_bonded) (otrace_of evs (run_pi pi_trim Hx 0 all_bonded evs)) = false /\
    map (fun o => accepted (fst o)) (run_pi pi_trim Hx 0 all_bonded evs') = [true; false] /\
    map (fun o => accepted (fst o)) (run Hx 0 all_bonded evs') = [true; true].
Proof.
  exists commit_ab_reveal_ab_blank, commit_ab_blank_reveal_ab_blank. repeat split; vm_compute; reflexivity.
Qed.
Print Assumptions C11_trim_preimage_refuted.

(* ------------------------------------------------------------------ the revealed string must be a VALID vote *)

(** [vote_msg d f v salt rates tuples wf ts wl] is the vote whose validity flag is computed from the
    driver's own view [ts] of the revealed string (per tuple: pair id, rate > 0) under the
    duplicate rule [d] (Model.v); the pinned tree's rule is [DupAll]
    (Gen/C11Oblig.v C11_rates_duplicates_checked_for_all_entries).  A vote is accepted iff the
    hash matches AND the string is a valid vote: well formed, one tuple per pair. *)
Theorem C11_vote_accepted_iff_valid_rates :
  forall H n s h f v salt rates tuples wf ts wl,
  accepted (fst (step H n s h (vote_msg DupAll f v salt rates tuples wf ts wl))) = true <->
  feeder_ok s f v = true /\ status s v = Bonded /\
  (exists p, prevotes s v = Some p /\ period_ok (vp s) h (p_submit p) = true /\
             p_hash p = H salt rates v) /\
  (wf = true /\ NoDup (map fst ts)) /\ wl = true.
Proof. exact vote_msg_accepted_iff. Qed.
Print Assumptions C11_vote_accepted_iff_valid_rates.

(** A reveal naming a pair twice (priced or abstain, adjacent or not) or malformed is refused even
    when hash-exact; nothing changes: the prevote stays pending, no vote is stored. *)
Theorem C11_invalid_rates_refused_prevote_pending :
  forall H n s h f v salt rates tuples wf ts wl,
  (wf = false \/ ~ NoDup (map fst ts)) ->
  let r := step H n s h (vote_msg DupAll f v salt rates tuples wf ts wl) in
  accepted (fst r) = false /\ snd r = s /\ prevotes (snd r) v = prevotes s v /\ votes (snd r) v = votes s v.
Proof. exact invalid_rates_refused_prevote_pending. Qed.
Print Assumptions C11_invalid_rates_refused_prevote_pending.

(** The variant whose duplicate test skips abstain entries accepts such a reveal and consumes the
    prevote. *)
Theorem C11_dup_priced_only_refuted :
  forall H, exists s ts, ~ NoDup (map fst ts) /\
    let r := step H 0 s 2%Z (vote_msg DupPricedOnly 0 0 1 1 7 true ts true) in
    accepted (fst r) = true /\ prevotes (snd r) 0 = None /\ votes (snd r) 0 = Some 7 /\
    accepted (fst (step H 0 s 2%Z (vote_msg DupAll 0 0 1 1 7 true ts true))) = false.
Proof. exact dup_priced_only_refuted. Qed.
Print Assumptions C11_dup_priced_only_refuted.
