(** C11 — evaluation of implementation traces: correspondence (model vs observed) and the
    property predicate [Pb] on the observed trace itself. *)
From Coq Require Import List Bool Arith ZArith.
Import ListNotations.
Require Import Nib.C11.Model Nib.C11.Spec.

(** what the harness observed after one message:
    accepted?, error class (ROther when accepted / unclassified), Prevotes store
    [(validator, hash id, SubmitBlock)], Votes store [(validator, tuples id)],
    FeederDelegations store [(validator, delegate)], Params.VotePeriod *)
Record obs := {
  o_acc : bool; o_reason : reason;
  o_prev : list (nat * (nat * Z)); o_votes : list (nat * nat); o_feed : list (nat * nat);
  o_vp : Z
}.

(** a case: number of address ids, the hash table computed by the harness with its own SHA-256
    [(salt, rates, validator, hash id)], the initial VotePeriod and staking status per id, and the
    history with observations *)
Record case := {
  c_n : nat;
  c_H : list (nat * nat * nat * nat);
  c_vp0 : Z;
  c_status0 : list vstat;
  c_signers_ok : bool;     (* GetSigners() of every oracle message was its feeder / operator field *)
  c_steps : list (Z * msg * obs)
}.

(** short constructors for the generated case files *)
Definition ob (acc : bool) (r : reason) prev votes feed (vp : Z) : obs :=
  {| o_acc := acc; o_reason := r; o_prev := prev; o_votes := votes; o_feed := feed; o_vp := vp |}.
Definition mkcase n tbl vp0 st sg steps : case :=
  {| c_n := n; c_H := tbl; c_vp0 := vp0; c_status0 := st; c_signers_ok := sg; c_steps := steps |}.

Fixpoint lookup {A} (k : nat) (l : list (nat * A)) : option A :=
  match l with
  | [] => None
  | (k', x) :: r => if k' =? k then Some x else lookup k r
  end.

Fixpoint H_of (tbl : list (nat * nat * nat * nat)) (salt rates v : nat) : nat :=
  match tbl with
  | [] => 0
  | (a, b, c, h) :: r => if (a =? salt) && (b =? rates) && (c =? v) then h else H_of r salt rates v
  end.

Definition status_of (l : list vstat) (v : nat) : vstat := nth v l NoVal.

Definition mk_view (o : obs) (st : nat -> vstat) : view :=
  {| w_prev := fun v => lookup v (o_prev o); w_votes := fun v => lookup v (o_votes o);
     w_feed := fun v => lookup v (o_feed o); w_status := st; w_vp := o_vp o |}.

Fixpoint otrace (st : nat -> vstat) (steps : list (Z * msg * obs)) : list ostep :=
  match steps with
  | [] => []
  | (h, m, o) :: r =>
      let st' := match m with SetStatus v x => upd st v x | _ => st end in
      (h, m, o_acc o, mk_view o st') :: otrace st' r
  end.

Definition init_state (c : case) : state := init (status_of (c_status0 c)) (c_vp0 c).

(* ------------------------------------------------------------------ property on the trace *)

(** the harness-computed hash table must be injective: two different (salt, rate string,
    validator) triples with one hash would break the binding the theorems assume *)
Fixpoint H_injective (tbl : list (nat * nat * nat * nat)) : bool :=
  match tbl with
  | [] => true
  | (a, b, c, h) :: r =>
      forallb (fun e => match e with (a', b', c', h') =>
                 negb (h =? h') || ((a =? a') && (b =? b') && (c =? c')) end) r
      && H_injective r
  end.

Definition violates (c : case) : bool :=
  negb (Pb (c_n c) (H_of (c_H c)) (view_of (init_state c)) (otrace (status_of (c_status0 c)) (c_steps c))
        && H_injective (c_H c) && c_signers_ok c).

(* ------------------------------------------------------------------ correspondence *)

Definition reason_code (r : reason) : nat :=
  match r with
  | RFeeder => 1 | RNotActive => 2 | RNoPrevote => 3 | RPeriod => 4 | RParse => 5
  | RUnknownPair => 6 | RHash => 7 | RBadHash => 8 | RNoValidator => 9 | RUnauthorized => 10
  | RMalformed => 11 | RInvalidParams => 12 | ROther => 0
  end.

Definition reason_in (r : reason) (rs : list reason) : bool :=
  existsb (fun x => reason_code x =? reason_code r) rs.

Definition view_agree (n : nat) (a b : view) : bool :=
  below n (fun x => oprev_eqb (w_prev a x) (w_prev b x) && onat_eqb (w_votes a x) (w_votes b x)
                    && onat_eqb (w_feed a x) (w_feed b x))
  && (w_vp a =? w_vp b)%Z.

(** the model's verdict agrees with the observed one: same accept/reject, the observed error
    class is one of the reasons for which the model rejects (any order of the checks in the code
    is fine), same stores after the message *)
Definition step_agree (n : nat) (ms : outcome * state) (o : obs) : bool :=
  let '(out, s) := ms in
  Bool.eqb (accepted out) (o_acc o) &&
  match out with
  | Accepted => true
  | Rejected rs => (reason_code (o_reason o) =? 0) || reason_in (o_reason o) rs
  end &&
  view_agree n (view_of s) (mk_view o (status s)).

Fixpoint all_agree (n : nat) (ms : list (outcome * state)) (steps : list (Z * msg * obs)) : bool :=
  match ms, steps with
  | [], [] => true
  | x :: ms', (_, _, o) :: r => step_agree n x o && all_agree n ms' r
  | _, _ => false
  end.

Definition mismatch (c : case) : bool :=
  negb (all_agree (c_n c)
          (run (H_of (c_H c)) 0 (init_state c) (map (fun x => (fst (fst x), snd (fst x))) (c_steps c)))
          (c_steps c)).
