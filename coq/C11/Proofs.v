(** C11 — lemmas and invariants. *)
From Coq Require Import List Bool Arith ZArith Lia.
Import ListNotations.
Require Import Nib.C11.Model Nib.C11.Spec.
