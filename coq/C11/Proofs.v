(** C11 — lemmas and invariants. *)
From Coq Require Import List Bool Arith ZArith Lia.
Import ListNotations.
Require Import Nib.C11.Model Nib.C11.Spec.

(* ------------------------------------------------------------------ machine arithmetic *)

Section Arith.
Open Scope Z_scope.

Lemma two63_lt_two64 : two63 < two64. Proof. unfold two63, two64. lia. Qed.

Lemma to_u64_small h : 0 <= h < two63 -> to_u64 h = h.
Proof. intro R. unfold to_u64. apply Z.mod_small. pose proof two63_lt_two64. lia. Qed.

(** the reveal-window test of the code is the plain integer statement, for heights that fit int64 *)
Lemma period_ok_spec vp h sb :
  0 < vp -> 0 <= h < two63 -> 0 <= sb < two63 ->
  (period_ok vp h sb = true <-> h / vp - sb / vp = 1).
Proof.
  intros V Rh Rs. unfold period_ok. rewrite (to_u64_small h Rh). rewrite Z.eqb_eq.
  assert (A : 0 <= h / vp < two63).
  { split; [apply Z.div_pos; lia|]. apply Z.le_lt_trans with h; [|lia]. apply Z.div_le_upper_bound; nia. }
  assert (B : 0 <= sb / vp < two63).
  { split; [apply Z.div_pos; lia|]. apply Z.le_lt_trans with sb; [|lia]. apply Z.div_le_upper_bound; nia. }
  set (a := h / vp) in *. set (b := sb / vp) in *. unfold u64sub.
  pose proof two63_lt_two64 as L. assert (T : two64 = 2 * two63) by (unfold two64, two63; lia).
  split; intro E.
  - destruct (Z_lt_ge_dec (a - b) 0) as [N|N].
    + assert (M : (a - b) mod two64 = a - b + two64).
      { symmetry. apply Z.mod_unique with (-1); lia. }
      rewrite M in E. lia.
    + rewrite Z.mod_small in E; lia.
  - rewrite E. apply Z.mod_small. lia.
Qed.

Lemma is_period_last_spec vp h :
  0 <= h < two63 -> (is_period_last vp h = true <-> (h + 1) mod vp = 0).
Proof.
  intros Rh. unfold is_period_last, u64add. rewrite (to_u64_small h Rh). rewrite Z.eqb_eq.
  pose proof two63_lt_two64. assert (T : two64 = 2 * two63) by (unfold two64, two63; lia).
  rewrite (Z.mod_small (h + 1)); [tauto|lia].
Qed.

Lemma stale_spec vp h sb :
  0 <= sb -> 0 <= vp -> sb + vp < two63 -> (stale vp h sb = true <-> sb + vp <= h).
Proof.
  intros Rs V R. unfold stale, u64add, to_i64. pose proof two63_lt_two64.
  rewrite Z.mod_small by lia.
  destruct (Z.ltb_spec (sb + vp) two63); [|lia]. apply Z.leb_le.
Qed.

(** a prevote submitted in period [p] is not stale at the last block of period [p] … *)
Lemma not_stale_at_end_of_own_period vp sb :
  0 < vp -> 0 <= sb -> sb + vp < two63 ->
  stale vp ((sb / vp + 1) * vp - 1) sb = false.
Proof.
  intros V Rs R. apply not_true_iff_false. rewrite stale_spec by lia.
  pose proof (Z.mod_pos_bound sb vp V). pose proof (Z.div_mod sb vp). nia.
Qed.

(** … and is stale at the last block of period [p+1] (and at any later height) *)
Lemma stale_from_end_of_next_period vp sb h :
  0 < vp -> 0 <= sb -> sb + vp < two63 ->
  (sb / vp + 2) * vp - 1 <= h -> stale vp h sb = true.
Proof.
  intros V Rs R L. rewrite stale_spec by lia.
  pose proof (Z.mod_pos_bound sb vp V). pose proof (Z.div_mod sb vp). nia.
Qed.

(** the reveal window [period_ok] is exactly "current height lies in period p+1" *)
Lemma period_ok_window vp h sb :
  0 < vp -> 0 <= h < two63 -> 0 <= sb < two63 ->
  (period_ok vp h sb = true <-> (sb / vp + 1) * vp <= h < (sb / vp + 2) * vp).
Proof.
  intros V Rh Rs. rewrite period_ok_spec by assumption.
  pose proof (Z.mod_pos_bound h vp V). pose proof (Z.div_mod h vp).
  split; intro E.
  - assert (h / vp = sb / vp + 1) by lia. nia.
  - assert (h / vp = sb / vp + 1); [|lia].
    symmetry. apply Z.div_unique with (h - (sb / vp + 1) * vp); lia.
Qed.

End Arith.

(* ------------------------------------------------------------------ one step *)

Lemma is_nil_true {A} (l : list A) : is_nil l = true <-> l = [].
Proof. destruct l; simpl; split; congruence. Qed.

Lemma app_nil_iff {A} (a b : list A) : a ++ b = [] <-> a = [] /\ b = [].
Proof. split; [apply app_eq_nil|intros [-> ->]; reflexivity]. Qed.

Lemma if_nil_iff {A} (c : bool) (x : A) : (if c then [] else [x]) = [] <-> c = true.
Proof. destruct c; split; congruence. Qed.

Lemma auth_reasons_nil s f v :
  auth_reasons s f v = [] <-> feeder_ok s f v = true /\ status s v = Bonded.
Proof.
  unfold auth_reasons, bonded. rewrite app_nil_iff, !if_nil_iff.
  destruct (status s v); intuition congruence.
Qed.

Lemma vote_reasons_nil H s h f v salt rates parses wl :
  vote_reasons H s h f v salt rates parses wl = [] <->
  feeder_ok s f v = true /\ status s v = Bonded /\
  (exists p, prevotes s v = Some p /\ period_ok (vp s) h (p_submit p) = true /\
             p_hash p = H salt rates v) /\
  parses = true /\ wl = true.
Proof.
  unfold vote_reasons. rewrite !app_nil_iff, auth_reasons_nil.
  destruct (prevotes s v) as [p|].
  - rewrite app_nil_iff, !if_nil_iff, Nat.eqb_eq.
    split.
    + intros [[F B] [[Pd Hh] [Pa W]]]. destruct parses; [|discriminate]. destruct wl; [|discriminate].
      repeat split; auto. exists p; auto.
    + intros [F [B [[q [Q [Pd Hh]]] [Pa W]]]]. inversion Q; subst q. subst. simpl. auto.
  - split.
    + intros [_ [C _]]. discriminate.
    + intros [_ [_ [[q [Q _]] _]]]. discriminate.
Qed.

(** acceptance of a vote, exactly *)
Lemma vote_accepted_iff H n s h f v salt rates tuples parses wl :
  accepted (fst (step H n s h (Vote f v salt rates tuples parses wl))) = true <->
  feeder_ok s f v = true /\ status s v = Bonded /\
  (exists p, prevotes s v = Some p /\ period_ok (vp s) h (p_submit p) = true /\
             p_hash p = H salt rates v) /\
  parses = true /\ wl = true.
Proof.
  rewrite <- vote_reasons_nil. simpl.
  destruct (vote_reasons H s h f v salt rates parses wl); simpl; split; congruence.
Qed.

Lemma prevote_accepted_iff H n s h f v hash hex_ok :
  accepted (fst (step H n s h (Prevote f v hash hex_ok))) = true <->
  feeder_ok s f v = true /\ status s v = Bonded /\ hex_ok = true.
Proof.
  assert (E : auth_reasons s f v ++ (if hex_ok then [] else [RBadHash]) = [] <->
              feeder_ok s f v = true /\ status s v = Bonded /\ hex_ok = true).
  { rewrite app_nil_iff, auth_reasons_nil, if_nil_iff. tauto. }
  rewrite <- E. simpl.
  destruct (auth_reasons s f v ++ (if hex_ok then [] else [RBadHash])); simpl; split; congruence.
Qed.

(** what an accepted vote does to the stores *)
Lemma vote_effect H n s h f v salt rates tuples parses wl :
  accepted (fst (step H n s h (Vote f v salt rates tuples parses wl))) = true ->
  forall s', s' = snd (step H n s h (Vote f v salt rates tuples parses wl)) ->
  prevotes s' v = None /\ votes s' v = Some tuples /\
  (forall x, x <> v -> prevotes s' x = prevotes s x /\ votes s' x = votes s x) /\
  feeders s' = feeders s /\ status s' = status s /\ vp s' = vp s.
Proof.
  simpl. destruct (vote_reasons H s h f v salt rates parses wl); simpl; [|discriminate].
  intros _ s' ->. simpl. unfold upd. rewrite Nat.eqb_refl. repeat split; auto.
  - apply Nat.eqb_neq in H0. rewrite H0. reflexivity.
  - apply Nat.eqb_neq in H0. rewrite H0. reflexivity.
Qed.

Lemma prevote_effect H n s h f v hash hex_ok :
  accepted (fst (step H n s h (Prevote f v hash hex_ok))) = true ->
  forall s', s' = snd (step H n s h (Prevote f v hash hex_ok)) ->
  prevotes s' v = Some {| p_hash := hash; p_submit := to_u64 h; p_origin := n |} /\
  (forall x, x <> v -> prevotes s' x = prevotes s x) /\
  votes s' = votes s /\ feeders s' = feeders s /\ status s' = status s /\ vp s' = vp s.
Proof.
  simpl. destruct (auth_reasons s f v ++ (if hex_ok then [] else [RBadHash])); simpl; [|discriminate].
  intros _ s' ->. simpl. unfold upd. rewrite Nat.eqb_refl. repeat split; auto.
  intros x N. apply Nat.eqb_neq in N. rewrite N. reflexivity.
Qed.

(** a refused message changes nothing *)
Lemma rejected_no_change H n s h m :
  accepted (fst (step H n s h m)) = false -> snd (step H n s h m) = s.
Proof.
  destruct m as [f v hash hex_ok|f v salt rates tuples parses wl|op d|sd nvp vd|v st| |]; simpl.
  - destruct (is_nil _); simpl; congruence.
  - destruct (is_nil _); simpl; congruence.
  - destruct (status s op); simpl; congruence.
  - destruct sd, vd; simpl; congruence.
  - discriminate.
  - discriminate.
  - reflexivity.
Qed.

(** only the prevote and vote handlers touch a validator's entries; only for that validator *)
Definition signer_of (m : msg) : option (nat * nat) :=
  match m with
  | Prevote f v _ _ => Some (f, v)
  | Vote f v _ _ _ _ _ => Some (f, v)
  | _ => None
  end.

(** the signer of an accepted prevote / vote is the validator itself or its current delegate,
    and the validator is bonded *)
Lemma accepted_signer_authorised H n s h m f v :
  signer_of m = Some (f, v) -> accepted (fst (step H n s h m)) = true ->
  (f = v \/ feeders s v = Some f) /\ status s v = Bonded.
Proof.
  intros S A.
  assert (X : feeder_ok s f v = true /\ status s v = Bonded).
  { destruct m; simpl in S; try discriminate; inversion S; subst.
    - apply prevote_accepted_iff in A. tauto.
    - apply vote_accepted_iff in A. tauto. }
  destruct X as [F B]. split; [|exact B].
  unfold feeder_ok in F. apply orb_true_iff in F as [F|F].
  - left. apply Nat.eqb_eq; assumption.
  - right. destruct (feeders s v) as [d|]; [|discriminate]. apply Nat.eqb_eq in F. congruence.
Qed.

(** period end: all votes dropped, exactly the stale prevotes dropped *)
Lemma endblock_effect H n s h :
  let s' := snd (step H n s h EndBlock) in
  feeders s' = feeders s /\ status s' = status s /\ vp s' = vp s /\
  if is_period_last (vp s) h
  then (forall v, votes s' v = None) /\
       (forall v p, prevotes s' v = Some p <->
                    prevotes s v = Some p /\ stale (vp s) h (p_submit p) = false)
  else s' = s.
Proof.
  simpl. destruct (is_period_last (vp s) h); simpl; repeat split; auto.
  - destruct (prevotes s v) as [q|] eqn:E; [|discriminate].
    destruct (stale (vp s) h (p_submit q)) eqn:St; congruence.
  - destruct (prevotes s v) as [q|] eqn:E; [|discriminate].
    destruct (stale (vp s) h (p_submit q)) eqn:St; [discriminate|]. congruence.
  - intros [E St]. rewrite E, St. reflexivity.
Qed.

Arguments step : simpl never.

(* ------------------------------------------------------------------ histories: ghost origins *)

(** where a stored prevote entry can come from *)
Lemma step_prevotes H n s h m x p :
  prevotes (snd (step H n s h m)) x = Some p ->
  prevotes s x = Some p \/
  exists f hash hex_ok, m = Prevote f x hash hex_ok /\
                        p = {| p_hash := hash; p_submit := to_u64 h; p_origin := n |}.
Proof.
  destruct m as [f v hash hex_ok|f v salt rates tuples parses wl|op d|sd nvp vd|v st| |]; unfold step; simpl.
  - destruct (is_nil _); simpl; auto. unfold upd.
    destruct (Nat.eqb_spec x v) as [->|N]; auto.
    intro E. inversion E. right. eauto.
  - destruct (is_nil _); simpl; auto. unfold upd.
    destruct (Nat.eqb_spec x v) as [->|N]; auto. discriminate.
  - destruct (status s op); simpl; auto.
  - destruct sd, vd; simpl; auto. destruct (nvp =? 0)%Z; simpl; auto.
  - auto.
  - destruct (is_period_last (vp s) h); simpl; auto.
    destruct (prevotes s x) as [q|]; [|discriminate].
    destruct (stale (vp s) h (p_submit q)); [discriminate|auto].
  - auto.
Qed.

Definition stored_origin (s : state) (o : nat) : Prop :=
  exists v p, prevotes s v = Some p /\ p_origin p = o.

(** origins of stored entries are positions already handled, and distinct entries have distinct origins *)
Definition fresh (n : nat) (s : state) : Prop :=
  (forall v p, prevotes s v = Some p -> p_origin p < n) /\
  (forall v w p q, prevotes s v = Some p -> prevotes s w = Some q -> p_origin p = p_origin q -> v = w).

Lemma fresh_step H n s h m : fresh n s -> fresh (S n) (snd (step H n s h m)).
Proof.
  intros [F1 F2]. split.
  - intros v p E. apply step_prevotes in E as [E|(f & hash & hex & _ & ->)].
    + specialize (F1 _ _ E). lia.
    + simpl. lia.
  - intros v w p q E1 E2 O.
    apply step_prevotes in E1 as [E1|(f1 & hash1 & hex1 & M1 & ->)];
    apply step_prevotes in E2 as [E2|(f2 & hash2 & hex2 & M2 & ->)].
    + eauto.
    + specialize (F1 _ _ E1). simpl in O. lia.
    + specialize (F1 _ _ E2). simpl in O. lia.
    + rewrite M1 in M2. inversion M2. reflexivity.
Qed.

Lemma consume_at_spec H n s h m j o :
  In (j, o) (consume_at H n s h m) ->
  j = n /\ exists f v salt rates tuples parses wl p,
    m = Vote f v salt rates tuples parses wl /\
    accepted (fst (step H n s h m)) = true /\ prevotes s v = Some p /\ p_origin p = o.
Proof.
  destruct m as [f v hash hex_ok|f v salt rates tuples parses wl|op d|sd nvp vd|v st| |];
    try (simpl; tauto).
  unfold consume_at.
  destruct (accepted (fst (step H n s h (Vote f v salt rates tuples parses wl)))) eqn:A; [|simpl; tauto].
  destruct (prevotes s v) as [p|] eqn:E; [|simpl; tauto].
  intros [X|[]]. inversion X; subst. split; auto.
  exists f, v, salt, rates, tuples, parses, wl, p. auto.
Qed.

Lemma consumed_origin_bound H evs : forall n s j o,
  In (j, o) (consumed H n s evs) -> n <= o \/ stored_origin s o.
Proof.
  induction evs as [|[h m] r IH]; intros n s j o I; simpl in I; [tauto|].
  apply in_app_or in I as [I|I].
  - apply consume_at_spec in I as [_ (f & v & salt & rates & t & pa & wl & p & _ & _ & E & O)].
    right. exists v, p. auto.
  - apply IH in I as [L|(v & p & E & O)]; [left; lia|].
    apply step_prevotes in E as [E|(f & hash & hex & _ & ->)].
    + right. exists v, p. auto.
    + left. simpl in O. lia.
Qed.

(** each stored prevote entry backs at most one accepted vote *)
Lemma consumed_origins_nodup H evs : forall n s,
  fresh n s -> NoDup (map snd (consumed H n s evs)).
Proof.
  induction evs as [|[h m] r IH]; intros n s F; simpl; [constructor|].
  rewrite map_app.
  pose proof (fresh_step H n s h m F) as F'.
  specialize (IH _ _ F').
  destruct (consume_at H n s h m) as [|[j o] [|? ?]] eqn:C; simpl; auto.
  - constructor; auto.
    assert (I : In (j, o) (consume_at H n s h m)) by (rewrite C; left; reflexivity).
    apply consume_at_spec in I as [-> (f & v & salt & rates & t & pa & wl & p & -> & A & E & O)].
    intro I. apply in_map_iff in I as [[j' o'] [X I]]. simpl in X. subst o'.
    apply consumed_origin_bound in I as [L|(x & q & E' & O')].
    + destruct F as [F1 _]. specialize (F1 _ _ E). lia.
    + pose proof (vote_effect H n s h f v salt rates t pa wl A _ eq_refl) as (N & _ & K & _).
      destruct (Nat.eq_dec x v) as [->|D].
      * rewrite N in E'. discriminate.
      * destruct (K x D) as [K1 _]. rewrite K1 in E'.
        destruct F as [_ F2]. apply D. apply (F2 x v q p); auto. congruence.
  - exfalso. unfold consume_at in C.
    destruct m; try discriminate.
    destruct (accepted _); [|discriminate]. destruct (prevotes s val); discriminate.
Qed.

(* ------------------------------------------------------------------ histories: commit-reveal *)

Lemma final_app H a : forall n s b,
  final H n s (a ++ b) = final H (n + length a) (final H n s a) b.
Proof.
  induction a as [|[h m] a IH]; intros n s b; simpl.
  - rewrite Nat.add_0_r. reflexivity.
  - rewrite IH. f_equal. lia.
Qed.

(** every stored entry was written by the Prevote message at its origin position, for that
    validator, with that hash, at that height *)
Definition linked (all : list event) (n : nat) (s : state) : Prop :=
  forall v p, prevotes s v = Some p ->
    p_origin p < n /\
    exists hk f hex_ok, nth_error all (p_origin p) = Some (hk, Prevote f v (p_hash p) hex_ok) /\
                        p_submit p = to_u64 hk.

Lemma linked_step H all n s h m :
  nth_error all n = Some (h, m) -> linked all n s -> linked all (S n) (snd (step H n s h m)).
Proof.
  intros N L v p E. apply step_prevotes in E as [E|(f & hash & hex & -> & ->)].
  - destruct (L _ _ E) as [B X]. split; [lia|exact X].
  - simpl. split; [lia|]. exists h, f, hex. auto.
Qed.

Definition backed (H : nat -> nat -> nat -> nat) (s0 : state) (all : list event) (j o : nat) : Prop :=
  exists hj f v salt rates tuples hk f' hex_ok,
    nth_error all j = Some (hj, Vote f v salt rates tuples true true) /\
    nth_error all o = Some (hk, Prevote f' v (H salt rates v) hex_ok) /\
    o < j /\
    period_ok (vp (state_before H s0 all j)) hj (to_u64 hk) = true.

Lemma backed_aux H s0 all : forall evs pre s,
  all = pre ++ evs -> s = final H 0 s0 pre -> linked all (length pre) s ->
  forall j o, In (j, o) (consumed H (length pre) s evs) -> backed H s0 all j o.
Proof.
  induction evs as [|[h m] r IH]; intros pre s A S L j o I; simpl in I; [tauto|].
  assert (N : nth_error all (length pre) = Some (h, m)).
  { rewrite A. rewrite nth_error_app2 by lia. rewrite Nat.sub_diag. reflexivity. }
  apply in_app_or in I as [I|I].
  - apply consume_at_spec in I as [-> (f & v & salt & rates & t & pa & wl & p & -> & Acc & E & O)].
    apply vote_accepted_iff in Acc as (_ & _ & (p' & E' & Pd & Hh) & -> & ->).
    rewrite E in E'. inversion E'; subst p'.
    destruct (L _ _ E) as [B (hk & f' & hex & Nk & Sb)].
    exists h, f, v, salt, rates, t, hk, f', hex.
    rewrite <- Hh, <- O. repeat split; auto.
    unfold state_before. rewrite A, firstn_app, Nat.sub_diag, firstn_all. simpl. rewrite app_nil_r.
    rewrite <- S, <- Sb. exact Pd.
  - apply (IH (pre ++ [(h, m)]) (snd (step H (length pre) s h m))).
    + rewrite <- app_assoc. exact A.
    + rewrite final_app, <- S. simpl. reflexivity.
    + rewrite app_length. simpl. rewrite Nat.add_1_r. apply linked_step; assumption.
    + rewrite app_length. simpl. rewrite Nat.add_1_r. exact I.
Qed.

(** an accepted vote is backed by an earlier Prevote message of the same validator whose hash is
    the hash of the revealed (salt, exact rate string, validator) and whose height lies one vote
    period (current VotePeriod) before the vote's height *)
Lemma vote_backed_by_prevote H s0 all j o :
  (forall v, prevotes s0 v = None) ->
  In (j, o) (consumed H 0 s0 all) -> backed H s0 all j o.
Proof.
  intros E I. apply (backed_aux H s0 all all [] s0); auto.
  intros v p C. rewrite E in C. discriminate.
Qed.

Lemma no_reuse H s0 all :
  (forall v, prevotes s0 v = None) -> NoDup (map snd (consumed H 0 s0 all)).
Proof.
  intro E. apply consumed_origins_nodup. split; intros v; intros; rewrite E in *; discriminate.
Qed.

(** every accepted vote is in the log (so the two lemmas above speak about all of them) *)
Lemma accepted_vote_logged H evs : forall n s k h f v salt rates tuples parses wl,
  nth_error evs k = Some (h, Vote f v salt rates tuples parses wl) ->
  accepted (fst (step H (n + k) (final H n s (firstn k evs)) h (Vote f v salt rates tuples parses wl))) = true ->
  exists o, In (n + k, o) (consumed H n s evs).
Proof.
  induction evs as [|[h0 m0] r IH]; intros n s k h f v salt rates t pa wl N A.
  - destruct k; discriminate.
  - destruct k as [|k]; simpl in N.
    + inversion N; subst. simpl in A. rewrite Nat.add_0_r in *.
      pose proof A as A'. apply vote_accepted_iff in A' as (_ & _ & (p & E & _) & _).
      exists (p_origin p). simpl consumed. apply in_or_app. left.
      unfold consume_at. rewrite A, E. left. reflexivity.
    + simpl in A. replace (n + S k) with (S n + k) in * by lia.
      destruct (IH _ _ _ _ _ _ _ _ _ _ _ N A) as [o I].
      exists o. simpl. apply in_or_app. right. exact I.
Qed.

(** commit-reveal binding: if the hash function separates (salt, rate string, validator) triples,
    the Prevote message that backs an accepted vote committed to exactly the revealed salt, the
    exact rate string, and the voting validator — a commitment copied from another validator or
    made for a textually different rate string never backs a vote *)
Definition H_injective_fn (H : nat -> nat -> nat -> nat) : Prop :=
  forall s r v s' r' v', H s r v = H s' r' v' -> s = s' /\ r = r' /\ v = v'.

Lemma commit_reveal_binding H s0 all j o :
  H_injective_fn H -> (forall v, prevotes s0 v = None) ->
  In (j, o) (consumed H 0 s0 all) ->
  forall hk f' v' salt' rates' w hex_ok,
    nth_error all o = Some (hk, Prevote f' v' (H salt' rates' w) hex_ok) ->
    w = v' /\ exists hj f tuples, nth_error all j = Some (hj, Vote f v' salt' rates' tuples true true).
Proof.
  intros Inj E I hk f' v' salt' rates' w hex N.
  destruct (vote_backed_by_prevote H s0 all j o E I)
    as (hj & f & v & salt & rates & t & hk2 & f2 & hex2 & Nj & No & _ & _).
  rewrite N in No. inversion No; subst.
  match goal with X : H _ _ _ = H _ _ _ |- _ => apply Inj in X; destruct X as (-> & -> & ->) end.
  split; auto. eauto.
Qed.

(* ------------------------------------------------------------------ feeder exclusivity *)

Lemma feeder_ok_iff s f v : feeder_ok s f v = true <-> f = v \/ feeders s v = Some f.
Proof.
  unfold feeder_ok. rewrite orb_true_iff, Nat.eqb_eq.
  destruct (feeders s v) as [d|].
  - rewrite Nat.eqb_eq. split; intros [A|A]; auto; right; congruence.
  - split; intros [A|A]; auto; discriminate.
Qed.

Lemma delegate_sets H n s h v d :
  accepted (fst (step H n s h (Delegate v d))) = true ->
  feeders (snd (step H n s h (Delegate v d))) v = Some d.
Proof.
  unfold step. destruct (status s v); simpl; try discriminate; intros _; unfold upd; rewrite Nat.eqb_refl; reflexivity.
Qed.

Lemma delegate_accepted_iff H n s h v d :
  accepted (fst (step H n s h (Delegate v d))) = true <-> status s v <> NoVal.
Proof.
  unfold step. destruct (status s v); simpl; split; congruence.
Qed.

Lemma feeders_kept_unless_delegate H n s h m v :
  (forall d, m <> Delegate v d) -> feeders (snd (step H n s h m)) v = feeders s v.
Proof.
  intro ND.
  destruct m as [f x hash hex_ok|f x salt rates tuples parses wl|op d|sd nvp vd|x st| |]; unfold step; simpl.
  - destruct (is_nil _); reflexivity.
  - destruct (is_nil _); reflexivity.
  - destruct (status s op); simpl; auto; unfold upd;
      (destruct (Nat.eqb_spec v op) as [->|N]; [exfalso; apply (ND d); reflexivity|reflexivity]).
  - destruct sd, vd; simpl; auto. destruct (nvp =? 0)%Z; reflexivity.
  - reflexivity.
  - destruct (is_period_last (vp s) h); reflexivity.
  - reflexivity.
Qed.

(** once [v] delegates to [d'], every later prevote / vote for [v] signed by anybody other than
    [v] itself or [d'] is refused, until [v] delegates again — in particular a former delegate is
    refused from the next message on *)
Lemma only_current_delegate H evs : forall n s v d',
  feeders s v = Some d' ->
  (forall h d, ~ In (h, Delegate v d) evs) ->
  Forall2 (fun e r => forall f, signer_of (snd e) = Some (f, v) -> f <> v -> f <> d' ->
                                accepted (fst r) = false) evs (run H n s evs).
Proof.
  induction evs as [|[h m] r IH]; intros n s v d' F ND; simpl; [constructor|].
  destruct (step H n s h m) as [o s1] eqn:St.
  constructor.
  - simpl. intros f Sg N1 N2.
    destruct (accepted o) eqn:A; auto. exfalso.
    assert (A' : accepted (fst (step H n s h m)) = true) by (rewrite St; exact A).
    destruct (accepted_signer_authorised H n s h m f v Sg A') as [[X|X] _]; [contradiction|].
    rewrite F in X. congruence.
  - apply IH.
    + replace s1 with (snd (step H n s h m)) by (rewrite St; reflexivity).
      rewrite feeders_kept_unless_delegate; auto.
      intros d E. apply (ND h d). left. rewrite E. reflexivity.
    + intros h' d I. apply (ND h' d). right. exact I.
Qed.

(* ------------------------------------------------------------------ ranges (reachable states) *)

Definition ev_ok (e : event) : Prop :=
  (0 <= fst e < two63)%Z /\
  match snd e with EditParams _ nvp _ => (0 <= nvp)%Z | _ => True end.

Definition ranges (s : state) : Prop :=
  (0 < vp s)%Z /\ forall v p, prevotes s v = Some p -> (0 <= p_submit p < two63)%Z.

Lemma vp_step H n s h m :
  vp (snd (step H n s h m)) = vp s \/
  exists sd nvp vd, m = EditParams sd nvp vd /\ (nvp <> 0)%Z /\ vp (snd (step H n s h m)) = nvp.
Proof.
  destruct m as [f x hash hex_ok|f x salt rates tuples parses wl|op d|sd nvp vd|x st| |]; unfold step; simpl.
  - destruct (is_nil _); auto.
  - destruct (is_nil _); auto.
  - destruct (status s op); auto.
  - destruct sd, vd; simpl; auto. destruct (Z.eqb_spec nvp 0); simpl; auto.
    right. exists true, nvp, true. auto.
  - auto.
  - destruct (is_period_last (vp s) h); auto.
  - auto.
Qed.

Lemma ranges_step H n s h m : ev_ok (h, m) -> ranges s -> ranges (snd (step H n s h m)).
Proof.
  intros [Rh Rm] [V Sb]. simpl in Rh, Rm. split.
  - destruct (vp_step H n s h m) as [E|(sd & nvp & vd & -> & NZ & E)]; rewrite E; auto. lia.
  - intros v p E. apply step_prevotes in E as [E|(f & hash & hex & _ & ->)]; eauto.
    simpl. rewrite to_u64_small; auto.
Qed.

Lemma ranges_final H evs : forall n s, Forall ev_ok evs -> ranges s -> ranges (final H n s evs).
Proof.
  induction evs as [|[h m] r IH]; intros n s F R; simpl; auto.
  inversion F; subst. apply IH; auto. apply ranges_step; auto.
Qed.

(** the headline equivalence with the reveal window as plain integer arithmetic *)
Lemma vote_accepted_iff_arith H n s h f v salt rates tuples parses wl :
  ranges s -> (0 <= h < two63)%Z ->
  (accepted (fst (step H n s h (Vote f v salt rates tuples parses wl))) = true <->
   (f = v \/ feeders s v = Some f) /\ status s v = Bonded /\
   (exists p, prevotes s v = Some p /\ (h / vp s - p_submit p / vp s = 1)%Z /\
              p_hash p = H salt rates v) /\
   parses = true /\ wl = true).
Proof.
  intros [V Sb] Rh. rewrite vote_accepted_iff, feeder_ok_iff.
  split; intros (F & B & (p & E & Pd & Hh) & Pa & W); repeat split; auto; exists p; repeat split; auto.
  - apply period_ok_spec in Pd; eauto.
  - apply period_ok_spec; eauto.
Qed.

(** … and as "the current height lies in the vote period that follows the prevote's period" *)
Lemma vote_accepted_window H n s h f v salt rates tuples parses wl p :
  ranges s -> (0 <= h < two63)%Z -> prevotes s v = Some p ->
  accepted (fst (step H n s h (Vote f v salt rates tuples parses wl))) = true ->
  ((p_submit p / vp s + 1) * vp s <= h < (p_submit p / vp s + 2) * vp s)%Z.
Proof.
  intros [V Sb] Rh E A. apply vote_accepted_iff in A as (_ & _ & (q & E' & Pd & _) & _).
  rewrite E in E'. inversion E'; subst q. apply period_ok_window in Pd; eauto.
Qed.

(* ------------------------------------------------------------------ the model's traces satisfy P *)

Fixpoint otrace_of (evs : list event) (rs : list (outcome * state)) : list ostep :=
  match evs, rs with
  | (h, m) :: e, (o, s) :: r => (h, m, accepted o, view_of s) :: otrace_of e r
  | _, _ => []
  end.

Lemma view_prev s x : w_prev (view_of s) x =
  match prevotes s x with Some p => Some (p_hash p, p_submit p) | None => None end.
Proof. reflexivity. Qed.

Lemma kept_refl k s : votes_kept k (view_of s) (view_of s) /\ feeders_kept k (view_of s) (view_of s).
Proof. split; intros x _; auto. Qed.

Lemma step_satisfies_P k H n s h m :
  step_P k H (view_of s) (h, m, accepted (fst (step H n s h m)), view_of (snd (step H n s h m))).
Proof.
  unfold step_P.
  destruct m as [f v hash hex_ok|f v salt rates tuples parses wl|op d|sd nvp vd|v st| |].
  - (* Prevote *)
    destruct (accepted (fst (step H n s h (Prevote f v hash hex_ok)))) eqn:A.
    + pose proof (prevote_effect H n s h f v hash hex_ok A _ eq_refl) as (E1 & E2 & E3 & E4 & _ & _).
      apply prevote_accepted_iff in A as (F & B & Hx).
      split; [|split; [discriminate|split]].
      * intros _. repeat split; auto.
        -- apply feeder_ok_iff in F. exact F.
        -- rewrite view_prev, E1. reflexivity.
        -- simpl. rewrite E3. reflexivity.
      * intros x _ N. rewrite !view_prev, (E2 x N). simpl. rewrite E3. auto.
      * intros x _. simpl. rewrite E4. reflexivity.
    + rewrite (rejected_no_change _ _ _ _ _ A).
      split; [discriminate|]. split; [auto|]. split; [intros x _ _; auto|intros x _; auto].
  - (* Vote *)
    destruct (accepted (fst (step H n s h (Vote f v salt rates tuples parses wl)))) eqn:A.
    + pose proof (vote_effect H n s h f v salt rates tuples parses wl A _ eq_refl) as (E1 & E2 & E3 & E4 & _ & _).
      apply vote_accepted_iff in A as (F & B & (p & E & Pd & Hh) & Pa & W).
      split; [|split; [discriminate|split]].
      * intros _. repeat split; auto.
        -- apply feeder_ok_iff in F. exact F.
        -- exists (p_hash p), (p_submit p). rewrite view_prev, E. auto.
        -- rewrite view_prev, E1. reflexivity.
      * intros x _ N. destruct (E3 x N) as [X Y]. rewrite !view_prev, X. simpl. rewrite Y. auto.
      * intros x _. simpl. rewrite E4. reflexivity.
    + rewrite (rejected_no_change _ _ _ _ _ A).
      split; [discriminate|]. split; [auto|]. split; [intros x _ _; auto|intros x _; auto].
  - (* Delegate *)
    destruct (accepted (fst (step H n s h (Delegate op d)))) eqn:A.
    + pose proof (delegate_sets _ _ _ _ _ _ A) as E. apply delegate_accepted_iff in A.
      split; [auto|]. split; [discriminate|]. split.
      * intros x _ N. simpl. apply feeders_kept_unless_delegate. intros d' C. inversion C. congruence.
      * intros x _. unfold step. destruct (status s op); simpl; auto.
    + rewrite (rejected_no_change _ _ _ _ _ A).
      split; [discriminate|]. split; [auto|]. split; [intros x _ _; auto|intros x _; auto].
  - (* EditParams *)
    unfold step. destruct sd, vd; simpl; try apply kept_refl.
    destruct (nvp =? 0)%Z; simpl; [apply kept_refl|]. split; intros x _; auto.
  - (* SetStatus *) unfold step. simpl. split; intros x _; auto.
  - (* EndBlock *)
    pose proof (endblock_effect H n s h) as (E1 & _ & _ & E4). cbv zeta in E4.
    split; [intros x _; change (feeders (snd (step H n s h EndBlock)) x = feeders s x); rewrite E1; reflexivity|].
    change (w_vp (view_of s)) with (vp s).
    destruct (is_period_last (vp s) h) eqn:L.
    + destruct E4 as [V Pv]. intros x _. split; [apply V|].
      rewrite !view_prev. unfold step. simpl. rewrite L. simpl.
      destruct (prevotes s x) as [q|]; simpl; auto.
      destruct (stale (vp s) h (p_submit q)); reflexivity.
    + rewrite E4. intros x _; auto.
  - (* Malformed *) unfold step. simpl. apply kept_refl.
Qed.

Lemma model_trace_P k H evs : forall n s, P k H (view_of s) (otrace_of evs (run H n s evs)).
Proof.
  induction evs as [|[h m] r IH]; intros n s; simpl; auto.
  pose proof (step_satisfies_P k H n s h m) as SP.
  destruct (step H n s h m) as [o s1]. simpl in *. split; auto.
Qed.

(* ------------------------------------------------------------------ the ghost field is inert *)

Definition same_view (a b : state) : Prop :=
  (forall v, w_prev (view_of a) v = w_prev (view_of b) v) /\
  (forall v, votes a v = votes b v) /\ (forall v, feeders a v = feeders b v) /\
  (forall v, status a v = status b v) /\ vp a = vp b.

Lemma step_ghost_irrelevant H n1 n2 a b h m :
  same_view a b ->
  fst (step H n1 a h m) = fst (step H n2 b h m) /\
  same_view (snd (step H n1 a h m)) (snd (step H n2 b h m)).
Proof.
  intros (Vp & Vv & Vf & Vs & Vvp).
  assert (AR : forall f v, auth_reasons a f v = auth_reasons b f v).
  { intros f v. unfold auth_reasons, feeder_ok, bonded. rewrite Vf, Vs. reflexivity. }
  assert (SV : same_view a b) by (repeat split; auto).
  destruct m as [f v hash hex_ok|f v salt rates tuples parses wl|op d|sd nvp vd|v st| |]; unfold step.
  - rewrite AR. destruct (is_nil _); simpl; split; auto.
    repeat split; simpl; auto. intro x. unfold upd.
    destruct (x =? v); [reflexivity|apply Vp].
  - assert (VR : vote_reasons H a h f v salt rates parses wl = vote_reasons H b h f v salt rates parses wl).
    { unfold vote_reasons. rewrite AR, Vvp. specialize (Vp v). rewrite !view_prev in Vp.
      destruct (prevotes a v) as [p|], (prevotes b v) as [q|]; try discriminate; auto.
      inversion Vp as [[E1 E2]]. rewrite E1, E2. reflexivity. }
    rewrite VR. destruct (is_nil _); simpl; split; auto.
    repeat split; simpl; auto; intro x; unfold upd.
    + destruct (x =? v); [reflexivity|apply Vp].
    + destruct (x =? v); [reflexivity|apply Vv].
  - rewrite Vs. destruct (status b op); simpl; split; auto;
      repeat split; simpl; auto; intro x; unfold upd; (destruct (x =? op); [reflexivity|apply Vf]).
  - destruct sd, vd; simpl; split; auto. destruct (nvp =? 0)%Z; auto. repeat split; auto.
  - simpl. split; auto. repeat split; simpl; auto. intro x. unfold upd.
    destruct (x =? v); [reflexivity|apply Vs].
  - simpl. split; auto. rewrite Vvp. destruct (is_period_last (vp b) h); auto.
    repeat split; simpl; auto. intro x. specialize (Vp x). rewrite !view_prev in Vp.
    destruct (prevotes a x) as [p|], (prevotes b x) as [q|]; try discriminate; auto.
    inversion Vp as [[E1 E2]]. rewrite E2, Vvp.
    destruct (stale (vp b) h (p_submit q)); simpl; auto.
  - simpl. auto.
Qed.

(* ------------------------------------------------------------------ lifetime under a constant period *)

(** at a period-end block a prevote submitted in the same period survives; at the end of the
    following period (the one in which it can be revealed) it is dropped *)
Lemma prevote_survives_own_period_end H n s v p :
  ranges s -> (p_submit p + vp s < two63)%Z -> prevotes s v = Some p ->
  let h := ((p_submit p / vp s + 1) * vp s - 1)%Z in
  prevotes (snd (step H n s h EndBlock)) v = Some p.
Proof.
  intros [V Sb] R E h.
  pose proof (endblock_effect H n s h) as (_ & _ & _ & X). cbv zeta in X.
  destruct (is_period_last (vp s) h); [|rewrite X; exact E].
  destruct X as [_ X]. apply X. split; auto.
  apply not_stale_at_end_of_own_period; auto. apply (Sb _ _ E).
Qed.

Lemma prevote_dropped_next_period_end H n s v p :
  ranges s -> (p_submit p + 2 * vp s < two63)%Z -> prevotes s v = Some p ->
  let h := ((p_submit p / vp s + 2) * vp s - 1)%Z in
  prevotes (snd (step H n s h EndBlock)) v = None.
Proof.
  intros [V Sb] R E h.
  assert (Rs := Sb _ _ E).
  assert (Hh : (0 <= h < two63)%Z).
  { unfold h. pose proof (Z.mod_pos_bound (p_submit p) (vp s) V). pose proof (Z.div_mod (p_submit p) (vp s)).
    assert (0 <= p_submit p / vp s)%Z by (apply Z.div_pos; lia). nia. }
  assert (L : is_period_last (vp s) h = true).
  { apply is_period_last_spec; auto. unfold h.
    replace ((p_submit p / vp s + 2) * vp s - 1 + 1)%Z with ((p_submit p / vp s + 2) * vp s)%Z by lia.
    apply Z.mod_mul. lia. }
  pose proof (endblock_effect H n s h) as (_ & _ & _ & X). cbv zeta in X. rewrite L in X.
  destruct X as [_ X].
  destruct (prevotes (snd (step H n s h EndBlock)) v) as [q|] eqn:Q; auto.
  apply X in Q as [Q1 Q2]. rewrite E in Q1. inversion Q1; subst q.
  rewrite stale_from_end_of_next_period in Q2; auto; try discriminate; try lia.
Qed.

Lemma prevote_lifetime H n s v p :
  ranges s -> (p_submit p + 2 * vp s < two63)%Z -> prevotes s v = Some p ->
  prevotes (snd (step H n s ((p_submit p / vp s + 1) * vp s - 1)%Z EndBlock)) v = Some p /\
  prevotes (snd (step H n s ((p_submit p / vp s + 2) * vp s - 1)%Z EndBlock)) v = None.
Proof.
  intros R B E. split.
  - apply prevote_survives_own_period_end; auto. destruct R as [V _]. lia.
  - apply prevote_dropped_next_period_end; auto.
Qed.

Lemma period_exact vp h sb :
  (0 < vp)%Z -> (0 <= h < two63)%Z -> (0 <= sb < two63)%Z ->
  (period_ok vp h sb = true <-> (h / vp - sb / vp = 1)%Z) /\
  (period_ok vp h sb = true <-> ((sb / vp + 1) * vp <= h < (sb / vp + 2) * vp)%Z).
Proof. intros V Rh Rs. split; [apply period_ok_spec|apply period_ok_window]; assumption. Qed.
