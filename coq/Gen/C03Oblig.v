(** C03 — obligations over the facts regenerated from /repo (Gen/C03Facts.v): the journal and
    commit discipline of the current tree is the one the model is written from. *)
From Coq Require Import String List Bool ZArith.
Import ListNotations.
Require Import Nib.C03.Model Nib.C03.Ref Nib.C03.Spec Nib.C03.Msg Nib.C03.Precompiles Nib.C03.Discipline Nib.C03.Proofs.
Require Import Nib.Gen.C03Facts.
Open Scope string_scope.

(** the set of JournalChange types, their fields and Dirtied() *)
Theorem C03_facts_entry_types : c03_entry_types = model_entry_types.
Proof. vm_compute. reflexivity. Qed.

Definition same_fn (n : string) : Prop := get_fn n c03_functions = get_fn n model_functions.

(** what every Revert restores; append / Revert / sorted iteration of the journal *)
Theorem C03_facts_journal :
  same_fn "createObjectChange.Revert" /\ same_fn "resetObjectChange.Revert" /\ same_fn "suicideChange.Revert" /\
  same_fn "balanceChange.Revert" /\ same_fn "nonceChange.Revert" /\ same_fn "codeChange.Revert" /\
  same_fn "storageChange.Revert" /\ same_fn "refundChange.Revert" /\ same_fn "addLogChange.Revert" /\
  same_fn "accessListAddAccountChange.Revert" /\ same_fn "accessListAddSlotChange.Revert" /\
  same_fn "journal.append" /\ same_fn "journal.Revert" /\ same_fn "journal.sortedDirties".
Proof. vm_compute. repeat split; reflexivity. Qed.

(** which entry every mutator appends, with which previous value, before the mutation, under which condition *)
Theorem C03_facts_mutators :
  same_fn "StateDB.AddLog" /\ same_fn "StateDB.AddRefund" /\ same_fn "StateDB.SubRefund" /\
  same_fn "StateDB.createObject" /\ same_fn "StateDB.CreateAccount" /\ same_fn "StateDB.Suicide" /\
  same_fn "StateDB.Snapshot" /\ same_fn "StateDB.RevertToSnapshot" /\
  same_fn "StateDB.AddBalance" /\ same_fn "StateDB.SubBalance" /\ same_fn "StateDB.SetNonce" /\
  same_fn "StateDB.SetCode" /\ same_fn "StateDB.SetState" /\
  same_fn "stateObject.AddBalance" /\ same_fn "stateObject.SubBalance" /\ same_fn "stateObject.SetBalance" /\
  same_fn "stateObject.SetNonce" /\ same_fn "stateObject.SetCode" /\ same_fn "stateObject.SetState" /\
  same_fn "stateObject.GetState" /\ same_fn "stateObject.GetCommittedState" /\
  same_fn "stateObject.setBalance" /\ same_fn "stateObject.setNonce" /\ same_fn "stateObject.setCode" /\
  same_fn "stateObject.setState".
Proof. vm_compute. repeat split; reflexivity. Qed.

(** when an account counts as empty / existing / self-destructed *)
Theorem C03_facts_predicates :
  same_fn "stateObject.isEmpty" /\ same_fn "StateDB.Empty" /\ same_fn "StateDB.Exist" /\ same_fn "StateDB.HasSuicided".
Proof. vm_compute. repeat split; reflexivity. Qed.

(** the access list: when AddAddress / AddSlot report a change (= when a journal entry is made) *)
Theorem C03_facts_access_list :
  same_fn "StateDB.AddAddressToAccessList" /\ same_fn "StateDB.AddSlotToAccessList" /\
  same_fn "accessList.AddAddress" /\ same_fn "accessList.AddSlot" /\ same_fn "accessList.DeleteSlot" /\
  same_fn "accessList.DeleteAddress" /\ same_fn "accessList.Contains" /\ same_fn "accessList.ContainsAddress".
Proof. vm_compute. repeat split; reflexivity. Qed.

(** Commit: sorted dirty addresses, DeleteAccount for self-destructed objects, the skip-unchanged test,
    OriginStorage updated under [final]; the keeper's DeleteAccount removes balance, storage and the
    account but NOT the (shared) bytecode *)
Theorem C03_facts_commit :
  same_fn "StateDB.Commit" /\ same_fn "StateDB.commitCtx" /\
  same_fn "Keeper.DeleteAccount" /\ same_fn "Keeper.SetAccount" /\ same_fn "Keeper.SetState" /\ same_fn "Keeper.SetCode".
Proof. vm_compute. repeat split; reflexivity. Qed.

(** big.Int aliasing: no stored balance is updated in place (balance pointers are shared between the
    previous and the new object of CreateAccount, the journal and the getters), every update stores a
    fresh big.Int, journal entries keep their own copy *)
Theorem C03_facts_bigint_aliasing : c03_bigint = model_bigint /\ no_inplace c03_bigint = true.
Proof. vm_compute. split; reflexivity. Qed.

(** nothing else was extracted / nothing is missing *)
Theorem C03_facts_match_model : c03_functions = model_functions.
Proof. vm_compute. reflexivity. Qed.

(** the main theorem, for the tree whose discipline was just checked *)
Theorem C03_holds_for_current_tree :
  (c03_entry_types = model_entry_types /\ c03_functions = model_functions) /\
  forall txs, ref_hist_wf empty_world txs ->
    snd (run_txs empty_keeper txs) = snd (ref_txs empty_world txs) /\
    weq (world_of (fst (run_txs empty_keeper txs))) (fst (ref_txs empty_world txs)).
Proof. split; [exact (conj C03_facts_entry_types C03_facts_match_model)|exact history_from_empty_world]. Qed.
Print Assumptions C03_holds_for_current_tree.

(** Keeper.EthereumTx: the per-tx StateDB published on the bank keeper is forgotten on every return
    path (the clear is deferred before any return that follows its acquisition) — the value the
    message-layer model [deliver] is instantiated with *)
Theorem C03_facts_ethereumtx_clears_statedb :
  c03_ethereumtx_obtains_tx_statedb = true /\ c03_ethereumtx_clears_on_every_return = true.
Proof. vm_compute. split; reflexivity. Qed.

(** the ante chain (AnteDecVerifyEthAcc) calls keeper.CheckSenderBalance, which compares the sender
    balance with TxData.Cost() = gas * feeCap + value — go-ethereum's buyGas check — and not with an
    effective cost; the value the admission predicate [ante] is instantiated with *)
Theorem C03_facts_sender_balance_check :
  c03_ante_calls_check_sender_balance = true /\ c03_sender_balance_checked_against_cap_cost = true.
Proof. vm_compute. split; reflexivity. Qed.

(** the message-history theorem for the discipline just extracted *)
Theorem C03_messages_hold_for_current_tree :
  forall ms k w, kwf k -> weq (world_of k) w -> msgs_wf w ms ->
  let r := deliver_hist c03_ethereumtx_clears_on_every_return c03_sender_balance_checked_against_cap_cost
                        c03_ante_rejects_fee_cap_below_base_fee {| ms_blk := k; ms_ptr := None |} ms in
  snd r = snd (ref_hist w ms) /\ weq (world_of (ms_blk (fst r))) (fst (ref_hist w ms)) /\
  kwf (ms_blk (fst r)) /\ ms_ptr (fst r) = None.
Proof. exact (messages_equal_reference c03_ante_rejects_fee_cap_below_base_fee). Qed.
Print Assumptions C03_messages_hold_for_current_tree.

(** InitPrecompiles fills the standard precompile addresses from exactly one upstream table, the London
    one (vm.PrecompiledContractsBerlin): MODEXP is priced by EIP-2565 *)
Theorem C03_facts_std_precompiles_london :
  c03_std_precompile_tables = ["PrecompiledContractsBerlin"] /\
  table_of_names c03_std_precompile_tables = Some Berlin /\
  (forall blen elen mlen hb, match table_of_names c03_std_precompile_tables with
                             | Some t => modexp_gas t blen elen mlen hb = modexp_gas Berlin blen elen mlen hb
                             | None => False end).
Proof. vm_compute. repeat split; reflexivity. Qed.
