(** C07 — obligations over the facts regenerated from /repo (Gen/C07Facts.v). *)
From Coq Require Import List Bool Arith NArith ZArith.
Import ListNotations.
Require Import Nib.C07.Model Nib.C07.Spec Nib.C07.Facts Nib.C07.Property.
Require Import Nib.Gen.C07Facts.

Theorem C07_current_chain_wf : chain_wf evm_ante_chain = true.
Proof. vm_compute. reflexivity. Qed.

Theorem C07_current_facts_ok : facts_ok current_facts = true.
Proof. vm_compute. reflexivity. Qed.
