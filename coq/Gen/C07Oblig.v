(** C07 — obligations over the facts regenerated from /repo (Gen/C07Facts.v). *)
From Coq Require Import List Bool Arith NArith ZArith.
Import ListNotations.
Require Import Nib.C07.Model Nib.C07.Spec Nib.C07.Facts Nib.C07.Proofs Nib.C07.Property.
Require Import Nib.Gen.C07Facts.

(** the decorator chain of NewAnteHandlerEVM as it stands in /repo is well formed *)
Theorem C07_current_chain_wf : chain_wf evm_ante_chain = true.
Proof. vm_compute. reflexivity. Qed.

(** nonce check is `!=`, increment is +1 on the account read, signer is built from this chain's
    config, the msg server brackets the EVM with SetNonce(n) / SetNonce(n+1) *)
Theorem C07_current_facts_ok : facts_ok current_facts = true.
Proof. vm_compute. reflexivity. Qed.

(** getAccountWithoutBalance as it stands in /repo hands the stored sequence of EVERY account type to the
    StateDB (the nonce is not filled in under the EthAccountI type assertion only) *)
Theorem C07_current_loader_faithful :
  exists l, loader_of (f_loader current_facts) = Some l /\ loader_faithful l.
Proof. exists load_std. split; [vm_compute; reflexivity|intros k q; reflexivity]. Qed.

(** ApplyEvmMsg as it stands in /repo runs a contract creation with the nonce of its transaction *)
Theorem C07_current_pre_resets_creations :
  exists p, pre_of (f_pre current_facts) = Some p /\ pre_create_resets p.
Proof.
  destruct (pre_of (f_pre current_facts)) as [p|] eqn:E; [|vm_compute in E; discriminate].
  exists p. split; [reflexivity|]. intros cur n.
  destruct (f_pre current_facts); vm_compute in E; inversion E; reflexivity.
Qed.

(** for every assignment of auth account types to addresses and whatever the messages touch *)
Theorem C07_holds_for_current_tree :
  forall l p, loader_of (f_loader current_facts) = Some l -> pre_of (f_pre current_facts) = Some p ->
  forall chain recover kinds A s ts, hash_binding chain recover ts ->
  P chain recover A s (trace chain recover kinds l p evm_ante_chain s ts) /\
  (forall u, (count_occ Nat.eq_dec (all_executed (trace chain recover kinds l p evm_ante_chain s ts)) u <= 1)%nat) /\
  (forall t a, proj a (tx_claims chain recover t) = [] ->
               fst (deliver chain recover kinds l p evm_ante_chain s t) a = s a).
Proof.
  intros l p Hl Hp chain recover kinds A s ts Hb.
  assert (Hf : loader_faithful l).
  { destruct C07_current_loader_faithful as [l' [Hl' Hf]]. congruence. }
  assert (Hr : pre_create_resets p).
  { destruct C07_current_pre_resets_creations as [p' [Hp' Hr]]. congruence. }
  split; [|split].
  - exact (C07_model_satisfies_P chain recover kinds l Hf p Hr A evm_ante_chain s ts C07_current_chain_wf Hb).
  - intro u. exact (C07_at_most_once chain recover kinds l Hf p Hr evm_ante_chain s ts u C07_current_chain_wf Hb).
  - intros t a. exact (C07_only_own_txs_move_sequence chain recover kinds l Hf p Hr evm_ante_chain s t a C07_current_chain_wf).
Qed.
Print Assumptions C07_holds_for_current_tree.
