(** C07 — obligations over the facts regenerated from /repo (Gen/C07Facts.v). *)
From Coq Require Import List Bool Arith NArith ZArith.
Import ListNotations.
Require Import Nib.C07.Model Nib.C07.Spec Nib.C07.Facts Nib.C07.Proofs Nib.C07.Property.
Require Import Nib.Gen.C07Facts.

(** the decorator chain of NewAnteHandlerEVM as it stands in /repo is well formed *)
Theorem C07_current_chain_wf : chain_wf evm_ante_chain = true.
Proof. vm_compute. reflexivity. Qed.

(** nonce check is `!=`, increment is +1 on the account read, signer is built from this chain's
    config, the msg server brackets the EVM with SetNonce(n) / SetNonce(n+1) *)
Theorem C07_current_facts_ok : facts_ok current_facts = true.
Proof. vm_compute. reflexivity. Qed.

Theorem C07_holds_for_current_tree :
  forall chain recover A s ts, hash_binding chain recover ts ->
  P chain recover A s (trace chain recover evm_ante_chain s ts) /\
  forall u, (count_occ Nat.eq_dec (all_executed (trace chain recover evm_ante_chain s ts)) u <= 1)%nat.
Proof.
  intros chain recover A s ts Hb. split.
  - exact (C07_model_satisfies_P chain recover A evm_ante_chain s ts C07_current_chain_wf Hb).
  - intro u. exact (C07_at_most_once chain recover evm_ante_chain s ts u C07_current_chain_wf Hb).
Qed.
Print Assumptions C07_holds_for_current_tree.
