(** C17 — obligations over the facts regenerated from /repo (Gen/C17Facts.v). *)
From Coq Require Import List Bool ZArith String.
Import ListNotations.
Require Import Nib.C17.AnteFacts Nib.C17.CarrierTree Nib.C17.Model Nib.C17.Spec Nib.C17.Proofs Nib.C17.Property.
Require Import Nib.Gen.C17Facts Nib.C17.Current Nib.C17.IcaList.

(** The commission decorator is installed in the non-EVM ante chain (every decorator of the chain runs
    before the message router), checks MsgCreateValidator.Commission.Rate and MsgEditValidator.CommissionRate
    against MAX_COMMISSION() <= 0.25 with GT/GTE, recurses into MsgExec at any depth; the wasm message
    handler applies the same check; the EVM chain admits MsgEthereumTx only. *)
Theorem C17_current_cfg_ok : cfg_okb current_cfg = true.
Proof. vm_compute. reflexivity. Qed.

(** … and the same holds of the configuration applied to gentxs at block height 0. *)
Theorem C17_current_genesis_cfg_ok : cfg_okb current_genesis_cfg = true.
Proof. vm_compute. reflexivity. Qed.

Theorem C17_holds_from_genesis_on_current_tree :
  forall (w : world) (minr : Z) (gentxs : list tx) (s1 : st) (dt : Z) (h : list event),
    ica_safe w -> gov_trusted current_cfg h ->
    run_genesis current_genesis_cfg w (st0 minr) gentxs = Some s1 ->
    cap_ok (run_history current_cfg w (advance s1 dt) h).
Proof.
  intros w minr gentxs s1 dt h Hi Hg. apply C17_cap_from_genesis; auto;
    apply C17_cfg_checker_sound; [exact C17_current_cfg_ok|exact C17_current_genesis_cfg_ok].
Qed.
Print Assumptions C17_holds_from_genesis_on_current_tree.

(** The message carriers of the LINKED application (enumerated at run time from the interface registry and the msg
    service router): every routed sdk.Msg type with an Any field accepting an sdk.Msg / a []sdk.Msg accessor is one the
    model has a dispatch rule for (authz MsgExec, gov v1 MsgSubmitProposal; MsgEthereumTx.GetMsgs returns itself), no
    routed type hides an Any from its UnpackInterfaces except the known deprecated one, and x/group is not routed. *)
Theorem C17_current_carriers_known :
  carriers_all_known routed_msg_carriers routed_opaque_any = true /\ mem URL_GROUP_SUBMIT routed_msg_carriers = false.
Proof. vm_compute. split; reflexivity. Qed.

(** Routing by extension option: none -> non-EVM chain, the EVM option -> EVM chain, anything else -> reject. *)
Theorem C17_current_routing :
  route_of ext_switch NoExt = RouteNonEVM /\ route_of ext_switch EvmExt = RouteEVM /\
  route_of ext_switch OtherExt = RouteReject /\ x_default ext_switch = ArmReject.
Proof. vm_compute. repeat split; reflexivity. Qed.

(** ValidateBasic, the signature decorators and the commission decorator are all present in the non-EVM chain. *)
Theorem C17_current_chain_guards :
  mem N_COMMISSION nonevm_chain = true /\ mem N_VALIDATE_BASIC nonevm_chain = true /\
  mem N_SIG_VERIFY nonevm_chain = true /\ mem N_SET_PUBKEY nonevm_chain = true /\
  mem N_ETH_VALIDATE_BASIC evm_chain = true.
Proof. vm_compute. repeat split; reflexivity. Qed.

Theorem C17_holds_for_current_tree :
  forall (w : world) (s0 : st) (h : list event),
    ica_safe w -> cap_ok s0 -> gov_trusted current_cfg h -> cap_ok (run_history current_cfg w s0 h).
Proof.
  intros w s0 h. apply C17_cap_partial. apply C17_cfg_checker_sound. exact C17_current_cfg_ok.
Qed.
Print Assumptions C17_holds_for_current_tree.

Theorem C17_no_tx_sets_rate_above_cap_on_current_tree :
  forall (w : world) (s : st) (x : tx), ica_safe w -> changed_capped s (fst (deliver current_cfg w s x)).
Proof.
  intros w s x. apply C17_no_tx_sets_rate_above_cap. apply C17_cfg_checker_sound. exact C17_current_cfg_ok.
Qed.
Print Assumptions C17_no_tx_sets_rate_above_cap_on_current_tree.

(** With an ICA host whose allow-list passes [list_safe] the hypothesis [ica_safe] is discharged: the cap then
    holds on the current tree for every history whose passed proposals are trusted.  (The allow-lists found in
    the upgrade handlers of the current tree are printed in Gen/C17Facts.v [ica_allow_lists]; the one installed
    by upgrade v1.3.0 contains authz.MsgExec and does NOT pass — open finding, see README.) *)
Theorem C17_holds_for_current_tree_with_safe_ica_list :
  forall (w : world) (l : list string) (s0 : st) (h : list event),
    list_safe l = true -> cap_ok s0 -> gov_trusted current_cfg h ->
    cap_ok (run_history current_cfg (world_with_ica w l) s0 h).
Proof.
  intros w l s0 h Hl. apply C17_holds_for_current_tree. apply C17_ica_allow_list_safe. exact Hl.
Qed.
Print Assumptions C17_holds_for_current_tree_with_safe_ica_list.
