(** C17 — obligations over the facts regenerated from /repo (Gen/C17Facts.v). *)
Require Import Nib.C17.AnteFacts Nib.C17.Model Nib.C17.Current.
