(** C04 — obligations over the facts regenerated from /repo (Gen/C04Facts.v). *)
From Coq Require Import ZArith String List Bool.
Import ListNotations.
Require Import Nib.Gen.C04Facts.
Open Scope string_scope.

(** The per-tx limit is checked as the model does: the call is journaled and counted first, then
    refused when the count exceeds the limit (so exactly [max_multistore_cache_count] calls pass). *)
Theorem C04_limit_check_shape :
  limit_relation = "count>limit" /\ limit_incr_before_check = true /\
  limit_journaled_before_check = true /\ (0 < max_multistore_cache_count)%Z.
Proof. vm_compute. repeat split; reflexivity. Qed.

(** OnRunStart: snapshot, journal + count, flush — in this order. *)
Theorem C04_on_run_start_order :
  on_run_start_statedb_calls = ["CacheCtxForPrecompile"; "SavePrecompileCalledJournalChange"; "CommitCacheCtx"].
Proof. vm_compute. reflexivity. Qed.

(** Every precompile entry point goes through OnRunStart. *)
Theorem C04_every_precompile_uses_on_run_start :
  precompile_run_methods <> [] /\ forallb (fun p => snd p) precompile_run_methods = true.
Proof. split; [discriminate | vm_compute; reflexivity]. Qed.

(** The theorems instantiated with the limit found in /repo. *)
Require Import Nib.C04.Model Nib.C04.Proofs Nib.C04.Property.
Theorem C04_holds_for_current_limit :
  forall (bl : list addr) (t0 : store) (body : list prog),
    wf_body max_multistore_cache_count body (r_init bl t0) = true ->
    let s := run (PFrame body false) (init {| repaired := true; maxc := max_multistore_cache_count; blocked := bl |} t0) in
    let r := rrun max_multistore_cache_count (PFrame body false) (r_init bl t0) in
    store_eq (commit s) (r_final r) /\ auxeq (aux s) (r_aux r) /\ commit_fails s = r_pending r.
Proof. intros bl t0 body. exact (C04_frame_atomicity max_multistore_cache_count bl t0 body). Qed.
Print Assumptions C04_holds_for_current_limit.
