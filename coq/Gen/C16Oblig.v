(** C16 — obligations over the facts regenerated from /repo (Gen/C16Facts.v). *)
From Coq Require Import String List Bool Arith.
Import ListNotations.
Require Import Nib.C16.Model Nib.C16.Sites.
Require Import Nib.Gen.C16Facts.

Definition current_facts : facts := {|
  f_sites := gate_sites;
  f_handlers := handlers;
  f_gate_functions := gate_functions |}.

(** The current tree gates exactly the operations the model gates, each gate call precedes every
    state write of its function, and the gate functions have the modelled normal form.  A new gated
    operation, a handler that lost its check, a write moved before the check or an edited gate
    function changes the generated term and this no longer checks. *)
Theorem C16_current_gates_match_model : facts_ok current_facts = true.
Proof. vm_compute. reflexivity. Qed.
Print Assumptions C16_current_gates_match_model.

(** every gated operation of the model is carried by a handler found gated in the tree *)
Theorem C16_every_model_op_is_gated_in_tree :
  forall k : gkind, In (handler_of k) (gated handlers GateSudoers).
Proof. intro k. destruct k; vm_compute; tauto. Qed.
Print Assumptions C16_every_model_op_is_gated_in_tree.
