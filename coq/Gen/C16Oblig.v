(** C16 — obligations over the facts regenerated from /repo (Gen/C16Facts.v). *)
From Coq Require Import String List Bool Arith.
Import ListNotations.
Require Import Nib.C16.Model Nib.C16.Spelled Nib.C16.Sites.
Require Import Nib.Gen.C16Facts.

Definition current_facts : facts := {|
  f_sites := gate_sites;
  f_handlers := handlers;
  f_gate_functions := gate_functions;
  f_wasm_routes := wasm_routes;
  f_writes := sudoers_writes |}.

(** The current tree gates exactly the operations the model gates, each gate call precedes every
    state write of its function, and the gate functions have the modelled normal form.  A new gated
    operation, a handler that lost its check, a write moved before the check or an edited gate
    function changes the generated term and this no longer checks. *)
Theorem C16_current_gates_match_model : facts_ok current_facts = true.
Proof. vm_compute. reflexivity. Qed.
Print Assumptions C16_current_gates_match_model.

(** app/wasmext: every path from DispatchMsg to the Msg router passes the signer guard, whatever
    branch the dispatched message takes — so the model the traces are compared with, and for which
    C16_accepted_tree_well_authorised / C16_privileged_leaf_sudoer_and_backed are proved
    ([c_wguard = true], [Check.w_cfg]), is the model of THIS tree; a tree for which this fails is the
    variant of C16_unguarded_wrapper_refuted. *)
Theorem C16_wasm_dispatch_guards_every_branch :
  wguard_of current_facts = true /\
  forall g ow, c_wguard (mk_cfg g ow) = wguard_of current_facts.
Proof. split; [vm_compute; reflexivity | intros; vm_compute; reflexivity]. Qed.
Print Assumptions C16_wasm_dispatch_guards_every_branch.

(** x/sudo/keeper stores and compares IDENTITIES: ChangeRoot writes the String() of the parsed new root,
    RemoveContracts removes the String() of the parsed entry, AddContracts adds it, and the root test of
    EditSudoers compares parsed addresses — i.e. the string store of the tree is [canon_rawcfg], the one
    proved to simulate the identity-keyed model (C16_canonical_store_simulates_identity_model); any other
    value of the switches is refuted by C16_raw_string_store_refuted / _each_switch_needed. *)
Theorem C16_sudoers_store_is_keyed_by_identity :
  spelling_safe current_facts = true /\ rawcfg_of current_facts = canon_rawcfg.
Proof. split; vm_compute; reflexivity. Qed.
Print Assumptions C16_sudoers_store_is_keyed_by_identity.

(** every gated operation of the model is carried by a handler found gated in the tree *)
Theorem C16_every_model_op_is_gated_in_tree :
  forall k : gkind, In (handler_of k) (gated handlers GateSudoers).
Proof. intro k. destruct k; vm_compute; tauto. Qed.
Print Assumptions C16_every_model_op_is_gated_in_tree.
