(** C01 — obligations over the facts regenerated from /repo (Gen/C01Facts.v). *)
From Coq Require Import List Bool Arith ZArith String.
Import ListNotations.
Require Import Nib.C01.Sites Nib.C01.Model Nib.C01.FactsCfg Nib.C01.Proofs Nib.C01.SiteClasses Nib.C01.Property.
Require Import Nib.Gen.C01Facts.

Lemma filter_nil_forallb {A} (p : A -> bool) l : filter (fun x => negb (p x)) l = [] -> forallb p l = true.
Proof.
  induction l as [|x t IH]; simpl; auto. destruct (p x); simpl; [auto|discriminate].
Qed.

(** the offending facts, so that a failing obligation names them in coqc's error message *)
Definition unclassified_map_sites : list site := filter (fun s => negb (site_okb s)) map_sites.
Definition stale_table_entries : list entry := filter (fun e => negb (entry_liveb map_sites e)) table.
Definition unjustified_toslice_uses : list ts_use := filter (fun u => negb (ts_use_okb u)) toslice_uses.
Definition unknown_incidental_sites : list inc_site := filter (fun i => negb (inc_okb i)) incidental_sites.

Theorem no_unclassified_map_site : unclassified_map_sites = [].
Proof. vm_compute. reflexivity. Qed.

(** every `for … range <map>` of the consensus code is either of an automatically accepted
    order-insensitive shape (proved lemma per shape, pure callees only) or matches a table line
    (package, map type, shape, effectful callees) whose justification is proved / reviewed *)
Theorem every_map_site_classified : Forall site_ok map_sites.
Proof.
  apply Forall_forall. intros s Hs. unfold site_ok. revert s Hs. apply forallb_forall.
  apply filter_nil_forallb. exact no_unclassified_map_site.
Qed.

(** WARNING only (never an obligation): table lines that match no site any more — the loop was removed or
    changed into an automatically accepted shape; the line can be deleted at leisure. *)
Eval vm_compute in (map e_where stale_table_entries).

(** every result of set.Set.ToSlice is only measured, sorted, or printed *)
Theorem every_toslice_use_ok : unjustified_toslice_uses = [].
Proof. vm_compute. reflexivity. Qed.

(** no time.Now / math/rand / go statement in consensus packages beyond the listed ones *)
Theorem every_incidental_site_known : unknown_incidental_sites = [].
Proof. vm_compute. reflexivity. Qed.

(** no channel operation, select, timer / timeout, deadline, sync / atomic use or runtime query in consensus packages beyond
    the listed ones (each line with its justification; the producer / consumer lines of omap.Range carry a theorem) *)
Definition unclassified_conc_sites : list conc_site := filter (fun k => negb (conc_okb k)) conc_sites.

Theorem every_conc_site_classified : unclassified_conc_sites = [].
Proof. vm_compute. reflexivity. Qed.

(** no long-lived object of the consensus code holds a process-local map / cache / sync object beyond the reviewed ones,
    and no package-level map is written after initialisation: execution reads nothing but the store and the block *)
Definition unreviewed_process_state : list pstate := filter (fun p => negb (ps_okb p)) process_state.

Theorem no_unreviewed_process_state : unreviewed_process_state = [].
Proof. vm_compute. reflexivity. Qed.

(** every consensus-path function that publishes the per-transaction StateDB clears it on every exit after the publication
    (justification [PSTxScoped] of NibiruBankKeeper.StateDB; premise of C01_tx_scoped_state_restart_independent) *)
Definition unguarded_statedb_publishers : list (string * string * bool * scope) :=
  filter (fun e => let '(_, _, guarded, sc) := e in scope_eqb sc ScopeConsensus && negb guarded) statedb_publishers.

Theorem every_statedb_publisher_clears : unguarded_statedb_publishers = [].
Proof. vm_compute. reflexivity. Qed.

(** hence, for the publishing handlers found in the tree as it is now (message i = the i-th of them, failing early or
    not, with or without a restart before it), restarts cannot change results through that pointer *)
Definition consensus_publishers : list (string * string * bool * scope) :=
  filter (fun e => let '(_, _, _, sc) := e in scope_eqb sc ScopeConsensus) statedb_publishers.

Definition guard_of (i : nat) : bool :=
  match nth_error consensus_publishers i with Some (_, _, g, _) => g | None => true end.

Lemma guard_of_true i : guard_of i = true.
Proof.
  unfold guard_of. destruct (nth_error consensus_publishers i) as [[[[pkg fn] g] sc]|] eqn:E; auto.
  apply nth_error_In in E. unfold consensus_publishers in E. apply filter_In in E as [Hin Hsc].
  destruct g; auto. exfalso.
  assert (H : In (pkg, fn, false, sc) unguarded_statedb_publishers).
  { unfold unguarded_statedb_publishers. apply filter_In. split; auto. rewrite Hsc. reflexivity. }
  rewrite every_statedb_publisher_clears in H. exact H.
Qed.

Theorem C01_current_tree_restart_independent :
  forall (script : list (bool * nat * bool)),
    let h := map (fun x => (fst (fst x), mk_hmsg (guard_of (snd (fst x))) (snd x))) script in
    run_handlers false h = run_handlers false (no_restarts h).
Proof.
  intros script h. apply C01_tx_scoped_state_restart_independent.
  unfold h. rewrite forallb_forall. intros x Hx. apply in_map_iff in Hx as [y [<- _]]. simpl. apply guard_of_true.
Qed.
Print Assumptions C01_current_tree_restart_independent.

Definition current_cfg : cfg := cfg_of_facts map_sites toslice_uses conc_sites.

Theorem current_cfg_ok : cfg_ok current_cfg = true.
Proof. vm_compute. reflexivity. Qed.

(** the main theorem instantiated with the mechanisms found in the tree as it is now *)
Theorem C01_current_tree_deterministic :
  forall (abi : list (Z * Z)) (h : list msg) (π π' : sched) (δ δ' : clock),
    abi_ok abi -> valid_sched π -> valid_sched π' ->
    run current_cfg abi π δ h = run current_cfg abi π' δ' h.
Proof. intros abi h π π' δ δ' Ha H H'. exact (C01_determinism current_cfg abi h π π' δ δ' current_cfg_ok Ha H H'). Qed.
Print Assumptions C01_current_tree_deterministic.
