(** C14 — obligations over the facts regenerated from /repo (Gen/C14Facts.v): which hooks the application
    registers on the epochs keeper (app/keepers.go). *)
From Coq Require Import String List Arith. Import ListNotations.
Require Import Nib.C14.Model Nib.C14.Spec Nib.C14.Check Nib.C14.Proofs.
Require Import Nib.Gen.C14Facts.

(** SetHooks is called exactly once on the epochs keeper (a second call would replace the first set) *)
Theorem C14_epochs_hooks_set_once : epochs_set_hooks_calls = 1.
Proof. vm_compute. reflexivity. Qed.

(** the inflation hook (C13) and the oracle hook are registered, each once *)
Theorem C14_inflation_and_oracle_hooks_registered_once :
  count_occ string_dec epoch_hooks_registered "InflationKeeper"%string = 1 /\
  count_occ string_dec epoch_hooks_registered "OracleKeeper"%string = 1.
Proof. vm_compute. split; reflexivity. Qed.

(** with the hooks registered on this tree, every registered hook sees every AfterEpochEnd / BeforeEpochStart call
    of the epochs module, once, in order (MultiEpochHooks as modelled by [fanout], compared with the implementation
    by the two recording hooks placed first and last in the driver's MultiEpochHooks) *)
Theorem C14_every_registered_hook_sees_every_call :
  forall (l : list hook) (r : nat), r < length epoch_hooks_registered ->
    map snd (filter (fun x : nat * hook => Nat.eqb (fst x) r) (fanout (length epoch_hooks_registered) l)) = l.
Proof. intros l r H. exact (fanout_each_hook_sees_every_call _ l r H). Qed.
Print Assumptions C14_every_registered_hook_sees_every_call.
