(** C14 — obligations over the facts regenerated from /repo (Gen/C14Facts.v): which hooks the application
    registers on the epochs keeper (app/keepers.go). *)
From Coq Require Import String List Arith. Import ListNotations.
Require Import Nib.C14.Model Nib.C14.Spec Nib.C14.Check Nib.C14.Proofs.
Require Import Nib.Gen.C14Facts.

(** SetHooks is called exactly once on the epochs keeper (a second call would replace the first set) *)
Theorem C14_epochs_hooks_set_once : epochs_set_hooks_calls = 1.
Proof. vm_compute. reflexivity. Qed.

(** the inflation hook (C13) and the oracle hook are registered, each once *)
Theorem C14_inflation_and_oracle_hooks_registered_once :
  count_occ string_dec epoch_hooks_registered "InflationKeeper"%string = 1 /\
  count_occ string_dec epoch_hooks_registered "OracleKeeper"%string = 1.
Proof. vm_compute. split; reflexivity. Qed.

(** with the hooks registered on this tree, every registered hook sees every AfterEpochEnd / BeforeEpochStart call
    of the epochs module, once, in order (MultiEpochHooks as modelled by [fanout], compared with the implementation
    by the two recording hooks placed first and last in the driver's MultiEpochHooks) *)
Theorem C14_every_registered_hook_sees_every_call :
  forall (l : list hook) (r : nat), r < length epoch_hooks_registered ->
    map snd (filter (fun x : nat * hook => Nat.eqb (fst x) r) (fanout (length epoch_hooks_registered) l)) = l.
Proof. intros l r H. exact (fanout_each_hook_sees_every_call _ l r H). Qed.
Print Assumptions C14_every_registered_hook_sees_every_call.

(** no function of x/epochs recovers a panic and the keeper's hook wrappers defer nothing: a panicking hook leaves
    BeginBlocker, so the block is not committed — the premise of the failing-receiver model ([step_f]) *)
Theorem C14_hooks_not_recovered :
  epochs_recover_sites = [] /\ keeper_AfterEpochEnd_defers = 0 /\ keeper_BeforeEpochStart_defers = 0.
Proof. vm_compute. repeat split; reflexivity. Qed.

Definition loop_iterates_all_in_order (l : loop_shape) : bool :=
  l_ranges_over_receiver l && Nat.eqb (l_stmts_in_func l) 1 && Nat.eqb (l_stmts_in_body l) 1 &&
  l_calls_same_method_on_element l && l_args_are_the_params_in_order l.

(** MultiEpochHooks.AfterEpochEnd / BeforeEpochStart are one unconditional `for … range h` whose body is the single
    call of the same method on the element with the same three arguments: all receivers, slice order ([fanout]) *)
Theorem C14_multi_hooks_iterate_all_in_order :
  loop_iterates_all_in_order multi_AfterEpochEnd_loop = true /\ loop_iterates_all_in_order multi_BeforeEpochStart_loop = true.
Proof. vm_compute. split; reflexivity. Qed.

(** so, on this tree: a block in which some receiver panics commits nothing, and a committed block delivered its
    complete call list to every registered receiver *)
Theorem C14_committed_advance_has_complete_delivery_on_this_tree :
  epochs_recover_sites = [] ->
  forall (g : trigger) (s : state) (lf : nat) (t h : BinNums.Z) (r : nat),
    o_ok (snd (step_f g (s, lf) (Block t h))) = true -> r < length epoch_hooks_registered ->
    map snd (filter (fun x : nat * hook => Nat.eqb (fst x) r)
                    (fanout (length epoch_hooks_registered) (o_hooks (snd (step_f g (s, lf) (Block t h)))))) =
    snd (begin_block s t h).
Proof.
  intros _ g s lf t h r Hok Hr.
  destruct (committed_block_is_complete g s lf t h Hok) as [_ [_ E]]. rewrite E.
  apply fanout_each_hook_sees_every_call. exact Hr.
Qed.
Print Assumptions C14_committed_advance_has_complete_delivery_on_this_tree.

(** the store key is the info's own identifier everywhere it is written or looked up: AddEpochInfo checks existence of
    and inserts under <info>.Identifier the info itself, BeginBlocker writes the advanced info back under its
    <info>.Identifier — the premise of modelling the store as one info per identifier ([C14_one_info_per_identifier]);
    identifiers are therefore compared as raw strings (no trimming, no case folding) *)
Theorem C14_store_key_is_the_identifier :
  add_exists_key = "<info>.Identifier"%string /\
  add_insert = "<info>.Identifier := <info>"%string /\
  beginblock_insert = "<info>.Identifier := <info>"%string.
Proof. vm_compute. repeat split; reflexivity. Qed.

(** MODULE RE-INITIALISATION.  Everything x/epochs InitGenesis does to the keeper is AddEpochInfo (reads aside): it has
    no store write of its own — the premise of [init_genesis true] (Model.v), whose every write is an [add_epoch] … *)
Definition init_call_allowed (c : string) : bool :=
  existsb (String.eqb c) ["AddEpochInfo"; "EpochExists"; "GetEpochInfo"; "AllEpochInfos"; "IterateEpochInfo"; "Epochs.Get"; "Epochs.Has"]%string.

Theorem C14_initgenesis_writes_only_through_addepochinfo :
  forallb init_call_allowed initgenesis_keeper_calls = true /\
  existsb (String.eqb "AddEpochInfo"%string) initgenesis_keeper_calls = true.
Proof. vm_compute. split; reflexivity. Qed.

(** … AddEpochInfo refuses an identifier that is stored before it writes anything ([add_epoch]'s [has_id] test) … *)
Theorem C14_addepochinfo_refuses_stored_identifier_before_writing : add_exists_guard_before_insert = true.
Proof. vm_compute. reflexivity. Qed.

(** … and AppModule.InitGenesis (the entry InitChain and RunMigrations use) discards InitGenesis's error
    ([Init true]: the caller always sees success, what was written before the error stays). *)
Theorem C14_appmodule_initgenesis_discards_the_error : appmodule_initgenesis_error = "discarded"%string.
Proof. vm_compute. reflexivity. Qed.

(** hence, on this tree, a module re-initialisation at any point of a history leaves every stored clock untouched *)
Theorem C14_reinitialisation_keeps_running_epochs_on_this_tree :
  forallb init_call_allowed initgenesis_keeper_calls = true -> add_exists_guard_before_insert = true ->
  forall (i : nat) (s : state) (ct ch : BinNums.Z) (gs : list add_args) (e : einfo),
    lookup i s = Some e -> lookup i (fst (init_genesis true s ct ch gs)) = Some e.
Proof. intros _ _. exact lookup_init. Qed.
Print Assumptions C14_reinitialisation_keeps_running_epochs_on_this_tree.
