(** C15 — obligations over the facts regenerated from /repo (Gen/C15Facts.v). *)
From Coq Require Import String List Bool ZArith.
Import ListNotations.
Require Import Nib.C17.MsgTree.
Require Import Nib.C15.Model Nib.C15.Spec Nib.C15.Sites Nib.C15.Proofs Nib.C15.Property.
Require Import Nib.Gen.C15Facts.
Require Import Nib.C15.ProofsTree Nib.C15.Current.

Definition current_facts : facts := {|
  f_events := handler_events;
  f_get_admin_key := get_admin_key;
  f_get_authority_key := get_authority_key;
  f_has_denom_key := has_denom_key;
  f_get_admin_body := get_admin_body;
  f_get_authority_body := get_authority_body;
  f_mutable_fields := keeper_mutable_fields;
  f_mutable_vars := keeper_mutable_package_vars;
  f_reject_conditions := to_struct_reject_conditions;
  f_denom_format := denom_format |}.

(** Handler by handler the current tree performs exactly the guards, gates and writes the model's
    [step] performs, in that order: the admin test is on the raw message denom and precedes every
    write; mint-to / burn-from are tested against the blocked addresses; creation tests for an
    existing denom first and builds the denom from msg.Sender; ChangeAdmin writes the successor
    unconditionally under the raw key; the admin lookups key by the raw string; DenomStr.ToStruct
    rejects everything but three non-empty sections starting with "tf"; GetAdmin /
    GetDenomAuthorityMetadata are a single store read, and neither Keeper nor StoreAPI nor a package
    variable can hold state outside the store (no pointer / map / slice / chan / func / sync field), so
    rolling back the store rolls back everything the handlers consult.  A check moved into a helper
    of the package renders identically; a dropped / moved / re-targeted check, an extra condition
    before a write, a changed key or prefix no longer checks. *)
Theorem C15_current_handlers_match_model : facts_ok current_facts = true.
Proof. vm_compute. reflexivity. Qed.
Print Assumptions C15_current_handlers_match_model.

(** The theorems of Property.v, for the tree whose handlers were just matched with the model. *)
Theorem C15_supply_partial_for_current_tree :
  facts_ok current_facts = true /\
  forall blocked s o s' d, step blocked s o = Some s' -> supply s' d <> supply s d ->
  supply_mover s s' o d \/ own_native_burn s s' o d.
Proof. split; [exact C15_current_handlers_match_model | exact C15_supply_changes_only_by_admin_mint_burn_partial]. Qed.
Print Assumptions C15_supply_partial_for_current_tree.

Theorem C15_control_for_current_tree :
  facts_ok current_facts = true /\
  (forall blocked s o s', step blocked s o = Some s' ->
     match o with
     | Mint sender d _ _ _ | Burn sender d _ _ _ | SetMeta sender d _ => admins s d = Some sender
     | ChangeAdmin sender d new _ => admins s d = Some sender /\ admins s' d = Some new
     | _ => True
     end) /\
  (forall blocked s sender sub s1 h sender2 sub2,
     inv s -> step blocked s (Create sender sub) = Some s1 ->
     tf_denom sender2 sub2 = tf_denom sender sub ->
     step blocked (fst (run blocked s1 h)) (Create sender2 sub2) = None).
Proof.
  split; [exact C15_current_handlers_match_model|].
  split; [exact C15_accepted_admin_message_signed_by_admin | exact C15_create_once_by_embedded_creator].
Qed.
Print Assumptions C15_control_for_current_tree.

(** the known finding, structurally: BurnNative has no guard of any kind in the current tree *)
Theorem C15_burn_native_has_no_authority_check :
  match lookup_h "BurnNative" handler_events with
  | Some evs => filter (fun e => String.prefix "guard:" e || String.prefix "gate:" e) evs = []
  | None => False
  end.
Proof. vm_compute. reflexivity. Qed.
Print Assumptions C15_burn_native_has_no_authority_check.

(** MESSAGE CARRIERS.  The contract message handler of the current tree (app/wasmext, found from
    DispatchMsg; helpers followed) compares every signer of the dispatched message ITSELF with the
    contract address — unconditionally, whatever the message type (so also for an authz MsgExec
    wrapper), before it routes the message; in front of that check there are only steps that can refuse.
    A check that is applied to the nested messages instead, skipped for some message types, moved
    behind the routing or under a condition no longer reads as "signers-are-contract". *)
Theorem C15_wasm_handler_checks_signers_of_every_dispatched_message :
  wasm_signer current_wcfg = true /\ wasm_routes wasm_dispatch_events = true.
Proof. vm_compute. auto. Qed.
Print Assumptions C15_wasm_handler_checks_signers_of_every_dispatched_message.

(** … hence, for the current tree, the carrier theorems of Property.v hold unconditionally *)
Theorem C15_carriers_for_current_tree :
  (forall w blocked t s s' d, trun current_wcfg w blocked t s = Some s' -> supply (tf s') d <> supply (tf s) d ->
     exists a o sl t', reaches current_wcfg w blocked t s (LOp a o) sl /\ step blocked (tf sl) o = Some t' /\
                       (supply_mover (tf sl) t' o d \/ own_native_burn (tf sl) t' o d)) /\
  (forall w blocked snd ctr g inner pre post s, g <> ctr ->
     trun current_wcfg w blocked (Wasm snd ctr (pre ++ Exec g inner :: post)) s = None) /\
  (forall w blocked, (forall a, w_ica_acct w a = false) ->
     forall tx s s', trun_all current_wcfg w blocked tx s = Some s' -> walk_all w tx (gr s) = Some (gr s')).
Proof.
  destruct C15_wasm_handler_checks_signers_of_every_dispatched_message as [H _].
  split; [|split].
  - intros w blocked. exact (C15_carriers_supply_moves_only_by_reached_admin_message_partial current_wcfg w blocked H).
  - intros w blocked. exact (C15_contract_cannot_exec_for_others current_wcfg w blocked H).
  - intros w blocked. exact (C15_accepted_tx_passes_authority_walk current_wcfg w blocked H).
Qed.
Print Assumptions C15_carriers_for_current_tree.
