(** C10 — obligations over the facts regenerated from /repo (Gen/C10Facts.v, harness/gen/c10).
    [current_cfg] is the code shape extracted from the working tree; the theorems below are the
    theorems of C10/Property.v instantiated for it.  A structural change of the oracle price path
    (pipeline order, an early return before clearVotesAndPrevotes, threshold rounding, per-tuple power,
    pivot test, period gate, expiry formula, band test, Validate bounds, validation of edited params)
    changes the term and these proofs stop checking. *)
From Coq Require Import ZArith List Bool Arith String.
Import ListNotations.
Require Import Nib.Lib.Dec Nib.C10.Model Nib.C10.Spec Nib.C10.Cfg Nib.C10.Proofs.
Require Import Nib.Gen.C10Facts.

Theorem C10_current_cfg_ok : cfg_ok current_cfg = true.
Proof. vm_compute. reflexivity. Qed.

(** the model denoted by the extracted configuration exists and is the current-code model *)
Theorem C10_current_tree_is_the_modelled_variant :
  forall p st h, end_block_cfg current_cfg p st h = Some (end_block true p st h).
Proof. intros. apply end_block_cfg_ok. exact C10_current_cfg_ok. Qed.

(** C10_holds_for_every_input, for the code as it is in the tree now *)
Theorem C10_holds_for_current_tree :
  forall p st h, wf st -> exists o, end_block_cfg current_cfg p st h = Some o /\ P p st h o.
Proof. exact (holds_for_cfg current_cfg C10_current_cfg_ok). Qed.
Print Assumptions C10_holds_for_current_tree.

(** the quantifier "parameter values accepted by Params.Validate" = Spec.params_valid: the five bounds are
    present in Validate and every edit is validated *)
Theorem C10_params_domain_matches_current_tree : validate_ok current_cfg = true.
Proof. vm_compute. reflexivity. Qed.

(** nothing sits between clearExchangeRates and clearVotesAndPrevotes that could skip the latter: the stage
    sequence is the modelled one and no condition guards the call of clearVotesAndPrevotes; hence (model) a vote-period
    end always empties the Votes store *)
Theorem C10_votes_cleared_in_current_tree :
  cc_pipeline current_cfg = expected_pipeline /\ cc_clear_votes_guards current_cfg = 0%nat /\
  forall fx p e s x s' evs,
    hist_step fx p e s x = Some (s', evs) -> is_period_last (hp_h x) (p_vote_period p) = true -> hs_votes s' = [].
Proof.
  split; [vm_compute; reflexivity|]. split; [vm_compute; reflexivity|].
  intros fx p e s x s' evs H1 H2. exact (proj1 (period_end_clears_votes fx p e s x s' evs H1 H2)).
Qed.

(** every vote / prevote value built in x/oracle carries the canonical spelling of a decoded address as its Voter
    string ([cc_voter_strings]); hence C10_msg_history_holds applies to the message server as it is in the tree now:
    whatever the spelling of the validator / feeder fields, the published rates are those of the votes cast by identity *)
Theorem C10_voter_string_canonical_in_current_tree : voter_canonical current_cfg = true.
Proof. vm_compute. reflexivity. Qed.

Theorem C10_msg_history_holds_for_current_tree :
  forall p xs, Forall (fun ex => wf_env (fst ex)) xs -> forall s, canonical_store s ->
  exists o, mhist_obs_cfg current_cfg p s xs = Some o /\
            P_mhist p (ms_rates s) (map to_avote (ms_votes s)) (map to_prevote (ms_prevotes s)) o.
Proof. exact (msg_holds_for_cfg current_cfg C10_current_cfg_ok). Qed.
Print Assumptions C10_msg_history_holds_for_current_tree.

(** NewExchangeRateTuplesFromString keeps a set of ALL pairs seen so far ([cc_dup_check = DupSeenSet]): a vote string that names a
    pair twice — adjacent or not — never parses, so (C10_one_vote_per_validator_and_pair) the tally never sees two votes of one
    validator for one pair *)
Theorem C10_duplicate_pairs_refused_in_current_tree : dup_variant current_cfg = Some true.
Proof. vm_compute. reflexivity. Qed.
