(** C20 — obligations over the facts regenerated from /repo (Gen/C20Facts.v). *)
From Coq Require Import List Bool Arith ZArith String.
Import ListNotations.
Require Import Nib.C20.Model Nib.C20.Spec Nib.C20.Shape Nib.C20.Check Nib.C20.Proofs Nib.C20.ProofsDg Nib.C20.ProofsGen Nib.C20.Property.
Require Import Nib.Gen.C20Facts.

(** Every persistent collection declared in the seven keepers is carried by a GenesisState field that
    ExportGenesis fills and InitGenesis reads, or is an index of one that is, or is on the explicit
    exception list; every GenesisState field is used both ways; nothing classified has disappeared. *)
Theorem C20_every_collection_has_genesis_support : shape_ok collections modules = true.
Proof. vm_compute. reflexivity. Qed.

(** The two genesis formulas of the current tree are the ones under which the strict theorems hold,
    i.e. the exception list of the current tree is exactly the tolerated one. *)
Theorem C20_current_cfg_ok : cfg_ok current_cfg = true.
Proof. vm_compute. reflexivity. Qed.

Theorem C20_current_exceptions : exceptions current_cfg = tolerated.
Proof. exact (C20_exceptions_of_ok_tree current_cfg C20_current_cfg_ok). Qed.

(** The property for the current tree, at full strength. *)
Theorem C20_holds_for_current_tree : forall F env h t s, wf_app F env s ->
  exists g s',
    export_app env s = Some g /\
    init_app current_cfg F env (tf_bankmd (a_tf s)) h t g = Some s' /\
    state_equiv false false env h t s s'.
Proof. intros F env h t s. exact (C20_state_equiv current_cfg F env h t s C20_current_cfg_ok). Qed.
Print Assumptions C20_holds_for_current_tree.

Theorem C20_second_export_for_current_tree : forall F env h t s, wf_app F env s ->
  exists g s' g', export_app env s = Some g /\ init_app current_cfg F env (tf_bankmd (a_tf s)) h t g = Some s' /\
                  export_app env s' = Some g' /\ gen_equiv h g g'.
Proof.
  intros F env h t s. apply (C20_export_roundtrip current_cfg F env h t s).
  - exact (proj2 (proj2 (cfg_ok_parts current_cfg C20_current_cfg_ok))).
  - exact (cfg_ok_start current_cfg C20_current_cfg_ok).
Qed.
Print Assumptions C20_second_export_for_current_tree.

(** x/devgas for the current tree (the rule of MsgUpdateFeeShare is regenerated from the handler source): every
    registry reachable from a default-like genesis by any history of the registry messages exports a section that
    genesis validation accepts and InitGenesis restores exactly. *)
Theorem C20_devgas_histories_for_current_tree : forall F ops p, funs_dg_ok F -> f_dgp_ok F p = true ->
  let s := snd (dg_run (c_dg_upd current_cfg) F ops ([], dg_genesis p)) in
  init_devgas F (export_devgas s) = Some s.
Proof.
  assert (E : c_dg_upd current_cfg = DgUpdKeep) by (vm_compute; reflexivity).
  rewrite E. exact C20_devgas_history_from_genesis.
Qed.
Print Assumptions C20_devgas_histories_for_current_tree.

(** any number of generations, for the current tree (EpochInfo.Validate and the other facts regenerated) *)
Theorem C20_iterated_roundtrip_for_current_tree : forall F env h t gens s, wf_app F env s ->
  Forall (fun ht => (0 <= fst ht)%Z) ((h, t) :: gens) ->
  exists g s', export_app env s = Some g /\ regen current_cfg F env ((h, t) :: gens) s = Some s' /\ wf_app F env s' /\
               export_app env s' = Some (rebase_gen (fst (last gens (h, t))) g).
Proof. intros F env h t gens s. exact (C20_iterated_roundtrip current_cfg F env h t gens s C20_current_cfg_ok). Qed.
Print Assumptions C20_iterated_roundtrip_for_current_tree.
