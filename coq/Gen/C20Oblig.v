(** C20 — obligations over the facts regenerated from /repo (Gen/C20Facts.v). *)
From Coq Require Import List Bool Arith String.
Import ListNotations.
Require Import Nib.C20.Model Nib.C20.Spec Nib.C20.Shape Nib.C20.Check Nib.C20.Property.
Require Import Nib.Gen.C20Facts.

(** Every persistent collection declared in the seven keepers is carried by a GenesisState field that
    ExportGenesis fills and InitGenesis reads, or is an index of one that is, or is on the explicit
    exception list; every GenesisState field is used both ways. *)
Theorem C20_every_collection_has_genesis_support : shape_ok collections modules = true.
Proof. vm_compute. reflexivity. Qed.

(** The two genesis formulas of the current tree are the ones under which the strict theorems hold. *)
Theorem C20_current_cfg_ok : cfg_ok current_cfg = true.
Proof. vm_compute. reflexivity. Qed.
