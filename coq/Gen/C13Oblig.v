(** C13 — obligations over the constants printed from the linked /repo packages (Gen/C13Facts.v):
    the module's default parameters, default genesis counters and the collections.Sequence default; the roll-over
    comparison of hooks.go; and the x/bank blocked-recipient table of the application wiring (which module accounts the
    constructed application's bank keeper refuses as recipients). *)
From Coq Require Import String ZArith List Bool Lia. Import ListNotations.
Require Import Nib.Lib.Dec Nib.C13.Model Nib.C13.Spec Nib.C13.Check Nib.C13.Arith Nib.C13.Proofs Nib.C13.Property.
Require Import Nib.Gen.C13Facts.
Local Open Scope Z_scope.

Definition gen_genesis_with (rt : root) : st :=
  {| s_params := gen_default_params; s_period := Some gen_genesis_period; s_skipped := Some gen_genesis_skipped; s_module := 0;
     s_root := rt |}.
Definition gen_genesis : st := gen_genesis_with (RAcct 0).

(* ---------------------------------------------------------------- the wiring: who may receive the strategic reserve *)

(** the governance module account of the linked cosmos-sdk is the one the model calls operable *)
Theorem C13_gov_account_is_modelled : gen_gov_account = gov_account /\ In gov_account gen_module_accounts.
Proof. split; [reflexivity|]. vm_compute. tauto. Qed.

(** THE WIRING OBLIGATION: on this tree the application's bank keeper lets every account that can operate as sudo root
    — every ordinary account and the governance module account — receive funds.  (Every OTHER module account of this
    tree is a blocked recipient: MsgChangeRoot to one of them is accepted, nobody can sign as root afterwards, and
    C13_blocked_root_partial_effects describes what the epoch hook then does.) *)
Theorem C13_operable_roots_can_receive : wiring_ok gen_blocked.
Proof. apply wiring_okb_sound. vm_compute. reflexivity. Qed.
Print Assumptions C13_operable_roots_can_receive.

(** hence on this tree, along EVERY history from EVERY state, everything minted is distributed and the period moves by
    the integer test at every day-epoch end at which the sudo root is an operable account *)
Theorem C13_distributed_on_this_wiring :
  forall (zp : bool) (ops : list op) (s : st),
    0 <= s_module s -> Forall fund_nonneg ops ->
    P_dist (s_params s) (s_root s) (s_module s) (combine ops (snd (run gen_blocked zp s ops))) /\
    P_roll (s_params s) (s_root s) (s_module s) (peek (s_period s)) (peek (s_skipped s)) (combine ops (snd (run gen_blocked zp s ops))).
Proof.
  intros zp ops s Hm Hf. split.
  - exact (C13_distributed_along_every_history gen_blocked zp ops s C13_operable_roots_can_receive Hm Hf).
  - exact (C13_integer_rollover_along_every_history gen_blocked zp ops s C13_operable_roots_can_receive).
Qed.
Print Assumptions C13_distributed_on_this_wiring.

(** an unset collections.Sequence reads as the constant the model uses *)
Theorem C13_sequence_default_is_modelled : gen_sequence_default = seq_default.
Proof. vm_compute. reflexivity. Qed.

(** the default genesis carries the default parameters, is consistent at day epoch 1, has valid proportions and
    sizes far from wrap-around *)
Theorem C13_default_genesis_consistent :
  forall rt : root,
  gen_genesis_params_are_default = true /\ Consistent (gen_genesis_with rt) 1 /\ dist_ok gen_default_params /\
  small (p_epp gen_default_params) (p_max gen_default_params) /\ 0 <= peek (s_skipped (gen_genesis_with rt)).
Proof.
  intro rt.
  split; [vm_compute; reflexivity|]. split; [apply genesis_consistent; vm_compute; try reflexivity; discriminate|].
  split; [vm_compute; repeat split; discriminate|]. split; vm_compute; repeat split; discriminate.
Qed.

(** the default polynomial yields at least one unibi per epoch in every period below MaxPeriod: it is positive
    (the property's hypothesis) and never reaches the sub-unibi panic *)
Theorem C13_default_polynomial_unit : poly_unit gen_default_params.
Proof. apply poly_unitb_sound. vm_compute. reflexivity. Qed.

(** hence, on a chain started from the default genesis with any operable sudo root, under the wiring of this tree,
    every history of toggles, day-epoch ends, other identifiers' epoch ends and hand-overs of the sudo root to operable
    accounts (no edits of the params) follows the closed-form schedule *)
Fixpoint no_edits (ops : list op) (e : Z) : Prop :=
  match ops with
  | [] => True
  | EpochEnd true e' :: r => e' = e /\ 0 <= e < two62 /\ no_edits r (e + 1)
  | EpochEnd false _ :: r => no_edits r e
  | Toggle _ _ :: r => no_edits r e
  | ChangeRoot auth rt :: r => (auth = true -> operable rt = true) /\ no_edits r e
  | _ :: _ => False
  end.

Lemma no_edits_hist_ok : forall ops p c e,
  no_edits ops e -> 0 <= c ->
  p_factors p = p_factors gen_default_params -> p_epp p = p_epp gen_default_params -> p_max p = p_max gen_default_params ->
  p_staking p = p_staking gen_default_params -> p_community p = p_community gen_default_params ->
  p_strategic p = p_strategic gen_default_params ->
  hist_ok (p_epp gen_default_params) (p_max gen_default_params) p c e ops.
Proof.
  induction ops as [|o r IH]; intros p c e Hn Hc F1 F2 F3 F4 F5 F6; [exact I|].
  destruct o as [[|] e'|auth b|auth ed|amt|auth rt]; cbn [no_edits hist_ok next_params] in *; try contradiction.
  - destruct Hn as [-> [He Hr]]. split; [reflexivity|]. split; [exact He|]. split.
    + intros _. split.
      * apply poly_pos_prov_ok; [|rewrite F2; vm_compute; reflexivity|exact Hc].
        apply poly_unit_pos.
        intros per Hper. unfold poly_provision, polynomial. rewrite F1, F2.
        rewrite F3 in Hper. apply (C13_default_polynomial_unit per Hper).
      * unfold dist_ok. rewrite F4, F5, F6. vm_compute. repeat split; discriminate.
    + apply IH; auto. destruct (p_enabled p); lia.
  - split; [exact F2|]. split; [exact F3|]. apply IH; auto.
  - destruct auth; cbn; (split; [exact F2|]; split; [exact F3|]; apply IH; auto).
  - destruct Hn as [Ho Hr]. split; [exact Ho|]. split; [exact F2|]. split; [exact F3|]. apply IH; auto.
Qed.

Theorem C13_default_chain_follows_schedule :
  forall (rt : root) (ops : list op),
    operable rt = true -> no_edits ops 1 ->
    map view_of (snd (run gen_blocked false (gen_genesis_with rt) ops)) =
    snd (spec_run {| q_params := gen_default_params; q_c := 0 |} ops).
Proof.
  intros rt ops Ho Hn.
  destruct (C13_default_genesis_consistent rt) as [_ [Hc [_ [Hs Hk]]]].
  pose proof (C13_period_tracks_schedule gen_blocked ops (gen_genesis_with rt) 1 C13_operable_roots_can_receive Ho Hc eq_refl Hk Hs) as T.
  cbv zeta in T. apply T.
  apply no_edits_hist_ok; auto; vm_compute; discriminate.
Qed.
Print Assumptions C13_default_chain_follows_schedule.

(* ---------------------------------------------------------------- the roll-over comparison of this tree *)
Require Import Nib.C13.RollExpr.

(** the comparison guarding CurrentPeriod.Next in hooks.go (operator, operands, int64/uint64 conversions, extracted on
    every run), evaluated with Go's rules, IS the model's roll-over test *)
Theorem C13_rollover_expression_is_modelled :
  forall e epp per sk : Z, rtest gen_rollover (renv e epp per sk) = rollover e epp per sk.
Proof. intros. reflexivity. Qed.

(** hence (C13_rollover_test_without_wraparound) the expression of this tree is the comparison on the integers for
    sizes below 2^62 — in particular it is false, and the period waits, when the counters are ahead of the epoch number *)
Theorem C13_rollover_expression_is_integer_comparison :
  forall e epp per sk : Z,
    0 <= e < two62 -> 0 <= sk < two62 -> 0 < epp < two62 -> 0 <= epp * per < two62 ->
    rtest gen_rollover (renv e epp per sk) = (epp <=? e - epp * per - sk).
Proof.
  intros e epp per sk H1 H2 H3 H4. rewrite C13_rollover_expression_is_modelled.
  exact (C13_rollover_test_without_wraparound e epp per sk H1 H2 H3 H4).
Qed.
Print Assumptions C13_rollover_expression_is_integer_comparison.

Theorem C13_counters_ahead_do_not_roll_over_on_this_tree :
  forall e epp per sk : Z,
    0 <= e < two62 -> 0 <= sk < two62 -> 0 < epp < two62 -> 0 <= epp * per < two62 ->
    e < epp * per + sk -> rtest gen_rollover (renv e epp per sk) = false.
Proof.
  intros e epp per sk H1 H2 H3 H4 H5. rewrite (C13_rollover_expression_is_integer_comparison e epp per sk H1 H2 H3 H4).
  apply Z.leb_gt. lia.
Qed.
