(** C02 — obligations over the facts regenerated from /repo (Gen/C02Facts.v). *)
Require Import Nib.C17.AnteFacts Nib.C02.Model Nib.C02.Current.
