(** C02 — obligations over the facts regenerated from /repo (Gen/C02Facts.v). *)
From Coq Require Import List Bool Arith ZArith String.
Import ListNotations.
Require Import Nib.C17.AnteFacts Nib.C17.MsgTree Nib.C02.Model Nib.C02.Spec Nib.C02.Check Nib.C02.Proofs Nib.C02.Property.
Require Import Nib.Gen.C02Facts Nib.C02.Current.

(** What the theorems need of the code: signature decorators present and the installed SigGasConsumer is the
    SDK default (eth_secp256k1 keys rejected); the wasm handler checks signer = contract; the EVM chain has the
    signature, gas-prepayment and nonce decorators; routing: no option -> non-EVM, EVM option -> EVM chain,
    any other option can never reach the EVM chain. *)
Theorem C02_current_cfg_ok : cfg_okb current_cfg = true.
Proof. vm_compute. reflexivity. Qed.

(** Routing by extension option, and the only extension option the codec can decode is the EVM one. *)
Theorem C02_current_routing :
  route_of ext_switch NoExt = RouteNonEVM /\ route_of ext_switch EvmExt = RouteEVM /\
  route_of ext_switch OtherExt = RouteReject /\ x_default ext_switch = ArmReject /\
  registered_ext_options = ["ExtensionOptionsEthereumTx"%string].
Proof. vm_compute. repeat split; reflexivity. Qed.

(** Defence in depth (not needed by the theorems, checked so that their removal is noticed): the two Nibiru
    guards sit in the non-EVM chain (every decorator of the chain runs before the message router) and test the types they are meant to; the wasm
    handler refuses MsgEthereumTx; ValidateBasic / fee / sequence decorators present; the EVM chain validates
    that every message is a MsgEthereumTx and checks the sender account. *)
Theorem C02_current_guards :
  mem N_PREVENT_ETH nonevm_chain = true /\ mem N_AUTHZ_GUARD nonevm_chain = true /\
  g_prevent current_cfg = true /\ g_authz current_cfg = true /\ g_authz_exec current_cfg = true /\ wasm_no_eth current_cfg = true /\
  vb_on current_cfg = true /\ fee_on current_cfg = true /\ seq_on current_cfg = true /\
  e_vb current_cfg = true /\ e_acc current_cfg = true.
Proof. vm_compute. repeat split; reflexivity. Qed.

Theorem C02_holds_for_current_tree :
  forall (w : world) (s0 : st) (h : list tx),
    world_ok w -> Forall (tx_wf w) h -> grants_ok w s0 ->
    grants_ok w (run_history current_cfg w s0 h) /\
    forall l, In l (ran (run_history current_cfg w s0 h)) ->
      In l (ran s0) \/ exists h1 x h2, h = (h1 ++ x :: h2)%list /\ admitted_in (run_history current_cfg w s0 h1) x l.
Proof.
  intros w s0 h. apply C02_history_eth_handler_only_behind_evm_ante.
  apply C02_cfg_checker_sound. exact C02_current_cfg_ok.
Qed.
Print Assumptions C02_holds_for_current_tree.

(** The msg server of the current tree: on every exit of ApplyEvmMsg, after evm.Call AND after evm.Create, the sender
    nonce is written to msg.Nonce()+1 (facts apply_post_nonce_call / apply_post_nonce_create; the write BEFORE the invocation is per branch — apply_pre_nonce_call /
    apply_pre_nonce_create: msg.Nonce()+1 before a call, msg.Nonce() before a creation — and only has to be a definite one; extracted by an abstract
    interpretation of the function body, helpers included); hence every admitted nonce is consumed exactly once and
    never admitted again, whatever the EVM execution did. *)
Theorem C02_current_msg_server_writes_nonce :
  post_nonce_call current_cfg = true /\ post_nonce_create current_cfg = true /\
  pre_nonce_call current_cfg <> PreUnknown /\ pre_nonce_create current_cfg <> PreUnknown.
Proof. vm_compute. repeat split; try reflexivity; discriminate. Qed.

(** Per TxData implementation of the current tree (facts tx_price_facts): EffectiveFeeWei — what the ante handler
    deducts — and EffectiveGasPriceWeiPerGas — what the msg server refunds at — both floor the named price at the base
    fee, for legacy, access-list and dynamic-fee transactions alike. *)
Theorem C02_current_prices_floored_per_tx_type :
  forallb (fun ty => fee_floor current_cfg ty && refund_floor current_cfg ty) [TLegacy; TAccess; TDynamic] = true.
Proof. vm_compute. reflexivity. Qed.

Theorem C02_nonce_consumed_once_on_current_tree :
  forall (w : world) (s : st) (x : tx),
    route_tx current_cfg (t_ext x) = RouteEVM ->
    (evm_ante current_cfg w s x = None /\ deliver current_cfg w s x = (s, false)) \/
    (exists ls s1, evm_ante current_cfg w s x = Some s1 /\ direct_eth (t_msgs x) = Some ls /\ admit_seq s ls s1 /\
       forall b, seq_of (fst (deliver current_cfg w s x)) b = (seq_of s b + count_from b ls)%nat).
Proof.
  intros w s x. apply C02_admitted_nonce_consumed_exactly_once.
  apply C02_cfg_checker_sound. exact C02_current_cfg_ok.
Qed.
Print Assumptions C02_nonce_consumed_once_on_current_tree.

Theorem C02_nonce_and_refund_on_current_tree :
  forall (w : world) (s : st) (x : tx),
    world_ok w -> tx_wf w x -> grants_ok w s ->
    forall a, w_is_eth w a = true ->
      (seq_of s a <= seq_of (fst (deliver current_cfg w s x)) a)%nat /\
      (bal_of (fst (deliver current_cfg w s x)) a <= bal_of s a)%Z.
Proof.
  intros w s x Hw Hwf Hg a Ha.
  assert (Hc : cfg_ok current_cfg) by (apply C02_cfg_checker_sound; exact C02_current_cfg_ok).
  split.
  - apply C02_nonce_never_rewound; auto.
  - apply C02_refund_covered_by_prepayment; auto.
Qed.
Print Assumptions C02_nonce_and_refund_on_current_tree.
