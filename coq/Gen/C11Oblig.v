(** C11 — obligations over the facts regenerated from /repo (Gen/C11Facts.v). *)
From Coq Require Import String List Bool.
Import ListNotations.
Require Import Nib.C11.Model Nib.C11.Sites.
Require Import Nib.Gen.C11Facts.

(** Every write to Prevotes / Votes / FeederDelegations / oracle Params found in non-test code under
    x/, app/, eth/, cmd/ is one of the writes the model's handlers stand for, and each of those
    writes is still present (e.g. the vote handler still deletes the prevote). *)
Theorem C11_store_writers_are_the_modelled_ones : writers_ok store_writers = true.
Proof. vm_compute. reflexivity. Qed.
Print Assumptions C11_store_writers_are_the_modelled_ones.

(** The functions leading to those writes are called only from where the model says, and no code
    calls a message handler directly. *)
Theorem C11_handlers_reached_only_as_modelled : calls_ok handler_calls = true.
Proof. vm_compute. reflexivity. Qed.
Print Assumptions C11_handlers_reached_only_as_modelled.

(** The reveal hash is taken over the exact bytes of the revealed salt and rate string: inside
    types.GetAggregateVoteHash the preimage is <salt> ":" <rates> ":" <valoper> with no function
    applied to salt or rates, and every caller in x/oracle/keeper passes msg.Salt and
    msg.ExchangeRates untouched. *)
Theorem C11_hash_preimage_exact : preimage_exact hash_preimage hash_sink vote_hash_calls = true.
Proof. vm_compute. reflexivity. Qed.
Print Assumptions C11_hash_preimage_exact.

(** … no normalisation at all on the way from the message to the hash … *)
Theorem C11_no_transform_before_hashing :
  salt_transforms hash_preimage vote_hash_calls = [] /\ rates_transforms hash_preimage vote_hash_calls = [].
Proof. split; vm_compute; reflexivity. Qed.
Print Assumptions C11_no_transform_before_hashing.

(** … hence the model instance for THIS tree is the one all theorems of Property.v are about,
    whatever a variant tree would apply. *)
Theorem C11_current_tree_model_is_exact :
  forall variant H,
  step_pi (pi_of_facts (preimage_exact hash_preimage hash_sink vote_hash_calls) variant) H = step H.
Proof.
  intros variant H.
  assert (E : preimage_exact hash_preimage hash_sink vote_hash_calls = true) by (vm_compute; reflexivity).
  rewrite E. reflexivity.
Qed.
Print Assumptions C11_current_tree_model_is_exact.

(** The vote-string parser tests EVERY tuple's pair against all pairs seen so far (no entry —
    abstain or priced — bypasses the test): the duplicate rule of this tree is the model's [DupAll]. *)
Theorem C11_rates_duplicates_checked_for_all_entries : dup_rule_of_facts rates_dup_check = Some DupAll.
Proof. vm_compute. reflexivity. Qed.
Print Assumptions C11_rates_duplicates_checked_for_all_entries.
