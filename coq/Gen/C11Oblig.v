(** C11 — obligations over the facts regenerated from /repo (Gen/C11Facts.v). *)
From Coq Require Import String List Bool.
Import ListNotations.
Require Import Nib.C11.Sites.
Require Import Nib.Gen.C11Facts.

(** Every write to Prevotes / Votes / FeederDelegations / oracle Params found in non-test code under
    x/, app/, eth/, cmd/ is one of the writes the model's handlers stand for, and each of those
    writes is still present (e.g. the vote handler still deletes the prevote). *)
Theorem C11_store_writers_are_the_modelled_ones : writers_ok store_writers = true.
Proof. vm_compute. reflexivity. Qed.
Print Assumptions C11_store_writers_are_the_modelled_ones.

(** The functions leading to those writes are called only from where the model says, and no code
    calls a message handler directly. *)
Theorem C11_handlers_reached_only_as_modelled : calls_ok handler_calls = true.
Proof. vm_compute. reflexivity. Qed.
Print Assumptions C11_handlers_reached_only_as_modelled.
