(** C19 — obligations over the facts regenerated from /repo (Gen/C19Facts.v). *)
From Coq Require Import List Bool Arith.
Import ListNotations.
Require Import Nib.C19.Sites Nib.C19.Model Nib.C19.Spec Nib.C19.Property.
Require Import Nib.Gen.C19Facts.

Theorem C19_current_sites_ok : sites_ok current_sites = true.
Proof. vm_compute. reflexivity. Qed.

Theorem C19_holds_for_current_tree :
  forall ops : list op, P (snd (run_block current_sites ops)).
Proof. intro ops. exact (C19_indices_consecutive current_sites ops C19_current_sites_ok). Qed.
Print Assumptions C19_holds_for_current_tree.
