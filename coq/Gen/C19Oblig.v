(** C19 — obligations over the facts regenerated from /repo (Gen/C19Facts.v). *)
From Coq Require Import String.
From Coq Require Import List Bool Arith.
Import ListNotations.
Require Import Nib.C19.Sites Nib.C19.Model Nib.C19.Spec Nib.C19.Property.
Require Import Nib.Gen.C19Facts.

Theorem C19_current_sites_ok : sites_ok current_sites = true.
Proof. vm_compute. reflexivity. Qed.

(** the order fact: in the current tree x/evm's EndBlocker runs once, after x/gov's and every other
    EndBlocker that is not known to be inert *)
Theorem C19_current_wiring_ok : wiring_ok current_wiring = true.
Proof. vm_compute. reflexivity. Qed.

Theorem C19_holds_for_current_tree :
  forall b : block,
  P (r_emits (run_full current_sites current_wiring b)) /\
  Pbloom (r_emits (run_full current_sites current_wiring b)) (r_pubs (run_full current_sites current_wiring b)).
Proof.
  intro b. split.
  - exact (C19_indices_consecutive current_sites current_wiring b C19_current_sites_ok).
  - exact (proj1 (C19_bloom_is_union current_sites current_wiring b C19_current_sites_ok C19_current_wiring_ok)).
Qed.
Print Assumptions C19_holds_for_current_tree.
