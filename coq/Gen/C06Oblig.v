(** C06 — obligations over the facts regenerated from /repo (Gen/C06Facts.v): the ledger operations
    each bridge path performs in the CURRENT tree, in order, between which parties and with which amount,
    are the ones the model's operations are made of; likewise the ERC20 Transfer helper, the CreateFunToken
    guards and the StateDB syncs of the bank wrapper. *)
From Coq Require Import List Bool Arith ZArith String.
Import ListNotations.
Require Import Nib.C06.Model Nib.C06.Spec Nib.C06.Paths Nib.C06.Proofs Nib.C06.ProofsPaths Nib.C06.ProofsSpell Nib.C06.ProofsReentry Nib.C06.Property.
Require Import Nib.Gen.C06Facts.

(** sendToBank / sendToEvm (both births), convertCoinToEvmBornCoin / BornERC20, bankMsgSend: same steps, same
    order, same parties, requested vs MEASURED amounts as in the model *)
Theorem C06_paths_match_model : current_paths = model_paths.
Proof. reflexivity. Qed.

(** every ledger operation of every path has its error checked and handed on to the caller, through every helper
    (an `if _, err := f(); err != nil { err = wrap(err) }; return err` loses the error in the shadowing variable) *)
Theorem C06_errors_propagated : errors_propagated current_paths_e = true.
Proof. reflexivity. Qed.

(** so each path of the current tree runs exactly as the corresponding list of the model, failures included *)
Theorem C06_current_paths_fail_closed :
  Forall (fun p => forall s t d caller x to, run_path_e p s t d caller x to = run_path (map fst p) s t d caller x to)
         (all_paths_e current_paths_e).
Proof.
  apply Forall_forall. intros p Hp s t d caller x to. apply run_path_e_checked.
  pose proof C06_errors_propagated as H. unfold errors_propagated in H. rewrite forallb_forall in H. exact (H p Hp).
Qed.
Print Assumptions C06_current_paths_fail_closed.

(** keeper.ERC20().Transfer: balanceOf before and after the call, success flag checked, increase = after - before,
    refused when <= 0, and that increase is what the helper returns *)
Theorem C06_transfer_helper_matches_model : current_transfer_helper = model_transfer_helper.
Proof. reflexivity. Qed.

(** createFunTokenFromCoin / createFunTokenFromERC20: both duplicate checks present, each through its INDEX *)
Theorem C06_create_guards_match_model :
  current_create_coin = model_create_coin /\ current_create_erc20 = model_create_erc20.
Proof. split; reflexivity. Qed.

(** createFunTokenFromCoin hands the message's denom string AS GIVEN to its index guard, its metadata lookup and its insert
    (no canonicalisation / case-folding between the "already registered" guard and the insert) *)
Theorem C06_create_denoms_match_model : current_create_coin_denoms = model_create_denoms.
Proof. reflexivity. Qed.

(** whatever the values are: the guard of the current tree looks at the value that is inserted, so the property holds for
    every history over every spelling of every denom, whatever function the tree may rewrite the denom with *)
Theorem C06_current_tree_guards_what_it_inserts : forall (cn : denom -> denom) (ops : list op),
  P (views_with cn current_create_coin_denoms init ops) /\
  views_with cn current_create_coin_denoms init ops = views init ops.
Proof.
  intros cn ops. split.
  - apply (proj1 (C06_guard_checks_what_is_inserted cn current_create_coin_denoms ops eq_refl)).
  - rewrite C06_create_denoms_match_model. apply views_with_model.
Qed.
Print Assumptions C06_current_tree_guards_what_it_inserts.

(** the context handed to precompiles is marked, and ConvertCoinToEvm / CreateFunToken refuse on a marked context before they
    touch anything: a message of the EVM module dispatched from inside a running EVM transaction (Wasm precompile ->
    CosmWasm contract -> Stargate message) is a rejected operation *)
Theorem C06_reentry_guards_match_model : current_reentry_guards = model_reentry_guards.
Proof. reflexivity. Qed.

Theorem C06_current_tree_refuses_reentry : forall ops : list op,
  views_rg current_reentry_guards init ops = views init ops /\ P (views_rg current_reentry_guards init ops).
Proof. intro ops. apply C06_guarded_reentry_safe; reflexivity. Qed.
Print Assumptions C06_current_tree_refuses_reentry.

(** NibiruBankKeeper: every wrapped bank method re-syncs ALL the accounts it moves coins between *)
Theorem C06_bank_wrappers_sync_all_accounts : current_bank_sync = model_bank_sync.
Proof. reflexivity. Qed.

(** the EVM module account is bank-blocked in the app wiring and the tokenfactory admin paths refuse blocked
    accounts: what C06_escrow_untouched_by_other_modules assumes about the other modules *)
Theorem C06_escrow_guards_match_model : current_escrow_guards = model_escrow_guards.
Proof. reflexivity. Qed.

(** hence: executing the conversions as the step lists read from the current tree is executing the model *)
Theorem C06_current_tree_ops_are_model_ops : forall s o, exec_conv_with current_paths s o = exec s o.
Proof. intros s o. rewrite C06_paths_match_model. symmetry. apply exec_is_exec_conv_with_model_paths. Qed.
Print Assumptions C06_current_tree_ops_are_model_ops.

(** … and the backing invariant holds for every history of those operations *)
Theorem C06_holds_for_current_tree :
  (forall s o, exec_conv_with current_paths s o = exec s o) /\ forall ops : list op, P (views init ops).
Proof. split; [exact C06_current_tree_ops_are_model_ops | exact C06_backing_invariant]. Qed.
Print Assumptions C06_holds_for_current_tree.
