(** C12 — obligations over the facts regenerated from /repo (Gen/C12Facts.v, harness/gen/c12): the
    theorems of C12/Property.v instantiated for the code shape extracted from the working tree. *)
From Coq Require Import ZArith List Bool Arith String.
Import ListNotations.
Require Import Nib.Lib.Dec Nib.C10.Model Nib.C12.Model Nib.C12.Spec Nib.C12.Cfg Nib.C12.Proofs.
Require Import Nib.Gen.C12Facts.

Theorem C12_current_cfg_ok : cfg_ok12 current_cfg12 = true.
Proof. vm_compute. reflexivity. Qed.

Theorem C12_current_tree_is_the_modelled_variant :
  forall q s o, step_cfg current_cfg12 q s o = Some (step true q s o).
Proof.
  intros. unfold step_cfg. assert (E : variant12 current_cfg12 = Some true) by (vm_compute; reflexivity).
  rewrite E. reflexivity.
Qed.

(** C12_history_holds for the model variant denoted by the extracted configuration *)
Theorem C12_history_holds_for_current_tree :
  forall fx, variant12 current_cfg12 = Some fx ->
  forall q ops s e0, inv s -> Forall wf_op ops -> P_history q (obs_of s e0) (run_obs fx q s ops).
Proof.
  intros fx H. assert (E : variant12 current_cfg12 = Some true) by (vm_compute; reflexivity).
  rewrite E in H. injection H as <-. exact history_P.
Qed.
Print Assumptions C12_history_holds_for_current_tree.

Theorem C12_history_with_vote_store_holds_for_current_tree :
  forall fx, variant12 current_cfg12 = Some fx ->
  forall q ops s e0, inv (h12_os s) -> Forall wf_op ops ->
  P_history12 q (obs_of (h12_os s) e0) (h12_store s) (run_obs12 fx q s ops).
Proof.
  intros fx H. assert (E : variant12 current_cfg12 = Some true) by (vm_compute; reflexivity).
  rewrite E in H. injection H as <-. exact history12_P.
Qed.

Theorem C12_module_solvent_in_current_tree :
  forall fx, variant12 current_cfg12 = Some fx ->
  forall q ops s, inv s -> Forall wf_op ops ->
  Forall (fun x => so_panic (snd x) = false -> solvent (snd x)) (run_obs fx q s ops).
Proof.
  intros fx H. assert (E : variant12 current_cfg12 = Some true) by (vm_compute; reflexivity).
  rewrite E in H. injection H as <-. exact history_solvent.
Qed.

Theorem C12_history_with_param_edits_holds_for_current_tree :
  forall fx, variant12 current_cfg12 = Some fx ->
  forall ops s e0, inv (h12_os s) -> Forall (fun x => wf_op (snd x)) ops ->
  P_history12v (obs_of (h12_os s) e0) (h12_store s) (run_obs12v fx s ops).
Proof.
  intros fx H. assert (E : variant12 current_cfg12 = Some true) by (vm_compute; reflexivity).
  rewrite E in H. injection H as <-. exact history12v_P.
Qed.
