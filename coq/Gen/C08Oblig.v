(** C08 — obligations over the facts regenerated from /repo (Gen/C08Facts.v) on every run. *)
From Coq Require Import List ZArith Bool String.
Import ListNotations.
Require Import Nib.C08.Model Nib.C08.Spec Nib.C08.Property.
Require Import Nib.Gen.C08Facts.
Local Open Scope Z_scope.

(** every ABI method is dispatched; every handler's context guard comes first; every method that is
    not an ABI view, and every method whose body can write, is behind assertNotReadonlyTx; view
    methods have read-only bodies; OnRunStart precedes each switch; gas used by the body is
    charged; selectors are pairwise distinct *)
Theorem C08_current_guards_ok : guards_ok current_facts = true.
Proof. vm_compute. reflexivity. Qed.

(** requiredGas has its length guard, bankMsgSend validates denom and amount before sdk.NewCoin,
    sendToEvm / getErc20Address keep NUL characters away from the collections index, sendToBank checks
    the 256-bit bound of the bank supply before MintCoins, OnRunStart
    installs the limited local gas meter, all three Run methods defer HandleOutOfGasPanic *)
Theorem C08_current_panic_guards_ok : panic_ok current_facts = true.
Proof. vm_compute. reflexivity. Qed.

(** the isMutation table (gas class, extra EVM events) agrees with the ABI's view / non-view split *)
Theorem C08_current_mutation_table_ok : table_ok current_facts = true.
Proof. vm_compute. reflexivity. Qed.

(** FunToken and Wasm query methods refuse attached value *)
Theorem C08_current_query_guards_ok : query_guards_ok current_facts = true.
Proof. vm_compute. reflexivity. Qed.

(** HandleOutOfGasPanic converts sdk.ErrorOutOfGas only; geth's STATICCALL / DELEGATECALL / CALLCODE
    wrappers pass readOnly = true and runPrecompiledContract charges RequiredGas before Run *)
Theorem C08_current_wrapper_facts_ok :
  f_oog_only current_facts = true /\ f_local_meter current_facts = true /\
  f_direct_ro current_facts = true /\ geth_charges_required_gas_first = true.
Proof. vm_compute. repeat split; reflexivity. Qed.

(** the property for the tree as it is now: every body, every input *)
Theorem C08_holds_for_current_tree :
  forall (St : Type) (body after_mint : mid -> list arg -> St -> Z -> bres St) (transfer : St -> Z -> St) p k value gas inp st,
    Proofs.query_bodies_readonly St body after_mint -> input_wf inp = true -> 0 <= gas ->
    let r := evm_call St body after_mint transfer current_facts p k value gas inp st in
    P k value gas (selected (pc_of current_facts p) inp) (r_out r) (r_left r)
      (r_st r = st) (r_st r = st \/ r_st r = transfer st value).
Proof.
  intros St body after_mint transfer p k value gas inp st QB W G.
  exact (C08_model_satisfies_property St body after_mint transfer current_facts p k value gas inp st
           C08_current_guards_ok C08_current_panic_guards_ok
           (proj1 (proj2 (proj2 C08_current_wrapper_facts_ok))) QB W G).
Qed.
Print Assumptions C08_holds_for_current_tree.

(** Status of the nested-static clause on the current tree's own facts.  Today: the left disjunct
    (OPEN FINDING: EVM.Call of the geth fork passes readOnly = false, a state-changing method
    succeeds below a STATICCALL frame).  Once the fork hands the flag down the same statement is
    proved through the right disjunct, for every body and input. *)
Theorem C08_nested_static_status_on_current_tree :
  (f_call_inherits_static current_facts = false /\
   exists p gas inp,
     let r := evm_call Z Ref.sample_body Ref.sample_after_mint Ref.sample_transfer current_facts p (KCall true) 0 gas inp 0 in
     ~ P_nested (KCall true) (selected (pc_of current_facts p) inp) (r_out r) (r_st r = 0))
  \/
  (f_call_inherits_static current_facts = true /\
   forall (St : Type) (body after_mint : mid -> list arg -> St -> Z -> bres St) (transfer : St -> Z -> St) p k gas inp st,
     Proofs.query_bodies_readonly St body after_mint -> input_wf inp = true ->
     let r := evm_call St body after_mint transfer current_facts p k 0 gas inp st in
     P_nested k (selected (pc_of current_facts p) inp) (r_out r) (r_st r = st)).
Proof.
  first
    [ left; split; [reflexivity|];
      exists PFunToken, 1000000, (Ref.bankMsgSend_call Ref.unibi 5);
      intros r H; specialize (H eq_refl); destruct H as [H _]; subst r; vm_compute in H; discriminate
    | right; split; [reflexivity|];
      intros St body after_mint transfer p k gas inp st QB W;
      exact (C08_nested_static_if_inherited St body after_mint transfer current_facts p k gas inp st
               C08_current_guards_ok C08_current_panic_guards_ok eq_refl QB W) ].
Qed.
Print Assumptions C08_nested_static_status_on_current_tree.
