(** C08 — obligations over the facts regenerated from /repo (Gen/C08Facts.v) on every run. *)
From Coq Require Import List ZArith Bool String.
Import ListNotations.
Require Import Nib.C08.Model Nib.C08.Spec Nib.C08.Property.
Require Import Nib.Gen.C08Facts.
Local Open Scope Z_scope.

(** every ABI method is dispatched; every handler's context guard comes first; every method that is
    not an ABI view, and every method whose body can write, is behind assertNotReadonlyTx; view
    methods have read-only bodies; OnRunStart precedes each switch; gas used by the body is
    charged; selectors are pairwise distinct *)
Theorem C08_current_guards_ok : guards_ok current_facts = true.
Proof. vm_compute. reflexivity. Qed.

(** requiredGas has its length guard, bankMsgSend validates denom and amount before sdk.NewCoin,
    sendToEvm / getErc20Address keep NUL characters away from the collections index, sendToBank checks
    the 256-bit bound of the bank supply before MintCoins, evm.NewRevertError (applied by the keeper to the revert data of
    every contract a precompile body calls) never slices that data beyond a length it has established, asset.TryNewPair refuses
    every pair string of the hostile table (NUL / garbage anywhere around and inside a well-formed pair), OnRunStart
    installs the limited local gas meter, all three Run methods defer HandleOutOfGasPanic *)
Theorem C08_current_panic_guards_ok : panic_ok current_facts = true.
Proof. vm_compute. reflexivity. Qed.

(** the isMutation table (gas class, extra EVM events) agrees with the ABI's view / non-view split *)
Theorem C08_current_mutation_table_ok : table_ok current_facts = true.
Proof. vm_compute. reflexivity. Qed.

(** FunToken and Wasm query methods refuse attached value *)
Theorem C08_current_query_guards_ok : query_guards_ok current_facts = true.
Proof. vm_compute. reflexivity. Qed.

(** HandleOutOfGasPanic converts sdk.ErrorOutOfGas only; geth's STATICCALL / DELEGATECALL / CALLCODE
    wrappers pass readOnly = true and runPrecompiledContract charges RequiredGas before Run *)
Theorem C08_current_wrapper_facts_ok :
  f_oog_only current_facts = true /\ f_local_meter current_facts = true /\
  f_direct_ro current_facts = true /\ geth_charges_required_gas_first = true.
Proof. vm_compute. repeat split; reflexivity. Qed.

(** StateDB.SavePrecompileCalledJournalChange appends the multistore snapshot to the journal on EVERY call
    (nothing before the append can leave the method, the append is not inside a branch): each precompile call
    of a transaction has a journal entry of its own for the wrapper's RevertToSnapshot to find *)
Theorem C08_current_snapshot_every_call : f_snap_each_call current_facts = true.
Proof. vm_compute. reflexivity. Qed.

(** the property for the tree as it is now: every body, every input *)
Theorem C08_holds_for_current_tree :
  forall (St : Type) (body after_mint : mid -> list arg -> St -> Z -> bres St) (transfer : St -> Z -> St) p k value gas inp st,
    Proofs.query_bodies_readonly St body after_mint -> input_wf inp = true -> 0 <= gas ->
    let r := evm_call St body after_mint transfer current_facts p k value gas inp st in
    P k value gas (selected (pc_of current_facts p) inp) (r_out r) (r_left r)
      (r_st r = st) (r_st r = st \/ r_st r = transfer st value).
Proof.
  intros St body after_mint transfer p k value gas inp st QB W G.
  exact (C08_model_satisfies_property St body after_mint transfer current_facts p k value gas inp st
           C08_current_guards_ok C08_current_panic_guards_ok
           (proj1 (proj2 (proj2 C08_current_wrapper_facts_ok))) QB W G).
Qed.
Print Assumptions C08_holds_for_current_tree.

(** Status of the nested-static clause on the current tree's own facts.  Today: the left disjunct
    (OPEN FINDING: EVM.Call of the geth fork passes readOnly = false, a state-changing method
    succeeds below a STATICCALL frame).  Once the fork hands the flag down the same statement is
    proved through the right disjunct, for every body and input. *)
Theorem C08_nested_static_status_on_current_tree :
  (f_call_inherits_static current_facts = false /\
   exists p gas inp,
     let r := evm_call Z Ref.sample_body Ref.sample_after_mint Ref.sample_transfer current_facts p (KCall true) 0 gas inp 0 in
     ~ P_nested (KCall true) (selected (pc_of current_facts p) inp) (r_out r) (r_st r = 0))
  \/
  (f_call_inherits_static current_facts = true /\
   forall (St : Type) (body after_mint : mid -> list arg -> St -> Z -> bres St) (transfer : St -> Z -> St) p k gas inp st,
     Proofs.query_bodies_readonly St body after_mint -> input_wf inp = true ->
     let r := evm_call St body after_mint transfer current_facts p k 0 gas inp st in
     P_nested k (selected (pc_of current_facts p) inp) (r_out r) (r_st r = st)).
Proof.
  first
    [ left; split; [reflexivity|];
      exists PFunToken, 1000000, (Ref.bankMsgSend_call Ref.unibi 5);
      intros r H; specialize (H eq_refl); destruct H as [H _]; subst r; vm_compute in H; discriminate
    | right; split; [reflexivity|];
      intros St body after_mint transfer p k gas inp st QB W;
      exact (C08_nested_static_if_inherited St body after_mint transfer current_facts p k gas inp st
               C08_current_guards_ok C08_current_panic_guards_ok eq_refl QB W) ].
Qed.
Print Assumptions C08_nested_static_status_on_current_tree.

(** … and for a call made after ANY history of the same transaction (earlier precompile calls of any kind and
    outcome, journaled EVM state changes, any journal and call count to start from): every body, every input *)
Theorem C08_holds_for_current_tree_in_any_tx :
  forall (Ev Ms : Type) (body after_mint : mid -> list arg -> tst Ev Ms -> Z -> bres (tst Ev Ms))
         (evm_touch : mid -> list arg -> tst Ev Ms -> bool) (transfer_ev : Ev -> Z -> Ev) pre x0 p k value gas inp,
    Proofs.query_bodies_readonly (tst Ev Ms) body after_mint -> input_wf inp = true -> 0 <= gas ->
    let x := tx_run Ev Ms body after_mint evm_touch transfer_ev current_facts pre x0 in
    let r := call_x Ev Ms body after_mint evm_touch transfer_ev current_facts p k value gas inp x in
    P k value gas (selected (pc_of current_facts p) inp) (xr_out r) (xr_left r)
      (st_of Ev Ms (xr_x r) = st_of Ev Ms x)
      (st_of Ev Ms (xr_x r) = st_of Ev Ms x \/ st_of Ev Ms (xr_x r) = transfer_t Ev Ms transfer_ev (st_of Ev Ms x) value).
Proof.
  intros Ev Ms body after_mint evm_touch transfer_ev pre x0 p k value gas inp QB W G.
  exact (C08_tx_call_satisfies_property Ev Ms body after_mint evm_touch transfer_ev current_facts pre x0 p k value gas inp
           C08_current_guards_ok C08_current_panic_guards_ok
           (proj1 (proj2 (proj2 C08_current_wrapper_facts_ok))) C08_current_snapshot_every_call QB W G).
Qed.
Print Assumptions C08_holds_for_current_tree_in_any_tx.

Theorem C08_failed_call_leaves_no_state_on_current_tree :
  forall (Ev Ms : Type) (body after_mint : mid -> list arg -> tst Ev Ms -> Z -> bres (tst Ev Ms))
         (evm_touch : mid -> list arg -> tst Ev Ms -> bool) (transfer_ev : Ev -> Z -> Ev) pre x0 p k value gas inp,
    let x := tx_run Ev Ms body after_mint evm_touch transfer_ev current_facts pre x0 in
    let r := call_x Ev Ms body after_mint evm_touch transfer_ev current_facts p k value gas inp x in
    is_err (xr_out r) = true ->
    st_of Ev Ms (xr_x r) = st_of Ev Ms x /\ x_j (xr_x r) = x_j x /\ xr_left r = 0.
Proof.
  intros Ev Ms body after_mint evm_touch transfer_ev pre x0 p k value gas inp.
  exact (C08_failed_call_leaves_no_state_in_tx Ev Ms body after_mint evm_touch transfer_ev current_facts pre x0 p k value gas inp
           C08_current_snapshot_every_call).
Qed.
Print Assumptions C08_failed_call_leaves_no_state_on_current_tree.

Theorem C08_failed_calls_invisible_on_current_tree :
  forall (Ev Ms : Type) (body after_mint : mid -> list arg -> tst Ev Ms -> Z -> bres (tst Ev Ms))
         (evm_touch : mid -> list arg -> tst Ev Ms -> bool) (transfer_ev : Ev -> Z -> Ev) ops x0,
    x_cnt x0 + Z.of_nat (List.length ops) <= f_max_calls current_facts ->
    P_tx (st_of Ev Ms (tx_run Ev Ms body after_mint evm_touch transfer_ev current_facts ops x0) =
          st_of Ev Ms (tx_run_drop Ev Ms body after_mint evm_touch transfer_ev current_facts ops x0)).
Proof.
  intros Ev Ms body after_mint evm_touch transfer_ev ops x0.
  exact (C08_failed_calls_invisible_in_tx Ev Ms body after_mint evm_touch transfer_ev current_facts ops x0
           C08_current_snapshot_every_call).
Qed.
Print Assumptions C08_failed_calls_invisible_on_current_tree.
