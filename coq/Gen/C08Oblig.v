(** C08 — obligations over the facts regenerated from /repo (Gen/C08Facts.v). *)
From Coq Require Import List ZArith Bool String.
Import ListNotations.
Require Import Nib.C08.Model Nib.C08.Spec Nib.C08.Property.
Require Import Nib.Gen.C08Facts.

Theorem C08_current_guards_ok : guards_ok current_facts = true.
Proof. vm_compute. reflexivity. Qed.
