(** C09 — obligations over the regenerated inventory of pointer sites (Gen/C09Facts.v). *)
From Coq Require Import String List Bool.
Import ListNotations.
Require Import Nib.C09.Model Nib.C09.Spec Nib.C09.Sites Nib.C09.Proofs Nib.Gen.C09Facts.

(** Every function of the current tree that reads or writes Keeper.Bank.StateDB is one of the known
    message-server / constructor / mirror functions of x/evm/keeper — in particular no gRPC query
    handler (EthCall, EstimateGas, TraceTx, …) touches the pointer directly. *)
Theorem C09_pointer_sites_known : forallb site_known ptr_sites = true.
Proof. vm_compute. reflexivity. Qed.
Print Assumptions C09_pointer_sites_known.

(** What is proved about the model the current tree is compared with: non-interference for every
    schedule when every access is guarded, otherwise the refutation (the open finding). *)
Theorem C09_current_tree :
  (mode_of ptr_sites = Isolated /\ noninterference (mode_of ptr_sites)) \/
  (mode_of ptr_sites = Shared /\ ~ noninterference (mode_of ptr_sites)).
Proof.
  destruct (mode_of ptr_sites) eqn:E.
  - right. split; [reflexivity | exact not_noninterference_shared].
  - left. split; [reflexivity | exact noninterference_isolated].
Qed.
Print Assumptions C09_current_tree.
