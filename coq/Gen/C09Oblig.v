(** C09 — obligations over the regenerated inventory of pointer sites (Gen/C09Facts.v).
    They hold for the current tree and BREAK when the tree changes in a way that matters:
    a new function touching Keeper.Bank.StateDB, or any access that is not guarded against
    check-state contexts (queries, simulations, CheckTx). *)
From Coq Require Import String List Bool.
Import ListNotations.
Require Import Nib.C09.Model Nib.C09.ModelBuf Nib.C09.Spec Nib.C09.Sites Nib.C09.Proofs Nib.C09.ProofsBuf Nib.Gen.C09Facts.

(** Every function of the current tree that reads or writes Keeper.Bank.StateDB is one of the known
    constructor / accessor / mirror functions of x/evm/keeper — in particular no gRPC query
    handler (EthCall, EstimateGas, TraceTx, …) touches the pointer directly. *)
Theorem C09_pointer_sites_known : forallb site_known ptr_sites = true.
Proof. vm_compute. reflexivity. Qed.
Print Assumptions C09_pointer_sites_known.

(** Every access of the current tree is guarded by ctx.IsCheckTx(): requests never read, publish
    or clear the pointer.  (Fails as soon as one unguarded access appears.) *)
Theorem C09_every_access_guarded : forallb site_guarded ptr_sites = true /\ mode_of ptr_sites = Isolated.
Proof. split; vm_compute; reflexivity. Qed.
Print Assumptions C09_every_access_guarded.

(** The statement about the code as it is: the model selected by the facts of the current tree
    satisfies the FULL non-interference statement — for all request scripts, all initial stores and
    all schedules, pointer and deliver thread are those of the run of the deliver thread alone.
    (Type-checks only while [mode_of ptr_sites] computes to [Isolated]; for a tree with an
    unguarded access it would be the refuted statement [noninterference Shared].) *)
Theorem C09_current_tree : noninterference (mode_of ptr_sites).
Proof. exact noninterference_isolated. Qed.
Print Assumptions C09_current_tree.

(** … including: the interleaved run equals the complete sequential execution of DeliverTx. *)
Theorem C09_current_tree_sequential :
  forall (ths : list (list step)) (l0 : tid -> ledger) (sched : list tid),
    length (nth 0 ths []) <= count0 sched ->
    let m := mode_of ptr_sites in
    let seq := run m (repeat 0 (length (nth 0 ths []))) (init ths l0) in
    let got := run m sched (init ths l0) in
    committed got = committed seq /\ written got = written seq /\ tx_result got = tx_result seq /\ ptr got = ptr seq.
Proof. exact isolated_equals_sequential. Qed.
Print Assumptions C09_current_tree_sequential.

(** Every field of the singleton structs shared by DeliverTx and requests (evm Keeper, bank keeper wrapper,
    collections descriptors, the precompile objects built once by InitPrecompiles) and every package-level
    variable of x/evm is classified in the hand-maintained table of Sites.v (immutable after construction /
    store-backed / registry / per-call / the one guarded pointer).  A NEW field or variable — a cache, a flag,
    a counter on a process-wide singleton — breaks this obligation until it is classified. *)
Theorem C09_shared_mutable_state_known :
  forallb field_known shared_fields = true /\ forallb var_known package_vars = true /\
  guarded_fields = [("x/evm/keeper", "NibiruBankKeeper", "StateDB", "*statedb.StateDB")]%string.
Proof. repeat split; vm_compute; reflexivity. Qed.
Print Assumptions C09_shared_mutable_state_known.

(** No request (or anything else in x/evm, app/evmante, eth) can change a number somebody else still holds:
    every receiver-overwriting big-number operation `x.Op(x, …)` / `x.SetXxx(…)` whose receiver is not a freshly
    allocated value, and every function that returns a package-level variable of x/evm itself instead of a copy,
    is one of the reviewed sites of Sites.v.  A new one (e.g. `baseFeeWei.Add(baseFeeWei, tip)` on a parameter, or
    `return evm.BASE_FEE_WEI`) breaks this obligation. *)
Theorem C09_no_unreviewed_aliasing :
  forallb inplace_known inplace_sites = true /\ forallb alias_known var_aliases = true.
Proof. split; vm_compute; reflexivity. Qed.
Print Assumptions C09_no_unreviewed_aliasing.

(** Shared byte buffers.  Every write through a slice / index expression whose base is a package-level variable (of the
    same or of another nibiru package, x/evm/embeds included) or a field of a keeper / precompile singleton is an
    [append] to one of the reviewed slots of Sites.buffer_slots (index writes and [copy] into a shared base have no justification at all); every
    appended-to slot has a known origin, and every origin is an allocator that returns cap = len, so that the append
    reallocates instead of writing into the shared backing array: the model selected for the current tree is [Exact].
    **Breaks** on a new append to a shared slice, and when the way the embedded byte code is materialised changes
    (e.g. hex decoded in place and re-sliced: spare capacity). *)
Theorem C09_shared_buffers_justified :
  forallb buffer_site_known buffer_sites = true /\
  forallb (site_has_origin slice_origins) buffer_sites = true /\
  forallb origin_exact slice_origins = true /\
  alloc_of buffer_sites slice_origins = Exact.
Proof. repeat split; vm_compute; reflexivity. Qed.
Print Assumptions C09_shared_buffers_justified.

(** The statement about the code as it is, for the shared buffers: for all scripts of MsgCreateFunToken-like steps
    (append to the shared byte code, store reads, constructor reading its arguments) of the deliver thread and of any
    number of request threads, under ALL schedules, the deliver thread deploys what it deploys when running alone.
    (Type-checks only while [alloc_of …] computes to [Exact]; for a tree with spare capacity it would be the refuted
    statement [buf_noninterference Spare].) *)
Theorem C09_current_tree_buffers : buf_noninterference (alloc_of buffer_sites slice_origins).
Proof. exact buf_noninterference_exact. Qed.
Print Assumptions C09_current_tree_buffers.
