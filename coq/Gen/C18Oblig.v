(** C18 — obligations over the facts regenerated from /repo (Gen/C18Facts.v): the parts of the
    property that are "which decorator order / which formula / which guard before which write". *)
From Coq Require Import String List Bool Arith ZArith.
Import ListNotations.
Require Import Nib.Lib.Dec Nib.C18.Model Nib.C18.Spec Nib.C18.Proofs Nib.Gen.C18Facts.
Open Scope string_scope.

Fixpoint index_of (x : string) (l : list string) : option nat :=
  match l with
  | [] => None
  | y :: r => if String.eqb y x then Some O else option_map S (index_of x r)
  end.

Fixpoint occurrences (x : string) (l : list string) : nat :=
  match l with [] => O | y :: r => (if String.eqb y x then 1 else 0) + occurrences x r end.

Definition before (a b : string) (l : list string) : bool :=
  match index_of a l, index_of b l with
  | Some i, Some j => Nat.ltb i j
  | _, _ => false
  end.

Fixpoint list_eqb (a b : list string) : bool :=
  match a, b with
  | [], [] => true
  | x :: a', y :: b' => String.eqb x y && list_eqb a' b'
  | _, _ => false
  end.

(** The dev-gas payout decorator is in the non-EVM ante chain exactly once, after the (single) fee
    deduction — the payout is drawn from a collector that already holds this tx's fee — and it is
    built on the app's bank keeper. *)
Theorem C18_devgas_runs_once_after_fee_deduction :
  before "authante.NewDeductFeeDecorator" "devgasante.NewDevGasPayoutDecorator" nonevm_chain = true /\
  occurrences "authante.NewDeductFeeDecorator" nonevm_chain = 1 /\
  occurrences "devgasante.NewDevGasPayoutDecorator" nonevm_chain = 1 /\
  list_eqb devgas_decorator_args ["opts.DevGasBankKeeper"; "opts.DevGasKeeper"] = true /\
  devgas_bank_keeper_wiring = "app.BankKeeper".
Proof. vm_compute. repeat split; reflexivity. Qed.

(** The fee collector is among the module accounts the bank keeper is told to block
    (app_config.go: blockAccAddrs, wired as BlockedModuleAccountsOverride): a withdrawer equal to
    the fee collector can never be paid — [Proofs.env_ok]. *)
Theorem C18_fee_collector_is_blocked :
  occurrences "authtypes.FeeCollectorName" blocked_module_accounts = 1 /\
  blocked_override_wiring = "blockAccAddrs".
Proof. vm_compute. split; reflexivity. Qed.

(** FeePayLogic adds, per fee coin, NewCoin(denom, RoundInt(QuoInt64(MulInt(share, amount), n)));
    settleFeePayments sends FeePayLogic(getAllowedFees(params, tx fee), params.DeveloperShares,
    number of recipients) from the fee collector to every recipient, in one loop over the
    recipients; devGasPayout feeds it the recipients of the tx's own messages and the tx's own fee,
    behind the EnableFeeShare guard — the shape modelled by [Model.per_recipient],
    [Model.fee_pay_logic], [Model.pay_all], [Model.ante].
    Normal form of the extractor: R receiver, P<i> i-th parameter, locals inlined, loop variable =
    elem(ranged expression); a private field of the receiver is printed by its declared type
    (R.BankKeeper, R.IDevGasKeeper); the private helpers are found by what they do and printed by
    role (settle = calls SendCoinsFromModuleToAccount, payout = calls settle, recipients =
    asserts *MsgExecuteContract, allowed = first argument of FeePayLogic in settle) — each role
    must have exactly one candidate ([ante_lookup_notes] empty).  Independent of local / private
    names, method vs plain helper, import aliases, early returns, range vs index loops. *)
Theorem C18_payout_formula_as_modelled :
  reward_coin = "sdk.NewCoin(elem(P0.Sort()).Denom,P1.MulInt(elem(P0.Sort()).Amount).QuoInt64(int64(P2)).RoundInt())" /\
  send_call = "R.BankKeeper.SendCoinsFromModuleToAccount(P0,authtypes.FeeCollectorName,elem(P1),FeePayLogic(allowed(P2,P3),P2.DeveloperShares,len(P1)))" /\
  send_loop = "range(P1)" /\ send_call_sites = 1 /\
  list_eqb settle_args
    ["P0"; "recipients(P1.GetMsgs())#0"; "R.IDevGasKeeper.GetParams(P0)"; "P1.GetFee()"] = true /\
  payout_guard_enabled = true /\ ante_lookup_notes = [].
Proof. vm_compute. repeat split; reflexivity. Qed.

(** getAllowedFees adds a fee coin at most once, however often AllowedDenoms names its denom
    (Params.Validate accepts repeated entries) — [Model.allowed_factor] with [e_allowed_once]. *)
Theorem C18_allowed_fee_coin_counted_once :
  allowed_fees_break_after_first_match = true /\ allowed_fees_adds_per_match = 1.
Proof. vm_compute. split; reflexivity. Qed.

(** Recipients are collected by one loop over the transaction's own message list, only from
    MsgExecuteContract messages, looking only into the fee-share registry: no unwrapping of
    carriers, no recursion, no other helper. *)
Theorem C18_recipients_top_level_only :
  list_eqb recipients_asserted_types ["*wasmtypes.MsgExecuteContract"] = true /\
  list_eqb recipients_ranges ["param([]sdk.Msg)"] = true /\
  list_eqb recipients_local_calls ["IDevGasKeeper.GetFeeShare"] = true.
Proof. vm_compute. repeat split; reflexivity. Qed.

(** Every registry handler reads the params first, checks the authority (factory rule or
    admin-or-creator) on the address that signed the message, and only then writes. *)
Theorem C18_registry_writes_are_guarded :
  list_eqb calls_RegisterFeeShare
    ["R.GetParams"; "R.IsFeeShareRegistered"; "R.isContractCreatedFromFactory";
     "R.GetContractAdminOrCreatorAddress"; "R.SetFeeShare"] = true /\
  list_eqb calls_UpdateFeeShare
    ["R.GetParams"; "R.GetFeeShare"; "R.GetContractAdminOrCreatorAddress"; "R.SetFeeShare"] = true /\
  list_eqb calls_CancelFeeShare
    ["R.GetParams"; "R.GetFeeShare"; "R.GetContractAdminOrCreatorAddress"; "R.DevGasStore.Delete"] = true /\
  auth_error_returned_UpdateFeeShare = true /\ auth_error_returned_CancelFeeShare = true /\
  auth_checked_field_UpdateFeeShare = signer_field_MsgUpdateFeeShare /\
  auth_checked_field_CancelFeeShare = signer_field_MsgCancelFeeShare /\
  signer_field_MsgRegisterFeeShare = "DeployerAddress" /\
  signer_field_MsgUpdateFeeShare = "DeployerAddress" /\
  signer_field_MsgCancelFeeShare = "DeployerAddress".
Proof. vm_compute. repeat split; reflexivity. Qed.

(** ---- module parameters as part of the histories *)

(** the environment the implementation traces are evaluated in (tools/props/c18.py builds exactly
    this record for every case): ids 0 = fee collector, 1 = gov, 2 = distribution; everything
    else is extracted *)
Definition extracted_env : env :=
  {| e_collector := 0; e_gov := 1; e_blocked := [0; 2];
     e_allowed_once := allowed_fees_break_after_first_match;
     e_defaults := devgas_default_params; e_san := devgas_sanitize_rules |}.

(** What ModuleParams.Sanitize rewrites (the extracted guarded rewrites over the extracted
    DefaultParams()) keeps the meaning of EVERY parameter value: same EnableFeeShare, same
    DeveloperShares, the same denoms allowed.  In particular no valid value — not the corner
    "disabled, share 0, empty denom list" either — is read back as something else. *)
Theorem C18_sanitize_keeps_the_meaning_of_params :
  devgas_sanitize_understood = true /\ devgas_default_params_understood = true /\
  forall p, params_same (sanitize extracted_env p) p.
Proof.
  split; [reflexivity|]. split; [reflexivity|].
  intros [en sh [|d al]]; destruct en; destruct (Z.eqb_spec sh 0); subst;
    try (apply params_same_refl);
    unfold sanitize; cbn; repeat match goal with H : ?x <> 0%Z |- context [Z.eqb ?x 0] =>
      destruct (Z.eqb_spec x 0); [contradiction|] end; cbn; apply params_same_refl.
Qed.

(** Every reader goes through Keeper.GetParams = Sanitize(stored item) (the ante handler and the
    three registry handlers: [C18_payout_formula_as_modelled], [C18_registry_writes_are_guarded]);
    UpdateParams validates the request and stores it as it is; InitGenesis validates the genesis
    state (which validates its params) and stores Sanitize(params) — [Model.read_params],
    [Model.step_env]. *)
Theorem C18_params_are_read_and_stored_as_modelled :
  getparams_returns = "R.ModuleParams.Get(P0)#0.Sanitize()" /\
  update_params_stores = "P1.Params" /\ list_eqb update_params_validates ["P1.Params"] = true /\
  init_genesis_stores = "P2.Params.Sanitize()" /\ list_eqb init_genesis_validates ["P2"] = true /\
  genesis_validate_checks_params = true.
Proof. vm_compute. repeat split; reflexivity. Qed.

(** Hence the history theorem applies to the extracted configuration: for every history of
    transactions, parameter changes by MsgUpdateParams / genesis, admin changes and block
    boundaries from a state whose stored params mean what was set, every transaction satisfies the
    property against the parameters AS SET. *)
Theorem C18_property_holds_for_the_extracted_configuration :
  forall (evs : list event) (st : state),
  store_ok st -> Forall event_ok evs -> Forall (transition_ok extracted_env) (transitions extracted_env st evs).
Proof.
  intros evs st Hst Hev. apply history_satisfies_property; auto.
  split; [simpl; auto|]. split; [reflexivity|].
  intros p _. apply C18_sanitize_keeps_the_meaning_of_params.
Qed.
