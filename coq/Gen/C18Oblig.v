(** C18 — obligations over the facts regenerated from /repo (Gen/C18Facts.v): the parts of the
    property that are "which decorator order / which formula / which guard before which write". *)
From Coq Require Import String List Bool Arith.
Import ListNotations.
Require Import Nib.Gen.C18Facts.
Open Scope string_scope.

Fixpoint index_of (x : string) (l : list string) : option nat :=
  match l with
  | [] => None
  | y :: r => if String.eqb y x then Some O else option_map S (index_of x r)
  end.

Fixpoint occurrences (x : string) (l : list string) : nat :=
  match l with [] => O | y :: r => (if String.eqb y x then 1 else 0) + occurrences x r end.

Definition before (a b : string) (l : list string) : bool :=
  match index_of a l, index_of b l with
  | Some i, Some j => Nat.ltb i j
  | _, _ => false
  end.

Fixpoint list_eqb (a b : list string) : bool :=
  match a, b with
  | [], [] => true
  | x :: a', y :: b' => String.eqb x y && list_eqb a' b'
  | _, _ => false
  end.

(** The dev-gas payout decorator is in the non-EVM ante chain exactly once, after the (single) fee
    deduction — the payout is drawn from a collector that already holds this tx's fee — and it is
    built on the app's bank keeper. *)
Theorem C18_devgas_runs_once_after_fee_deduction :
  before "authante.NewDeductFeeDecorator" "devgasante.NewDevGasPayoutDecorator" nonevm_chain = true /\
  occurrences "authante.NewDeductFeeDecorator" nonevm_chain = 1 /\
  occurrences "devgasante.NewDevGasPayoutDecorator" nonevm_chain = 1 /\
  list_eqb devgas_decorator_args ["opts.DevGasBankKeeper"; "opts.DevGasKeeper"] = true /\
  devgas_bank_keeper_wiring = "app.BankKeeper".
Proof. vm_compute. repeat split; reflexivity. Qed.

(** The fee collector is among the module accounts the bank keeper is told to block
    (app_config.go: blockAccAddrs, wired as BlockedModuleAccountsOverride): a withdrawer equal to
    the fee collector can never be paid — [Proofs.env_ok]. *)
Theorem C18_fee_collector_is_blocked :
  occurrences "authtypes.FeeCollectorName" blocked_module_accounts = 1 /\
  blocked_override_wiring = "blockAccAddrs".
Proof. vm_compute. split; reflexivity. Qed.

(** FeePayLogic computes, per fee coin, RoundInt(QuoInt64(MulInt(share, amount), n)) and
    settleFeePayments sends that one coin set from the fee collector to every recipient, on the
    tx's own fee filtered by getAllowedFees — the shape modelled by [Model.per_recipient],
    [Model.fee_pay_logic], [Model.pay_all].  (R receiver, P<i> i-th parameter, L<k> k-th local.) *)
Theorem C18_payout_formula_as_modelled :
  reward_expr = "P1.MulInt(L1.Amount).QuoInt64(int64(P2)).RoundInt()" /\
  reward_added = "L0=L0.Add(sdk.NewCoin(L1.Denom,L2))" /\
  reward_range = "P0.Sort()" /\
  list_eqb settle_calls
    ["getAllowedFees(P2,P3)"; "FeePayLogic(L0,L3,L1)";
     "R.bankKeeper.SendCoinsFromModuleToAccount(P0,authtypes.FeeCollectorName,L6,L4)"] = true /\
  payout_fee_source = "P1.GetFee()" /\
  payout_guard_enabled = true /\ payout_guard_empty = true.
Proof. vm_compute. repeat split; reflexivity. Qed.

(** getAllowedFees adds a fee coin at most once, however often AllowedDenoms names its denom
    (Params.Validate accepts repeated entries) — [Model.allowed_factor] with [e_allowed_once]. *)
Theorem C18_allowed_fee_coin_counted_once :
  allowed_fees_break_after_first_match = true /\ allowed_fees_adds_per_match = 1.
Proof. vm_compute. split; reflexivity. Qed.

(** Recipients are collected from the transaction's own message list only, and only from
    MsgExecuteContract messages: no unwrapping of carriers, no recursion. *)
Theorem C18_recipients_top_level_only :
  list_eqb recipients_asserted_types ["*wasmtypes.MsgExecuteContract"] = true /\
  recipients_range = "P1" /\
  occurrences "R.getWithdrawAddressesFromMsgs" recipients_calls = 0 /\
  list_eqb recipients_calls
    ["make"; "sdk.AccAddressFromBech32"; "R.devgasKeeper.GetFeeShare"; "L4.GetWithdrawerAddr"; "L5.Empty"; "append"] = true.
Proof. vm_compute. repeat split; reflexivity. Qed.

(** Every registry handler reads the params first, checks the authority (factory rule or
    admin-or-creator) on the address that signed the message, and only then writes. *)
Theorem C18_registry_writes_are_guarded :
  list_eqb calls_RegisterFeeShare
    ["k.GetParams"; "k.IsFeeShareRegistered"; "k.isContractCreatedFromFactory";
     "k.GetContractAdminOrCreatorAddress"; "k.SetFeeShare"] = true /\
  list_eqb calls_UpdateFeeShare
    ["k.GetParams"; "k.GetFeeShare"; "k.GetContractAdminOrCreatorAddress"; "k.SetFeeShare"] = true /\
  list_eqb calls_CancelFeeShare
    ["k.GetParams"; "k.GetFeeShare"; "k.GetContractAdminOrCreatorAddress"; "k.DevGasStore.Delete"] = true /\
  auth_error_returned_UpdateFeeShare = true /\ auth_error_returned_CancelFeeShare = true /\
  auth_checked_field_UpdateFeeShare = signer_field_MsgUpdateFeeShare /\
  auth_checked_field_CancelFeeShare = signer_field_MsgCancelFeeShare /\
  signer_field_MsgRegisterFeeShare = "DeployerAddress" /\
  signer_field_MsgUpdateFeeShare = "DeployerAddress" /\
  signer_field_MsgCancelFeeShare = "DeployerAddress".
Proof. vm_compute. repeat split; reflexivity. Qed.
