(** C05 — obligations over the facts regenerated from /repo (Gen/C05Facts.v). *)
From Coq Require Import List Bool Arith ZArith String.
Require Import Nib.C05.Model Nib.C05.Spec Nib.C05.Facts Nib.C05.Proofs Nib.C05.Property.
Require Import Nib.Gen.C05Facts.

(** 10^12 wei per unibi, positive base fee, EIP-3529 quotient 5; the prepayment is
    WeiToNative(EffectiveFeeWei(base fee)) taken from the signer; the refund is
    WeiToNative((gasLimit - gasUsed) x effective price) paid by the fee collector to the sender;
    the refund counter is capped. *)
Theorem C05_current_facts_ok : facts_ok current_facts = true.
Proof. vm_compute. reflexivity. Qed.

(** balance check and CanTransfer run before the single fee-deducting decorator *)
Theorem C05_current_chain_ok : chain_ok evm_ante_constructors = true.
Proof. vm_compute. reflexivity. Qed.

(** the model's conversion constant is the linked package's *)
Theorem C05_model_constant_is_current : k_wei_per_unibi current_facts = WEI.
Proof. vm_compute. reflexivity. Qed.
