(** C05 — obligations over the facts regenerated from /repo (Gen/C05Facts.v). *)
From Coq Require Import List Bool Arith ZArith String.
Require Import Nib.C05.Model Nib.C05.Spec Nib.C05.Facts Nib.C05.Property.
Require Import Nib.Gen.C05Facts.

Theorem C05_current_facts_ok : facts_ok current_facts = true.
Proof. vm_compute. reflexivity. Qed.

Theorem C05_current_chain_ok : chain_ok evm_ante_constructors = true.
Proof. vm_compute. reflexivity. Qed.
