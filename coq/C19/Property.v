(** C19 — EVM log and transaction indices are unique and gap-free within a block; the block bloom
    published at end of block is the union of the blooms of all logs of the block.
    This file holds only the exported statements. *)
From Coq Require Import String.
From Coq Require Import List Bool Arith.
Import ListNotations.
Require Import Nib.C19.Sites Nib.C19.Model Nib.C19.Spec Nib.C19.Proofs.

(** A block = messages executed in BeginBlock, delivered txs, and the module EndBlockers in the order [O] of
    app/app_config.go (message-executing EndBlockers run the proposals that came due; x/evm publishes the bloom).
    For every block (any ops, any multiplicity, any order, any proposals) and ANY EndBlocker order: tx indices of
    executed Ethereum txs are 0,1,2,…; log indices of all logs of the block — DeliverTx and EndBlock-executed
    messages alike — are 0,1,2,… in emission order; logs of an Ethereum tx carry its tx index — provided every
    updateBlockBloom call site passes the current block log size (generated facts [W]). *)
Theorem C19_indices_consecutive :
  forall (W : sites) (O : wiring) (b : block), sites_ok W = true -> P (r_emits (run_full W O b)).
Proof. intros W O b H. exact (full_indices_consecutive W O b H). Qed.
Print Assumptions C19_indices_consecutive.

(** Exactly one bloom is published and it folds in exactly the logs emitted in the block, and BlockLogSize equals
    their number — under the ORDER FACT [wiring_ok]: x/evm's EndBlocker runs once and only inert EndBlockers follow it. *)
Theorem C19_bloom_is_union :
  forall (W : sites) (O : wiring) (b : block), sites_ok W = true -> wiring_ok O = true ->
  Pbloom (r_emits (run_full W O b)) (r_pubs (run_full W O b)) /\
  log_size (r_final (run_full W O b)) = length (all_logs (r_emits (run_full W O b))).
Proof. intros W O b H1 H2. exact (full_bloom_is_union W O b H1 H2). Qed.
Print Assumptions C19_bloom_is_union.

(** The order fact is exactly what is needed: the bloom is the union for all blocks IFF the order fact holds. *)
Theorem C19_bloom_union_iff_order :
  forall (W : sites) (O : wiring),
  (forall b, Pbloom (r_emits (run_full W O b)) (r_pubs (run_full W O b))) <-> order_ok (end_order O) = true.
Proof. exact bloom_union_iff_order. Qed.
Print Assumptions C19_bloom_union_iff_order.

(** Variant flag "x/evm's EndBlocker before x/gov's" (evm.ModuleName moved up in orderedModuleNames): refuted by a
    block with one Ethereum tx and one passed proposal carrying a MsgCreateFunToken. *)
Theorem C19_evm_before_gov_refuted :
  sites_ok good_sites = true /\
  exists b, ~ Pbloom (r_emits (run_full good_sites evm_before_gov b)) (r_pubs (run_full good_sites evm_before_gov b)).
Proof. exact evm_before_gov_refuted. Qed.
Print Assumptions C19_evm_before_gov_refuted.

(** Reverted and failing transactions contribute no logs, no bloom bits, no log indices. *)
Theorem C19_reverted_contribute_nothing :
  forall (W : sites) (s : st) (o : op), o_out o <> Ok ->
  e_logs (snd (step W s o)) = [] /\ bloom (fst (step W s o)) = bloom s /\
  log_size (fst (step W s o)) = log_size s.
Proof. intros W s o H. exact (no_logs_unless_ok W s o H). Qed.
Print Assumptions C19_reverted_contribute_nothing.

(** A proposal one of whose messages fails is rolled back as a whole: no logs, state unchanged. *)
Theorem C19_failed_proposal_contributes_nothing :
  forall (W : sites) (s : st) (p : proposal), forallb msg_ok p = false -> run_prop W s p = (s, nothing).
Proof. exact failed_proposal_contributes_nothing. Qed.
Print Assumptions C19_failed_proposal_contributes_nothing.

(** Over consecutive blocks (the transient state restarts at [init] in every block). *)
Theorem C19_every_block_of_a_history :
  forall (W : sites) (O : wiring) (blocks : list block), sites_ok W = true -> wiring_ok O = true ->
  Forall (fun b => P (r_emits (run_full W O b)) /\ Pbloom (r_emits (run_full W O b)) (r_pubs (run_full W O b))) blocks.
Proof. intros W O blocks H1 H2. exact (history_full W O blocks H1 H2). Qed.
Print Assumptions C19_every_block_of_a_history.

(** The boolean checkers evaluated on implementation traces are sound. *)
Theorem C19_checker_sound : forall es, Pb es = true -> P es.
Proof. exact Pb_sound. Qed.
Print Assumptions C19_checker_sound.

Theorem C19_block_checker_sound : forall es pubs ok, Pobs_b es pubs ok = true -> Pobs es pubs ok.
Proof. exact Pobs_b_sound. Qed.
Print Assumptions C19_block_checker_sound.

(** The call-site bases of the pinned tree (before the fix: commit) violate the property. *)
Theorem C19_pinned_tree_refuted : exists ops, Pb (snd (run_block pinned_sites ops)) = false.
Proof. exact pinned_tree_refuted. Qed.
Print Assumptions C19_pinned_tree_refuted.
