(** C19 — EVM log and transaction indices are unique and gap-free within a block.
    This file holds only the exported statements. *)
From Coq Require Import List Bool Arith.
Import ListNotations.
Require Import Nib.C19.Sites Nib.C19.Model Nib.C19.Spec Nib.C19.Proofs.

(** For every block composition (any ops, any multiplicity, any order): tx indices of executed
    Ethereum txs are 0,1,2,…; log indices of all logs are 0,1,2,… in emission order; logs of an
    Ethereum tx carry its tx index — provided every updateBlockBloom call site passes the current
    block log size (the generated facts, re-extracted from /repo on every run). *)
Theorem C19_indices_consecutive :
  forall (W : sites) (ops : list op), sites_ok W = true -> P (snd (run_block W ops)).
Proof. intros W ops H. exact (block_indices_consecutive W ops H). Qed.
Print Assumptions C19_indices_consecutive.

(** The published block bloom folds in exactly the logs emitted in the block, and BlockLogSize
    equals their number. *)
Theorem C19_bloom_is_union :
  forall (W : sites) (ops : list op), sites_ok W = true ->
  bloom (fst (run_block W ops)) = all_logs (snd (run_block W ops)) /\
  log_size (fst (run_block W ops)) = length (all_logs (snd (run_block W ops))).
Proof. intros W ops H. exact (block_bloom_is_union W ops H). Qed.
Print Assumptions C19_bloom_is_union.

(** Reverted and failing transactions contribute no logs, no bloom bits, no log indices. *)
Theorem C19_reverted_contribute_nothing :
  forall (W : sites) (s : st) (o : op), o_out o <> Ok ->
  e_logs (snd (step W s o)) = [] /\ bloom (fst (step W s o)) = bloom s /\
  log_size (fst (step W s o)) = log_size s.
Proof. intros W s o H. exact (no_logs_unless_ok W s o H). Qed.
Print Assumptions C19_reverted_contribute_nothing.

(** Over consecutive blocks. *)
Theorem C19_every_block_of_a_history :
  forall (W : sites) (blocks : list (list op)), sites_ok W = true ->
  Forall (fun ops => P (snd (run_block W ops))) blocks.
Proof. intros W blocks H. exact (history_indices_consecutive W blocks H). Qed.
Print Assumptions C19_every_block_of_a_history.

(** The boolean checker evaluated on implementation traces is sound for [P]. *)
Theorem C19_checker_sound : forall es, Pb es = true -> P es.
Proof. exact Pb_sound. Qed.
Print Assumptions C19_checker_sound.

(** The call-site bases of the pinned tree (before the fix: commit) violate the property. *)
Theorem C19_pinned_tree_refuted : exists ops, Pb (snd (run_block pinned_sites ops)) = false.
Proof. exact pinned_tree_refuted. Qed.
Print Assumptions C19_pinned_tree_refuted.
