(** C19 — what the generated facts (Gen/C19Facts.v) are stated in terms of. *)
From Coq Require Import List Bool Arith.
Import ListNotations.

(** The expression a call site of [updateBlockBloom] passes as base log index. *)
Inductive base :=
| BaseTxCfgLogIndex   (* uint64(txConfig.LogIndex), txConfig := k.TxConfig(ctx, _) taken before execution *)
| BaseLogSize         (* k.EvmState.BlockLogSize.GetOr(ctx, 0) *)
| BaseTxIndex         (* uint64(k.EvmState.BlockTxIndex.GetOr(ctx, 0)) *)
| BaseZero            (* uint64(0) *)
| BaseUnknown.        (* anything else: the model cannot follow it *)

Record sites := {
  s_eth        : base;  (* Keeper.EthereumTx *)
  s_deploy     : base;  (* Keeper.deployERC20ForBankCoin (MsgCreateFunToken from a bank coin) *)
  s_conv_coin  : base;  (* Keeper.convertCoinToEvmBornCoin *)
  s_conv_erc20 : base;  (* Keeper.convertCoinToEvmBornERC20 *)
  (* StateDB.AddLog: log.Index = txConfig.LogIndex + len(logs), log.TxIndex = txConfig.TxIndex *)
  addlog_index_from_cfg : bool;
  (* Keeper.TxConfig: LogIndex = BlockLogSize.GetOr(ctx,0), TxIndex = BlockTxIndex.GetOr(ctx,0) *)
  cfg_reads_transient : bool;
  (* EthereumTx ends with BlockTxIndex.Set(ctx, txConfig.TxIndex + 1) *)
  txindex_incremented : bool;
  (* updateBlockBloom: BlockLogSize := base + len(logs) only when len(logs) > 0 *)
  logsize_set_formula : bool;
  n_call_sites : nat    (* number of updateBlockBloom call sites found in non-test code *)
}.

Definition base_good (b : base) : bool :=
  match b with BaseTxCfgLogIndex | BaseLogSize => true | _ => false end.

Definition sites_ok (S : sites) : bool :=
  base_good (s_eth S) && base_good (s_deploy S) && base_good (s_conv_coin S) &&
  base_good (s_conv_erc20 S) && addlog_index_from_cfg S && cfg_reads_transient S &&
  txindex_incremented S && logsize_set_formula S && (n_call_sites S =? 4).
