(** C19 — what the generated facts (Gen/C19Facts.v) are stated in terms of. *)
From Coq Require Import List Bool Arith String.
Import ListNotations.

(** The expression a call site of [updateBlockBloom] passes as base log index. *)
Inductive base :=
| BaseTxCfgLogIndex   (* uint64(txConfig.LogIndex), txConfig := k.TxConfig(ctx, _) taken before execution *)
| BaseLogSize         (* k.EvmState.BlockLogSize.GetOr(ctx, 0) *)
| BaseTxIndex         (* uint64(k.EvmState.BlockTxIndex.GetOr(ctx, 0)) *)
| BaseZero            (* uint64(0) *)
| BaseUnknown.        (* anything else: the model cannot follow it *)

Record sites := {
  s_eth        : base;  (* Keeper.EthereumTx *)
  s_deploy     : base;  (* Keeper.deployERC20ForBankCoin (MsgCreateFunToken from a bank coin) *)
  s_conv_coin  : base;  (* Keeper.convertCoinToEvmBornCoin *)
  s_conv_erc20 : base;  (* Keeper.convertCoinToEvmBornERC20 *)
  (* StateDB.AddLog: log.Index = txConfig.LogIndex + len(logs), log.TxIndex = txConfig.TxIndex *)
  addlog_index_from_cfg : bool;
  (* Keeper.TxConfig: LogIndex = BlockLogSize.GetOr(ctx,0), TxIndex = BlockTxIndex.GetOr(ctx,0) *)
  cfg_reads_transient : bool;
  (* EthereumTx ends with BlockTxIndex.Set(ctx, txConfig.TxIndex + 1) *)
  txindex_incremented : bool;
  (* updateBlockBloom: BlockLogSize := base + len(logs) only when len(logs) > 0 *)
  logsize_set_formula : bool;
  n_call_sites : nat    (* number of updateBlockBloom call sites found in non-test code *)
}.

Definition base_good (b : base) : bool :=
  match b with BaseTxCfgLogIndex | BaseLogSize => true | _ => false end.

Definition sites_ok (S : sites) : bool :=
  base_good (s_eth S) && base_good (s_deploy S) && base_good (s_conv_coin S) &&
  base_good (s_conv_erc20 S) && addlog_index_from_cfg S && cfg_reads_transient S &&
  txindex_incremented S && logsize_set_formula S && (n_call_sites S =? 4).

(** * Block wiring: the order of the module EndBlockers (runtime module config of app/app_config.go,
    re-extracted on every run) and what the EndBlocker of each module can do to the EVM's per-block state. *)
Inductive eclass :=
| Inert     (* its EndBlocker executes no sdk.Msg and makes no EVM call: it cannot emit an EVM log *)
| MayExec   (* its EndBlocker dispatches messages through the msg service router (x/gov: passed proposals),
               or the module is not known to this table: it may emit EVM logs *)
| Publish.  (* x/evm: emits EventBlockBloom from the transient bloom *)

(** Modules of the current tree whose EndBlocker is inert (absent, empty, or: x/staking validator-set update,
    x/crisis invariants, x/oracle vote tally, x/feegrant / x/group pruning — x/group's EndBlocker only tallies and
    prunes, group proposals are executed by MsgExec inside DeliverTx).  Names are the modules' [ModuleName]s. *)
Definition inert_modules : list string :=
  [ "upgrade"; "capability"; "auth"; "bank"; "distribution"; "staking"; "slashing"; "crisis"; "genutil";
    "evidence"; "authz"; "feegrant"; "params"; "consensus"; "vesting"; "group"; "mint"; "nft";
    "epochs"; "oracle"; "inflation"; "sudo"; "devgas"; "tokenfactory"; "genmsg";
    "transfer"; "ibc"; "feeibc"; "interchainaccounts"; "08-wasm"; "wasm" ]%string.

Definition classify (m : string) : eclass :=
  if String.eqb m "evm" then Publish
  else if existsb (String.eqb m) inert_modules then Inert
  else MayExec.

Record wiring := {
  end_order   : list string;   (* EndBlockers of the runtime module config, in order *)
  begin_order : list string;   (* BeginBlockers, in order — informative: every BeginBlocker runs before every tx and every
                                  EndBlocker on the freshly reset transient store, so its logs are always in the bloom *)
  evm_beginblock_noop : bool   (* informative: Keeper.BeginBlock has an empty body *)
}.

Definition is_inert (m : string) : bool := match classify m with Inert => true | _ => false end.

(** x/evm publishes exactly once, and every EndBlocker that runs after it is inert. *)
Fixpoint order_ok (order : list string) : bool :=
  match order with
  | [] => false
  | m :: r => match classify m with
              | Publish => forallb is_inert r
              | _ => order_ok r
              end
  end.

Definition wiring_ok (O : wiring) : bool := order_ok (end_order O).
