(** C19 — the property over what a block publishes, as Prop and as boolean checker. *)
From Coq Require Import List Bool Arith Lia.
Import ListNotations.
Require Import Nib.C19.Sites Nib.C19.Model.

Definition all_log_idx (es : list emit) : list nat := concat (map (fun e => map fst (e_logs e)) es).
Definition all_tx_idx (es : list emit) : list nat := concat (map e_txidx es).
Definition all_logs (es : list emit) : list (nat * nat) := concat (map e_logs es).

(** a log emitted by an Ethereum tx carries that tx's index *)
Definition eth_logs_carry_tx (e : emit) : Prop :=
  forall t, e_txidx e = [t] -> forall l, In l (e_logs e) -> snd l = t.

Definition P (es : list emit) : Prop :=
  all_log_idx es = seq 0 (length (all_log_idx es)) /\
  all_tx_idx es = seq 0 (length (all_tx_idx es)) /\
  Forall eth_logs_carry_tx es.

Fixpoint list_eqb (a b : list nat) : bool :=
  match a, b with
  | [], [] => true
  | x :: a', y :: b' => (x =? y) && list_eqb a' b'
  | _, _ => false
  end.

Lemma list_eqb_eq a b : list_eqb a b = true -> a = b.
Proof.
  revert b; induction a as [|x a IH]; intros [|y b] H; simpl in H; try discriminate; auto.
  apply andb_true_iff in H as [H1 H2]. apply Nat.eqb_eq in H1. subst. f_equal. auto.
Qed.

Definition carry_b (e : emit) : bool :=
  match e_txidx e with
  | [t] => forallb (fun l => snd l =? t) (e_logs e)
  | _ => true
  end.

Definition Pb (es : list emit) : bool :=
  list_eqb (all_log_idx es) (seq 0 (length (all_log_idx es))) &&
  list_eqb (all_tx_idx es) (seq 0 (length (all_tx_idx es))) &&
  forallb carry_b es.

Lemma Pb_sound es : Pb es = true -> P es.
Proof.
  unfold Pb, P. intro H.
  apply andb_true_iff in H as [H H3]. apply andb_true_iff in H as [H1 H2].
  split; [apply list_eqb_eq; exact H1|]. split; [apply list_eqb_eq; exact H2|].
  apply Forall_forall. intros e He.
  rewrite forallb_forall in H3. specialize (H3 e He).
  unfold carry_b in H3. unfold eth_logs_carry_tx. intros t Ht l Hl.
  rewrite Ht in H3. rewrite forallb_forall in H3. specialize (H3 l Hl).
  apply Nat.eqb_eq in H3. exact H3.
Qed.

(** * The block bloom: exactly one EventBlockBloom is published per block and it folds in exactly the
    logs of the block (all phases).  [pubs] = for every published bloom, the logs folded into it. *)
Definition Pbloom (es : list emit) (pubs : list (list (nat * nat))) : Prop := pubs = [all_logs es].

(** On implementation traces a published bloom is observed as (number of logs of the block emitted before the
    EventBlockBloom event, does it equal the union of the blooms of ALL logs of the block). *)
Definition Pobs (es : list emit) (pubs : list nat) (bloom_ok : bool) : Prop :=
  P es /\ pubs = [length (all_logs es)] /\ bloom_ok = true.

Definition Pobs_b (es : list emit) (pubs : list nat) (bloom_ok : bool) : bool :=
  Pb es && list_eqb pubs [length (all_logs es)] && bloom_ok.

Lemma Pobs_b_sound es pubs ok : Pobs_b es pubs ok = true -> Pobs es pubs ok.
Proof.
  unfold Pobs_b, Pobs. intro H.
  apply andb_true_iff in H as [H H3]. apply andb_true_iff in H as [H1 H2].
  split; [apply Pb_sound; exact H1|]. split; [apply list_eqb_eq; exact H2| exact H3].
Qed.
