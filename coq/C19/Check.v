(** C19 — evaluation of implementation traces: correspondence (model vs observed) and
    the property predicate [Pb] on the observed trace itself. *)
From Coq Require Import String.
From Coq Require Import List Bool Arith.
Import ListNotations.
Require Import Nib.C19.Sites Nib.C19.Model Nib.C19.Spec.

(** one delivered op with what the implementation published for it *)
Definition obs_op : Type := op * emit.

(** one block as observed on the implementation *)
Record obs_block := {
  ob_begin : list obs_op;     (* messages executed in BeginBlock with the logs their events carried (none in the current tree) *)
  ob_txs   : list obs_op;     (* DeliverTx *)
  ob_end   : list (string * list (proposal * emit));
                              (* per message-executing EndBlocker: the proposals that came due in this block and
                                 the logs of the events each of them published in the EndBlock response *)
  ob_pubs  : list nat;        (* for every EventBlockBloom of the block: how many logs of the block had been emitted before it *)
  ob_bloom_ok : bool          (* exactly one EventBlockBloom and it equals the union of the blooms of ALL logs of the block *)
}.
Definition case : Type := list obs_block.

Definition block_of (b : obs_block) : block :=
  {| b_begin := map fst (ob_begin b); b_txs := map fst (ob_txs b);
     b_end := map (fun me => (fst me, map fst (snd me))) (ob_end b) |}.

Definition observed_emits (b : obs_block) : list emit :=
  map snd (ob_begin b) ++ map snd (ob_txs b) ++ concat (map (fun me => map snd (snd me)) (ob_end b)).

Fixpoint pairs_eqb (a b : list (nat * nat)) : bool :=
  match a, b with
  | [], [] => true
  | (x1, x2) :: a', (y1, y2) :: b' => (x1 =? y1) && (x2 =? y2) && pairs_eqb a' b'
  | _, _ => false
  end.

Definition emit_eqb (a b : emit) : bool :=
  Bool.eqb (e_ok a) (e_ok b) && list_eqb (e_txidx a) (e_txidx b) && pairs_eqb (e_logs a) (e_logs b).

Fixpoint emits_eqb (a b : list emit) : bool :=
  match a, b with
  | [], [] => true
  | x :: a', y :: b' => emit_eqb x y && emits_eqb a' b'
  | _, _ => false
  end.

Definition block_mismatch (W : sites) (O : wiring) (b : obs_block) : bool :=
  let r := run_full W O (block_of b) in
  negb (emits_eqb (r_emits r) (observed_emits b) && list_eqb (map (@length _) (r_pubs r)) (ob_pubs b)).

Definition mismatch (W : sites) (O : wiring) (c : case) : bool := existsb (block_mismatch W O) c.

Definition block_violates (b : obs_block) : bool :=
  negb (Pobs_b (observed_emits b) (ob_pubs b) (ob_bloom_ok b)).

Definition violates (c : case) : bool := existsb block_violates c.

Definition ids_where {A} (f : A -> bool) (l : list (nat * A)) : list nat :=
  map fst (filter (fun x => f (snd x)) l).
