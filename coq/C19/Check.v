(** C19 — evaluation of implementation traces: correspondence (model vs observed) and
    the property predicate [Pb] on the observed trace itself. *)
From Coq Require Import List Bool Arith.
Import ListNotations.
Require Import Nib.C19.Sites Nib.C19.Model Nib.C19.Spec.

(** one delivered op with what the implementation published for it *)
Definition obs_op : Type := op * emit.
(** one block: its ops and whether EventBlockBloom equalled the union of the log blooms *)
Definition obs_block : Type := list obs_op * bool.
Definition case : Type := list obs_block.

Fixpoint pairs_eqb (a b : list (nat * nat)) : bool :=
  match a, b with
  | [], [] => true
  | (x1, x2) :: a', (y1, y2) :: b' => (x1 =? y1) && (x2 =? y2) && pairs_eqb a' b'
  | _, _ => false
  end.

Definition emit_eqb (a b : emit) : bool :=
  Bool.eqb (e_ok a) (e_ok b) && list_eqb (e_txidx a) (e_txidx b) && pairs_eqb (e_logs a) (e_logs b).

Fixpoint emits_eqb (a b : list emit) : bool :=
  match a, b with
  | [], [] => true
  | x :: a', y :: b' => emit_eqb x y && emits_eqb a' b'
  | _, _ => false
  end.

Definition block_mismatch (W : sites) (b : obs_block) : bool :=
  negb (emits_eqb (snd (run_block W (map fst (fst b)))) (map snd (fst b))).

Definition mismatch (W : sites) (c : case) : bool := existsb (block_mismatch W) c.

Definition block_violates (b : obs_block) : bool :=
  negb (Pb (map snd (fst b)) && snd b).

Definition violates (c : case) : bool := existsb block_violates c.

Definition ids_where {A} (f : A -> bool) (l : list (nat * A)) : list nat :=
  map fst (filter (fun x => f (snd x)) l).
