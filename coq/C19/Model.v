(** C19 — executable model of the per-block EVM index bookkeeping
    (x/evm/keeper/msg_server.go, funtoken_from_coin.go, vm_config.go, statedb.AddLog). *)
From Coq Require Import List Bool Arith.
Import ListNotations.
Require Import Nib.C19.Sites.

Inductive outcome := Ok | Revert | FailAnte | FailMsg.
Inductive kind := Eth | Create | ConvCoin | ConvErc20.
Record op := { o_kind : kind; o_out : outcome; o_k : nat }.

(** transient per-block state; [bloom] is the multiset of logs folded into BlockBloom *)
Record st := { tx_index : nat; log_size : nat; bloom : list (nat * nat) }.
Definition init : st := {| tx_index := 0; log_size := 0; bloom := [] |}.

(** what one DeliverTx publishes: accepted?, EventEthereumTx indices, (log index, log tx index) *)
Record emit := { e_ok : bool; e_txidx : list nat; e_logs : list (nat * nat) }.

Definition site_of (W : sites) (k : kind) : base :=
  match k with Eth => s_eth W | Create => s_deploy W | ConvCoin => s_conv_coin W | ConvErc20 => s_conv_erc20 W end.

Definition eval_base (b : base) (cfg_log : nat) (s : st) : nat :=
  match b with
  | BaseTxCfgLogIndex => cfg_log
  | BaseLogSize | BaseUnknown => log_size s
  | BaseTxIndex => tx_index s
  | BaseZero => 0
  end.

Definition is_eth (k : kind) : bool := match k with Eth => true | _ => false end.

Definition nothing : emit := {| e_ok := false; e_txidx := []; e_logs := [] |}.

Definition step (W : sites) (s : st) (o : op) : st * emit :=
  let cfgL := log_size s in
  let cfgT := tx_index s in
  match o_out o with
  | FailAnte | FailMsg => (s, nothing)
  | Revert =>
      if is_eth (o_kind o)
      then ({| tx_index := S (tx_index s); log_size := log_size s; bloom := bloom s |},
            {| e_ok := true; e_txidx := [cfgT]; e_logs := [] |})
      else (s, nothing)
  | Ok =>
      let k := o_k o in
      let logs := map (fun i => (cfgL + i, cfgT)) (seq 0 k) in
      let ls := if k =? 0 then log_size s else eval_base (site_of W (o_kind o)) cfgL s + k in
      ({| tx_index := if is_eth (o_kind o) then S (tx_index s) else tx_index s;
          log_size := ls; bloom := bloom s ++ logs |},
       {| e_ok := true; e_txidx := if is_eth (o_kind o) then [cfgT] else []; e_logs := logs |})
  end.

Fixpoint run (W : sites) (s : st) (ops : list op) : st * list emit :=
  match ops with
  | [] => (s, [])
  | o :: r => let '(s1, e) := step W s o in let '(s2, es) := run W s1 r in (s2, e :: es)
  end.

Definition run_block (W : sites) (ops : list op) : st * list emit := run W init ops.
