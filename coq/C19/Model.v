(** C19 — executable model of the per-block EVM index bookkeeping
    (x/evm/keeper/msg_server.go, funtoken_from_coin.go, vm_config.go, statedb.AddLog) and of the block
    life cycle around it: BeginBlock phase, delivered txs, EndBlock phase = the module EndBlockers in the
    order of app/app_config.go (x/gov executes passed proposals, x/evm publishes the block bloom). *)
From Coq Require Import String.
From Coq Require Import List Bool Arith.
Import ListNotations.
Require Import Nib.C19.Sites.

Inductive outcome := Ok | Revert | FailAnte | FailMsg.
Inductive kind := Eth | Create | ConvCoin | ConvErc20.
Record op := { o_kind : kind; o_out : outcome; o_k : nat }.

(** transient per-block state; [bloom] is the multiset of logs folded into BlockBloom *)
Record st := { tx_index : nat; log_size : nat; bloom : list (nat * nat) }.
Definition init : st := {| tx_index := 0; log_size := 0; bloom := [] |}.

(** what one DeliverTx publishes: accepted?, EventEthereumTx indices, (log index, log tx index) *)
Record emit := { e_ok : bool; e_txidx : list nat; e_logs : list (nat * nat) }.

Definition site_of (W : sites) (k : kind) : base :=
  match k with Eth => s_eth W | Create => s_deploy W | ConvCoin => s_conv_coin W | ConvErc20 => s_conv_erc20 W end.

Definition eval_base (b : base) (cfg_log : nat) (s : st) : nat :=
  match b with
  | BaseTxCfgLogIndex => cfg_log
  | BaseLogSize | BaseUnknown => log_size s
  | BaseTxIndex => tx_index s
  | BaseZero => 0
  end.

Definition is_eth (k : kind) : bool := match k with Eth => true | _ => false end.

Definition nothing : emit := {| e_ok := false; e_txidx := []; e_logs := [] |}.

Definition step (W : sites) (s : st) (o : op) : st * emit :=
  let cfgL := log_size s in
  let cfgT := tx_index s in
  match o_out o with
  | FailAnte | FailMsg => (s, nothing)
  | Revert =>
      if is_eth (o_kind o)
      then ({| tx_index := S (tx_index s); log_size := log_size s; bloom := bloom s |},
            {| e_ok := true; e_txidx := [cfgT]; e_logs := [] |})
      else (s, nothing)
  | Ok =>
      let k := o_k o in
      let logs := map (fun i => (cfgL + i, cfgT)) (seq 0 k) in
      let ls := if k =? 0 then log_size s else eval_base (site_of W (o_kind o)) cfgL s + k in
      ({| tx_index := if is_eth (o_kind o) then S (tx_index s) else tx_index s;
          log_size := ls; bloom := bloom s ++ logs |},
       {| e_ok := true; e_txidx := if is_eth (o_kind o) then [cfgT] else []; e_logs := logs |})
  end.

Fixpoint run (W : sites) (s : st) (ops : list op) : st * list emit :=
  match ops with
  | [] => (s, [])
  | o :: r => let '(s1, e) := step W s o in let '(s2, es) := run W s1 r in (s2, e :: es)
  end.

Definition run_block (W : sites) (ops : list op) : st * list emit := run W init ops.

(** * The whole block: logs are also emitted OUTSIDE DeliverTx *)

(** A proposal: the messages a message-executing EndBlocker (x/gov for a passed proposal) runs in ONE cache
    context — all of them or none.  A MsgEthereumTx cannot be carried: its signer is recovered from the
    signature and is never a module account, so an [Eth] op makes the proposal fail. *)
Definition proposal := list op.

Definition msg_ok (o : op) : bool :=
  match o_out o with Ok => negb (is_eth (o_kind o)) | _ => false end.

(** what a proposal publishes: the events of all its messages, emitted together when the last one succeeded *)
Definition merge (es : list emit) : emit :=
  {| e_ok := true; e_txidx := concat (map e_txidx es); e_logs := concat (map e_logs es) |}.

Definition run_prop (W : sites) (s : st) (p : proposal) : st * emit :=
  if forallb msg_ok p then let '(s', es) := run W s p in (s', merge es) else (s, nothing).

Fixpoint run_props (W : sites) (s : st) (ps : list proposal) : st * list emit :=
  match ps with
  | [] => (s, [])
  | p :: r => let '(s1, e) := run_prop W s p in let '(s2, es) := run_props W s1 r in (s2, e :: es)
  end.

(** the proposals each module executes at the end of this block *)
Definition endmsgs := list (String.string * list proposal).

Fixpoint lookup (m : String.string) (em : endmsgs) : list proposal :=
  match em with
  | [] => []
  | (n, ps) :: r => if String.eqb m n then ps else lookup m r
  end.

(** EndBlock phase: the module EndBlockers in order; result: state, emits, and the log list folded into
    every EventBlockBloom that was published *)
Fixpoint run_end (W : sites) (order : list String.string) (em : endmsgs) (s : st)
  : st * list emit * list (list (nat * nat)) :=
  match order with
  | [] => (s, [], [])
  | m :: r =>
      match classify m with
      | Inert => run_end W r em s
      | Publish => let '(s', es, pubs) := run_end W r em s in (s', es, bloom s :: pubs)
      | MayExec =>
          let '(s1, es1) := run_props W s (lookup m em) in
          let '(s2, es2, pubs) := run_end W r em s1 in (s2, es1 ++ es2, pubs)
      end
  end.

Record block := {
  b_begin : list op;     (* messages executed by BeginBlockers (none can in the current tree; x/evm's own BeginBlock is a no-op) *)
  b_txs   : list op;     (* DeliverTx *)
  b_end   : endmsgs      (* proposals executed by EndBlockers *)
}.

Record result := { r_emits : list emit; r_pubs : list (list (nat * nat)); r_final : st }.

Definition run_full (W : sites) (O : wiring) (b : block) : result :=
  let '(s0, eb) := run W init (b_begin b) in
  let '(s1, et) := run W s0 (b_txs b) in
  let '(s2, ee, pubs) := run_end W (end_order O) (b_end b) s1 in
  {| r_emits := eb ++ et ++ ee; r_pubs := pubs; r_final := s2 |}.
