(** C19 — proofs. *)
From Coq Require Import List Bool Arith Lia.
Import ListNotations.
Require Import Nib.C19.Sites Nib.C19.Model Nib.C19.Spec.

Lemma map_fst_logs (cfgL cfgT k : nat) :
  map fst (map (fun i => (cfgL + i, cfgT)) (seq 0 k)) = seq cfgL k.
Proof.
  rewrite map_map. cbn [fst].
  induction k as [|k IH]; [reflexivity|].
  rewrite seq_S, map_app, IH. cbn [map]. rewrite Nat.add_0_l.
  rewrite (seq_S k cfgL). reflexivity.
Qed.

Lemma good_base_val W kd s :
  base_good (site_of W kd) = true -> eval_base (site_of W kd) (log_size s) s = log_size s.
Proof. destruct (site_of W kd); simpl; intros H; try discriminate; reflexivity. Qed.

Lemma sites_ok_good W kd : sites_ok W = true -> base_good (site_of W kd) = true.
Proof.
  unfold sites_ok. intro H. repeat (apply andb_true_iff in H as [H ?]).
  destruct kd; simpl; assumption.
Qed.

(** one step under good sites *)
Lemma step_good W s o s' e :
  sites_ok W = true -> step W s o = (s', e) ->
  map fst (e_logs e) = seq (log_size s) (length (e_logs e)) /\
  log_size s' = log_size s + length (e_logs e) /\
  e_txidx e = seq (tx_index s) (length (e_txidx e)) /\
  tx_index s' = tx_index s + length (e_txidx e) /\
  eth_logs_carry_tx e /\
  bloom s' = bloom s ++ e_logs e.
Proof.
  intros HS Hstep. unfold step in Hstep.
  destruct (o_out o).
  - (* Ok *)
    inversion Hstep; subst; clear Hstep. cbn [e_logs e_txidx log_size tx_index bloom].
    rewrite map_length, seq_length, map_fst_logs.
    rewrite (good_base_val W (o_kind o) s (sites_ok_good W _ HS)).
    repeat split.
    + destruct (o_k o =? 0) eqn:E; [apply Nat.eqb_eq in E; lia | reflexivity].
    + destruct (is_eth (o_kind o)); reflexivity.
    + destruct (is_eth (o_kind o)); simpl; lia.
    + intros t Ht l Hl. apply in_map_iff in Hl as [i [Hi _]]. subst l. simpl.
      destruct (is_eth (o_kind o)); inversion Ht; reflexivity.
  - (* Revert *)
    destruct (is_eth (o_kind o)); inversion Hstep; subst; clear Hstep;
      cbn [e_logs e_txidx log_size tx_index bloom nothing]; simpl;
      repeat split; try lia; try (rewrite app_nil_r; reflexivity);
      intros t Ht l Hl; destruct Hl.
  - inversion Hstep; subst; simpl; repeat split; try lia; try (rewrite app_nil_r; reflexivity);
      intros t Ht l Hl; destruct Hl.
  - inversion Hstep; subst; simpl; repeat split; try lia; try (rewrite app_nil_r; reflexivity);
      intros t Ht l Hl; destruct Hl.
Qed.

Lemma run_good W : sites_ok W = true -> forall ops s s' es,
  run W s ops = (s', es) ->
  all_log_idx es = seq (log_size s) (length (all_log_idx es)) /\
  log_size s' = log_size s + length (all_log_idx es) /\
  all_tx_idx es = seq (tx_index s) (length (all_tx_idx es)) /\
  tx_index s' = tx_index s + length (all_tx_idx es) /\
  Forall eth_logs_carry_tx es /\
  bloom s' = bloom s ++ all_logs es.
Proof.
  intros HS. induction ops as [|o r IH]; intros s s' es Hrun.
  - simpl in Hrun. inversion Hrun; subst. simpl.
    repeat split; try lia; try constructor. rewrite app_nil_r. reflexivity.
  - simpl in Hrun.
    destruct (step W s o) as [s1 e] eqn:Hst.
    destruct (run W s1 r) as [s2 es'] eqn:Hr.
    inversion Hrun; subst; clear Hrun.
    destruct (step_good W s o s1 e HS Hst) as (A1 & A2 & A3 & A4 & A5 & A6).
    destruct (IH s1 s' es' Hr) as (B1 & B2 & B3 & B4 & B5 & B6).
    unfold all_log_idx, all_tx_idx, all_logs in *. cbn [map concat].
    rewrite !app_length.
    repeat split.
    + rewrite seq_app. f_equal; [rewrite map_length in *; exact A1|].
      rewrite B1 at 1. rewrite A2. rewrite map_length. reflexivity.
    + rewrite B2, A2. rewrite map_length. lia.
    + rewrite seq_app. f_equal; [exact A3|]. rewrite B3 at 1. rewrite A4. reflexivity.
    + rewrite B4, A4. lia.
    + constructor; assumption.
    + rewrite B6, A6. rewrite app_assoc. reflexivity.
Qed.

(** Full statement for one block (transient state starts at [init] in every block because
    transient stores are reset at Commit). *)
Lemma block_indices_consecutive W ops :
  sites_ok W = true -> P (snd (run_block W ops)).
Proof.
  intros HS. unfold run_block. destruct (run W init ops) as [s' es] eqn:Hr.
  destruct (run_good W HS ops init s' es Hr) as (A1 & _ & A3 & _ & A5 & _).
  simpl. split; [exact A1|]. split; [exact A3| exact A5].
Qed.

Lemma block_bloom_is_union W ops :
  sites_ok W = true ->
  bloom (fst (run_block W ops)) = all_logs (snd (run_block W ops)) /\
  log_size (fst (run_block W ops)) = length (all_logs (snd (run_block W ops))).
Proof.
  intros HS. unfold run_block. destruct (run W init ops) as [s' es] eqn:Hr.
  destruct (run_good W HS ops init s' es Hr) as (_ & A2 & _ & _ & _ & A6).
  simpl in *. split; [exact A6|]. rewrite A2. unfold all_log_idx, all_logs.
  clear. induction es as [|e es IH]; simpl; [reflexivity|].
  rewrite !app_length, map_length, IH. reflexivity.
Qed.

(** reverted and failing transactions contribute no logs *)
Lemma no_logs_unless_ok W s o :
  o_out o <> Ok -> e_logs (snd (step W s o)) = [] /\ bloom (fst (step W s o)) = bloom s /\
  log_size (fst (step W s o)) = log_size s.
Proof.
  intro H. unfold step. destruct (o_out o); try congruence;
  try destruct (is_eth (o_kind o)); simpl; auto.
Qed.

(** multi-block: every block of a history satisfies P *)
Lemma history_indices_consecutive W (blocks : list (list op)) :
  sites_ok W = true -> Forall (fun ops => P (snd (run_block W ops))) blocks.
Proof. intro HS. apply Forall_forall. intros ops _. apply block_indices_consecutive; exact HS. Qed.

(** The pinned (pre-fix) tree: deploy passed 0, both convert paths passed BlockTxIndex. *)
Definition pinned_sites : sites :=
  {| s_eth := BaseTxCfgLogIndex; s_deploy := BaseZero; s_conv_coin := BaseTxIndex;
     s_conv_erc20 := BaseTxIndex; addlog_index_from_cfg := true; cfg_reads_transient := true;
     txindex_incremented := true; logsize_set_formula := true; n_call_sites := 4 |}.

Definition mkop k o n := {| o_kind := k; o_out := o; o_k := n |}.

Lemma pinned_tree_refuted :
  exists ops, Pb (snd (run_block pinned_sites ops)) = false.
Proof.
  exists [mkop Eth Ok 1; mkop Create Ok 1; mkop ConvCoin Ok 1; mkop Eth Ok 2].
  vm_compute. reflexivity.
Qed.

(** Any single bad base is observable: a two/three-op block collides. *)
Lemma bad_deploy_refuted W :
  s_deploy W = BaseZero -> s_eth W = BaseTxCfgLogIndex ->
  Pb (snd (run_block W [mkop Eth Ok 2; mkop Create Ok 1; mkop Eth Ok 1])) = false.
Proof. intros H1 H2. unfold run_block. cbn. rewrite H1, H2. vm_compute. reflexivity. Qed.

Example good_sites_nonvacuous :
  let W := {| s_eth := BaseTxCfgLogIndex; s_deploy := BaseTxCfgLogIndex; s_conv_coin := BaseLogSize;
              s_conv_erc20 := BaseLogSize; addlog_index_from_cfg := true; cfg_reads_transient := true;
              txindex_incremented := true; logsize_set_formula := true; n_call_sites := 4 |} in
  sites_ok W = true /\
  snd (run_block W [mkop Eth Ok 1; mkop Create Ok 1; mkop ConvCoin Ok 1; mkop Eth Revert 3; mkop Eth Ok 2]) =
  [ {| e_ok := true; e_txidx := [0]; e_logs := [(0,0)] |};
    {| e_ok := true; e_txidx := []; e_logs := [(1,1)] |};
    {| e_ok := true; e_txidx := []; e_logs := [(2,1)] |};
    {| e_ok := true; e_txidx := [1]; e_logs := [] |};
    {| e_ok := true; e_txidx := [2]; e_logs := [(3,2);(4,2)] |} ].
Proof. vm_compute. split; reflexivity. Qed.
