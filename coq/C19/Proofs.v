(** C19 — proofs. *)
From Coq Require Import String.
From Coq Require Import List Bool Arith Lia.
Import ListNotations.
Require Import Nib.C19.Sites Nib.C19.Model Nib.C19.Spec.

Lemma map_fst_logs (cfgL cfgT k : nat) :
  map fst (map (fun i => (cfgL + i, cfgT)) (seq 0 k)) = seq cfgL k.
Proof.
  rewrite map_map. cbn [fst].
  induction k as [|k IH]; [reflexivity|].
  rewrite seq_S, map_app, IH. cbn [map]. rewrite Nat.add_0_l.
  rewrite (seq_S k cfgL). reflexivity.
Qed.

Lemma good_base_val W kd s :
  base_good (site_of W kd) = true -> eval_base (site_of W kd) (log_size s) s = log_size s.
Proof. destruct (site_of W kd); simpl; intros H; try discriminate; reflexivity. Qed.

Lemma sites_ok_good W kd : sites_ok W = true -> base_good (site_of W kd) = true.
Proof.
  unfold sites_ok. intro H. repeat (apply andb_true_iff in H as [H ?]).
  destruct kd; simpl; assumption.
Qed.

(** one step under good sites *)
Lemma step_good W s o s' e :
  sites_ok W = true -> step W s o = (s', e) ->
  map fst (e_logs e) = seq (log_size s) (length (e_logs e)) /\
  log_size s' = log_size s + length (e_logs e) /\
  e_txidx e = seq (tx_index s) (length (e_txidx e)) /\
  tx_index s' = tx_index s + length (e_txidx e) /\
  eth_logs_carry_tx e /\
  bloom s' = bloom s ++ e_logs e.
Proof.
  intros HS Hstep. unfold step in Hstep.
  destruct (o_out o).
  - (* Ok *)
    inversion Hstep; subst; clear Hstep. cbn [e_logs e_txidx log_size tx_index bloom].
    rewrite map_length, seq_length, map_fst_logs.
    rewrite (good_base_val W (o_kind o) s (sites_ok_good W _ HS)).
    repeat split.
    + destruct (o_k o =? 0) eqn:E; [apply Nat.eqb_eq in E; lia | reflexivity].
    + destruct (is_eth (o_kind o)); reflexivity.
    + destruct (is_eth (o_kind o)); simpl; lia.
    + intros t Ht l Hl. apply in_map_iff in Hl as [i [Hi _]]. subst l. simpl.
      destruct (is_eth (o_kind o)); inversion Ht; reflexivity.
  - (* Revert *)
    destruct (is_eth (o_kind o)); inversion Hstep; subst; clear Hstep;
      cbn [e_logs e_txidx log_size tx_index bloom nothing]; simpl;
      repeat split; try lia; try (rewrite app_nil_r; reflexivity);
      intros t Ht l Hl; destruct Hl.
  - inversion Hstep; subst; simpl; repeat split; try lia; try (rewrite app_nil_r; reflexivity);
      intros t Ht l Hl; destruct Hl.
  - inversion Hstep; subst; simpl; repeat split; try lia; try (rewrite app_nil_r; reflexivity);
      intros t Ht l Hl; destruct Hl.
Qed.

(** the invariant carried from state [s] to [s'] by the emits [es] *)
Definition good (s s' : st) (es : list emit) : Prop :=
  all_log_idx es = seq (log_size s) (length (all_log_idx es)) /\
  log_size s' = log_size s + length (all_log_idx es) /\
  all_tx_idx es = seq (tx_index s) (length (all_tx_idx es)) /\
  tx_index s' = tx_index s + length (all_tx_idx es) /\
  Forall eth_logs_carry_tx es /\
  bloom s' = bloom s ++ all_logs es.

Lemma good_nil s : good s s [].
Proof. unfold good. simpl. repeat split; try lia; try constructor. rewrite app_nil_r. reflexivity. Qed.

Lemma all_log_idx_app a b : all_log_idx (a ++ b) = all_log_idx a ++ all_log_idx b.
Proof. unfold all_log_idx. rewrite map_app, concat_app. reflexivity. Qed.
Lemma all_tx_idx_app a b : all_tx_idx (a ++ b) = all_tx_idx a ++ all_tx_idx b.
Proof. unfold all_tx_idx. rewrite map_app, concat_app. reflexivity. Qed.
Lemma all_logs_app a b : all_logs (a ++ b) = all_logs a ++ all_logs b.
Proof. unfold all_logs. rewrite map_app, concat_app. reflexivity. Qed.

Lemma good_app s s1 s2 a b : good s s1 a -> good s1 s2 b -> good s s2 (a ++ b).
Proof.
  intros (A1 & A2 & A3 & A4 & A5 & A6) (B1 & B2 & B3 & B4 & B5 & B6).
  unfold good. rewrite all_log_idx_app, all_tx_idx_app, all_logs_app, !app_length.
  repeat split.
  - rewrite seq_app. f_equal; [exact A1|]. rewrite B1 at 1. rewrite A2. reflexivity.
  - rewrite B2, A2. lia.
  - rewrite seq_app. f_equal; [exact A3|]. rewrite B3 at 1. rewrite A4. reflexivity.
  - rewrite B4, A4. lia.
  - apply Forall_app. split; assumption.
  - rewrite B6, A6, app_assoc. reflexivity.
Qed.

Lemma step_good' W s o s' e : sites_ok W = true -> step W s o = (s', e) -> good s s' [e].
Proof.
  intros HS Hst. destruct (step_good W s o s' e HS Hst) as (A1 & A2 & A3 & A4 & A5 & A6).
  unfold good, all_log_idx, all_tx_idx, all_logs. cbn [map concat]. rewrite !app_nil_r, map_length.
  repeat split; try assumption.
  constructor; [exact A5 | constructor].
Qed.

Lemma run_good W : sites_ok W = true -> forall ops s s' es,
  run W s ops = (s', es) -> good s s' es.
Proof.
  intros HS. induction ops as [|o r IH]; intros s s' es Hrun.
  - simpl in Hrun. inversion Hrun; subst. apply good_nil.
  - simpl in Hrun.
    destruct (step W s o) as [s1 e] eqn:Hst.
    destruct (run W s1 r) as [s2 es'] eqn:Hr.
    inversion Hrun; subst; clear Hrun.
    change (e :: es') with ([e] ++ es').
    eapply good_app; [eapply step_good'; eassumption | eapply IH; eassumption].
Qed.

(** Full statement for one block (transient state starts at [init] in every block because
    transient stores are reset at Commit). *)
Lemma block_indices_consecutive W ops :
  sites_ok W = true -> P (snd (run_block W ops)).
Proof.
  intros HS. unfold run_block. destruct (run W init ops) as [s' es] eqn:Hr.
  destruct (run_good W HS ops init s' es Hr) as (A1 & _ & A3 & _ & A5 & _).
  simpl. split; [exact A1|]. split; [exact A3| exact A5].
Qed.

Lemma block_bloom_is_union W ops :
  sites_ok W = true ->
  bloom (fst (run_block W ops)) = all_logs (snd (run_block W ops)) /\
  log_size (fst (run_block W ops)) = length (all_logs (snd (run_block W ops))).
Proof.
  intros HS. unfold run_block. destruct (run W init ops) as [s' es] eqn:Hr.
  destruct (run_good W HS ops init s' es Hr) as (_ & A2 & _ & _ & _ & A6).
  simpl in *. split; [exact A6|]. rewrite A2. unfold all_log_idx, all_logs.
  clear. induction es as [|e es IH]; simpl; [reflexivity|].
  rewrite !app_length, map_length, IH. reflexivity.
Qed.

(** reverted and failing transactions contribute no logs *)
Lemma no_logs_unless_ok W s o :
  o_out o <> Ok -> e_logs (snd (step W s o)) = [] /\ bloom (fst (step W s o)) = bloom s /\
  log_size (fst (step W s o)) = log_size s.
Proof.
  intro H. unfold step. destruct (o_out o); try congruence;
  try destruct (is_eth (o_kind o)); simpl; auto.
Qed.

(** multi-block: every block of a history satisfies P *)
Lemma history_indices_consecutive W (blocks : list (list op)) :
  sites_ok W = true -> Forall (fun ops => P (snd (run_block W ops))) blocks.
Proof. intro HS. apply Forall_forall. intros ops _. apply block_indices_consecutive; exact HS. Qed.

(** * The whole block: BeginBlock phase, txs, EndBlock phase *)

Lemma msgs_no_txidx W p : forall s s' es,
  forallb msg_ok p = true -> run W s p = (s', es) -> all_tx_idx es = [].
Proof.
  induction p as [|o r IH]; intros s s' es Hok Hrun; simpl in *.
  - inversion Hrun; reflexivity.
  - apply andb_true_iff in Hok as [Ho Hr].
    destruct (step W s o) as [s1 e] eqn:Hst. destruct (run W s1 r) as [s2 es'] eqn:Hrr.
    inversion Hrun; subst; clear Hrun.
    unfold all_tx_idx in *. cbn [map concat]. rewrite (IH s1 s' es' Hr Hrr), app_nil_r.
    unfold step, msg_ok in *. destruct (o_out o); try discriminate.
    apply negb_true_iff in Ho. rewrite Ho in Hst. inversion Hst; reflexivity.
Qed.

Lemma good_merge s s' es : good s s' es -> all_tx_idx es = [] -> good s s' [merge es].
Proof.
  intros (A1 & A2 & A3 & A4 & A5 & A6) Hn.
  assert (L : all_log_idx [merge es] = all_log_idx es).
  { unfold all_log_idx, merge. cbn [map concat e_logs]. rewrite app_nil_r, concat_map, map_map. reflexivity. }
  assert (T : all_tx_idx [merge es] = all_tx_idx es).
  { unfold all_tx_idx, merge. cbn [map concat e_txidx]. rewrite app_nil_r. reflexivity. }
  assert (G : all_logs [merge es] = all_logs es).
  { unfold all_logs, merge. cbn [map concat e_logs]. rewrite app_nil_r. reflexivity. }
  unfold good. rewrite L, T, G. repeat split; try assumption.
  constructor; [|constructor]. intros t Ht. exfalso.
  unfold merge in Ht. cbn [e_txidx] in Ht. unfold all_tx_idx in Hn. rewrite Hn in Ht. discriminate.
Qed.

Lemma good_nothing s : good s s [nothing].
Proof.
  unfold good, all_log_idx, all_tx_idx, all_logs, nothing. simpl.
  repeat split; try lia; try (rewrite app_nil_r; reflexivity).
  constructor; [|constructor]. intros t Ht. discriminate.
Qed.

Lemma run_prop_good W s p s' e : sites_ok W = true -> run_prop W s p = (s', e) -> good s s' [e].
Proof.
  intros HS H. unfold run_prop in H. destruct (forallb msg_ok p) eqn:Hok.
  - destruct (run W s p) as [s1 es] eqn:Hr. inversion H; subst; clear H.
    apply good_merge; [eapply run_good; eassumption | eapply msgs_no_txidx; eassumption].
  - inversion H; subst. apply good_nothing.
Qed.

(** a proposal with a failing message contributes nothing *)
Lemma failed_proposal_contributes_nothing W s p :
  forallb msg_ok p = false -> run_prop W s p = (s, nothing).
Proof. intro H. unfold run_prop. rewrite H. reflexivity. Qed.

Lemma run_props_good W : sites_ok W = true -> forall ps s s' es,
  run_props W s ps = (s', es) -> good s s' es.
Proof.
  intros HS. induction ps as [|p r IH]; intros s s' es H; simpl in H.
  - inversion H; subst. apply good_nil.
  - destruct (run_prop W s p) as [s1 e] eqn:Hp. destruct (run_props W s1 r) as [s2 es'] eqn:Hr.
    inversion H; subst; clear H. change (e :: es') with ([e] ++ es').
    eapply good_app; [eapply run_prop_good; eassumption | eapply IH; eassumption].
Qed.

(** EndBlock phase, any order: indices stay consecutive *)
Lemma run_end_good W em : sites_ok W = true -> forall order s s' es pubs,
  run_end W order em s = (s', es, pubs) -> good s s' es.
Proof.
  intros HS. induction order as [|m r IH]; intros s s' es pubs H; simpl in H.
  - inversion H; subst. apply good_nil.
  - destruct (classify m).
    + eapply IH; eassumption.
    + destruct (run_props W s (lookup m em)) as [s1 es1] eqn:Hp.
      destruct (run_end W r em s1) as [[s2 es2] pubs2] eqn:Hr.
      inversion H; subst; clear H.
      eapply good_app; [eapply run_props_good; eassumption | eapply IH; eassumption].
    + destruct (run_end W r em s) as [[s2 es2] pubs2] eqn:Hr.
      inversion H; subst; clear H. eapply IH; eassumption.
Qed.

Lemma run_end_inert W em : forall order s, forallb is_inert order = true -> run_end W order em s = (s, [], []).
Proof.
  induction order as [|m r IH]; intros s H; simpl in *; [reflexivity|].
  apply andb_true_iff in H as [Hm Hr]. unfold is_inert in Hm.
  destruct (classify m); try discriminate. apply IH; exact Hr.
Qed.

(** … and when x/evm's EndBlocker runs after every message-executing one, the one published bloom is the final one *)
Lemma run_end_pub W em : forall order s s' es pubs,
  order_ok order = true -> run_end W order em s = (s', es, pubs) -> pubs = [bloom s'].
Proof.
  induction order as [|m r IH]; intros s s' es pubs Hok H; simpl in *; [discriminate|].
  destruct (classify m).
  - eapply IH; eassumption.
  - destruct (run_props W s (lookup m em)) as [s1 es1]. destruct (run_end W r em s1) as [[s2 es2] pubs2] eqn:Hr.
    inversion H; subst; clear H. eapply IH; eassumption.
  - rewrite (run_end_inert W em r s Hok) in H. inversion H; subst. reflexivity.
Qed.

Lemma run_full_good W O b : sites_ok W = true ->
  good init (r_final (run_full W O b)) (r_emits (run_full W O b)).
Proof.
  intros HS. unfold run_full.
  destruct (run W init (b_begin b)) as [s0 eb] eqn:H0.
  destruct (run W s0 (b_txs b)) as [s1 et] eqn:H1.
  destruct (run_end W (end_order O) (b_end b) s1) as [[s2 ee] pubs] eqn:H2.
  cbn [r_final r_emits].
  eapply good_app; [eapply run_good; eassumption|].
  eapply good_app; [eapply run_good; eassumption| eapply run_end_good; eassumption].
Qed.

Lemma full_indices_consecutive W O b : sites_ok W = true -> P (r_emits (run_full W O b)).
Proof.
  intros HS. destruct (run_full_good W O b HS) as (A1 & _ & A3 & _ & A5 & _).
  split; [exact A1|]. split; [exact A3| exact A5].
Qed.

Lemma all_logs_length es : length (all_logs es) = length (all_log_idx es).
Proof.
  unfold all_log_idx, all_logs. induction es as [|e es IH]; simpl; [reflexivity|].
  rewrite !app_length, map_length, IH. reflexivity.
Qed.

Lemma full_bloom_is_union W O b : sites_ok W = true -> wiring_ok O = true ->
  Pbloom (r_emits (run_full W O b)) (r_pubs (run_full W O b)) /\
  log_size (r_final (run_full W O b)) = length (all_logs (r_emits (run_full W O b))).
Proof.
  intros HS HO. unfold wiring_ok in HO.
  pose proof (run_full_good W O b HS) as G. destruct G as (_ & A2 & _ & _ & _ & A6).
  split; [| rewrite A2, all_logs_length; reflexivity].
  unfold Pbloom. rewrite <- (app_nil_l (all_logs _)). change (@nil (nat * nat)) with (bloom init). rewrite <- A6.
  clear A2 A6. unfold run_full.
  destruct (run W init (b_begin b)) as [s0 eb]. destruct (run W s0 (b_txs b)) as [s1 et].
  destruct (run_end W (end_order O) (b_end b) s1) as [[s2 ee] pubs] eqn:H2.
  cbn [r_pubs r_final]. eapply run_end_pub; eassumption.
Qed.

Lemma history_full W O (blocks : list block) : sites_ok W = true -> wiring_ok O = true ->
  Forall (fun b => P (r_emits (run_full W O b)) /\ Pbloom (r_emits (run_full W O b)) (r_pubs (run_full W O b))) blocks.
Proof.
  intros HS HO. apply Forall_forall. intros b _. split.
  - apply full_indices_consecutive; exact HS.
  - apply full_bloom_is_union; assumption.
Qed.

(** The order matters.  With x/evm's EndBlocker BEFORE x/gov's (the list of a tree in which evm.ModuleName was
    moved up in orderedModuleNames), a passed proposal carrying a MsgCreateFunToken emits a log that the
    published bloom does not contain. *)
Definition good_sites : sites :=
  {| s_eth := BaseTxCfgLogIndex; s_deploy := BaseTxCfgLogIndex; s_conv_coin := BaseLogSize;
     s_conv_erc20 := BaseLogSize; addlog_index_from_cfg := true; cfg_reads_transient := true;
     txindex_incremented := true; logsize_set_formula := true; n_call_sites := 4 |}.

Definition mkop k o n := {| o_kind := k; o_out := o; o_k := n |}.

Definition evm_before_gov : wiring :=
  {| end_order := ["upgrade"; "capability"; "auth"; "bank"; "evm"; "distribution"; "staking"; "slashing"; "crisis"; "gov"; "genutil"]%string;
     begin_order := []; evm_beginblock_noop := true |}.

Definition gov_block : block :=
  {| b_begin := []; b_txs := [mkop Eth Ok 1]; b_end := [("gov"%string, [[mkop Create Ok 1]])] |}.

Lemma evm_before_gov_refuted :
  sites_ok good_sites = true /\
  exists b, ~ Pbloom (r_emits (run_full good_sites evm_before_gov b)) (r_pubs (run_full good_sites evm_before_gov b)).
Proof. split; [reflexivity|]. exists gov_block. vm_compute. discriminate. Qed.

(** … and in general: whenever the order fact fails (no x/evm EndBlocker, two of them, or a message-executing /
    unknown EndBlocker after it) some block publishes a bloom that is not the union — for ANY call-site facts. *)
Lemma step_bloom W s o : bloom (fst (step W s o)) = bloom s ++ e_logs (snd (step W s o)).
Proof.
  unfold step. destruct (o_out o); try destruct (is_eth (o_kind o)); simpl; try (rewrite app_nil_r); reflexivity.
Qed.

Lemma run_bloom W : forall ops s s' es, run W s ops = (s', es) -> bloom s' = bloom s ++ all_logs es.
Proof.
  induction ops as [|o r IH]; intros s s' es H; simpl in H.
  - inversion H; subst. unfold all_logs. simpl. rewrite app_nil_r. reflexivity.
  - pose proof (step_bloom W s o) as B. destruct (step W s o) as [s1 e]. destruct (run W s1 r) as [s2 es'] eqn:Hr.
    inversion H; subst; clear H. rewrite (IH _ _ _ Hr). simpl in B. rewrite B.
    unfold all_logs. cbn [map concat]. rewrite app_assoc. reflexivity.
Qed.

Lemma run_prop_bloom W s p s' e : run_prop W s p = (s', e) -> bloom s' = bloom s ++ e_logs e.
Proof.
  unfold run_prop. destruct (forallb msg_ok p).
  - destruct (run W s p) as [s1 es] eqn:Hr. intro H; inversion H; subst. rewrite (run_bloom W _ _ _ _ Hr). reflexivity.
  - intro H; inversion H; subst. simpl. rewrite app_nil_r. reflexivity.
Qed.

Lemma run_props_bloom W : forall ps s s' es, run_props W s ps = (s', es) -> bloom s' = bloom s ++ all_logs es.
Proof.
  induction ps as [|p r IH]; intros s s' es H; simpl in H.
  - inversion H; subst. unfold all_logs. simpl. rewrite app_nil_r. reflexivity.
  - destruct (run_prop W s p) as [s1 e] eqn:Hp. destruct (run_props W s1 r) as [s2 es'] eqn:Hr.
    inversion H; subst; clear H. rewrite (IH _ _ _ Hr), (run_prop_bloom W _ _ _ _ Hp).
    unfold all_logs. cbn [map concat]. rewrite app_assoc. reflexivity.
Qed.

Lemma run_end_bloom W em : forall order s s' es pubs,
  run_end W order em s = (s', es, pubs) -> bloom s' = bloom s ++ all_logs es.
Proof.
  induction order as [|m r IH]; intros s s' es pubs H; simpl in H.
  - inversion H; subst. unfold all_logs. simpl. rewrite app_nil_r. reflexivity.
  - destruct (classify m).
    + eapply IH; eassumption.
    + destruct (run_props W s (lookup m em)) as [s1 es1] eqn:Hp.
      destruct (run_end W r em s1) as [[s2 es2] pubs2] eqn:Hr. inversion H; subst; clear H.
      rewrite (IH _ _ _ _ Hr), (run_props_bloom W _ _ _ _ Hp), all_logs_app, app_assoc. reflexivity.
    + destruct (run_end W r em s) as [[s2 es2] pubs2] eqn:Hr. inversion H; subst; clear H. eapply IH; eassumption.
Qed.

Definition one_log : list proposal := [[mkop Create Ok 1]].
Definition every_module_executes (order : list string) : endmsgs := map (fun m => (m, one_log)) order.

Lemma lookup_every m : forall order, In m order -> lookup m (every_module_executes order) = one_log.
Proof.
  induction order as [|n r IH]; intros H; simpl in *; [contradiction|].
  destruct (String.eqb m n) eqn:E; [reflexivity|]. destruct H as [H|H]; [subst; rewrite String.eqb_refl in E; discriminate | auto].
Qed.

Lemma one_log_grows W s s' es : run_props W s one_log = (s', es) -> length (bloom s') = S (length (bloom s)).
Proof.
  unfold one_log. simpl. unfold run_prop. simpl. intro H. inversion H; subst. simpl. rewrite app_length. simpl. lia.
Qed.

Lemma after_publish_seen W em : forall r s s2 es2 pubs2,
  (forall m, In m r -> lookup m em = one_log) ->
  forallb is_inert r = false -> run_end W r em s = (s2, es2, pubs2) ->
  pubs2 <> [] \/ length (bloom s2) > length (bloom s).
Proof.
  induction r as [|m r IH]; intros s s2 es2 pubs2 Hem Hni H; simpl in *; [discriminate|].
  unfold is_inert in Hni. destruct (classify m) eqn:C.
  - simpl in Hni. eapply IH; try eassumption. intros; apply Hem; right; assumption.
  - right. rewrite (Hem m (or_introl eq_refl)) in H.
    destruct (run_props W s one_log) as [s1 es1] eqn:Hp. destruct (run_end W r em s1) as [[s3 es3] pubs3] eqn:Hr.
    inversion H; subst; clear H. apply one_log_grows in Hp. apply run_end_bloom in Hr.
    rewrite Hr, app_length. lia.
  - left. destruct (run_end W r em s) as [[s3 es3] pubs3]. inversion H; subst. discriminate.
Qed.

Lemma bad_order_pub W em : forall order s s' es pubs,
  (forall m, In m order -> lookup m em = one_log) ->
  order_ok order = false -> run_end W order em s = (s', es, pubs) -> pubs <> [bloom s'].
Proof.
  induction order as [|m r IH]; intros s s' es pubs Hem Hbad H; simpl in *.
  - inversion H; subst. discriminate.
  - assert (Hem' : forall n, In n r -> lookup n em = one_log) by (intros; apply Hem; right; assumption).
    destruct (classify m) eqn:C.
    + eapply IH; eassumption.
    + destruct (run_props W s (lookup m em)) as [s1 es1]. destruct (run_end W r em s1) as [[s2 es2] pubs2] eqn:Hr.
      inversion H; subst; clear H. eapply IH; eassumption.
    + destruct (run_end W r em s) as [[s2 es2] pubs2] eqn:Hr. inversion H; subst; clear H.
      destruct (after_publish_seen W em r s s' es pubs2 Hem' Hbad Hr) as [Hp|Hl].
      * intro E. inversion E. contradiction.
      * intro E. inversion E as [[E1 E2]]. rewrite E1 in Hl. lia.
Qed.

Lemma bad_order_refuted W O : order_ok (end_order O) = false ->
  exists b, ~ Pbloom (r_emits (run_full W O b)) (r_pubs (run_full W O b)).
Proof.
  intro Hbad. exists {| b_begin := []; b_txs := []; b_end := every_module_executes (end_order O) |}.
  unfold Pbloom, run_full. cbn [b_begin b_txs b_end run].
  destruct (run_end W (end_order O) (every_module_executes (end_order O)) init) as [[s2 ee] pubs] eqn:Hr.
  cbn [r_emits r_pubs]. rewrite !app_nil_l.
  pose proof (run_end_bloom W _ _ _ _ _ _ Hr) as B. simpl in B. rewrite <- B.
  eapply bad_order_pub; try eassumption. intros m Hm. apply lookup_every; exact Hm.
Qed.

Lemma full_pbloom W O b : order_ok (end_order O) = true ->
  Pbloom (r_emits (run_full W O b)) (r_pubs (run_full W O b)).
Proof.
  intro HO. unfold Pbloom, run_full.
  destruct (run W init (b_begin b)) as [s0 eb] eqn:H0. destruct (run W s0 (b_txs b)) as [s1 et] eqn:H1.
  destruct (run_end W (end_order O) (b_end b) s1) as [[s2 ee] pubs] eqn:H2.
  cbn [r_pubs r_emits]. rewrite (run_end_pub W _ _ _ _ _ _ HO H2).
  rewrite (run_end_bloom W _ _ _ _ _ _ H2), (run_bloom W _ _ _ _ H1), (run_bloom W _ _ _ _ H0).
  simpl. rewrite !all_logs_app, app_assoc. reflexivity.
Qed.

Lemma bloom_union_iff_order W O :
  (forall b, Pbloom (r_emits (run_full W O b)) (r_pubs (run_full W O b))) <-> order_ok (end_order O) = true.
Proof.
  split.
  - intro H. destruct (order_ok (end_order O)) eqn:E; [reflexivity|].
    destruct (bad_order_refuted W O E) as [b Hb]. exfalso. apply Hb. apply H.
  - intros HO b. apply full_pbloom; exact HO.
Qed.

Example full_block_nonvacuous :
  let O := {| end_order := ["bank"; "staking"; "gov"; "oracle"; "evm"; "wasm"]%string; begin_order := []; evm_beginblock_noop := true |} in
  let b := {| b_begin := []; b_txs := [mkop Eth Ok 1; mkop Create Ok 1];
              b_end := [("gov"%string, [[mkop Create Ok 1; mkop ConvCoin Ok 1]; [mkop Create Ok 1; mkop ConvCoin FailMsg 0]; [mkop ConvErc20 Ok 2]])] |} in
  wiring_ok O = true /\
  r_emits (run_full good_sites O b) =
    [ {| e_ok := true; e_txidx := [0]; e_logs := [(0,0)] |};
      {| e_ok := true; e_txidx := []; e_logs := [(1,1)] |};
      {| e_ok := true; e_txidx := []; e_logs := [(2,1);(3,1)] |};
      nothing;
      {| e_ok := true; e_txidx := []; e_logs := [(4,1);(5,1)] |} ] /\
  r_pubs (run_full good_sites O b) = [[(0,0);(1,1);(2,1);(3,1);(4,1);(5,1)]].
Proof. vm_compute. repeat split; reflexivity. Qed.

(** The pinned (pre-fix) tree: deploy passed 0, both convert paths passed BlockTxIndex. *)
Definition pinned_sites : sites :=
  {| s_eth := BaseTxCfgLogIndex; s_deploy := BaseZero; s_conv_coin := BaseTxIndex;
     s_conv_erc20 := BaseTxIndex; addlog_index_from_cfg := true; cfg_reads_transient := true;
     txindex_incremented := true; logsize_set_formula := true; n_call_sites := 4 |}.

Lemma pinned_tree_refuted :
  exists ops, Pb (snd (run_block pinned_sites ops)) = false.
Proof.
  exists [mkop Eth Ok 1; mkop Create Ok 1; mkop ConvCoin Ok 1; mkop Eth Ok 2].
  vm_compute. reflexivity.
Qed.

(** Any single bad base is observable: a two/three-op block collides. *)
Lemma bad_deploy_refuted W :
  s_deploy W = BaseZero -> s_eth W = BaseTxCfgLogIndex ->
  Pb (snd (run_block W [mkop Eth Ok 2; mkop Create Ok 1; mkop Eth Ok 1])) = false.
Proof. intros H1 H2. unfold run_block. cbn. rewrite H1, H2. vm_compute. reflexivity. Qed.

Example good_sites_nonvacuous :
  let W := {| s_eth := BaseTxCfgLogIndex; s_deploy := BaseTxCfgLogIndex; s_conv_coin := BaseLogSize;
              s_conv_erc20 := BaseLogSize; addlog_index_from_cfg := true; cfg_reads_transient := true;
              txindex_incremented := true; logsize_set_formula := true; n_call_sites := 4 |} in
  sites_ok W = true /\
  snd (run_block W [mkop Eth Ok 1; mkop Create Ok 1; mkop ConvCoin Ok 1; mkop Eth Revert 3; mkop Eth Ok 2]) =
  [ {| e_ok := true; e_txidx := [0]; e_logs := [(0,0)] |};
    {| e_ok := true; e_txidx := []; e_logs := [(1,1)] |};
    {| e_ok := true; e_txidx := []; e_logs := [(2,1)] |};
    {| e_ok := true; e_txidx := [1]; e_logs := [] |};
    {| e_ok := true; e_txidx := [2]; e_logs := [(3,2);(4,2)] |} ].
Proof. vm_compute. split; reflexivity. Qed.
