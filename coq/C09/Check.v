(** C09 — evaluation of implementation traces.

    A case is what the harness ran: the deliver script (init code of a contract-creation EVM tx),
    the requests issued at the injection point, plus oracle values the model does not compute
    (gas used by the transaction on both replicas, gas used by simulated transactions) and the
    observables of both replicas.  [mismatch]: the model, run on the schedule that corresponds to
    the injection point, predicts other observables than the implementation showed.  [violates]:
    the non-interference predicate [Pb] is false on the OBSERVED pair of runs. *)
From Coq Require Import List Bool Arith ZArith.
From Coq Require String.
Import ListNotations.
Require Import Nib.C09.Model Nib.C09.Spec Nib.C09.ModelBuf.
Local Open Scope Z_scope.

(** scenario accounts *)
Definition aK : acct := 0%nat.  (* contract created by the in-flight tx *)
Definition aX : acct := 1%nat.  (* `from` of every request *)
Definition aY : acct := 2%nat.
Definition aZ : acct := 3%nat.
Definition aS : acct := 4%nat.  (* signer of the in-flight tx *)
Definition aF : acct := 5%nat.  (* fee collector *)
Definition aC : acct := 6%nat.  (* Cosmos account used by simulated bank sends *)
Definition all_accts : list acct := [aK; aX; aY; aZ; aS; aF; aC].

Inductive dstep := DYield | DSend (to : acct) (n : Z) | DBank (to : acct) (n : Z).

Inductive qkind :=
| QRead          (* eth_call of a view method, gRPC balance / funtoken / oracle queries *)
| QCallXfer | QCallBank | QCallBankOther
| QEstXfer | QEstBank | QTraceBank
| QSimEvm | QSimEvmBank | QSimBank.

Record query := mkQ { q_kind : qkind; q_to : acct; q_amt : Z; q_gas : Z (* oracle: gas used by a simulated tx *) }.

Inductive point := PYield (k : nat) | PPre | PPost | PInter | PParked | PNone.

Record case := mkCase {
  c_value : Z; c_bx : Z; c_by : Z; c_bz : Z;
  c_steps : list dstep; c_revert : bool;
  c_point : point; c_queries : list query;
  c_gas_base : Z; c_gas_with : Z;      (* oracles: gas used by the scenario tx *)
  c_gas2_base : Z; c_gas2_with : Z;    (* oracles: gas used by the tail tx *)
  c_obs : obs
}.

Definition gas_limit : Z := 3000000.   (* gas price is 1 unibi *)
Definition sim_gas_limit : Z := 2000000.
Definition sim_bank_fee : Z := 1000000.

Definition body_step (s : dstep) : step :=
  match s with DYield => SYield | DSend to n => SXfer aK to n | DBank to n => SBank aK to n end.

Definition tail_gas_limit : Z := 100000.
Definition tail_amount : Z := 1000000.

(** DeliverTx of the creation tx: ante fee, EthereumTx prologue, frame, body, commit, refund, deferred clear *)
Definition tx1_script (c : case) (gas : Z) : list step :=
  [SFee aS aF gas_limit; SMark; SOpenPub; SSnap; SXfer aS aK (c_value c)]
  ++ map body_step (c_steps c)
  ++ (if c_revert c then [SRevert] else [])
  ++ [SCommit; SRefund aF aS (gas_limit - gas); SClear].

Definition tail_price : Z := 2.   (* dynamic-fee tx: min(fee cap 3, base fee 1 + tip 1) unibi per gas *)

(** DeliverTx of the tail tx: plain transfer S -> Z, dynamic fee *)
Definition tx2_script (gas2 : Z) : list step :=
  [SFee aS aF (tail_gas_limit * tail_price); SMark; SOpenPub; SXfer aS aZ tail_amount; SCommit;
   SRefund aF aS ((tail_gas_limit - gas2) * tail_price); SClear].

Definition deliver_script (c : case) (gas gas2 : Z) : list step := tx1_script c gas ++ tx2_script gas2.

Definition query_script (q : query) : list step :=
  match q_kind q with
  | QRead | QCallBankOther => [SOpenPriv]
  | QCallXfer | QEstXfer => [SOpenPriv; SXfer aX (q_to q) (q_amt q)]
  | QCallBank | QEstBank | QTraceBank => [SOpenPriv; SBank aX (q_to q) (q_amt q)]
  | QSimBank => [SFee aC aF sim_bank_fee; SFee aC (q_to q) (q_amt q)]
  | QSimEvm => [SFee aX aF sim_gas_limit; SMark; SOpenPub; SXfer aX (q_to q) (q_amt q); SCommit;
                SRefund aF aX (sim_gas_limit - q_gas q); SClear]
  | QSimEvmBank => [SFee aX aF sim_gas_limit; SMark; SOpenPub; SBank aX (q_to q) (q_amt q); SCommit;
                    SRefund aF aX (sim_gas_limit - q_gas q); SClear]
  end.

(** number of deliver steps executed when the k-th yield step has just run *)
Fixpoint yield_pos (k : nat) (l : list dstep) : option nat :=
  match l with
  | [] => None
  | DYield :: l' => match k with O => Some 1%nat | S k' => option_map S (yield_pos k' l') end
  | _ :: l' => option_map S (yield_pos k l')
  end.

Fixpoint query_sched (t : nat) (qs : list (list step)) : list tid :=
  match qs with
  | [] => []
  | q :: qs' => repeat t (length q) ++ query_sched (S t) qs'
  end.

Definition schedule (c : case) (d1 dlen : nat) (qs : list (list step)) : list tid :=
  let qsch := query_sched 1 qs in
  match c_point c with
  | PNone => repeat 0%nat dlen
  | PPre => qsch ++ repeat 0%nat dlen
  | PPost => repeat 0%nat d1 ++ qsch ++ repeat 0%nat (dlen - d1)
  | PInter => repeat 0%nat dlen ++ qsch
  | PParked => firstn 1 qsch ++ repeat 0%nat dlen ++ skipn 1 qsch  (* the request is inside while the block's txs run *)
  | PYield k =>
      match yield_pos k (c_steps c) with
      | Some p => repeat 0%nat (5 + p) ++ qsch ++ repeat 0%nat (dlen - (5 + p))
      | None => repeat 0%nat dlen
      end
  end.

Definition ledger0 (c : case) : ledger :=
  fun a => match a with
           | 1%nat => c_bx c | 2%nat => c_by c | 3%nat => c_bz c
           | 4%nat => 1000000000000000 | 6%nat => 1000000000000 | _ => 0 end.

Definition run_base (m : mode) (c : case) : state :=
  let d := deliver_script c (c_gas_base c) (c_gas2_base c) in
  run m (repeat 0%nat (length d)) (init [d] (fun _ => ledger0 c)).

Definition with_threads (c : case) : list (list step) :=
  deliver_script c (c_gas_with c) (c_gas2_with c) :: map query_script (c_queries c).

Definition with_schedule (c : case) : list tid :=
  schedule c (length (tx1_script c (c_gas_with c))) (length (deliver_script c (c_gas_with c) (c_gas2_with c)))
           (map query_script (c_queries c)).

Definition run_with (m : mode) (c : case) : state :=
  run m (with_schedule c) (init (with_threads c) (fun _ => ledger0 c)).

Definition ev_eqb (a b : ev) : bool :=
  match a, b with
  | EvRes x, EvRes y => Bool.eqb x y
  | EvFlush a1 d1, EvFlush a2 d2 => Nat.eqb a1 a2 && (d1 =? d2)
  | _, _ => false
  end.
Fixpoint evs_eqb (a b : list ev) : bool :=
  match a, b with
  | [], [] => true
  | x :: a', y :: b' => ev_eqb x y && evs_eqb a' b'
  | _, _ => false
  end.

Definition predict (m : mode) (c : case) : obs :=
  let b := run_base m c in
  let w := run_with m c in
  let bl := map (committed b) all_accts in
  let wl := map (committed w) all_accts in
  let fb := failed (thr b 0%nat) in
  let fw := failed (thr w 0%nat) in
  let same_written := forallb (fun a => Bool.eqb (existsb (Nat.eqb a) (written b)) (existsb (Nat.eqb a) (written w))) all_accts in
  let heq := zlist_eqb bl wl && Bool.eqb fb fw && same_written in
  mkObs heq heq
        (Bool.eqb fb fw && (c_gas_base c =? c_gas_with c) && (c_gas2_base c =? c_gas2_with c)
         && (fb || evs_eqb (log (thr b 0%nat)) (log (thr w 0%nat))))
        (negb fb) (negb fw) bl wl.

(** did the model see a request step dereference / publish / clear the shared pointer? *)
Definition model_hazard (c : case) : bool :=
  negb (hazard_free (init (with_threads c) (fun _ => ledger0 c)) (with_schedule c)).

(** Outside the model's reach, both only after a request has reached the shared pointer:
    - a simulated EVM tx that reuses and COMMITS the in-flight StateDB inside a frame that is reverted afterwards
      (journal reset under a live snapshot): only the run without requests is compared;
    - which burn/mint events of intermediate flushes of an injected balance end up in the DeliverTx response (the
      implementation re-emits the event snapshot of the last reverted precompile journal entry, so they may or
      may not survive a failed precompile call or a reverted frame): the response comparison is skipped, the
      committed state, tx code and app hashes are still compared. *)
Definition is_sim (q : query) : bool :=
  match q_kind q with QSimEvm | QSimEvmBank | QSimBank => true | _ => false end.
Definition out_of_reach (c : case) : bool :=
  c_revert c && existsb is_sim (c_queries c) && match c_point c with PYield _ => true | _ => false end.
Definition events_out_of_reach (c : case) : bool := model_hazard c.

Definition obs_forget_tx (o : obs) : obs :=
  mkObs (o_hash_eq o) (o_next_eq o) true (o_base_ok o) (o_with_ok o) (o_base o) (o_with o).

(** gas is an oracle value per replica, but without a hazard the model says the requests change nothing:
    a gas difference is then a disagreement *)
Definition gas_unexplained (m : mode) (c : case) : bool :=
  (match m with Isolated => true | Shared => negb (model_hazard c) end) &&
  negb ((c_gas_base c =? c_gas_with c) && (c_gas2_base c =? c_gas2_with c)).

(** [m]: the model the current tree is compared with (Sites.mode_of of the generated inventory) *)
Definition mismatch_in (m : mode) (c : case) : bool :=
  let p := predict m c in
  gas_unexplained m c ||
  match m with
  | Isolated => negb (obs_eqb p (c_obs c))
  | Shared =>
      if out_of_reach c
      then negb (zlist_eqb (o_base p) (o_base (c_obs c)) && Bool.eqb (o_base_ok p) (o_base_ok (c_obs c)))
      else if events_out_of_reach c then negb (obs_eqb (obs_forget_tx p) (obs_forget_tx (c_obs c)))
      else negb (obs_eqb p (c_obs c))
  end.

Definition mismatch (c : case) : bool := mismatch_in Shared c.

Definition violates (c : case) : bool := negb (Pb (c_obs c)).

(** ** second driver: every registered gRPC query route of the custom modules around blocks that end a day epoch
    (inflation mints), oracle vote periods and a slash window.  A gRPC query is a request script without any access to
    state shared with block execution (in the model: [QRead]), so in BOTH modes the model predicts that nothing
    block execution produces changes: all app hashes, the unibi supply after every block and all BeginBlock / EndBlock
    events are equal with and without the requests. *)
Record route_obs := mkRoute { r_hash_eq : bool; r_supply_eq : bool; r_events_eq : bool }.

(** third driver: simulations (baseapp.Simulate) of arbitrary single- and multi-message Cosmos transactions, never committed,
    between the blocks that deliver sub-sequences of the same messages.  A simulation runs on its own branch of the
    check state (Proofs.generic_branch_isolation: whatever the steps of the other branches are, the deliver branch
    evolves as alone), so the model predicts equality of every DeliverTx response and every app hash.  The three
    booleans are then: all app hashes / all (code, gas, data) / all events of the delivered transactions. *)

(** fourth driver: simulations of the SAME message kinds as the delivered transaction (MsgCreateFunToken from a bank coin,
    MsgConvertCoinToEvm, EVM contract creation, …) served at store-read yield points INSIDE its DeliverTx.
    [i_deliver] / [i_sims]: metadata ids of the coins whose ERC20 the delivered / the simulated transactions deploy
    through Keeper.deployERC20ForBankCoin (ModelBuf.create_script); [i_dense]: a simulation was served at EVERY traced
    read of the DeliverTx calls and all of them succeeded.  The model is run on the schedule "after every step of the deliver thread a
    fresh request thread runs to completion"; for sparse injections under [Spare] the position of the requests relative
    to the append is unknown and the model is silent (under [Exact] every schedule is clean). *)
Record infl_case := mkInfl { i_dense : bool; i_deliver : list nat; i_sims : list nat; i_obs : route_obs }.

Definition infl_script (l : list nat) : list bstep := flat_map create_script l.

Fixpoint dense_sched (n : nat) (k : nat) (qlen : nat) : list btid :=
  match n with
  | O => []
  | S n' => 0%nat :: repeat k qlen ++ dense_sched n' (S k) qlen
  end.

Fixpoint natlist_eqb (a b : list nat) : bool :=
  match a, b with
  | [], [] => true
  | x :: a', y :: b' => Nat.eqb x y && natlist_eqb a' b'
  | _, _ => false
  end.

Definition infl_predict_clean (a : alloc) (c : infl_case) : bool :=
  let d := infl_script (i_deliver c) in
  let q := infl_script (i_sims c) in
  let ths := d :: repeat q (length d) in
  let sched := dense_sched (length d) 1 (length q) in
  natlist_eqb (bused (bthr (brun a sched (binit ths)) 0%nat)) (bused (bthr (brun a (bdeliver_only sched) (binit ths)) 0%nat)).

Definition route_clean (o : route_obs) : bool := r_hash_eq o && r_supply_eq o && r_events_eq o.

Definition mismatch_infl (a : alloc) (c : infl_case) : bool :=
  match a, i_dense c with
  | Spare, false => false
  | _, _ => negb (Bool.eqb (infl_predict_clean a c) (route_clean (i_obs c)))
  end.

(** the `slices` case: observed spare capacity (cap - len) of the package-level byte slices shared by block execution and
    requests.  [bases]: the appended-to ones according to the generated inventory (Sites.appended_bases buffer_sites):
    each of them must have been observed.  [Exact] predicts no spare capacity anywhere; [Spare] predicts some on an
    appended-to slice. *)
Definition no_spare (l : list (String.string * nat)) : bool := forallb (fun e => Nat.eqb (snd e) 0%nat) l.

Definition mismatch_slices (a : alloc) (bases : list String.string) (l : list (String.string * nat)) : bool :=
  negb (forallb (fun b => existsb (fun e => String.eqb b (fst e)) l) bases) ||
  match a with
  | Exact => negb (no_spare l)
  | Spare => no_spare (filter (fun e => existsb (String.eqb (fst e)) bases) l)
  end.

Inductive anycase := CEvm (c : case) | CRoute (o : route_obs) | CSim (o : route_obs) | CInfl (c : infl_case) | CSlices (l : list (String.string * nat)).

Definition mismatch_any (m : mode) (a : alloc) (bases : list String.string) (c : anycase) : bool :=
  match c with
  | CEvm c => mismatch_in m c
  | CRoute o | CSim o => negb (route_clean o)
  | CInfl c => mismatch_infl a c
  | CSlices l => mismatch_slices a bases l
  end.

Definition violates_any (c : anycase) : bool :=
  match c with
  | CEvm c => violates c
  | CRoute o | CSim o => negb (route_clean o)
  | CInfl c => negb (route_clean (i_obs c))
  | CSlices _ => false
  end.
