(** C09 — exported statements. *)
From Coq Require Import List Bool Arith ZArith.
Import ListNotations.
Require Import Nib.C09.Model Nib.C09.Spec Nib.C09.Proofs.
