(** C09 — queries and simulations never influence block execution.
    This file holds only the exported statements.

    Full statement (Spec.noninterference m): for every set of thread scripts, every initial store per
    thread and EVERY schedule, the pointer and the whole deliver thread (committed store, accounts
    written, tx failure flag, result/event log) are those of the run in which only the deliver thread
    is scheduled.  It is proved for [Isolated] (request steps never dereference, publish or clear the
    shared pointer: the code since fix 509f604, see Gen/C09Oblig.v where the statement is instantiated
    with the model selected by the regenerated facts of the current tree) and refuted for [Shared]
    (every thread goes through the pointer: the code before the fix / after its reversal). *)
From Coq Require Import List Bool Arith ZArith.
Import ListNotations.
Require Import Nib.C09.Model Nib.C09.Spec Nib.C09.Proofs.

(** PARTIAL: the full statement for the sub-model [Isolated]; missing: the faithful [Shared] model (refuted below). *)
Theorem C09_noninterference_partial : noninterference Isolated.
Proof. exact noninterference_isolated. Qed.
Print Assumptions C09_noninterference_partial.

(** … and once the deliver thread has been scheduled as often as it has steps, that is the complete
    sequential execution of the transaction: same committed balances, written accounts, tx result, pointer. *)
Theorem C09_noninterference_partial_sequential :
  forall (ths : list (list step)) (l0 : tid -> ledger) (sched : list tid),
    length (nth 0 ths []) <= count0 sched ->
    let seq := run Isolated (repeat 0%nat (length (nth 0 ths []))) (init ths l0) in
    let got := run Isolated sched (init ths l0) in
    committed got = committed seq /\ written got = written seq /\ tx_result got = tx_result seq /\ ptr got = ptr seq.
Proof. exact isolated_equals_sequential. Qed.
Print Assumptions C09_noninterference_partial_sequential.

(** The faithful model violates the statement: 5 scheduling decisions
    (deliver: open+publish; request: private StateDB; request: bank send X->Y; deliver: commit; deliver: clear). *)
Theorem C09_noninterference_refuted :
  ~ noninterference Shared /\
  exists ths l0 sched, length sched = 5%nat /\
    committed (run Shared sched (init ths l0)) <> committed (run Shared (deliver_only sched) (init ths l0)).
Proof. exact (conj not_noninterference_shared noninterference_shared_refuted). Qed.
Print Assumptions C09_noninterference_refuted.

(** Characterisation: in the faithful model a schedule without hazard (a request step that performs a bank
    operation while the pointer is published, or that itself publishes / clears the pointer) cannot
    influence block execution. *)
Theorem C09_interference_only_through_hazard :
  forall ths l0 sched,
    hazard_free (init ths l0) sched = true ->
    same_block (run Shared sched (init ths l0)) (run Shared (deliver_only sched) (init ths l0)).
Proof. exact interference_only_through_hazard. Qed.
Print Assumptions C09_interference_only_through_hazard.

(** For requests on a private StateDB (eth_call, estimateGas, traceTx, gRPC queries) the hazard is exactly:
    a bank operation of the request executed while Keeper.Bank.StateDB is published. *)
Theorem C09_hazard_is_bank_op_while_published :
  forall st t, hazard st t = true -> private_script (pc (thr st t)) ->
    t <> 0%nat /\ ptr st <> None /\ exists s rest, pc (thr st t) = s :: rest /\ is_bank_op s.
Proof. exact hazard_is_bank_op_while_published. Qed.
Print Assumptions C09_hazard_is_bank_op_while_published.

(** The repair does not change what the deliver thread does when it runs alone. *)
Theorem C09_deliver_alone_mode_irrelevant :
  forall n a b, inv a -> inv b -> ptr a = ptr b -> thr a 0%nat = thr b 0%nat ->
    same_block (run Shared (repeat 0%nat n) a) (run Isolated (repeat 0%nat n) b).
Proof. exact deliver_alone_mode_irrelevant. Qed.
Print Assumptions C09_deliver_alone_mode_irrelevant.

(** Branch isolation for ARBITRARY steps (any Cosmos message of any module, simulated or delivered, failing or not, single or
    inside a multi-message transaction): if every thread's step reads and writes its own branch only, then under every
    schedule the branch of thread 0 is the one it has when running alone.  The hypothesis "own branch only" is what the
    generated inventories (C09_shared_mutable_state_known, C09_no_unreviewed_aliasing, C09_every_access_guarded) establish
    for the implementation: no mutable state on process-wide singletons besides the guarded pointer. *)
Theorem C09_branch_isolation_generic :
  forall (B : Type) (bstep : tid -> B -> B) (sched : list tid) (st : tid -> B),
    grun B bstep sched st 0%nat = grun B bstep (deliver_only sched) st 0%nat.
Proof. exact generic_branch_isolation. Qed.
Print Assumptions C09_branch_isolation_generic.

(** The checker evaluated on implementation traces decides the observable form of the property. *)
Theorem C09_checker_sound : forall o, Pb o = true -> P o.
Proof. exact Pb_sound. Qed.
Print Assumptions C09_checker_sound.
