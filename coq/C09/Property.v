(** C09 — queries and simulations never influence block execution.
    This file holds only the exported statements.

    Full statement (Spec.noninterference m): for every set of thread scripts, every initial store per
    thread and EVERY schedule, the pointer and the whole deliver thread (committed store, accounts
    written, tx failure flag, result/event log) are those of the run in which only the deliver thread
    is scheduled.  It is proved for [Isolated] (request steps never dereference, publish or clear the
    shared pointer: the code since fix 509f604, see Gen/C09Oblig.v where the statement is instantiated
    with the model selected by the regenerated facts of the current tree) and refuted for [Shared]
    (every thread goes through the pointer: the code before the fix / after its reversal). *)
From Coq Require Import List Bool Arith ZArith.
Import ListNotations.
Require Import Nib.C09.Model Nib.C09.ModelBuf Nib.C09.Spec Nib.C09.Proofs Nib.C09.ProofsBuf.

(** PARTIAL: the full statement for the sub-model [Isolated]; missing: the faithful [Shared] model (refuted below). *)
Theorem C09_noninterference_partial : noninterference Isolated.
Proof. exact noninterference_isolated. Qed.
Print Assumptions C09_noninterference_partial.

(** … and once the deliver thread has been scheduled as often as it has steps, that is the complete
    sequential execution of the transaction: same committed balances, written accounts, tx result, pointer. *)
Theorem C09_noninterference_partial_sequential :
  forall (ths : list (list step)) (l0 : tid -> ledger) (sched : list tid),
    length (nth 0 ths []) <= count0 sched ->
    let seq := run Isolated (repeat 0%nat (length (nth 0 ths []))) (init ths l0) in
    let got := run Isolated sched (init ths l0) in
    committed got = committed seq /\ written got = written seq /\ tx_result got = tx_result seq /\ ptr got = ptr seq.
Proof. exact isolated_equals_sequential. Qed.
Print Assumptions C09_noninterference_partial_sequential.

(** The faithful model violates the statement: 5 scheduling decisions
    (deliver: open+publish; request: private StateDB; request: bank send X->Y; deliver: commit; deliver: clear). *)
Theorem C09_noninterference_refuted :
  ~ noninterference Shared /\
  exists ths l0 sched, length sched = 5%nat /\
    committed (run Shared sched (init ths l0)) <> committed (run Shared (deliver_only sched) (init ths l0)).
Proof. exact (conj not_noninterference_shared noninterference_shared_refuted). Qed.
Print Assumptions C09_noninterference_refuted.

(** Characterisation: in the faithful model a schedule without hazard (a request step that performs a bank
    operation while the pointer is published, or that itself publishes / clears the pointer) cannot
    influence block execution. *)
Theorem C09_interference_only_through_hazard :
  forall ths l0 sched,
    hazard_free (init ths l0) sched = true ->
    same_block (run Shared sched (init ths l0)) (run Shared (deliver_only sched) (init ths l0)).
Proof. exact interference_only_through_hazard. Qed.
Print Assumptions C09_interference_only_through_hazard.

(** For requests on a private StateDB (eth_call, estimateGas, traceTx, gRPC queries) the hazard is exactly:
    a bank operation of the request executed while Keeper.Bank.StateDB is published. *)
Theorem C09_hazard_is_bank_op_while_published :
  forall st t, hazard st t = true -> private_script (pc (thr st t)) ->
    t <> 0%nat /\ ptr st <> None /\ exists s rest, pc (thr st t) = s :: rest /\ is_bank_op s.
Proof. exact hazard_is_bank_op_while_published. Qed.
Print Assumptions C09_hazard_is_bank_op_while_published.

(** The repair does not change what the deliver thread does when it runs alone. *)
Theorem C09_deliver_alone_mode_irrelevant :
  forall n a b, inv a -> inv b -> ptr a = ptr b -> thr a 0%nat = thr b 0%nat ->
    same_block (run Shared (repeat 0%nat n) a) (run Isolated (repeat 0%nat n) b).
Proof. exact deliver_alone_mode_irrelevant. Qed.
Print Assumptions C09_deliver_alone_mode_irrelevant.

(** Branch isolation for ARBITRARY steps (any Cosmos message of any module, simulated or delivered, failing or not, single or
    inside a multi-message transaction): if every thread's step reads and writes its own branch only, then under every
    schedule the branch of thread 0 is the one it has when running alone.  The hypothesis "own branch only" is what the
    generated inventories (C09_shared_mutable_state_known, C09_no_unreviewed_aliasing, C09_every_access_guarded) establish
    for the implementation: no mutable state on process-wide singletons besides the guarded pointer. *)
Theorem C09_branch_isolation_generic :
  forall (B : Type) (bstep : tid -> B -> B) (sched : list tid) (st : tid -> B),
    grun B bstep sched st 0%nat = grun B bstep (deliver_only sched) st 0%nat.
Proof. exact generic_branch_isolation. Qed.
Print Assumptions C09_branch_isolation_generic.

(** The checker evaluated on implementation traces decides the observable form of the property. *)
Theorem C09_checker_sound : forall o, Pb o = true -> P o.
Proof. exact Pb_sound. Qed.
Print Assumptions C09_checker_sound.

(** ** Shared byte buffers (ModelBuf.v): package-level slices appended to by both block execution and requests. *)

(** PARTIAL: the full statement for slices allocated with cap = len (every append reallocates); missing: [Spare] (refuted below). *)
Theorem C09_buffers_noninterference_partial : buf_noninterference Exact.
Proof. exact buf_noninterference_exact. Qed.
Print Assumptions C09_buffers_noninterference_partial.

(** With spare capacity the statement is false: DeliverTx of MsgCreateFunToken(coin 1), a simulation of
    MsgCreateFunToken(coin 2) served between the append and the constructor reading its arguments (4 scheduling
    decisions) — the committed ERC20 carries the metadata of coin 2. *)
Theorem C09_buffers_noninterference_refuted :
  ~ buf_noninterference Spare /\
  bused (bthr (brun Spare refute_sched (binit refute_ths)) 0) = [2] /\
  bused (bthr (brun Spare (bdeliver_only refute_sched) (binit refute_ths)) 0) = [1].
Proof. exact (conj buf_noninterference_spare_refuted buf_spare_witness). Qed.
Print Assumptions C09_buffers_noninterference_refuted.

(** However the shared slice is allocated, code that copies before appending does not interfere. *)
Theorem C09_buffers_copy_first :
  forall (a : alloc) (ths : list (list bstep)) (sched : list btid),
    (forall t, copies_first (nth t ths []) = true) ->
    bthr (brun a sched (binit ths)) 0 = bthr (brun a (bdeliver_only sched) (binit ths)) 0.
Proof. exact buf_noninterference_copy_first. Qed.
Print Assumptions C09_buffers_copy_first.
