(** C09 — proofs (work in progress). *)
From Coq Require Import List Bool Arith ZArith.
Import ListNotations.
Require Import Nib.C09.Model Nib.C09.Spec.
