(** C09 — proofs: non-interference by induction over schedules. *)
From Coq Require Import List Bool Arith ZArith Lia.
Import ListNotations.
Require Import Nib.C09.Model Nib.C09.Spec.

(** * Invariant: the pointer and the deliver thread only ever designate the deliver thread's
    StateDB, a request thread only its own. *)

Definition use_ok (t : tid) (o : thread) : Prop := use o = None \/ use o = Some t.

Definition inv (st : state) : Prop :=
  (ptr st = None \/ ptr st = Some 0%nat) /\ (forall t, use_ok t (thr st t)).

(** a request step is quiet when it cannot reach the shared pointer *)
Definition quiet (m : mode) (st : state) (t : tid) : Prop :=
  t = 0%nat \/ m = Isolated \/ hazard st t = false.

Fixpoint quiet_run (m : mode) (st : state) (sched : list tid) : Prop :=
  match sched with
  | [] => True
  | t :: rest => quiet m st t /\ quiet_run m (sched_step m st t) rest
  end.

(** [only t st st']: st' differs from st in thread t only *)
Definition only (t : tid) (st st' : state) : Prop :=
  ptr st' = ptr st /\ (forall k, k <> t -> thr st' k = thr st k) /\ use_ok t (thr st' t).

Lemma only_refl t st : use_ok t (thr st t) -> only t st st.
Proof. unfold only; auto. Qed.

Lemma only_trans t a b c : only t a b -> only t b c -> only t a c.
Proof.
  intros (P1 & T1 & U1) (P2 & T2 & U2). repeat split; try congruence.
  intros k Hk. rewrite T2, T1; auto.
Qed.

Lemma thr_set_same st j o : thr (set_thr st j o) j = o.
Proof. simpl. rewrite Nat.eqb_refl. reflexivity. Qed.

Lemma thr_set_other st j o k : k <> j -> thr (set_thr st j o) k = thr st k.
Proof. intro H. simpl. destruct (Nat.eqb j k) eqn:E; auto. apply Nat.eqb_eq in E. congruence. Qed.

Lemma only_set t st o : use_ok t o -> only t st (set_thr st t o).
Proof.
  intro H. repeat split; auto.
  - intros k Hk. apply thr_set_other; auto.
  - rewrite thr_set_same. exact H.
Qed.

Lemma only_sync_self t st l a : use_ok t (thr st t) -> only t st (sync st (Some t) l a).
Proof. intro H. apply only_set. exact H. Qed.

Lemma only_add_log t st e : use_ok t (thr st t) -> only t st (add_log st t e).
Proof. intro H. apply only_set. exact H. Qed.

Lemma only_use t st st' : only t st st' -> use_ok t (thr st' t).
Proof. intros (_ & _ & H); exact H. Qed.

Ltac uok :=
  first
    [ assumption
    | (unfold use_ok in *;
       repeat (rewrite ?thr_set_same; cbn [use t_set t_log t_store t_pc t_open t_flush sync add_log]);
       first [ assumption | right; reflexivity | left; reflexivity | congruence | auto ]) ].

Ltac chain :=
  lazymatch goal with
  | |- only ?t ?a ?a => apply only_refl; uok
  | |- only ?t ?a (add_log ?s ?t _) => apply (only_trans t a s); [chain | apply only_add_log; uok]
  | |- only ?t ?a (sync ?s (Some ?t) _ _) => apply (only_trans t a s); [chain | apply only_sync_self; uok]
  | |- only ?t ?a (sync ?s None _ _) => change (only t a s); chain
  | |- only ?t ?a (set_thr ?a ?t _) => apply only_set; uok
  | |- only ?t ?a (set_thr ?s ?t _) => apply (only_trans t a s); [chain | apply only_set; uok]
  | |- _ => assumption
  end.

(** ** a quiet request step touches its own thread only *)
Lemma request_step_only m st t :
  t <> 0%nat -> inv st -> (m = Isolated \/ hazard st t = false) ->
  only t st (sched_step m st t).
Proof.
  intros Ht [Hp Hu] Hq. unfold sched_step.
  assert (Hut := Hu t).
  destruct (pc (thr st t)) as [|s rest] eqn:Hpc; [apply only_refl; exact Hut|].
  set (st1 := set_thr st t (t_pc (thr st t) rest)).
  assert (H1 : only t st st1) by (apply only_set; exact Hut).
  assert (Hme : thr st1 t = t_pc (thr st t) rest) by apply thr_set_same.
  assert (Hpriv : m = Isolated -> private m t = true).
  { intros ->. simpl. destruct t; [congruence|reflexivity]. }
  assert (Hhz : m = Shared -> hazard_step st s = false).
  { intros ->. destruct Hq as [Hq|Hq]; [discriminate|].
    unfold hazard in Hq. rewrite Hpc in Hq. destruct t; [congruence|]. simpl in Hq. exact Hq. }
  assert (Hptr1 : ptr st1 = ptr st) by reflexivity.
  assert (Huse1 : use (thr st1 t) = use (thr st t)) by (rewrite Hme; reflexivity).
  eapply only_trans; [exact H1|].
  assert (U1 : use_ok t (thr st1 t)) by (unfold use_ok; rewrite Huse1; exact Hut).
  (* which StateDB a bank op of this thread mirrors into: its own or none *)
  assert (Htgt : forall st2, only t st1 st2 -> is_true (match s with SBank _ _ _ | SFee _ _ _ | SRefund _ _ _ => true | _ => false end) ->
                             target m st2 t = None \/ target m st2 t = Some t).
  { intros st2 (P2 & _ & U2) Hs. unfold target. destruct m.
    - simpl. left. rewrite P2, Hptr1. specialize (Hhz eq_refl).
      destruct s; simpl in Hs; try discriminate; simpl in Hhz; destruct (ptr st); congruence.
    - rewrite (Hpriv eq_refl). exact U2. }
  unfold exec. cbv zeta. destruct s.
  - (* SOpenPub *)
    destruct m.
    + specialize (Hhz eq_refl). simpl in Hhz. discriminate.
    + rewrite (Hpriv eq_refl). apply only_set. right; reflexivity.
  - (* SOpenPriv *) apply only_set. right; reflexivity.
  - (* SXfer *)
    destruct (use (thr st1 t)) as [j|] eqn:Uj; [|chain].
    assert (j = t) by (destruct U1 as [U|U]; congruence). subst j.
    destruct (_ <=? _)%Z; chain.
  - (* SBank *)
    destruct (use (thr st1 t)) as [j|] eqn:Uj; [|chain].
    assert (j = t) by (destruct U1 as [U|U]; congruence). subst j.
    destruct (_ <=? _)%Z; [|chain].
    match goal with |- only t st1 (add_log (sync (sync ?s2 ?k ?l ?a) ?k ?l ?b) t _) =>
      assert (H2 : only t st1 s2) by (apply only_set; uok);
      destruct (Htgt s2 H2 eq_refl) as [E|E]; rewrite E end; chain.
  - (* SFee *)
    destruct (_ <=? _)%Z; [|chain].
    match goal with |- only t st1 (add_log (sync (sync ?s2 ?k ?l ?a) ?k ?l ?b) t _) =>
      assert (H2 : only t st1 s2) by (apply only_set; uok);
      destruct (Htgt s2 H2 eq_refl) as [E|E]; rewrite E end; chain.
  - (* SRefund *)
    destruct (_ <=? _)%Z; [|apply only_set; exact U1].
    match goal with |- only t st1 (sync (sync ?s2 ?k ?l ?a) ?k ?l ?b) =>
      assert (H2 : only t st1 s2) by (apply only_set; uok);
      destruct (Htgt s2 H2 eq_refl) as [E|E]; rewrite E end; chain.
  - (* SMark *) apply only_set. exact U1.
  - (* SSnap *)
    destruct (use (thr st1 t)) as [j|] eqn:Uj; [|chain].
    assert (j = t) by (destruct U1 as [U|U]; congruence). subst j.
    apply only_set. uok.
  - (* SRevert *)
    destruct (use (thr st1 t)) as [j|] eqn:Uj; [|chain].
    assert (j = t) by (destruct U1 as [U|U]; congruence). subst j.
    destruct (saved (thr st1 t)) as [[[l w] c]|]; [|chain].
    apply only_set. uok.
  - (* SCommit *)
    destruct (use (thr st1 t)) as [j|] eqn:Uj; [|chain].
    assert (j = t) by (destruct U1 as [U|U]; congruence). subst j.
    apply only_set. uok.
  - (* SClear *)
    destruct m.
    + specialize (Hhz eq_refl). simpl in Hhz. discriminate.
    + rewrite (Hpriv eq_refl). chain.
  - (* SYield *) chain.
Qed.

Lemma only_inv t st st' : t <> 0%nat -> inv st -> only t st st' -> inv st'.
Proof.
  intros Ht [Hp Hu] (P & T & U). split; [rewrite P; exact Hp|].
  intro k. destruct (Nat.eq_dec k t) as [->|Hk]; [exact U|]. rewrite T; auto.
Qed.

Lemma only_view t st st' : t <> 0%nat -> only t st st' -> ptr st' = ptr st /\ thr st' 0%nat = thr st 0%nat.
Proof. intros Ht (P & T & _). split; auto. Qed.

(** ** the deliver step reads and writes the pointer and thread 0 only *)

Definition canon (p : option tid) (o : thread) : state := mkS p (fun _ => o).

Ltac brk :=
  repeat match goal with
         | |- context [if ?c then _ else _] => destruct c
         | |- context [match ?x with Some _ => _ | None => _ end] => destruct x
         | |- context [let (_, _) := ?x in _] => destruct x
         end.

Lemma deliver_step_canon m st :
  inv st ->
  let st' := sched_step m st 0%nat in
  let c' := sched_step m (canon (ptr st) (thr st 0%nat)) 0%nat in
  ptr st' = ptr c' /\ thr st' 0%nat = thr c' 0%nat /\ (forall k, k <> 0%nat -> thr st' k = thr st k) /\ inv st'.
Proof.
  intros [Hp Hu]. destruct st as [p th]. simpl in Hp, Hu.
  assert (Hu0 := Hu 0%nat). unfold use_ok in Hu0.
  assert (Hk : forall (X Y : thread) k, k <> 0%nat -> (if Nat.eqb 0 k then X else Y) = Y).
  { intros X Y k Hk. destruct k; [congruence|reflexivity]. }
  unfold sched_step, canon. cbn [thr ptr].
  destruct (th 0%nat) as [pc0 store0 wr0 sdb0 use0 saved0 mark0 failed0 log0] eqn:Ho.
  cbn [pc use] in *.
  destruct pc0 as [|s rest].
  { cbn. rewrite Ho. repeat split; auto. }
  assert (Hinv : forall p' o', (p' = None \/ p' = Some 0%nat) -> use_ok 0%nat o' ->
                               inv (mkS p' (fun k => if Nat.eqb 0 k then o' else th k))).
  { intros p' o' Hp' Ho'. split; [exact Hp'|]. intro k. cbn. destruct k; [exact Ho'|apply Hu]. }
  destruct m; destruct s; destruct Hp as [-> | ->]; destruct Hu0 as [-> | ->];
    cbn -[Z.leb Z.eqb Z.sub Z.add flush_store flush_wr flush_evs clean c_put c_find];
    rewrite ?Ho;
    cbn -[Z.leb Z.eqb Z.sub Z.add flush_store flush_wr flush_evs clean c_put c_find];
    brk;
    cbn -[Z.leb Z.eqb Z.sub Z.add flush_store flush_wr flush_evs clean c_put c_find];
    rewrite ?Ho;
    (split; [|split; [|split]];
     [ try reflexivity
     | try reflexivity
     | intros k Hk0; cbn; rewrite ?(Hk _ _ k Hk0); reflexivity
     | first [ apply Hinv; [auto | unfold use_ok; cbn; auto]
             | (split; [cbn; auto | intro k; cbn; destruct k; [unfold use_ok; cbn; auto | apply Hu]]) ] ]).
Qed.

Lemma deliver_step_congr m a b :
  inv a -> inv b -> ptr a = ptr b -> thr a 0%nat = thr b 0%nat ->
  ptr (sched_step m a 0%nat) = ptr (sched_step m b 0%nat) /\
  thr (sched_step m a 0%nat) 0%nat = thr (sched_step m b 0%nat) 0%nat /\
  inv (sched_step m a 0%nat) /\ inv (sched_step m b 0%nat).
Proof.
  intros Ia Ib Hp Ht.
  destruct (deliver_step_canon m a Ia) as (P1 & T1 & _ & I1).
  destruct (deliver_step_canon m b Ib) as (P2 & T2 & _ & I2).
  rewrite Hp, Ht in P1, T1. split; [congruence|]. split; [congruence|]. split; assumption.
Qed.

(** * Main lemma: along a quiet run the block sees the deliver thread alone *)

Lemma deliver_only_cons t rest :
  deliver_only (t :: rest) = if Nat.eqb 0 t then 0%nat :: deliver_only rest else deliver_only rest.
Proof. unfold deliver_only, count0. destruct t; reflexivity. Qed.

Lemma quiet_run_same_block m sched : forall a b,
  inv a -> inv b -> ptr a = ptr b -> thr a 0%nat = thr b 0%nat ->
  quiet_run m a sched ->
  same_block (run m sched a) (run m (deliver_only sched) b).
Proof.
  induction sched as [|t rest IH]; intros a b Ia Ib Hp Ht Hq.
  - split; assumption.
  - destruct Hq as [Hq Hrest]. rewrite deliver_only_cons. unfold run in *. simpl fold_left.
    destruct t as [|t'].
    + simpl Nat.eqb. cbn iota. simpl fold_left.
      destruct (deliver_step_congr m a b Ia Ib Hp Ht) as (P & T & I1 & I2).
      apply IH; auto.
    + simpl Nat.eqb. cbn iota.
      assert (Hne : S t' <> 0%nat) by discriminate.
      assert (Ho : only (S t') a (sched_step m a (S t'))).
      { apply request_step_only; auto. destruct Hq as [Hq|Hq]; [discriminate|exact Hq]. }
      destruct (only_view _ _ _ Hne Ho) as [P T].
      apply IH; [apply (only_inv (S t') a); assumption | exact Ib | congruence | congruence | exact Hrest].
Qed.

Lemma inv_init ths l0 : inv (init ths l0).
Proof. split; [left; reflexivity|]. intro t. left. reflexivity. Qed.

Lemma quiet_run_isolated sched : forall st, quiet_run Isolated st sched.
Proof. induction sched; intro st; simpl; auto. split; auto. right; left; reflexivity. Qed.

Lemma hazard_free_quiet sched : forall st, hazard_free st sched = true -> quiet_run Shared st sched.
Proof.
  induction sched as [|t rest IH]; intros st H; simpl in *; auto.
  apply andb_true_iff in H as [H1 H2]. split; [|apply IH; exact H2].
  right; right. apply negb_true_iff in H1. exact H1.
Qed.

(** ** the theorems *)

Theorem noninterference_isolated : noninterference Isolated.
Proof.
  intros ths l0 sched. apply quiet_run_same_block; auto using inv_init, quiet_run_isolated.
Qed.

Theorem interference_only_through_hazard :
  forall ths l0 sched,
    hazard_free (init ths l0) sched = true ->
    same_block (run Shared sched (init ths l0)) (run Shared (deliver_only sched) (init ths l0)).
Proof.
  intros ths l0 sched H. apply quiet_run_same_block; auto using inv_init, hazard_free_quiet.
Qed.

(** for request scripts built on a private StateDB (no EthereumTx prologue / epilogue: eth_call,
    estimateGas, traceTx, gRPC queries) the only hazard is a bank operation executed while the
    pointer is published *)
Definition private_script (p : list step) : Prop := ~ In SOpenPub p /\ ~ In SClear p.

Definition is_bank_op (s : step) : Prop :=
  match s with SBank _ _ _ | SFee _ _ _ | SRefund _ _ _ => True | _ => False end.

Theorem hazard_is_bank_op_while_published :
  forall st t, hazard st t = true -> private_script (pc (thr st t)) ->
    t <> 0%nat /\ ptr st <> None /\ exists s rest, pc (thr st t) = s :: rest /\ is_bank_op s.
Proof.
  intros st t H [N1 N2]. unfold hazard in H. apply andb_true_iff in H as [H0 H].
  split. { intros ->. discriminate. }
  destruct (pc (thr st t)) as [|s rest]; [discriminate|].
  destruct s; simpl in H; try discriminate;
    try (exfalso; (apply N1 + apply N2); left; reflexivity);
    (split; [destruct (ptr st); [discriminate|discriminate]|eexists; eexists; split; [reflexivity|exact I]]).
Qed.

(** a finished thread stutters: the deliver thread alone, scheduled at least as often as it has
    steps, is the complete sequential execution *)
Lemma finished_stutters m st : pc (thr st 0%nat) = [] -> sched_step m st 0%nat = st.
Proof. intro H. unfold sched_step. rewrite H. reflexivity. Qed.

Lemma pc_length_step m st :
  inv st -> length (pc (thr (sched_step m st 0%nat) 0%nat)) = pred (length (pc (thr st 0%nat))).
Proof.
  intro I. destruct (deliver_step_canon m st I) as (_ & T & _ & _). cbv zeta in T. rewrite T. clear T.
  unfold sched_step, canon. cbn [thr ptr].
  destruct (pc (thr st 0%nat)) as [|s rest] eqn:Hpc; [cbn; rewrite Hpc; reflexivity|].
  destruct I as [Hp Hu]. assert (Hu0 := Hu 0%nat). unfold use_ok in Hu0.
  destruct (thr st 0%nat) as [pc0 store0 wr0 sdb0 use0 saved0 mark0 failed0 log0].
  cbn [pc use] in *. subst pc0.
  destruct m; destruct s; destruct Hp as [-> | ->]; destruct Hu0 as [-> | ->];
    cbn -[Z.leb Z.eqb Z.sub Z.add flush_store flush_wr flush_evs clean c_put c_find]; brk;
    cbn -[Z.leb Z.eqb Z.sub Z.add flush_store flush_wr flush_evs clean c_put c_find]; reflexivity.
Qed.

Lemma run_deliver_complete m : forall n k st,
  inv st -> length (pc (thr st 0%nat)) <= n ->
  run m (repeat 0%nat (n + k)) st = run m (repeat 0%nat n) st.
Proof.
  induction n as [|n IH]; intros k st I L.
  - simpl. assert (E : pc (thr st 0%nat) = []) by (destruct (pc (thr st 0%nat)); [reflexivity|simpl in L; lia]).
    clear L. induction k as [|k IHk]; [reflexivity|]. simpl. unfold run in *. simpl.
    rewrite finished_stutters; auto.
  - simpl. unfold run in *. simpl. apply IH.
    + destruct (deliver_step_canon m st I) as (_ & _ & _ & I'). exact I'.
    + rewrite pc_length_step; auto. lia.
Qed.

(** ** refutation for the faithful (Shared) model: 5 scheduling decisions *)

Definition w_deliver : list step := [SOpenPub; SCommit; SClear].
Definition w_query : list step := [SOpenPriv; SBank 1%nat 2%nat 5%Z].
Definition w_sched : list tid := [0; 1; 1; 0; 0]%nat.
Definition w_ledger : tid -> ledger := fun _ _ => 10%Z.

Lemma witness_committed :
  committed (run Shared w_sched (init [w_deliver; w_query] w_ledger)) 1%nat = 5%Z /\
  committed (run Shared w_sched (init [w_deliver; w_query] w_ledger)) 2%nat = 15%Z /\
  committed (run Shared (deliver_only w_sched) (init [w_deliver; w_query] w_ledger)) 1%nat = 10%Z /\
  committed (run Shared (deliver_only w_sched) (init [w_deliver; w_query] w_ledger)) 2%nat = 10%Z.
Proof. vm_compute. repeat split. Qed.

Theorem noninterference_shared_refuted :
  exists ths l0 sched,
    length sched = 5%nat /\
    committed (run Shared sched (init ths l0)) <> committed (run Shared (deliver_only sched) (init ths l0)).
Proof.
  exists [w_deliver; w_query], w_ledger, w_sched. split; [reflexivity|].
  intro H. apply (f_equal (fun l => l 1%nat)) in H.
  destruct witness_committed as (A & _ & B & _). rewrite A, B in H. discriminate.
Qed.

Theorem not_noninterference_shared : ~ noninterference Shared.
Proof.
  intro H. specialize (H [w_deliver; w_query] w_ledger w_sched). destruct H as [_ H].
  apply (f_equal (fun o => store o 1%nat)) in H.
  destruct witness_committed as (A & _ & B & _). unfold committed in A, B. rewrite A, B in H. discriminate.
Qed.

(** ** the interleaved run equals the complete sequential run of the deliver thread *)
Theorem quiet_equals_sequential m ths l0 sched :
  quiet_run m (init ths l0) sched ->
  length (nth 0 ths []) <= count0 sched ->
  let seq := run m (repeat 0%nat (length (nth 0 ths []))) (init ths l0) in
  let got := run m sched (init ths l0) in
  committed got = committed seq /\ written got = written seq /\ tx_result got = tx_result seq /\ ptr got = ptr seq.
Proof.
  intros Hq Hlen seq got.
  assert (SB : same_block got (run m (deliver_only sched) (init ths l0))).
  { apply quiet_run_same_block; auto using inv_init. }
  assert (E : run m (deliver_only sched) (init ths l0) = seq).
  { unfold deliver_only, seq.
    replace (count0 sched) with (length (nth 0 ths []) + (count0 sched - length (nth 0 ths []))) by lia.
    apply run_deliver_complete; [apply inv_init|]. simpl. destruct ths; simpl; lia. }
  rewrite E in SB. destruct SB as [P T].
  unfold committed, written, tx_result. rewrite T. auto.
Qed.

Theorem isolated_equals_sequential ths l0 sched :
  length (nth 0 ths []) <= count0 sched ->
  let seq := run Isolated (repeat 0%nat (length (nth 0 ths []))) (init ths l0) in
  let got := run Isolated sched (init ths l0) in
  committed got = committed seq /\ written got = written seq /\ tx_result got = tx_result seq /\ ptr got = ptr seq.
Proof. intro H. apply quiet_equals_sequential; auto using quiet_run_isolated. Qed.

(** the deliver thread alone behaves the same in both modes (the repair does not change block execution) *)
Lemma deliver_alone_mode_irrelevant n : forall a b,
  inv a -> inv b -> ptr a = ptr b -> thr a 0%nat = thr b 0%nat ->
  same_block (run Shared (repeat 0%nat n) a) (run Isolated (repeat 0%nat n) b).
Proof.
  induction n as [|n IH]; intros a b Ia Ib Hp Ht; [split; assumption|].
  simpl. unfold run in *. simpl.
  destruct (deliver_step_canon Shared a Ia) as (P1 & T1 & _ & I1).
  destruct (deliver_step_canon Isolated b Ib) as (P2 & T2 & _ & I2).
  cbv zeta in *.
  assert (C : sched_step Shared (canon (ptr a) (thr a 0%nat)) 0%nat = sched_step Isolated (canon (ptr b) (thr b 0%nat)) 0%nat).
  { rewrite Hp, Ht. unfold sched_step. destruct (pc (thr (canon (ptr b) (thr b 0%nat)) 0%nat)); [reflexivity|].
    unfold exec, target, private. simpl Nat.eqb. simpl negb. reflexivity. }
  apply IH; auto; congruence.
Qed.

(** ** non-vacuity *)

(** Isolated mode: the witness schedule really interleaves a request that performs a bank
    operation (X of the request's own ctx goes 10 -> 5) and the block still commits X = 10 *)
Example partial_nonvacuous :
  let st := run Isolated w_sched (init [w_deliver; w_query] w_ledger) in
  committed st 1%nat = 10%Z /\ committed st 2%nat = 10%Z /\ store (thr st 1%nat) 1%nat = 5%Z /\
  pc (thr st 0%nat) = [] /\ pc (thr st 1%nat) = [].
Proof. vm_compute. repeat split. Qed.

(** Shared mode, hazard-free: a value transfer of a request in the middle of the in-flight tx
    and a bank operation of a request before the tx publishes its StateDB *)
Definition nv_deliver : list step := [SOpenPub; SXfer 1%nat 3%nat 4%Z; SYield; SBank 1%nat 2%nat 1%Z; SCommit; SClear].
Definition nv_q1 : list step := [SOpenPriv; SBank 1%nat 2%nat 5%Z].
Definition nv_q2 : list step := [SOpenPriv; SXfer 1%nat 2%nat 7%Z; SCommit].
Definition nv_sched : list tid := [1; 1; 0; 0; 0; 2; 2; 2; 0; 0; 0]%nat.

Example hazard_free_nonvacuous :
  let st0 := init [nv_deliver; nv_q1; nv_q2] w_ledger in
  let st := run Shared nv_sched st0 in
  hazard_free st0 nv_sched = true /\
  committed st 1%nat = 5%Z /\ committed st 2%nat = 11%Z /\ committed st 3%nat = 14%Z /\
  store (thr st 1%nat) 1%nat = 5%Z /\ store (thr st 2%nat) 2%nat = 17%Z.
Proof. vm_compute. repeat split. Qed.

(** the refuting schedule contains exactly such a hazard *)
Example refuted_has_hazard : hazard_free (init [w_deliver; w_query] w_ledger) w_sched = false.
Proof. vm_compute. reflexivity. Qed.

Example hazard_class_nonvacuous :
  let st := run Shared [0; 1]%nat (init [w_deliver; w_query] w_ledger) in
  hazard st 1%nat = true /\ private_script (pc (thr st 1%nat)).
Proof.
  split; [vm_compute; reflexivity|]. vm_compute. split; intros [H|[]]; discriminate.
Qed.

(** ** branch isolation, generically: not only for the ledger / StateDB steps of the model above.
    Whatever a thread's atomic step does — any Cosmos message of any module, failing or not, single or part of a
    multi-message transaction — as long as it reads and writes ITS OWN branch only (for the implementation: the
    multistore branch of its sdk.Context, which is what the generated inventories establish by excluding shared
    mutable singleton state), the branch of thread 0 evolves under every schedule exactly as if thread 0 ran alone. *)
Section GenericBranches.
  Variable B : Type.                       (* a branch of state, including the thread's own program counter *)
  Variable bstep : tid -> B -> B.          (* next atomic step of thread t on its own branch *)

  Definition gstep (st : tid -> B) (t : tid) : tid -> B :=
    fun k => if Nat.eqb t k then bstep t (st k) else st k.
  Definition grun (sched : list tid) (st : tid -> B) : tid -> B := fold_left gstep sched st.

  Lemma generic_branch_isolation_gen : forall sched a b,
    a 0%nat = b 0%nat -> grun sched a 0%nat = grun (deliver_only sched) b 0%nat.
  Proof.
    induction sched as [|t rest IH]; intros a b H; [exact H|].
    rewrite deliver_only_cons. unfold grun in *. simpl fold_left.
    destruct t as [|t']; simpl Nat.eqb; cbn iota.
    - simpl fold_left. apply IH. unfold gstep. simpl. rewrite H. reflexivity.
    - apply IH. unfold gstep. simpl. exact H.
  Qed.

  Theorem generic_branch_isolation : forall sched st,
    grun sched st 0%nat = grun (deliver_only sched) st 0%nat.
  Proof. intros. apply generic_branch_isolation_gen. reflexivity. Qed.
End GenericBranches.
