(** C09 — second piece of the model: package-level SLICES (byte buffers) that block execution and read-only
    requests both reach — in the implementation the embedded contract byte codes (x/evm/embeds, one backing
    array per process) and the store-key prefix [evm.KeyPrefixBzAccState].

    No proofs in this file.

    Go's [append(base, args...)] writes [args] INTO the backing array of [base] whenever
    [cap(base) - len(base) >= len(args)] and returns a slice aliasing it; only when the capacity does not
    suffice does it allocate.  [Keeper.deployERC20ForBankCoin] (behind MsgCreateFunToken from a bank coin,
    delivered or simulated) builds the init code of the ERC20 it deploys as
    [append(embeds.SmartContract_ERC20MinterWithMetadataUpdates.Bytecode, packedArgs...)]; between that append
    and the constructor reading its arguments (CODECOPY) lie store reads, i.e. points at which another
    goroutine can run the same function for another coin.

    [alloc]: how the shared slice was materialised — [Exact]: by an allocator that returns a slice with
    cap = len (gethcommon.FromHex -> hex.DecodeString -> make([]byte, n)), so every append of a non-empty
    argument list reallocates; [Spare]: with spare capacity that suffices for the arguments (e.g. hex decoded
    in place, [bz[:n]] of a 2n-byte buffer).  Which one the current tree is compared with is decided by
    generated facts (Sites.alloc_of over Gen/C09Facts.v: buffer_sites, slice_origins).

    Threads are lists of atomic steps, a schedule is a list of thread ids, thread 0 is DeliverTx, threads 1..
    are requests (as in Model.v).  The shared state is the content of the spare region of the backing array
    ([tail]); argument lists are abstracted to one cell (a [nat] standing for name/symbol/decimals). *)
From Coq Require Import List Bool Arith.
Import ListNotations.

Definition btid := nat.

Inductive alloc := Exact | Spare.

Inductive bstep :=
| BAppend (p : nat)      (* input := append(shared, args...)                       — the code as it is *)
| BAppendCopy (p : nat)  (* input := append(append([]byte{}, shared...), args...)  — copy first *)
| BUse                   (* the constructor reads its arguments from [input]; what it read is the deployed contract *)
| BLocal.                (* any step on the thread's own branch (a store read: where another goroutine may run) *)

(** what [input] designates *)
Inductive bbuf := Own (p : nat) | Alias.

Record bthread := mkBT {
  bpc : list bstep;
  bbuf_of : option bbuf;
  bused : list nat        (* the thread's branch: constructor arguments of the contracts it deployed, in order *)
}.

Record bstate := mkBS { tail : nat; bthr : btid -> bthread }.

Definition bset (st : bstate) (j : btid) (o : bthread) : bstate :=
  mkBS (tail st) (fun k => if Nat.eqb j k then o else bthr st k).

Definition bexec (a : alloc) (t : btid) (s : bstep) (st : bstate) : bstate :=
  let me := bthr st t in
  match s with
  | BAppend p =>
      match a with
      | Exact => bset st t (mkBT (bpc me) (Some (Own p)) (bused me))
      | Spare => mkBS p (bthr (bset st t (mkBT (bpc me) (Some Alias) (bused me))))
      end
  | BAppendCopy p => bset st t (mkBT (bpc me) (Some (Own p)) (bused me))
  | BUse =>
      let v := match bbuf_of me with Some (Own p) => p | Some Alias => tail st | None => 0 end in
      bset st t (mkBT (bpc me) (bbuf_of me) (bused me ++ [v]))
  | BLocal => st
  end.

Definition bsched_step (a : alloc) (st : bstate) (t : btid) : bstate :=
  match bpc (bthr st t) with
  | [] => st
  | s :: rest =>
      let me := bthr st t in
      bexec a t s (bset st t (mkBT rest (bbuf_of me) (bused me)))
  end.

Definition brun (a : alloc) (sched : list btid) (st : bstate) : bstate := fold_left (bsched_step a) sched st.

Definition binit (ths : list (list bstep)) : bstate :=
  mkBS 0 (fun t => mkBT (nth t ths []) None []).

Definition bcount0 (sched : list btid) : nat := length (filter (Nat.eqb 0) sched).
Definition bdeliver_only (sched : list btid) : list btid := repeat 0 (bcount0 sched).

(** full statement for the buffers: for all scripts and ALL schedules the whole deliver thread (what it deployed,
    the buffer it holds, its remaining program) is the one of the run that schedules the deliver thread alone *)
Definition buf_noninterference (a : alloc) : Prop :=
  forall (ths : list (list bstep)) (sched : list btid),
    bthr (brun a sched (binit ths)) 0 = bthr (brun a (bdeliver_only sched) (binit ths)) 0.

(** scripts that copy before appending *)
Definition copies_first (p : list bstep) : bool :=
  forallb (fun s => match s with BAppend _ => false | _ => true end) p.

(** MsgCreateFunToken(from a bank coin with metadata [p]) as it is / with a copy *)
Definition create_script (p : nat) : list bstep := [BAppend p; BLocal; BUse].
Definition create_script_copy (p : nat) : list bstep := [BAppendCopy p; BLocal; BUse].
