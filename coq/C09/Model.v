(** C09 — interleaving model of block execution (deliver thread) and read-only requests (query /
    simulate threads) around the one piece of mutable data they share in the implementation:
    the process-wide pointer [Keeper.Bank.StateDB] (x/evm/keeper/bank_extension.go).

    No proofs in this file.

    Threads are lists of atomic steps; a schedule is a list of thread ids; the semantics runs the
    next step of the named thread.  Thread 0 is DeliverTx of one EVM transaction, threads 1.. are
    read-only requests.  Every thread has its own store (its sdk.Context: the block's deliver
    state for thread 0, a branch of the last committed version / of the check state for the
    others) and possibly its own StateDB (cached balances with dirty flags).

    [mode]: [Shared] is the code before fix 509f604 (every bank operation mirrors unibi balances into
    whatever StateDB the shared pointer designates; EthereumTx reuses a published StateDB, else
    creates and publishes one, and clears the pointer on return).  [Isolated] is the sub-model in
    which the steps of request threads (ids <> 0) never dereference, publish or clear the pointer
    (they mirror into the StateDB they use themselves, which block execution cannot tell from not
    mirroring at all) — the code since the fix, in which every access to the pointer is guarded by
    ctx.IsCheckTx().  Which mode the current tree is compared with is decided by generated facts
    (Sites.mode_of over Gen/C09Facts.v). *)
From Coq Require Import List Bool Arith ZArith.
Import ListNotations.
Local Open Scope Z_scope.

Definition acct := nat.
Definition tid := nat.
Definition ledger := acct -> Z.

Definition upd (l : ledger) (a : acct) (v : Z) : ledger := fun b => if Nat.eqb a b then v else l b.

Definition bank_send (l : ledger) (a b : acct) (n : Z) : ledger :=
  let l1 := upd l a (l a - n) in upd l1 b (l1 b + n).

Inductive mode := Shared | Isolated.

Inductive step :=
| SOpenPub    (* EthereumTx prologue: reuse the StateDB the pointer designates, else create + publish *)
| SOpenPriv   (* EthCall / EstimateGas / TraceTx: statedb.New without publishing *)
| SXfer (a b : acct) (n : Z)   (* native value transfer in the StateDB in use *)
| SBank (a b : acct) (n : Z)   (* precompile bank send: flush the StateDB in use into its ctx, send there, mirror a and b *)
| SFee (a b : acct) (n : Z)    (* bank send outside the EVM (ante fee, Cosmos msg, gas refund of a simulation) on the thread's own ctx + mirror *)
| SRefund (a b : acct) (n : Z) (* gas refund at the end of EthereumTx; failure fails the tx: msg effects dropped *)
| SMark       (* ctx after the ante handler (what survives a failing msg) *)
| SSnap       (* EVM snapshot at call-frame entry *)
| SRevert     (* revert to that snapshot *)
| SCommit     (* StateDB.Commit: flush into the ctx of the StateDB in use *)
| SClear      (* deferred k.Bank.StateDB = nil *)
| SYield.     (* no-op: where the harness injects requests *)

Inductive ev :=
| EvRes (ok : bool)            (* outcome of a transfer / bank step (part of the tx result) *)
| EvFlush (a : acct) (d : Z).  (* burn / mint events of SetAccBalance when a dirty balance is written *)

(** cached account of a StateDB: balance and dirty flag *)
Definition cache := list (acct * (Z * bool)).

Fixpoint c_find (c : cache) (a : acct) : option (Z * bool) :=
  match c with
  | [] => None
  | (b, v) :: c' => if Nat.eqb a b then Some v else c_find c' a
  end.

Fixpoint c_put (c : cache) (a : acct) (v : Z * bool) : cache :=
  match c with
  | [] => [(a, v)]
  | (b, w) :: c' => if Nat.eqb a b then (b, v) :: c' else (b, w) :: c_put c' a v
  end.

Record thread := mkT {
  pc : list step;
  store : ledger;                       (* the thread's sdk.Context: unibi balances *)
  wr : list acct;                       (* … and the accounts (re)written there by StateDB commits (auth store) *)
  sdb : cache;                          (* its own StateDB, meaningful when some [use] designates it *)
  use : option tid;                     (* owner of the StateDB this thread executes on *)
  saved : option (ledger * list acct * cache);  (* EVM snapshot of the StateDB owned by this thread *)
  mark : option (ledger * list acct);
  failed : bool;
  log : list ev
}.

Record state := mkS { ptr : option tid; thr : tid -> thread }.

Definition set_thr (st : state) (j : tid) (o : thread) : state :=
  mkS (ptr st) (fun k => if Nat.eqb j k then o else thr st k).
Definition set_ptr (st : state) (p : option tid) : state := mkS p (thr st).

Definition t_get (o : thread) (a : acct) : Z :=
  match c_find (sdb o) a with Some (v, _) => v | None => store o a end.
Definition t_set (o : thread) (a : acct) (v : Z) : thread :=
  mkT (pc o) (store o) (wr o) (c_put (sdb o) a (v, true)) (use o) (saved o) (mark o) (failed o) (log o).
Definition t_log (o : thread) (e : list ev) : thread :=
  mkT (pc o) (store o) (wr o) (sdb o) (use o) (saved o) (mark o) (failed o) (log o ++ e).
Definition t_store (o : thread) (l : ledger) : thread :=
  mkT (pc o) l (wr o) (sdb o) (use o) (saved o) (mark o) (failed o) (log o).
Definition t_pc (o : thread) (p : list step) : thread :=
  mkT p (store o) (wr o) (sdb o) (use o) (saved o) (mark o) (failed o) (log o).
Definition t_open (o : thread) (c : cache) (u : option tid) (sv : option (ledger * list acct * cache)) : thread :=
  mkT (pc o) (store o) (wr o) c u sv (mark o) (failed o) (log o).

(** commitCtx: write every dirty cached account (SetAccount + SetAccBalance), emit burn/mint for the
    balances that change, clear the flags *)
Fixpoint flush_store (c : cache) (l : ledger) : ledger :=
  match c with
  | [] => l
  | (a, (v, d)) :: c' => flush_store c' (if d then upd l a v else l)
  end.
Fixpoint flush_wr (c : cache) (w : list acct) : list acct :=
  match c with
  | [] => w
  | (a, (v, d)) :: c' => flush_wr c' (if d then a :: w else w)
  end.
Fixpoint flush_evs (c : cache) (l : ledger) : list ev :=
  match c with
  | [] => []
  | (a, (v, d)) :: c' => (if d && negb (v =? l a) then [EvFlush a (v - l a)] else []) ++ flush_evs c' l
  end.
Definition clean (c : cache) : cache := map (fun e => (fst e, (fst (snd e), false))) c.

Definition t_flush (o : thread) : thread :=
  mkT (pc o) (flush_store (sdb o) (store o)) (flush_wr (sdb o) (wr o)) (clean (sdb o)) (use o) (saved o) (mark o)
      (failed o) (log o ++ flush_evs (sdb o) (store o)).

(** which StateDB a bank operation of thread [t] mirrors balances into *)
Definition private (m : mode) (t : tid) : bool :=
  match m with Isolated => negb (Nat.eqb t 0%nat) | Shared => false end.

Definition target (m : mode) (st : state) (t : tid) : option tid :=
  if private m t then use (thr st t) else ptr st.

(** SyncStateDBWithAccount: balance of [a] in ctx [src] is written into the designated StateDB *)
Definition sync (st : state) (k : option tid) (src : ledger) (a : acct) : state :=
  match k with
  | None => st
  | Some k => set_thr st k (t_set (thr st k) a (src a))
  end.

Definition add_log (st : state) (t : tid) (e : list ev) : state := set_thr st t (t_log (thr st t) e).

Definition exec (m : mode) (t : tid) (s : step) (st : state) : state :=
  let me := thr st t in
  match s with
  | SOpenPriv => set_thr st t (t_open me [] (Some t) None)
  | SOpenPub =>
      if private m t then set_thr st t (t_open me [] (Some t) None)
      else match ptr st with
           | Some j => set_thr st t (t_open me (sdb me) (Some j) (saved me))
           | None => set_ptr (set_thr st t (t_open me [] (Some t) None)) (Some t)
           end
  | SXfer a b n =>
      match use me with
      | None => st
      | Some j =>
          let o := thr st j in
          if n <=? t_get o a then
            let o1 := t_set o a (t_get o a - n) in
            let o2 := t_set o1 b (t_get o1 b + n) in
            add_log (set_thr st j o2) t [EvRes true]
          else add_log st t [EvRes false]
      end
  | SBank a b n =>
      match use me with
      | None => st
      | Some j =>
          let f := t_flush (thr st j) in
          if n <=? store f a then
            let l := bank_send (store f) a b n in
            let st1 := set_thr st j (t_store f l) in
            let k := target m st1 t in
            add_log (sync (sync st1 k l a) k l b) t [EvRes true]
          else (* the failed call restores ctx, StateDB and the event manager *)
            add_log st t [EvRes false]
      end
  | SFee a b n =>
      if n <=? store me a then
        let l := bank_send (store me) a b n in
        let st1 := set_thr st t (t_store me l) in
        let k := target m st1 t in
        add_log (sync (sync st1 k l a) k l b) t [EvRes true]
      else add_log st t [EvRes false]
  | SRefund a b n =>
      if n <=? store me a then
        let l := bank_send (store me) a b n in
        let st1 := set_thr st t (t_store me l) in
        let k := target m st1 t in
        sync (sync st1 k l a) k l b
      else
        let lw := match mark me with Some lw => lw | None => (store me, wr me) end in
        set_thr st t (mkT (pc me) (fst lw) (snd lw) (sdb me) (use me) (saved me) (mark me) true (log me))
  | SMark => set_thr st t (mkT (pc me) (store me) (wr me) (sdb me) (use me) (saved me) (Some (store me, wr me)) (failed me) (log me))
  | SSnap =>
      match use me with
      | None => st
      | Some j => let o := thr st j in set_thr st j (t_open o (sdb o) (use o) (Some (store o, wr o, sdb o)))
      end
  | SRevert =>
      match use me with
      | None => st
      | Some j => let o := thr st j in
                  match saved o with
                  | Some (l, w, c) => set_thr st j (mkT (pc o) l w c (use o) (saved o) (mark o) (failed o) (log o))
                  | None => st
                  end
      end
  | SCommit =>
      match use me with
      | None => st
      | Some j => set_thr st j (t_flush (thr st j))
      end
  | SClear => if private m t then st else set_ptr st None
  | SYield => st
  end.

(** one scheduling decision: thread [t] performs its next step (stutters when it has finished) *)
Definition sched_step (m : mode) (st : state) (t : tid) : state :=
  match pc (thr st t) with
  | [] => st
  | s :: rest => exec m t s (set_thr st t (t_pc (thr st t) rest))
  end.

Definition run (m : mode) (sched : list tid) (st : state) : state := fold_left (sched_step m) sched st.

(** a request step that dereferences, publishes or clears the shared pointer in [Shared] mode *)
Definition hazard_step (st : state) (s : step) : bool :=
  match s with
  | SBank _ _ _ | SFee _ _ _ | SRefund _ _ _ => match ptr st with Some _ => true | None => false end
  | SOpenPub | SClear => true
  | _ => false
  end.

Definition hazard (st : state) (t : tid) : bool :=
  negb (Nat.eqb t 0%nat) &&
  match pc (thr st t) with
  | [] => false
  | s :: _ => hazard_step st s
  end.

(** the schedule up to the first hazard, and whether there was one *)
Fixpoint hazard_free (st : state) (sched : list tid) : bool :=
  match sched with
  | [] => true
  | t :: rest => negb (hazard st t) && hazard_free (sched_step Shared st t) rest
  end.

(** initial states: pointer clear, no thread executes on a StateDB yet *)
Definition init_thread (p : list step) (l : ledger) : thread := mkT p l [] [] None None None false [].
Definition init (ths : list (list step)) (l0 : tid -> ledger) : state :=
  mkS None (fun t => init_thread (nth t ths []) (l0 t)).

(** what the block commits and what the transaction returns *)
Definition committed (st : state) : ledger := store (thr st 0%nat).
Definition written (st : state) : list acct := wr (thr st 0%nat).
Definition tx_result (st : state) : bool * list ev := (failed (thr st 0%nat), log (thr st 0%nat)).

Definition count0 (sched : list tid) : nat := length (filter (Nat.eqb 0%nat) sched).
Definition deliver_only (sched : list tid) : list tid := repeat 0%nat (count0 sched).
