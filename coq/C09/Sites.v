(** C09 — which model the current tree is compared with, decided from the generated inventory of
    the functions that touch the process-wide pointer Keeper.Bank.StateDB (coq/Gen/C09Facts.v).
    No proofs in this file. *)
From Coq Require Import String List Bool.
Import ListNotations.
Require Import Nib.C09.Model.
Local Open Scope string_scope.

(** (directory, function, reads, writes, every access guarded against check-state contexts) *)
Definition site : Type := (string * string * nat * nat * bool)%type.
Definition site_dir (s : site) : string := fst (fst (fst (fst s))).
Definition site_fn (s : site) : string := snd (fst (fst (fst s))).
Definition site_guarded (s : site) : bool := snd s.

(** every access guarded => requests never dereference / publish / clear the pointer: [Isolated];
    otherwise the faithful model of the code is [Shared] *)
Definition mode_of (l : list site) : mode := if forallb site_guarded l then Isolated else Shared.

(** the functions that are known to touch the pointer: the message-server paths that execute EVM
    code, the constructor that publishes, the mirror; plus the two accessors a guarded design uses.
    None of them is a gRPC query handler. *)
Definition allowed_functions : list string :=
  [ "EthereumTx"; "NewStateDB"; "SyncStateDBWithAccount"; "convertCoinToEvmBornCoin"; "convertCoinToEvmBornERC20";
    "createFunTokenFromERC20"; "deployERC20ForBankCoin"; "TxStateDB"; "ClearTxStateDB" ].

Definition site_known (s : site) : bool :=
  String.eqb (site_dir s) "x/evm/keeper" && existsb (String.eqb (site_fn s)) allowed_functions.
