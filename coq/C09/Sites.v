(** C09 — which model the current tree is compared with, decided from the generated inventory of
    the functions that touch the process-wide pointer Keeper.Bank.StateDB (coq/Gen/C09Facts.v).
    No proofs in this file. *)
From Coq Require Import String List Bool.
Import ListNotations.
Require Import Nib.C09.Model Nib.C09.ModelBuf.
Local Open Scope string_scope.

(** (directory, function, reads, writes, every access guarded against check-state contexts) *)
Definition site : Type := (string * string * nat * nat * bool)%type.
Definition site_dir (s : site) : string := fst (fst (fst (fst s))).
Definition site_fn (s : site) : string := snd (fst (fst (fst s))).
Definition site_guarded (s : site) : bool := snd s.

(** every access guarded => requests never dereference / publish / clear the pointer: [Isolated];
    otherwise the faithful model of the code is [Shared] *)
Definition mode_of (l : list site) : mode := if forallb site_guarded l then Isolated else Shared.

(** where the pointer may be touched: inside x/evm/keeper only, and never directly by a gRPC query
    handler (a renamed accessor or an additional guarded message-server site is not an alarm; an
    UNGUARDED access anywhere is — obligation C09_every_access_guarded) *)
Definition query_handlers : list string :=
  [ "EthCall"; "EstimateGas"; "EstimateGasForEvmCallType"; "TraceTx"; "TraceCall"; "TraceBlock"; "TraceEthTxMsg";
    "EthAccount"; "ValidatorAccount"; "Balance"; "BaseFee"; "Storage"; "Code"; "Params"; "FunTokenMapping" ].

Definition site_known (s : site) : bool :=
  String.eqb (site_dir s) "x/evm/keeper" && negb (existsb (String.eqb (site_fn s)) query_handlers).

(** Hand-maintained classification of the state that lives on the singletons shared by DeliverTx and requests.
    A field / variable that is not listed (a new cache, flag, counter, …) breaks C09_shared_mutable_state_known. *)
Inductive sclass :=
| Immutable    (* assigned at construction / package initialisation only *)
| Guarded      (* Keeper.Bank.StateDB: every access behind ctx.IsCheckTx (obligation C09_every_access_guarded) *)
| StoreBacked  (* collections descriptor: the state itself lives in the multistore of the calling sdk.Context *)
| Registry     (* written by AddPrecompiles while the app is constructed, read-only afterwards *)
| PerCall.     (* value created per call / per request, never stored on a singleton *)

Definition field_table : list (string * string * string * string * sclass) := [
  ("x/devgas/v1/keeper", "DevGasIndexes", "Deployer", "collections.MultiIndex[string,string,devgastypes.FeeShare]", StoreBacked);
  ("x/devgas/v1/keeper", "DevGasIndexes", "Withdrawer", "collections.MultiIndex[string,string,devgastypes.FeeShare]", StoreBacked);
  ("x/devgas/v1/keeper", "Keeper", "DevGasStore", "collections.IndexedMap[string,devgastypes.FeeShare,DevGasIndexes]", StoreBacked);
  ("x/devgas/v1/keeper", "Keeper", "ModuleParams", "collections.Item[devgastypes.ModuleParams]", StoreBacked);
  ("x/devgas/v1/keeper", "Keeper", "accountKeeper", "devgastypes.AccountKeeper", Immutable);
  ("x/devgas/v1/keeper", "Keeper", "bankKeeper", "devgastypes.BankKeeper", Immutable);
  ("x/devgas/v1/keeper", "Keeper", "cdc", "codec.BinaryCodec", Immutable);
  ("x/devgas/v1/keeper", "Keeper", "storeKey", "storetypes.StoreKey", Immutable);
  ("x/devgas/v1/keeper", "Keeper", "wasmKeeper", "wasmkeeper.Keeper", Immutable);
  ("x/epochs/keeper", "Keeper", "Epochs", "collections.Map[string,types.EpochInfo]", StoreBacked);
  ("x/epochs/keeper", "Keeper", "cdc", "codec.Codec", Immutable);
  ("x/epochs/keeper", "Keeper", "hooks", "types.EpochHooks", Registry);
  ("x/epochs/keeper", "Keeper", "storeKey", "storetypes.StoreKey", Immutable);
  ("x/evm/keeper", "EvmState", "AccState", "collections.Map[AccStatePrimaryKey,[]byte,]", StoreBacked);
  ("x/evm/keeper", "EvmState", "BlockBloom", "collections.ItemTransient[[]byte]", StoreBacked);
  ("x/evm/keeper", "EvmState", "BlockLogSize", "collections.ItemTransient[uint64]", StoreBacked);
  ("x/evm/keeper", "EvmState", "BlockTxIndex", "collections.ItemTransient[uint64]", StoreBacked);
  ("x/evm/keeper", "EvmState", "ContractBytecode", "collections.Map[CodeHash,[]byte]", StoreBacked);
  ("x/evm/keeper", "EvmState", "ModuleParams", "collections.Item[evm.Params]", StoreBacked);
  ("x/evm/keeper", "FunTokenState", "<embedded>", "collections.IndexedMap[[]byte,evm.FunToken,IndexesFunToken]", StoreBacked);
  ("x/evm/keeper", "IndexesFunToken", "BankDenom", "collections.MultiIndex[string,[]byte,evm.FunToken]", StoreBacked);
  ("x/evm/keeper", "IndexesFunToken", "ERC20Addr", "collections.MultiIndex[gethcommon.Address,[]byte,evm.FunToken]", StoreBacked);
  ("x/evm/keeper", "Keeper", "Bank", "*NibiruBankKeeper", Immutable);
  ("x/evm/keeper", "Keeper", "accountKeeper", "evm.AccountKeeper", Immutable);
  ("x/evm/keeper", "Keeper", "authority", "sdk.AccAddress", Immutable);
  ("x/evm/keeper", "Keeper", "cdc", "codec.BinaryCodec", Immutable);
  ("x/evm/keeper", "Keeper", "precompiles", "omap.SortedMap[gethcommon.Address,vm.PrecompiledContract]", Registry);
  ("x/evm/keeper", "Keeper", "stakingKeeper", "evm.StakingKeeper", Immutable);
  ("x/evm/keeper", "Keeper", "storeKey", "storetypes.StoreKey", Immutable);
  ("x/evm/keeper", "Keeper", "transientKey", "storetypes.StoreKey", Immutable);
  ("x/evm/keeper", "NibiruBankKeeper", "<embedded>", "bankkeeper.BaseKeeper", Immutable);
  ("x/evm/keeper", "NibiruBankKeeper", "StateDB", "*statedb.StateDB", Guarded);
  ("x/evm/precompile", "Wasm", "<embedded>", "*wasmkeeper.PermissionedKeeper", Immutable);
  ("x/evm/precompile", "Wasm", "<embedded>", "wasmkeeper.Keeper", Immutable);
  ("x/evm/precompile", "precompileFunToken", "evmKeeper", "*evmkeeper.Keeper", Immutable);
  ("x/evm/precompile", "precompileOracle", "oracleKeeper", "oraclekeeper.Keeper", Immutable);
  ("x/evm/precompile", "precompileWasm", "<embedded>", "*evmkeeper.Keeper", Immutable);
  ("x/inflation/keeper", "Keeper", "CurrentPeriod", "collections.Sequence", StoreBacked);
  ("x/inflation/keeper", "Keeper", "NumSkippedEpochs", "collections.Sequence", StoreBacked);
  ("x/inflation/keeper", "Keeper", "Params", "collections.Item[types.Params]", StoreBacked);
  ("x/inflation/keeper", "Keeper", "accountKeeper", "types.AccountKeeper", Immutable);
  ("x/inflation/keeper", "Keeper", "bankKeeper", "types.BankKeeper", Immutable);
  ("x/inflation/keeper", "Keeper", "cdc", "codec.BinaryCodec", Immutable);
  ("x/inflation/keeper", "Keeper", "distrKeeper", "types.DistrKeeper", Immutable);
  ("x/inflation/keeper", "Keeper", "stakingKeeper", "types.StakingKeeper", Immutable);
  ("x/inflation/keeper", "Keeper", "storeKey", "storetypes.StoreKey", Immutable);
  ("x/inflation/keeper", "Keeper", "sudoKeeper", "types.SudoKeeper", Immutable);
  ("x/oracle/keeper", "Keeper", "AccountKeeper", "types.AccountKeeper", Immutable);
  ("x/oracle/keeper", "Keeper", "ExchangeRates", "collections.Map[asset.Pair,types.ExchangeRateAtBlock]", StoreBacked);
  ("x/oracle/keeper", "Keeper", "FeederDelegations", "collections.Map[sdk.ValAddress,sdk.AccAddress]", StoreBacked);
  ("x/oracle/keeper", "Keeper", "MissCounters", "collections.Map[sdk.ValAddress,uint64]", StoreBacked);
  ("x/oracle/keeper", "Keeper", "Params", "collections.Item[types.Params]", StoreBacked);
  ("x/oracle/keeper", "Keeper", "Prevotes", "collections.Map[sdk.ValAddress,types.AggregateExchangeRatePrevote]", StoreBacked);
  ("x/oracle/keeper", "Keeper", "PriceSnapshots", "collections.Map[collections.Pair[asset.Pair,time.Time],types.PriceSnapshot]", StoreBacked);
  ("x/oracle/keeper", "Keeper", "RewardsID", "collections.Sequence", StoreBacked);
  ("x/oracle/keeper", "Keeper", "Rewards", "collections.Map[uint64,types.Rewards]", StoreBacked);
  ("x/oracle/keeper", "Keeper", "StakingKeeper", "types.StakingKeeper", Immutable);
  ("x/oracle/keeper", "Keeper", "Votes", "collections.Map[sdk.ValAddress,types.AggregateExchangeRateVote]", StoreBacked);
  ("x/oracle/keeper", "Keeper", "WhitelistedPairs", "collections.KeySet[asset.Pair]", StoreBacked);
  ("x/oracle/keeper", "Keeper", "bankKeeper", "types.BankKeeper", Immutable);
  ("x/oracle/keeper", "Keeper", "cdc", "codec.BinaryCodec", Immutable);
  ("x/oracle/keeper", "Keeper", "distrKeeper", "types.DistributionKeeper", Immutable);
  ("x/oracle/keeper", "Keeper", "slashingKeeper", "types.SlashingKeeper", Immutable);
  ("x/oracle/keeper", "Keeper", "storeKey", "storetypes.StoreKey", Immutable);
  ("x/oracle/keeper", "Keeper", "sudoKeeper", "types.SudoKeeper", Immutable);
  ("x/sudo/keeper", "Keeper", "Sudoers", "collections.Item[sudotypes.Sudoers]", StoreBacked);
  ("x/tokenfactory/keeper", "IndexesTokenFactory", "Creator", "collections.MultiIndex[string,string,storeVType]", StoreBacked);
  ("x/tokenfactory/keeper", "Keeper", "accountKeeper", "tftypes.AccountKeeper", Immutable);
  ("x/tokenfactory/keeper", "Keeper", "bankKeeper", "tftypes.BankKeeper", Immutable);
  ("x/tokenfactory/keeper", "Keeper", "cdc", "codec.BinaryCodec", Immutable);
  ("x/tokenfactory/keeper", "Keeper", "communityPoolKeeper", "tftypes.CommunityPoolKeeper", Immutable);
  ("x/tokenfactory/keeper", "Keeper", "storeKey", "storetypes.StoreKey", Immutable);
  ("x/tokenfactory/keeper", "Keeper", "sudoKeeper", "sudokeeper.Keeper", Immutable);
  ("x/tokenfactory/keeper", "StoreAPI", "Denoms", "collections.IndexedMap[storePKType,storeVType,IndexesTokenFactory]", StoreBacked);
  ("x/tokenfactory/keeper", "StoreAPI", "ModuleParams", "collections.Item[tftypes.ModuleParams]", StoreBacked);
  ("x/tokenfactory/keeper", "StoreAPI", "bankKeeper", "tftypes.BankKeeper", Immutable);
  ("x/tokenfactory/keeper", "StoreAPI", "creator", "collections.KeySet[storePKType]", StoreBacked);
  ("x/tokenfactory/keeper", "StoreAPI", "denomAdmins", "collections.Map[storePKType,tftypes.DenomAuthorityMetadata]", StoreBacked)
].

(* package-level variables that are assigned outside init / constructors or are sync / atomic objects; reviewed:
   moduleErrorCodeIdx is the running error-code counter bumped by registerError while the package initialises its
   sentinel errors, never afterwards *)
Definition var_table : list (string * string * string) := [
  ("x/tokenfactory/types", "moduleErrorCodeIdx", "uint32")
].

Definition str4_eqb (a b : string * string * string * string) : bool :=
  let '(a1, a2, a3, a4) := a in let '(b1, b2, b3, b4) := b in
  String.eqb a1 b1 && String.eqb a2 b2 && String.eqb a3 b3 && String.eqb a4 b4.
Definition str3_eqb (a b : string * string * string) : bool :=
  let '(a1, a2, a3) := a in let '(b1, b2, b3) := b in
  String.eqb a1 b1 && String.eqb a2 b2 && String.eqb a3 b3.

(** What needs a reviewed entry is decided by TYPE and by USE, not by mere existence:
    - a field of a singleton struct needs one when its type is reference-like (pointer, map, slice, channel,
      sync / sync/atomic) or an external named type of unknown mutability (interfaces, generic containers,
      foreign structs), or when the field is assigned outside constructors (New… / Precompile… / Init… / init);
      plain values (string, bool, numbers, byte arrays, gethcommon.Address / Hash), function values and fields whose
      type is a local struct (whose own fields are inventoried) are immutable by construction;
    - a package-level variable needs one when it is assigned (also through an index or a dereference) outside init /
      constructors, or is a sync / atomic object; numbers shared through a variable and changed IN PLACE are the business
      of [inplace_sites] / [var_aliases] (obligation C09_no_unreviewed_aliasing); variables of artefact / CLI / simulation
      / test-helper directories are not inventoried at all.
    Type aliases, new helper functions, per-call structs, sentinel errors, constants never need an entry. *)
Definition reference_kinds : list string := ["ptr"; "map"; "slice"; "chan"; "sync"; "named"].

Definition field_needs_entry (f : string * string * string * string * string * bool) : bool :=
  let '(_, _, _, _, kind, assigned) := f in existsb (String.eqb kind) reference_kinds || assigned.

(** A field matches its reviewed entry by (directory, struct, name, type).  Renaming a field is harmless when nothing else
    changes: a field of an external NAMED type (a keeper, a codec, a store key — not a pointer / map / slice / sync object)
    that is never assigned outside constructors also matches an [Immutable] entry of the same struct with the same type
    under another name. *)
Definition immutable_entry (c : sclass) : bool := match c with Immutable => true | _ => false end.

Definition field_known (f : string * string * string * string * string * bool) : bool :=
  let '(d, st, fl, ty, kind, assigned) := f in
  negb (field_needs_entry f) || existsb (fun e => str4_eqb (d, st, fl, ty) (fst e)) field_table ||
  (String.eqb kind "named" && negb assigned &&
   existsb (fun e => let '(d', st', _, ty') := fst e in
                     String.eqb d d' && String.eqb st st' && String.eqb ty ty' && immutable_entry (snd e)) field_table).

Definition var_needs_entry (v : string * string * string * string * bool) : bool :=
  let '(_, _, _, kind, assigned) := v in String.eqb kind "sync" || assigned.

Definition var_known (v : string * string * string * string * bool) : bool :=
  let '(d, n, _, _, _) := v in
  negb (var_needs_entry v) ||
  existsb (fun e => String.eqb d (fst (fst e)) && String.eqb n (snd (fst e))) var_table.

(** the only class that is mutable at run time AND not confined to a context is [Guarded] *)
Definition runtime_mutable (c : sclass) : bool := match c with Guarded => true | _ => false end.
Definition guarded_fields : list (string * string * string * string) :=
  map fst (filter (fun e => runtime_mutable (snd e)) field_table).

(** Reviewed in-place big-number arithmetic (receiver not syntactically fresh): in each of these the receiver
    is a value the callee allocated for this call (SuggestGasTipCap returns big.NewInt(0); the block bloom is
    decoded from the transient store; v was re-bound to new(big.Int).Sub(v, 35)) — nobody else holds it. *)
Definition inplace_table : list (string * string * string) := [
  ("eth/rpc/backend", "GasPrice", "result.Add(result,head.BaseFee)");
  ("eth/rpc/backend", "SetTxDefaults", "price.Add(price,head.BaseFee)");
  ("x/evm/keeper", "CalcBloomFromLogs", "bloomInt.Or(bloomInt,big.NewInt(0).SetBytes(gethcore.LogsBloom(newLogs)))");
  ("x/evm", "DeriveChainID", "v.Div(v,big.NewInt(2))")
].

(** Reviewed functions that return a package-level variable itself: the three precompile addresses are arrays
    (copied by value); BaseFeeMicronibiPerGas hands out the shared *big.Int BASE_FEE_MICRONIBI — a latent alias whose
    callers only read it or pass it to NativeToWei (which allocates); any in-place arithmetic on it would show up in
    [inplace_sites]. *)
Definition alias_table : list (string * string * string) := [
  ("x/evm/keeper", "BaseFeeMicronibiPerGas", "evm.BASE_FEE_MICRONIBI");
  ("x/evm/precompile", "Address", "PrecompileAddr_FunToken");
  ("x/evm/precompile", "Address", "PrecompileAddr_Oracle");
  ("x/evm/precompile", "Address", "PrecompileAddr_Wasm")
].

Definition inplace_known (s : string * string * string) : bool := existsb (str3_eqb s) inplace_table.
Definition alias_known (s : string * string * string) : bool := existsb (str3_eqb s) alias_table.

(** ** Shared byte buffers (ModelBuf.v): writes through slice / index expressions whose base is a package-level variable
    or a field of a singleton — generated [buffer_sites] (directory, function, kind, base, slot) — and how the appended-to
    slots are materialised — generated [slice_origins] (directory, function, left-hand side, callee, slot). *)
Definition bsite : Type := (string * string * string * string * string)%type.
Definition bsite_kind (s : bsite) : string := let '(_, _, k, _, _) := s in k.
Definition bsite_base (s : bsite) : string := let '(_, _, _, b, _) := s in b.
Definition bsite_slot (s : bsite) : string := let '(_, _, _, _, sl) := s in sl.

(** Reviewed appended-to slots (field / variable names of shared slices).  Only [append] can be justified, and only by
    the exact capacity of its base (with cap = len every append of a non-empty argument list reallocates, with an empty one
    nothing is written) — a property of how the SLOT is materialised, not of the function that appends; an index write or
    a [copy] into a shared base always writes into the shared array and is never justified.
    - Bytecode: embeds.SmartContract_*.Bytecode; deployERC20ForBankCoin builds init code = byte code ++ ABI-packed
      (name, symbol, decimals);
    - KeyPrefixBzAccState: x/evm store-key prefix; PrefixAccStateEthAddr = prefix ++ address. *)
Definition buffer_slots : list string := ["Bytecode"; "KeyPrefixBzAccState"].

Definition buffer_site_known (s : bsite) : bool :=
  String.eqb (bsite_kind s) "append" && existsb (String.eqb (bsite_slot s)) buffer_slots.

(** Allocators that return a slice with cap = len (reviewed; the run-time side is the `slices` case of the harness, which
    observes cap - len of every such slice on every run):
    - gethcommon.FromHex / Hex2Bytes -> encoding/hex.DecodeString: make([]byte, DecodedLen(len(s))), returns dst[:n] with
      n = len(dst) for well-formed input (Go >= 1.20; older versions decoded in place);
    - gethcommon.CopyBytes, two-argument make: exact by definition (make/3 names a capacity);
    - KeyPrefixAccState.Prefix: collections.Namespace.Prefix returns the one-element literal []byte{uint8(n)}.
    NOT exact: bytes.Clone / slices.Clone / append([]byte{}, x...) (size-class rounding), in-place decoding. *)
Definition exact_allocators : list string := [
  "github.com/ethereum/go-ethereum/common.FromHex";
  "github.com/ethereum/go-ethereum/common.Hex2Bytes";
  "github.com/ethereum/go-ethereum/common.CopyBytes";
  "encoding/hex.DecodeString";
  "make/2";
  "expr:KeyPrefixAccState.Prefix"
].

Definition origin_callee (o : bsite) : string := let '(_, _, _, c, _) := o in c.
Definition origin_exact (o : bsite) : bool := existsb (String.eqb (origin_callee o)) exact_allocators.
Definition site_has_origin (origins : list bsite) (s : bsite) : bool :=
  existsb (fun o => String.eqb (bsite_slot o) (bsite_slot s)) origins.

(** every write with a shared base is a plain [append], every appended-to shared slice has a known origin and every origin
    is an exact allocator => [Exact]; otherwise (an index write, a [copy], an append to a re-sliced base, an unknown or
    inexact origin) the faithful model of the code is [Spare]: requests can write into an array block execution reads *)
Definition alloc_of (sites origins : list bsite) : alloc :=
  if forallb (fun s => String.eqb (bsite_kind s) "append") sites &&
     forallb (site_has_origin origins) sites && forallb origin_exact origins then Exact else Spare.

Definition appended_bases (sites : list bsite) : list string :=
  map bsite_base (filter (fun s => String.eqb (bsite_kind s) "append") sites).
