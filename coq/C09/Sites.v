(** C09 — which model the current tree is compared with, decided from the generated inventory of
    the functions that touch the process-wide pointer Keeper.Bank.StateDB (coq/Gen/C09Facts.v).
    No proofs in this file. *)
From Coq Require Import String List Bool.
Import ListNotations.
Require Import Nib.C09.Model.
Local Open Scope string_scope.

(** (directory, function, reads, writes, every access guarded against check-state contexts) *)
Definition site : Type := (string * string * nat * nat * bool)%type.
Definition site_dir (s : site) : string := fst (fst (fst (fst s))).
Definition site_fn (s : site) : string := snd (fst (fst (fst s))).
Definition site_guarded (s : site) : bool := snd s.

(** every access guarded => requests never dereference / publish / clear the pointer: [Isolated];
    otherwise the faithful model of the code is [Shared] *)
Definition mode_of (l : list site) : mode := if forallb site_guarded l then Isolated else Shared.

(** where the pointer may be touched: inside x/evm/keeper only, and never directly by a gRPC query
    handler (a renamed accessor or an additional guarded message-server site is not an alarm; an
    UNGUARDED access anywhere is — obligation C09_every_access_guarded) *)
Definition query_handlers : list string :=
  [ "EthCall"; "EstimateGas"; "EstimateGasForEvmCallType"; "TraceTx"; "TraceCall"; "TraceBlock"; "TraceEthTxMsg";
    "EthAccount"; "ValidatorAccount"; "Balance"; "BaseFee"; "Storage"; "Code"; "Params"; "FunTokenMapping" ].

Definition site_known (s : site) : bool :=
  String.eqb (site_dir s) "x/evm/keeper" && negb (existsb (String.eqb (site_fn s)) query_handlers).
