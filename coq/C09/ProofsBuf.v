(** C09 — proofs about the shared-slice model (ModelBuf.v). *)
From Coq Require Import List Bool Arith Lia.
Import ListNotations.
Require Import Nib.C09.ModelBuf.

(** no thread holds a slice that aliases the shared backing array *)
Definition noalias (st : bstate) : Prop := forall t, bbuf_of (bthr st t) <> Some Alias.

(** appends cannot create one: exact allocation, or every remaining program copies first *)
Definition safe (a : alloc) (st : bstate) : Prop :=
  a = Exact \/ forall t, copies_first (bpc (bthr st t)) = true.

Definition good (a : alloc) (st : bstate) : Prop := safe a st /\ noalias st.

Lemma bset_same st j o : bthr (bset st j o) j = o.
Proof. unfold bset; simpl. now rewrite Nat.eqb_refl. Qed.

Lemma bset_other st j o k : j <> k -> bthr (bset st j o) k = bthr st k.
Proof. intro H. unfold bset; simpl. destruct (Nat.eqb j k) eqn:E; auto. apply Nat.eqb_eq in E. contradiction. Qed.

Lemma bthr_bset st j o k : bthr (bset st j o) k = if Nat.eqb j k then o else bthr st k.
Proof. reflexivity. Qed.

(** a step of thread [t] changes no other thread — in either allocation mode *)
Lemma step_other_thread a st t k : t <> k -> bthr (bsched_step a st t) k = bthr st k.
Proof.
  intro Ht. apply Nat.eqb_neq in Ht. unfold bsched_step.
  destruct (bpc (bthr st t)) as [|s rest]; auto.
  destruct s; unfold bexec; try destruct a; cbn; rewrite ?Nat.eqb_refl; cbn; rewrite ?Ht; reflexivity.
Qed.

Lemma other_step a st t : t <> 0 -> bthr (bsched_step a st t) 0 = bthr st 0.
Proof. apply step_other_thread. Qed.

Lemma step_own_pc a st t : bpc (bthr (bsched_step a st t) t) = tl (bpc (bthr st t)).
Proof.
  unfold bsched_step.
  destruct (bpc (bthr st t)) as [|s rest] eqn:E; [now rewrite E|].
  destruct s; unfold bexec; try destruct a; cbn; rewrite ?Nat.eqb_refl; cbn; rewrite ?Nat.eqb_refl; reflexivity.
Qed.

Lemma step_own_buf a st t :
  bbuf_of (bthr (bsched_step a st t) t) =
  match bpc (bthr st t) with
  | BAppend p :: _ => Some (match a with Exact => Own p | Spare => Alias end)
  | BAppendCopy p :: _ => Some (Own p)
  | _ => bbuf_of (bthr st t)
  end.
Proof.
  unfold bsched_step.
  destruct (bpc (bthr st t)) as [|s rest] eqn:E; [reflexivity|].
  destruct s; unfold bexec; try destruct a; cbn; rewrite ?Nat.eqb_refl; cbn; rewrite ?Nat.eqb_refl; reflexivity.
Qed.

Lemma copies_first_tail s rest : copies_first (s :: rest) = true -> copies_first rest = true.
Proof. unfold copies_first; simpl. intro H. apply andb_true_iff in H. tauto. Qed.

Lemma copies_first_tl p : copies_first p = true -> copies_first (tl p) = true.
Proof. destruct p; auto. apply copies_first_tail. Qed.

Lemma good_step a st t : good a st -> good a (bsched_step a st t).
Proof.
  intros [Hs Hn]. split.
  - destruct Hs as [->|Hall]; [now left|right].
    intro k. destruct (Nat.eq_dec t k) as [<-|Hk].
    + rewrite step_own_pc. apply copies_first_tl, Hall.
    + rewrite step_other_thread; auto.
  - intro k. destruct (Nat.eq_dec t k) as [<-|Hk].
    + rewrite step_own_buf.
      destruct (bpc (bthr st t)) as [|s rest] eqn:E; [apply Hn|].
      destruct s; try apply Hn; try discriminate.
      destruct a; [discriminate|].
      destruct Hs as [H|Hall]; [discriminate|].
      specialize (Hall t). rewrite E in Hall. simpl in Hall. discriminate.
    + rewrite step_other_thread; auto.
Qed.

(** the deliver thread's own step depends on the deliver thread only (no aliasing slice: [tail] is never read) *)
Lemma zero_step a st st' :
  noalias st -> noalias st' -> bthr st 0 = bthr st' 0 ->
  bthr (bsched_step a st 0) 0 = bthr (bsched_step a st' 0) 0.
Proof.
  intros Hn Hn' E. unfold bsched_step. rewrite <- E.
  destruct (bpc (bthr st 0)) as [|s rest]; auto.
  pose proof (Hn 0) as H0.
  destruct s; unfold bexec; try destruct a; cbn; rewrite <- ?E; try reflexivity;
    destruct (bbuf_of (bthr st 0)) as [[p|]|]; try reflexivity; contradiction.
Qed.

Lemma bdeliver_only_cons0 s : bdeliver_only (0 :: s) = 0 :: bdeliver_only s.
Proof. reflexivity. Qed.

Lemma bdeliver_only_other t s : t <> 0 -> bdeliver_only (t :: s) = bdeliver_only s.
Proof.
  intro H. unfold bdeliver_only, bcount0. simpl.
  destruct t; [contradiction|]. reflexivity.
Qed.

Lemma good_run_same_block a sched :
  forall st st', good a st -> good a st' -> bthr st 0 = bthr st' 0 ->
    bthr (brun a sched st) 0 = bthr (brun a (bdeliver_only sched) st') 0.
Proof.
  induction sched as [|t s IH]; intros st st' G G' E; [exact E|].
  destruct (Nat.eq_dec t 0) as [->|Ht].
  - rewrite bdeliver_only_cons0. simpl. apply IH; auto using good_step.
    apply zero_step; auto; [apply G|apply G'].
  - rewrite (bdeliver_only_other _ _ Ht). simpl. apply IH; auto using good_step.
    rewrite other_step; auto.
Qed.

Lemma binit_noalias ths : noalias (binit ths).
Proof. intros t. simpl. discriminate. Qed.

(** FULL statement for exact allocation *)
Theorem buf_noninterference_exact : buf_noninterference Exact.
Proof.
  intros ths sched. apply good_run_same_block; auto; split; auto using binit_noalias; now left.
Qed.

(** … and, however the shared slice was allocated, for code that copies before appending *)
Theorem buf_noninterference_copy_first :
  forall (a : alloc) (ths : list (list bstep)) (sched : list btid),
    (forall t, copies_first (nth t ths []) = true) ->
    bthr (brun a sched (binit ths)) 0 = bthr (brun a (bdeliver_only sched) (binit ths)) 0.
Proof.
  intros a ths sched H. apply good_run_same_block; auto; split; auto using binit_noalias; right; exact H.
Qed.

(** spare capacity: DeliverTx of MsgCreateFunToken(coin 1) with a simulation of MsgCreateFunToken(coin 2) served between
    the append and the constructor — the committed ERC20 carries the metadata of coin 2 *)
Definition refute_ths : list (list bstep) := [create_script 1; create_script 2].
Definition refute_sched : list btid := [0; 1; 0; 0].

Lemma buf_spare_witness :
  bused (bthr (brun Spare refute_sched (binit refute_ths)) 0) = [2] /\
  bused (bthr (brun Spare (bdeliver_only refute_sched) (binit refute_ths)) 0) = [1].
Proof. split; vm_compute; reflexivity. Qed.

Theorem buf_noninterference_spare_refuted : ~ buf_noninterference Spare.
Proof.
  intro H. specialize (H refute_ths refute_sched).
  destruct buf_spare_witness as [A B]. rewrite H in A. rewrite A in B. discriminate.
Qed.

(** non-vacuity: the same scripts and schedule under exact allocation deploy coin 1's metadata; with a copy also under [Spare] *)
Example exact_nonvacuous :
  bused (bthr (brun Exact refute_sched (binit refute_ths)) 0) = [1].
Proof. vm_compute. reflexivity. Qed.

Example copy_first_nonvacuous :
  bused (bthr (brun Spare refute_sched (binit [create_script_copy 1; create_script_copy 2])) 0) = [1] /\
  (forall t, copies_first (nth t [create_script_copy 1; create_script_copy 2] []) = true).
Proof.
  split; [vm_compute; reflexivity|].
  intros [|[|[|t]]]; reflexivity.
Qed.
