(** C09 — the property, over the model and over observed pairs of runs. *)
From Coq Require Import List Bool Arith ZArith.
Import ListNotations.
Require Import Nib.C09.Model.
Local Open Scope Z_scope.

(** ** over the model *)

(** two states agree on everything block execution produces: the deliver thread (its committed
    store, tx result: failure flag and result/event log, remaining program) and the shared pointer *)
Definition same_block (st st' : state) : Prop := ptr st = ptr st' /\ thr st 0%nat = thr st' 0%nat.

(** full statement: whatever the requests are and however they are scheduled, block execution is
    the one of the deliver thread alone *)
Definition noninterference (m : mode) : Prop :=
  forall (ths : list (list step)) (l0 : tid -> ledger) (sched : list tid),
    same_block (run m sched (init ths l0)) (run m (deliver_only sched) (init ths l0)).

(** ** over observed pairs of runs (replica without requests, replica with requests) *)

Record obs := mkObs {
  o_hash_eq : bool;   (* app hash of the scenario block *)
  o_next_eq : bool;   (* app hash of the following block *)
  o_tx_eq : bool;     (* DeliverTx response: code, data, gas, events *)
  o_base_ok : bool;   (* tx code 0 without requests *)
  o_with_ok : bool;   (* tx code 0 with requests *)
  o_base : list Z;    (* unibi of K, X, Y, Z, S, F, C without requests *)
  o_with : list Z     (* … with requests *)
}.

Definition P (o : obs) : Prop :=
  o_hash_eq o = true /\ o_next_eq o = true /\ o_tx_eq o = true /\ o_base_ok o = o_with_ok o /\ o_base o = o_with o.

Fixpoint zlist_eqb (a b : list Z) : bool :=
  match a, b with
  | [], [] => true
  | x :: a', y :: b' => (x =? y) && zlist_eqb a' b'
  | _, _ => false
  end.

Definition Pb (o : obs) : bool :=
  o_hash_eq o && o_next_eq o && o_tx_eq o && Bool.eqb (o_base_ok o) (o_with_ok o) && zlist_eqb (o_base o) (o_with o).

Definition obs_eqb (a b : obs) : bool :=
  Bool.eqb (o_hash_eq a) (o_hash_eq b) && Bool.eqb (o_next_eq a) (o_next_eq b) && Bool.eqb (o_tx_eq a) (o_tx_eq b) &&
  Bool.eqb (o_base_ok a) (o_base_ok b) && Bool.eqb (o_with_ok a) (o_with_ok b) &&
  zlist_eqb (o_base a) (o_base b) && zlist_eqb (o_with a) (o_with b).

Lemma zlist_eqb_eq a b : zlist_eqb a b = true -> a = b.
Proof.
  revert b; induction a as [|x a IH]; intros [|y b] H; simpl in H; try discriminate; auto.
  apply andb_true_iff in H as [H1 H2]. apply Z.eqb_eq in H1. subst. f_equal. auto.
Qed.

Lemma Pb_sound o : Pb o = true -> P o.
Proof.
  unfold Pb, P. intro H.
  repeat (apply andb_true_iff in H as [H ?]).
  repeat split; auto using zlist_eqb_eq, eqb_prop.
Qed.
