(** C17 — proofs: the commission cap is an invariant of every history, for message trees of any
    depth and shape, given what the generated facts say about the decorator and the wasm handler. *)
From Coq Require Import List Bool Arith ZArith Lia.
Import ListNotations.
Require Import Nib.C17.AnteFacts Nib.C17.CarrierTree Nib.C17.CarrierTreeFacts Nib.C17.Model Nib.C17.Spec.
Local Open Scope Z_scope.

(** ---------------------------------------------------------------- validator table *)
Lemma find_set_same l a v : find_val (set_val l a v) a = Some v.
Proof.
  induction l as [|[b w] l IH]; simpl.
  - now rewrite Nat.eqb_refl.
  - destruct (Nat.eqb a b) eqn:E; simpl.
    + now rewrite Nat.eqb_refl.
    + now rewrite E.
Qed.

Lemma find_set_other l a b v : a <> b -> find_val (set_val l a v) b = find_val l b.
Proof.
  intro Hab. induction l as [|[k w] l IH]; simpl.
  - destruct (Nat.eqb b a) eqn:E; [apply Nat.eqb_eq in E; congruence|reflexivity].
  - destruct (Nat.eqb a k) eqn:E; simpl.
    + apply Nat.eqb_eq in E. subst k.
      destruct (Nat.eqb b a) eqn:E2; [apply Nat.eqb_eq in E2; congruence|reflexivity].
    + destruct (Nat.eqb b k); [reflexivity|exact IH].
Qed.

Lemma changed_capped_refl s : changed_capped s s.
Proof. intros a v H. now right. Qed.

Lemma changed_capped_vals s0 s s' : vals s' = vals s -> changed_capped s0 s -> changed_capped s0 s'.
Proof. unfold changed_capped. intros E H a v. rewrite E. apply H. Qed.

Lemma changed_capped_cap s0 s : cap_ok s0 -> changed_capped s0 s -> cap_ok s.
Proof.
  intros H0 H a v Hf. destruct (H a v Hf) as [Hle|Hold]; [exact Hle|]. exact (H0 a v Hold).
Qed.

Lemma changed_capped_set s0 s a nv :
  v_rate nv <= CAP25 -> changed_capped s0 s -> changed_capped s0 (with_vals s (set_val (vals s) a nv)).
Proof.
  intros Hr H b v. simpl. destruct (Nat.eq_dec a b) as [->|Hne].
  - rewrite find_set_same. intro E. inversion E. subst. now left.
  - rewrite find_set_other by exact Hne. apply H.
Qed.

(** ---------------------------------------------------------------- leaves *)
Definition leaf_capped (l : leaf) : Prop :=
  match l with
  | CreateVal _ r _ _ => r <= CAP25
  | EditVal _ (Some r) => r <= CAP25
  | _ => True
  end.

Lemma leaf_run_capped gr s0 s s' l :
  leaf_capped l -> changed_capped s0 s -> leaf_run gr s l = Some s' -> changed_capped s0 s'.
Proof.
  intros Hl Hs Hrun. destruct l as [op r mx ch|op [r|]|a b k|a]; simpl in *.
  - destruct (r <? min_rate s); [discriminate|].
    destruct (find_val (vals s) op); [discriminate|].
    destruct (rates_valid r mx ch); [|discriminate].
    inversion Hrun. subst. apply changed_capped_set; simpl; auto.
  - destruct (find_val (vals s) op) as [v|]; [|discriminate].
    destruct (now s - v_time v <? DAY); [discriminate|].
    destruct (r <? 0); [discriminate|].
    destruct (v_max v <? r); [discriminate|].
    destruct (v_chg v <? r - v_rate v); [discriminate|].
    destruct (r <? min_rate s); [discriminate|].
    inversion Hrun. subst. apply changed_capped_set; simpl; auto.
  - destruct (find_val (vals s) op); [|discriminate]. inversion Hrun. subst. exact Hs.
  - destruct (kind_routed gr k); [|discriminate]. inversion Hrun. subst. eapply changed_capped_vals; [|exact Hs]. reflexivity.
  - inversion Hrun. subst. exact Hs.
Qed.

Lemma leaf_run_harmless gr s s' l :
  leaf_kind l = K_GRANT \/ leaf_kind l = K_SEND -> leaf_run gr s l = Some s' -> vals s' = vals s.
Proof.
  intros Hk Hrun. destruct l as [op r mx ch|op ro|a b k|a]; simpl in *.
  - destruct Hk; discriminate.
  - destruct Hk; discriminate.
  - destruct (kind_routed gr k); [|discriminate]. inversion Hrun. reflexivity.
  - inversion Hrun. reflexivity.
Qed.

(** ---------------------------------------------------------------- what must hold of the code *)
Definition cmp_sound (m : option cmp_method) : Prop := m = Some CmpGT \/ m = Some CmpGTE.

Definition cfg_ok (c : cfg) : Prop :=
  cap c <= CAP25 /\ dec_on c = true /\ cmp_sound (dec_create c) /\ cmp_sound (dec_edit c) /\
  dec_exec c = true /\ dec_rec c = true /\ wasm_check c = true /\ evm_only_eth c = true /\
  cont_exec c = true /\ cont_staking c = true /\ cont_other c = true /\
  (* the set of message carriers of the linked application: all known to the model, and x/group (whose proposals
     are executed through the router with no check on what they carry) not among the routed ones *)
  carriers_known c = true /\ group_routed c = false.

Definition cmp_soundb (m : option cmp_method) : bool :=
  match m with Some CmpGT | Some CmpGTE => true | _ => false end.

Definition cfg_okb (c : cfg) : bool :=
  (cap c <=? CAP25) && dec_on c && cmp_soundb (dec_create c) && cmp_soundb (dec_edit c) &&
  dec_exec c && dec_rec c && wasm_check c && evm_only_eth c && cont_exec c && cont_staking c && cont_other c &&
  carriers_known c && negb (group_routed c).

Lemma cmp_soundb_sound m : cmp_soundb m = true -> cmp_sound m.
Proof. destruct m as [[]|]; simpl; intro H; try discriminate; [now left|now right]. Qed.

Lemma cfg_okb_sound c : cfg_okb c = true -> cfg_ok c.
Proof.
  unfold cfg_okb, cfg_ok. intro H.
  repeat (apply andb_true_iff in H as [H ?]).
  repeat split; auto using cmp_soundb_sound; [lia|]. now apply negb_true_iff.
Qed.

(** the ICA host allow-list admits only message types that cannot touch a commission *)
Definition ica_safe (w : world) : Prop :=
  forall k, w_ica_allow w k = true -> k = MKLeaf K_GRANT \/ k = MKLeaf K_SEND.

(** proposals that governance passed would have passed the commission check *)
Definition gov_trusted (c : cfg) (h : list event) : Prop :=
  forall dt ms, In (EvGovPass dt ms) h -> dec_rejects_list c ms = false.

Lemma over_sound m bound r : m = CmpGT \/ m = CmpGTE -> over m bound r = false -> r <= bound.
Proof. intros [->| ->]; simpl; lia. Qed.

Lemma leaf_over_capped c l : cfg_ok c -> leaf_over c l = false -> leaf_capped l.
Proof.
  intros (Hcap & _ & Hc & He & _) H. destruct l as [op r mx ch|op [r|]|a b k|a]; simpl in *; auto.
  - destruct Hc as [E|E]; rewrite E in H; apply over_sound in H; auto; lia.
  - destruct He as [E|E]; rewrite E in H; apply over_sound in H; auto; lia.
Qed.

(** when no clause returns early the scan is an [existsb] *)
Definition scans_all (c : cfg) : Prop := cont_exec c = true /\ cont_staking c = true /\ cont_other c = true.

Lemma stops_false c lvl x : scans_all c -> stops c lvl x = false.
Proof.
  intros (H1 & H2 & H3). unfold stops. rewrite H1, H2, H3.
  destruct x as [[]| | | | | |]; simpl; try reflexivity.
  - destruct (dec_create c); reflexivity.
  - destruct (dec_edit c); reflexivity.
  - destruct (looks_into c lvl); reflexivity.
Qed.

Lemma scan_existsb c lvl f ms : scans_all c -> scan f (stops c lvl) ms = existsb f ms.
Proof.
  intro H. induction ms as [|x r IH]; simpl; [reflexivity|]. rewrite (stops_false c lvl x H), IH. reflexivity.
Qed.

Lemma cfg_ok_scans_all c : cfg_ok c -> scans_all c.
Proof. intros (_ & _ & _ & _ & _ & _ & _ & _ & H1 & H2 & H3 & _). repeat split; assumption. Qed.

Lemma cfg_ok_group_off c : cfg_ok c -> group_routed c = false.
Proof. intros (_ & _ & _ & _ & _ & _ & _ & _ & _ & _ & _ & _ & H). exact H. Qed.

(** a recursive check does not depend on how many MsgExec levels were already entered *)
Lemma dec_rejects_lvl c : dec_rec c = true -> scans_all c -> forall t n, dec_rejects c n t = dec_rejects c 0 t.
Proof.
  intros Hrec Hall t. induction t as [l|g cs IH|s0 ct cs IH|p cs IH|r a cs IH|p a tr cs IH|k a cs IH] using (tree_ind' leaf); intro n; try reflexivity.
  cbn [dec_rejects]. unfold looks_into. rewrite Hrec. rewrite !orb_true_l.
  destruct (dec_exec c); simpl; [|reflexivity].
  rewrite !(scan_existsb c _ _ _ Hall).
  apply existsb_ext_in. intros x Hx. rewrite Forall_forall in IH.
  rewrite (IH x Hx (S n)). rewrite (IH x Hx 1%nat). reflexivity.
Qed.

(** ---------------------------------------------------------------- unfolding equations *)
Lemma run_msg_leaf c w l s : run_msg c w (Leaf l) s = leaf_run (group_routed c) s l.
Proof. reflexivity. Qed.

Lemma run_msg_exec c w g cs s :
  run_msg c w (Exec g cs) s =
  seq_opt (run_msg c w) (fun s c0 => authz_ok leaf leaf_signer leaf_kind st granted s g c0) cs s.
Proof. reflexivity. Qed.

Lemma run_msg_wasm c w snd ctr cs s :
  run_msg c w (Wasm snd ctr cs) s =
  if w_reflects w ctr snd && negb (Nat.eqb (List.length cs) 0)
  then seq_opt (run_msg c w) (fun _ c0 => basic_msg c0 && wasm_admits c ctr c0) cs s
  else None.
Proof. reflexivity. Qed.

Lemma run_msg_gov c w p cs s :
  run_msg c w (Gov p cs) s =
  if forallb (fun c0 => basic_msg c0 && Nat.eqb (signer_msg c0) (w_gov w) && routable leaf (group_routed c) c0) cs then Some s else None.
Proof. reflexivity. Qed.

Lemma run_msg_group c w p pol tr cs s :
  run_msg c w (Group p pol tr cs) s =
  if group_routed c && w_group_member w pol p && forallb (fun c0 => Nat.eqb (signer_msg c0) pol) cs then
    if tr then match seq_opt (run_msg c w) (fun _ _ => true) cs s with Some s' => Some s' | None => Some s end
    else Some s
  else None.
Proof. reflexivity. Qed.

Lemma run_msg_unk c w k a cs s : run_msg c w (Unk k a cs) s = None.
Proof. reflexivity. Qed.

Lemma run_msg_ica c w r a cs s :
  run_msg c w (Ica r a cs) s =
  if w_ica_acct w a then
    match seq_opt (run_msg c w) (fun _ c0 => w_ica_allow w (kind_of leaf leaf_kind c0) && Nat.eqb (signer_msg c0) a) cs s with
    | Some s' => Some s'
    | None => Some s
    end
  else Some s.
Proof. reflexivity. Qed.

(** ---------------------------------------------------------------- the tree lemma *)
Lemma run_msg_inv c w s0 :
  cfg_ok c -> ica_safe w ->
  forall t s s', dec_rejects c 0 t = false -> changed_capped s0 s -> run_msg c w t s = Some s' ->
  changed_capped s0 s'.
Proof.
  intros Hc Hi t.
  pose proof Hc as (_ & _ & _ & _ & Hexec & Hrec & Hwasm & _).
  pose proof (cfg_ok_scans_all c Hc) as Hall.
  induction t as [l|g cs IH|snd ct cs IH|p cs IH|r a cs IH|p pol tr cs IH|k a cs IH] using (tree_ind' leaf); intros s s' Hd Hs Hrun.
  - rewrite run_msg_leaf in Hrun. cbn [dec_rejects] in Hd.
    eapply leaf_run_capped; eauto using leaf_over_capped.
  - rewrite run_msg_exec in Hrun. cbn [dec_rejects] in Hd. unfold looks_into in Hd. rewrite Hexec, Hrec in Hd. simpl in Hd.
    rewrite (scan_existsb c _ _ _ Hall) in Hd.
    rewrite Forall_forall in IH.
    eapply seq_opt_inv_weak; [|exact Hs|exact Hrun].
    intros c0 Hin s1 s2 Hs1 _ Hr. eapply IH; eauto.
    rewrite <- (dec_rejects_lvl c Hrec Hall c0 1%nat). eapply existsb_false_forall; eauto.
  - rewrite run_msg_wasm in Hrun.
    destruct (w_reflects w ct snd && negb (Nat.eqb (List.length cs) 0)); [|discriminate].
    rewrite Forall_forall in IH.
    eapply seq_opt_inv_weak; [|exact Hs|exact Hrun].
    intros c0 Hin s1 s2 Hs1 Hok Hr. eapply IH; eauto.
    apply andb_true_iff in Hok as [_ Hadm]. unfold wasm_admits in Hadm. apply andb_true_iff in Hadm as [_ Hadm].
    rewrite Hwasm in Hadm. simpl in Hadm.
    destruct (dec_rejects c 0 c0); [discriminate|reflexivity].
  - rewrite run_msg_gov in Hrun. match type of Hrun with (if ?b then _ else _) = _ => destruct b end; [|discriminate]. inversion Hrun. subst. exact Hs.
  - rewrite run_msg_ica in Hrun.
    destruct (w_ica_acct w a); [|inversion Hrun; subst; exact Hs].
    match type of Hrun with match ?q with _ => _ end = _ => destruct q as [s2|] eqn:E end; inversion Hrun; subst; [|exact Hs].
    eapply seq_opt_inv_weak; [|exact Hs|exact E].
    intros c0 Hin s1 s3 Hs1 Hok Hr.
    apply andb_true_iff in Hok as [Hal _]. apply Hi in Hal.
    destruct c0 as [l| | | | | |]; simpl in Hal; try (destruct Hal; discriminate).
    rewrite run_msg_leaf in Hr.
    eapply changed_capped_vals; [|exact Hs1].
    eapply leaf_run_harmless; [|exact Hr].
    destruct Hal as [E1|E1]; inversion E1; auto.
  - (* x/group is not routed: the message has no handler *)
    rewrite run_msg_group, (cfg_ok_group_off c Hc) in Hrun. discriminate.
  - rewrite run_msg_unk in Hrun. discriminate.
Qed.

Lemma run_msgs_inv c w s0 ms :
  cfg_ok c -> ica_safe w -> dec_rejects_list c ms = false ->
  forall s s', changed_capped s0 s -> run_msgs c w ms s = Some s' -> changed_capped s0 s'.
Proof.
  intros Hc Hi Hd s s' Hs Hrun. unfold run_msgs in Hrun.
  unfold dec_rejects_list in Hd. rewrite (scan_existsb c _ _ _ (cfg_ok_scans_all c Hc)) in Hd.
  eapply seq_opt_inv_weak; [|exact Hs|exact Hrun].
  intros m Hin s1 s2 Hs1 _ Hr. eapply run_msg_inv; eauto. eapply existsb_false_forall; eauto.
Qed.

(** ---------------------------------------------------------------- transactions and histories *)
Lemma ante_ok_checked c x : cfg_ok c -> ante_ok c x = true -> dec_rejects_list c (t_msgs x) = false.
Proof.
  intros (_ & Hon & _ & _ & _ & _ & _ & Heth & _) H. unfold ante_ok in H.
  destruct (route_tx c (t_ext x)); try discriminate.
  - rewrite Hon in H. apply andb_true_iff in H as [_ H]. simpl in H.
    destruct (dec_rejects_list c (t_msgs x)); [discriminate|reflexivity].
  - rewrite Heth in H. discriminate.
Qed.

Lemma deliver_in_changed c w s0 s1 x :
  cfg_ok c -> ica_safe w -> changed_capped s0 s1 -> changed_capped s0 (fst (deliver_in c w s1 x)).
Proof.
  intros Hc Hi Ht. unfold deliver_in.
  destruct (ante_ok c x) eqn:Ha; [|exact Ht].
  destruct (run_msgs c w (t_msgs x) s1) as [s2|] eqn:Hr; [|exact Ht].
  simpl. eapply run_msgs_inv; eauto using ante_ok_checked.
Qed.

Lemma deliver_changed c w s0 s x :
  cfg_ok c -> ica_safe w -> changed_capped s0 s -> changed_capped s0 (fst (deliver c w s x)).
Proof.
  intros Hc Hi Hs. unfold deliver. apply deliver_in_changed; auto.
Qed.

(** genesis transactions: the same invariant, with the configuration in force at height 0 *)
Lemma run_genesis_changed cg w s0 gentxs :
  cfg_ok cg -> ica_safe w ->
  forall s s', changed_capped s0 s -> run_genesis cg w s gentxs = Some s' -> changed_capped s0 s'.
Proof.
  intros Hc Hi. induction gentxs as [|x r IH]; intros s s' Hs Hrun; simpl in Hrun.
  - inversion Hrun. subst. exact Hs.
  - pose proof (deliver_in_changed cg w s0 s x Hc Hi Hs) as Hd.
    destruct (deliver_in cg w s x) as [s1 [|]]; [|discriminate].
    eapply IH; eauto.
Qed.

Lemma step_changed c w s0 s e :
  cfg_ok c -> ica_safe w ->
  (forall dt ms, e = EvGovPass dt ms -> dec_rejects_list c ms = false) ->
  changed_capped s0 s -> changed_capped s0 (step c w s e).
Proof.
  intros Hc Hi Hg Hs. destruct e as [x|dt ms]; simpl.
  - apply deliver_changed; auto.
  - assert (Ht : changed_capped s0 (tick s dt)) by (eapply changed_capped_vals; [|exact Hs]; reflexivity).
    match goal with |- context [if ?b then _ else _] => destruct b end; [|exact Ht].
    destruct (run_msgs c w ms (tick s dt)) as [s2|] eqn:Hr; [|exact Ht].
    eapply run_msgs_inv; eauto.
Qed.

Lemma history_changed c w s0 h :
  cfg_ok c -> ica_safe w -> gov_trusted c h ->
  forall s, changed_capped s0 s -> changed_capped s0 (run_history c w s h).
Proof.
  intros Hc Hi. induction h as [|e h IH]; intros Hg s Hs; simpl; [exact Hs|].
  apply IH.
  - intros dt ms Hin. apply (Hg dt ms). now right.
  - apply step_changed; auto. intros dt ms ->. apply (Hg dt ms). now left.
Qed.

(** the cap over every reachable state *)
Theorem cap_invariant c w s0 h :
  cfg_ok c -> ica_safe w -> cap_ok s0 -> gov_trusted c h -> cap_ok (run_history c w s0 h).
Proof.
  intros Hc Hi H0 Hg. eapply changed_capped_cap; [exact H0|].
  apply history_changed; auto using changed_capped_refl.
Qed.

(** from genesis: whatever gentxs InitChain delivers (configuration [cg] at height 0) and whatever history follows *)
Theorem cap_invariant_from_genesis c cg w minr gentxs s1 dt h :
  cfg_ok c -> cfg_ok cg -> ica_safe w -> gov_trusted c h ->
  run_genesis cg w (st0 minr) gentxs = Some s1 ->
  cap_ok (run_history c w (advance s1 dt) h).
Proof.
  intros Hc Hcg Hi Hg Hgen. apply cap_invariant; auto.
  eapply changed_capped_cap with (s0 := st0 minr).
  - intros a v Hf. discriminate.
  - eapply changed_capped_vals with (s := s1); [reflexivity|].
    eapply run_genesis_changed; eauto using changed_capped_refl.
Qed.

(** the literal statement: an accepted (or any) transaction leaves every validator either untouched
    or with a rate of at most 25 %, from ANY pre-state *)
Theorem tx_never_raises_above_cap c w s x :
  cfg_ok c -> ica_safe w -> changed_capped s (fst (deliver c w s x)).
Proof. intros Hc Hi. apply deliver_changed; auto using changed_capped_refl. Qed.

(** … and the same for whole histories without trusted-governance events *)
Fixpoint only_txs (h : list event) : Prop :=
  match h with [] => True | EvTx _ :: r => only_txs r | EvGovPass _ _ :: _ => False end.

Lemma only_txs_gov c h : only_txs h -> gov_trusted c h.
Proof.
  induction h as [|[x|dt ms] h IH]; simpl; intros H dt' ms' Hin; try contradiction.
  destruct Hin as [E|Hin]; [discriminate|]. eapply IH; eauto.
Qed.

Theorem cap_invariant_txs c w s0 h :
  cfg_ok c -> ica_safe w -> cap_ok s0 -> only_txs h -> cap_ok (run_history c w s0 h).
Proof. intros. apply cap_invariant; auto using only_txs_gov. Qed.

(** ---------------------------------------------------------------- refutations (witnesses by computation) *)
Definition breaks_cap (s : st) : Prop := exists a v, find_val (vals s) a = Some v /\ CAP25 < v_rate v.

Lemma breaks_cap_not_ok s : breaks_cap s -> ~ cap_ok s.
Proof. intros (a & v & Hf & Hlt) H. specialize (H a v Hf). lia. Qed.

Definition world_plain : world :=
  {| w_reflects := fun ctr snd => Nat.eqb ctr 10 && Nat.eqb snd 0; w_gov := 11%nat;
     w_ica_acct := fun _ => false; w_ica_allow := fun _ => false;
     w_group_member := fun pol m => Nat.eqb pol 12 && (Nat.eqb m 1 || Nat.eqb m 10) |}.

(** the ICA allow-list installed by upgrade v1.3.0 admits MsgExec *)
Definition world_ica_exec : world :=
  {| w_reflects := fun _ _ => false; w_gov := 11%nat; w_ica_acct := fun a => Nat.eqb a 7;
     w_ica_allow := fun k => match k with MKExec => true | _ => false end;
     w_group_member := fun _ _ => false |}.

Definition r90 : Z := 900000000000000000.
Definition mk (signer : addr) (ms : list msg) : event :=
  EvTx {| t_dt := 5; t_ext := NoExt; t_signer := signer; t_msgs := ms |}.

(** decorator that inspects top-level messages only (before fix ac46b2c): MsgExec{self,[create 0.90]} *)
Lemma refuted_before_fix :
  exists h, only_txs h /\ breaks_cap (run_history cfg_before_fix world_plain (st0 0) h).
Proof.
  exists [mk 1 [Exec 1 [Leaf (CreateVal 1 r90 ONE ONE)]]]. split; [exact I|].
  exists 1%nat. eexists. split; [vm_compute; reflexivity|vm_compute; reflexivity].
Qed.

(** a decorator that looks ONE level into MsgExec (like AnteDecoratorAuthzGuard does) is not enough *)
Definition cfg_one_level : cfg :=
  {| cap := CAP25; nonevm_known := true; evm_route := RouteEVM; other_route := RouteReject; evm_only_eth := true;
     vb_on := true; sig_on := true; dec_on := true; dec_create := Some CmpGT; dec_edit := Some CmpGT;
     dec_exec := true; dec_rec := false; cont_exec := true; cont_staking := true; cont_other := true; wasm_check := true;
     group_routed := false; carriers_known := true |}.

Lemma refuted_one_level :
  exists h, only_txs h /\ breaks_cap (run_history cfg_one_level world_plain (st0 0) h).
Proof.
  exists [mk 1 [Exec 1 [Exec 1 [Leaf (CreateVal 1 r90 ONE ONE)]]]]. split; [exact I|].
  exists 1%nat. eexists. split; [vm_compute; reflexivity|vm_compute; reflexivity].
Qed.

(** the MsgExec clause returning the nested result directly (`return checkCommission(inner)`): every message
    AFTER a MsgExec in the same list escapes the check *)
Definition cfg_exec_early_return : cfg :=
  {| cap := CAP25; nonevm_known := true; evm_route := RouteEVM; other_route := RouteReject; evm_only_eth := true;
     vb_on := true; sig_on := true; dec_on := true; dec_create := Some CmpGT; dec_edit := Some CmpGT;
     dec_exec := true; dec_rec := true; cont_exec := false; cont_staking := true; cont_other := true; wasm_check := true;
     group_routed := false; carriers_known := true |}.

Lemma refuted_exec_early_return :
  exists h, only_txs h /\ breaks_cap (run_history cfg_exec_early_return world_plain (st0 0) h).
Proof.
  exists [mk 1 [Exec 1 [Leaf (Send 1)]; Leaf (CreateVal 1 r90 ONE ONE)]]. split; [exact I|].
  exists 1%nat. eexists. split; [vm_compute; reflexivity|vm_compute; reflexivity].
Qed.

(** gentxs routed at height 0 to a chain without the commission decorator: a validator above the cap exists
    from the first block on *)
Definition cfg_genesis_no_decorator : cfg :=
  {| cap := CAP25; nonevm_known := true; evm_route := RouteEVM; other_route := RouteReject; evm_only_eth := true;
     vb_on := true; sig_on := true; dec_on := false; dec_create := Some CmpGT; dec_edit := Some CmpGT;
     dec_exec := true; dec_rec := true; cont_exec := true; cont_staking := true; cont_other := true; wasm_check := true;
     group_routed := false; carriers_known := true |}.

Lemma refuted_genesis_chain_without_decorator :
  exists gentxs s1, run_genesis cfg_genesis_no_decorator world_plain (st0 0) gentxs = Some s1 /\ breaks_cap s1.
Proof.
  exists [{| t_dt := 0; t_ext := NoExt; t_signer := 1%nat; t_msgs := [Leaf (CreateVal 1 r90 ONE ONE)] |}].
  eexists. split; [vm_compute; reflexivity|].
  exists 1%nat. eexists. split; [vm_compute; reflexivity|vm_compute; reflexivity].
Qed.

(** recursive decorator but no check in the wasm handler (before fix 248a6e6) *)
Lemma refuted_without_wasm_check :
  exists h, only_txs h /\ breaks_cap (run_history cfg_no_wasm_check world_plain (st0 0) h).
Proof.
  exists [mk 0 [Wasm 0 10 [Leaf (CreateVal 10 r90 ONE ONE)]]]. split; [exact I|].
  exists 10%nat. eexists. split; [vm_compute; reflexivity|vm_compute; reflexivity].
Qed.

(** the fixed code, but an ICA host whose allow-list admits MsgExec: the hypothesis [ica_safe] is needed *)
Lemma refuted_ica_allows_exec :
  exists h, only_txs h /\ breaks_cap (run_history cfg_fixed world_ica_exec (st0 0) h).
Proof.
  exists [mk 2 [Ica 2 7 [Exec 7 [Leaf (CreateVal 7 r90 ONE ONE)]]]]. split; [exact I|].
  exists 7%nat. eexists. split; [vm_compute; reflexivity|vm_compute; reflexivity].
Qed.

(** the fixed code, a passed proposal that creates a validator for the gov account: [gov_trusted] is needed *)
Lemma refuted_gov_untrusted :
  exists h, breaks_cap (run_history cfg_fixed world_plain (st0 0) h).
Proof.
  exists [EvGovPass 5 [Leaf (CreateVal 11 r90 ONE ONE)]].
  exists 11%nat. eexists. split; [vm_compute; reflexivity|vm_compute; reflexivity].
Qed.

(** the committed guards with x/group wired into the application (cfg_group_wired): a member of a one-vote group
    submits a proposal with Exec = TRY carrying MsgCreateValidator{operator = the group policy account, 0.90};
    the group keeper executes it through the router — no decorator, no wasm-handler check is on that path.
    Also reached through authz (exec∘group) and from a contract (wasm∘group), and by an edit after 24 h *)
Lemma refuted_group_wired :
  exists h, only_txs h /\ breaks_cap (run_history cfg_group_wired world_plain (st0 0) h).
Proof.
  exists [mk 1 [Group 1 12 true [Leaf (CreateVal 12 r90 ONE ONE)]]]. split; [exact I|].
  exists 12%nat. eexists. split; [vm_compute; reflexivity|vm_compute; reflexivity].
Qed.

Lemma refuted_group_wired_under_exec :
  exists h, only_txs h /\ breaks_cap (run_history cfg_group_wired world_plain (st0 0) h).
Proof.
  exists [mk 1 [Exec 1 [Exec 1 [Group 1 12 true [Leaf (CreateVal 12 r90 ONE ONE)]]]]]. split; [exact I|].
  exists 12%nat. eexists. split; [vm_compute; reflexivity|vm_compute; reflexivity].
Qed.

Lemma refuted_group_wired_from_contract :
  exists h, only_txs h /\ breaks_cap (run_history cfg_group_wired world_plain (st0 0) h).
Proof.
  exists [mk 0 [Wasm 0 10 [Group 10 12 true [Leaf (CreateVal 12 r90 ONE ONE)]]]]. split; [exact I|].
  exists 12%nat. eexists. split; [vm_compute; reflexivity|vm_compute; reflexivity].
Qed.

Lemma refuted_group_wired_edit :
  exists h, only_txs h /\ breaks_cap (run_history cfg_group_wired world_plain (st0 0) h).
Proof.
  exists [mk 1 [Group 1 12 true [Leaf (CreateVal 12 100000000000000000 ONE ONE)]];
          EvTx {| t_dt := 86400; t_ext := NoExt; t_signer := 1; t_msgs := [Group 1 12 true [Leaf (EditVal 12 (Some r90))]] |}].
  split; [exact I|].
  exists 12%nat. eexists. split; [vm_compute; reflexivity|vm_compute; reflexivity].
Qed.

(** what the refutation needs: with the same guards and x/group NOT routed the same history leaves no validator
    (the transaction fails: no handler), and a proposal that is only stored (Exec unspecified) executes nothing *)
Example group_unrouted_rejected :
  vals (run_history cfg_fixed world_plain (st0 0) [mk 1 [Group 1 12 true [Leaf (CreateVal 12 r90 ONE ONE)]]]) = [] /\
  vals (run_history cfg_group_wired world_plain (st0 0) [mk 1 [Group 1 12 false [Leaf (CreateVal 12 r90 ONE ONE)]]]) = [] /\
  vals (run_history cfg_group_wired world_plain (st0 0) [mk 2 [Group 2 12 true [Leaf (CreateVal 12 r90 ONE ONE)]]]) = [] /\
  vals (run_history cfg_group_wired world_plain (st0 0) [mk 1 [Group 1 12 true [Leaf (CreateVal 1 r90 ONE ONE)]]]) = [].
Proof. vm_compute. repeat split; reflexivity. Qed.

(** ---------------------------------------------------------------- non-vacuity *)
Example cfg_fixed_ok : cfg_ok cfg_fixed.
Proof. apply cfg_okb_sound. vm_compute. reflexivity. Qed.

Example world_plain_ica_safe : ica_safe world_plain.
Proof. intros k H. discriminate. Qed.

(** with the fixed code nested staking messages within the cap ARE accepted (the invariant is not kept by
    rejecting everything): exec∘exec create at exactly 25 %, a wasm-dispatched create at 10 %, an edit after
    24 h through exec *)
Definition h_nonvacuous : list event := [
  mk 1 [Exec 1 [Exec 1 [Leaf (CreateVal 1 CAP25 ONE ONE)]]];
  mk 0 [Wasm 0 10 [Leaf (CreateVal 10 100000000000000000 ONE ONE)]];
  EvTx {| t_dt := 86400; t_ext := NoExt; t_signer := 1; t_msgs := [Exec 1 [Leaf (EditVal 1 (Some 200000000000000000))]] |};
  mk 1 [Exec 1 [Leaf (CreateVal 3 r90 ONE ONE)]]
].

Example cap_nonvacuous :
  only_txs h_nonvacuous /\
  map (fun p => (fst p, v_rate (snd p))) (vals (run_history cfg_fixed world_plain (st0 0) h_nonvacuous))
  = [(1%nat, 200000000000000000); (10%nat, 100000000000000000)].
Proof. split; [exact I|vm_compute; reflexivity]. Qed.
