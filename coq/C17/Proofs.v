(** C17 — proofs (placeholder of the vertical slice). *)
Require Import Nib.C17.AnteFacts Nib.C17.MsgTree Nib.C17.Model Nib.C17.Spec.
