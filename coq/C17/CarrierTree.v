(** C17 — message trees: the shapes in which one sdk.Msg can carry other messages
    (authz MsgExec, wasm MsgExecuteContract dispatching Stargate messages, gov MsgSubmitProposal,
    the ICA host executing the messages of a received packet, x/group MsgSubmitProposal — routed or
    not is a FACT about the linked application —, and [Unk]: any other carrier type, which the msg
    service router of a tree that satisfies the carrier obligation does not execute), and the generic
    dispatcher that runs a tree the way the SDK / wasmext / ICA / group code does.
    (MsgTree.v is the five-constructor version C02 still uses; this file is self-contained.)
    Accounts are small naturals. *)
From Coq Require Import List Bool Arith.
Import ListNotations.

Definition addr := nat.
Bind Scope nat_scope with addr.

(** message type url, as far as authz grants and allow-lists distinguish them *)
Inductive mkind :=
| MKLeaf (k : nat)     (* a leaf message type, numbered by the instantiating property *)
| MKExec | MKWasm | MKGov | MKIca | MKGroup
| MKUnk (k : nat).     (* a carrier type the model has no dispatch rule for, numbered by the harness *)

Definition mkind_eqb (a b : mkind) : bool :=
  match a, b with
  | MKLeaf x, MKLeaf y => x =? y
  | MKExec, MKExec | MKWasm, MKWasm | MKGov, MKGov | MKIca, MKIca | MKGroup, MKGroup => true
  | MKUnk x, MKUnk y => x =? y
  | _, _ => false
  end.

(** run the elements of a list in order, each behind its own admission test; stop at the first
    refusal or failure (the loop shape of DispatchActions, DispatchMsg, executeTx, runMsgs) *)
Section SeqOpt.
  Variables (A St : Type) (f : A -> St -> option St) (ok : St -> A -> bool).
  Fixpoint seq_opt (l : list A) (s : St) : option St :=
    match l with
    | [] => Some s
    | c :: r => if ok s c then match f c s with Some s' => seq_opt r s' | None => None end else None
    end.
End SeqOpt.
Arguments seq_opt {A St}.

Section Tree.
  Variable L : Type.

  Inductive tree :=
  | Leaf (l : L)
  | Exec (grantee : addr) (cs : list tree)            (* authz.MsgExec *)
  | Wasm (sender contract : addr) (cs : list tree)    (* MsgExecuteContract; cs = messages the contract dispatches *)
  | Gov (proposer : addr) (cs : list tree)            (* gov v1 MsgSubmitProposal *)
  | Ica (relayer acct : addr) (cs : list tree)        (* MsgRecvPacket carrying an ICA packet for interchain account acct *)
  | Group (proposer policy : addr) (tr : bool) (cs : list tree)
      (* x/group MsgSubmitProposal{group_policy_address, proposers = [proposer], messages, exec = TRY | UNSPECIFIED} *)
  | Unk (k : nat) (sender : addr) (cs : list tree).   (* a message of carrier type number k the model does not know *)

  (** induction principle that reaches the children *)
  Section Ind.
    Variable P : tree -> Prop.
    Hypothesis HLeaf : forall l, P (Leaf l).
    Hypothesis HExec : forall g cs, Forall P cs -> P (Exec g cs).
    Hypothesis HWasm : forall s c cs, Forall P cs -> P (Wasm s c cs).
    Hypothesis HGov : forall p cs, Forall P cs -> P (Gov p cs).
    Hypothesis HIca : forall r a cs, Forall P cs -> P (Ica r a cs).
    Hypothesis HGroup : forall p a t cs, Forall P cs -> P (Group p a t cs).
    Hypothesis HUnk : forall k a cs, Forall P cs -> P (Unk k a cs).
    Fixpoint tree_ind' (t : tree) : P t :=
      let all := fix all (cs : list tree) : Forall P cs :=
        match cs with [] => Forall_nil P | c :: r => Forall_cons c (tree_ind' c) (all r) end in
      match t with
      | Leaf l => HLeaf l
      | Exec g cs => HExec g cs (all cs)
      | Wasm s c cs => HWasm s c cs (all cs)
      | Gov p cs => HGov p cs (all cs)
      | Ica r a cs => HIca r a cs (all cs)
      | Group p a t cs => HGroup p a t cs (all cs)
      | Unk k a cs => HUnk k a cs (all cs)
      end.
  End Ind.

  Variable leaf_signer : L -> addr.
  Variable leaf_kind : L -> nat.

  Definition signer (t : tree) : addr :=
    match t with
    | Leaf l => leaf_signer l
    | Exec g _ => g
    | Wasm s _ _ => s
    | Gov p _ => p
    | Ica r _ _ => r
    | Group p _ _ _ => p
    | Unk _ a _ => a
    end.

  Definition kind_of (t : tree) : mkind :=
    match t with
    | Leaf l => MKLeaf (leaf_kind l)
    | Exec _ _ => MKExec
    | Wasm _ _ _ => MKWasm
    | Gov _ _ => MKGov
    | Ica _ _ _ => MKIca
    | Group _ _ _ _ => MKGroup
    | Unk k _ _ => MKUnk k
    end.

  Fixpoint depth (t : tree) : nat :=
    match t with
    | Leaf _ => 0
    | Exec _ cs | Wasm _ _ cs | Gov _ cs | Ica _ _ cs | Group _ _ _ cs | Unk _ _ cs =>
        S (fold_right (fun c m => Nat.max (depth c) m) 0 cs)
    end.

  (** every leaf of the tree, left to right *)
  Fixpoint leaves (t : tree) : list L :=
    match t with
    | Leaf l => [l]
    | Exec _ cs | Wasm _ _ cs | Gov _ cs | Ica _ _ cs | Group _ _ _ cs | Unk _ _ cs => flat_map leaves cs
    end.

  (** the leaves a delivery can execute: proposal messages are only stored by MsgSubmitProposal *)
  Fixpoint exec_leaves (t : tree) : list L :=
    match t with
    | Leaf l => [l]
    | Exec _ cs | Wasm _ _ cs | Ica _ _ cs => flat_map exec_leaves cs
    | Group _ _ t cs => if t then flat_map exec_leaves cs else []
    | Gov _ _ | Unk _ _ _ => []
    end.

  (** ---------------------------------------------------------------- the dispatcher *)
  Variable St : Type.
  Variable leaf_basic : L -> bool.                       (* ValidateBasic of a leaf message *)
  Variable leaf_run : St -> L -> option St.              (* the leaf's msg-server handler *)
  Variable granted : St -> addr -> addr -> mkind -> bool. (* authz grant (granter, grantee, type) present *)
  Variable wasm_reflects : addr -> addr -> bool.          (* contract logic: does `contract` dispatch for `sender` *)
  Variable wasm_admits : addr -> tree -> bool.            (* checks of wasmext.handleSdkMessage (contract, dispatched message): signer, refused types, … *)
  Variable gov_addr : addr.
  Variable ica_acct_ok : addr -> bool.                    (* the address is a registered interchain account *)
  Variable ica_allow : mkind -> bool.                     (* ICA host allow-list *)
  Variable group_routed : bool.                           (* FACT: the msg service router has a handler for group MsgSubmitProposal *)
  Variable group_member : addr -> addr -> bool.           (* policy account -> address: a member whose single yes vote passes a proposal *)

  (** the msg service router has a handler for the message (what authz, wasmext, gov and group ask before executing /
      storing one; a transaction naming a type without handler fails) *)
  Definition routable (t : tree) : bool :=
    match t with
    | Group _ _ _ _ => group_routed
    | Unk _ _ _ => false
    | _ => true
    end.

  (** sdk.Msg.ValidateBasic: MsgExec and MsgSubmitProposal validate the messages they carry;
      MsgExecuteContract / MsgRecvPacket carry opaque bytes *)
  Fixpoint basic (t : tree) : bool :=
    match t with
    | Leaf l => leaf_basic l
    | Exec _ cs => negb (Nat.eqb (length cs) 0) && forallb basic cs
    | Gov _ cs => forallb basic cs          (* an empty message list is valid when metadata is given *)
    | Wasm _ _ _ => true
    | Ica _ _ _ => true
    | Group _ _ _ cs => forallb basic cs    (* title, summary, one proposer are given; the messages are validated *)
    | Unk _ _ _ => true
    end.

  (** authz Keeper.DispatchActions: implicit accept for the grantee's own messages, else a grant *)
  Definition authz_ok (s : St) (g : addr) (c : tree) : bool :=
    (signer c =? g) || granted s (signer c) g (kind_of c).

  Fixpoint run (t : tree) (s : St) {struct t} : option St :=
    match t with
    | Leaf l => leaf_run s l
    | Exec g cs => seq_opt run (fun s c => authz_ok s g c) cs s
    | Wasm snd ctr cs =>
        if wasm_reflects ctr snd && negb (Nat.eqb (length cs) 0)
        then seq_opt run (fun _ c => basic c && wasm_admits ctr c) cs s
        else None
    | Gov _ cs =>
        (* Keeper.SubmitProposal: messages validated, signer must be the gov account; nothing runs *)
        if forallb (fun c => basic c && (signer c =? gov_addr) && routable c) cs then Some s else None
    | Ica _ acct cs =>
        (* icahost executeTx runs the packet's messages on a cache context; a failure only yields an
           error acknowledgement, the relayer's transaction still succeeds *)
        if ica_acct_ok acct then
          match seq_opt run (fun _ c => ica_allow (kind_of c) && (signer c =? acct)) cs s with
          | Some s' => Some s'
          | None => Some s
          end
        else Some s
    | Group p pol tr cs =>
        (* x/group Keeper.SubmitProposal: the proposer must be a member of the policy's group, every message must be
           signed by the policy account (ensureMsgAuthZ); the proposal is stored.  With Exec = TRY the proposers' yes
           votes are counted and Keeper.Exec runs the messages straight through the msg service router (no ante
           handler, no authz) on a cache context: a failure only marks the stored proposal, the transaction succeeds *)
        if group_routed && group_member pol p && forallb (fun c => signer c =? pol) cs then
          if tr then
            match seq_opt run (fun _ _ => true) cs s with
            | Some s' => Some s'
            | None => Some s
            end
          else Some s
        else None
    | Unk _ _ _ => None      (* no handler *)
    end.

  (** a list of top-level messages, as baseapp.runMsgs does *)
  Definition run_all (ts : list tree) (s : St) : option St := seq_opt run (fun _ _ => true) ts s.
End Tree.

Arguments Leaf {L}.
Arguments Exec {L}.
Arguments Wasm {L}.
Arguments Gov {L}.
Arguments Ica {L}.
Arguments Group {L}.
Arguments Unk {L}.
