(** C17 — executable model of how a validator's commission can change:
    DeliverTx = ante routing (extension option) → ante chain (ValidateBasic, signer check,
    AnteDecoratorStakingCommission as described by the generated facts) → message router with the
    dispatch rules of authz MsgExec / wasm dispatch (wasmext.handleSdkMessage, incl. its commission
    check when present) / gov MsgSubmitProposal / ICA host / x/group MsgSubmitProposal (when the linked
    application routes it — the SET of message carriers is a generated fact) → x/staking CreateValidator, EditValidator
    (rate ≤ max rate, max change rate, 24 h rule, MinCommissionRate).  No proofs in this file. *)
From Coq Require Import List Bool Arith ZArith String.
Import ListNotations.
Require Import Nib.C17.AnteFacts Nib.C17.CarrierTree.
Local Open Scope Z_scope.

Definition ONE : Z := 1000000000000000000.
(** the bound the PROPERTY speaks about: 25 % *)
Definition CAP25 : Z := 250000000000000000.
Definition DAY : Z := 86400.

(** ---------------------------------------------------------------- messages *)
Inductive leaf :=
| CreateVal (op : addr) (rate max chg : Z)    (* MsgCreateValidator, raw LegacyDec (×10^18) *)
| EditVal (op : addr) (rate : option Z)        (* MsgEditValidator, CommissionRate may be nil *)
| Grant (granter grantee : addr) (k : mkind)   (* authz MsgGrant with a GenericAuthorization *)
| Send (from : addr).                          (* any message that does not touch staking commission *)

Definition K_CREATE := 0%nat.
Definition K_EDIT := 1%nat.
Definition K_GRANT := 2%nat.
Definition K_SEND := 3%nat.

Definition leaf_signer (l : leaf) : addr :=
  match l with CreateVal op _ _ _ => op | EditVal op _ => op | Grant a _ _ => a | Send a => a end.
Definition leaf_kind (l : leaf) : nat :=
  match l with CreateVal _ _ _ _ => K_CREATE | EditVal _ _ => K_EDIT | Grant _ _ _ => K_GRANT | Send _ => K_SEND end.

Definition msg := tree leaf.

(** CommissionRates.Validate *)
Definition rates_valid (r mx ch : Z) : bool :=
  (0 <=? mx) && (mx <=? ONE) && (0 <=? r) && (r <=? mx) && (0 <=? ch) && (ch <=? mx).

(** ValidateBasic of the leaves *)
Definition leaf_basic (l : leaf) : bool :=
  match l with
  | CreateVal _ r mx ch => rates_valid r mx ch
  | EditVal _ (Some r) => (0 <=? r) && (r <=? ONE)
  | EditVal _ None => true
  | Grant a b _ => negb (Nat.eqb a b)
  | Send _ => true
  end.

(** ---------------------------------------------------------------- state *)
Record val := { v_rate : Z; v_max : Z; v_chg : Z; v_time : Z }.
Record st := {
  vals : list (addr * val);               (* staking validators by operator *)
  grants : list (addr * addr * mkind);    (* authz grants (granter, grantee, type) *)
  now : Z;                                (* block time, seconds *)
  min_rate : Z                            (* staking param MinCommissionRate *)
}.

Fixpoint find_val (l : list (addr * val)) (a : addr) : option val :=
  match l with
  | [] => None
  | (b, v) :: r => if Nat.eqb a b then Some v else find_val r a
  end.

Fixpoint set_val (l : list (addr * val)) (a : addr) (v : val) : list (addr * val) :=
  match l with
  | [] => [(a, v)]
  | (b, w) :: r => if Nat.eqb a b then (a, v) :: r else (b, w) :: set_val r a v
  end.

Definition granted (s : st) (granter grantee : addr) (k : mkind) : bool :=
  existsb (fun g => match g with (a, b, k') => Nat.eqb a granter && Nat.eqb b grantee && mkind_eqb k k' end) (grants s).

Definition with_vals (s : st) (l : list (addr * val)) : st :=
  {| vals := l; grants := grants s; now := now s; min_rate := min_rate s |}.

(** the msg service router has a handler for the message type ([gr]: x/group is routed) *)
Definition kind_routed (gr : bool) (k : mkind) : bool :=
  match k with MKGroup => gr | MKUnk _ => false | _ => true end.

(** x/staking msg server (the commission part) and authz Grant (authz Keeper.Grant refuses an authorization for a
    message type without handler) *)
Definition leaf_run (gr : bool) (s : st) (l : leaf) : option st :=
  match l with
  | CreateVal op r mx ch =>
      if r <? min_rate s then None else
      match find_val (vals s) op with
      | Some _ => None                                    (* ErrValidatorOwnerExists *)
      | None =>
          if rates_valid r mx ch                          (* SetInitialCommission → Validate *)
          then Some (with_vals s (set_val (vals s) op {| v_rate := r; v_max := mx; v_chg := ch; v_time := now s |}))
          else None
      end
  | EditVal op None =>
      match find_val (vals s) op with Some _ => Some s | None => None end
  | EditVal op (Some r) =>
      match find_val (vals s) op with
      | None => None
      | Some v =>
          (* Commission.ValidateNewRate, then MinCommissionRate *)
          if now s - v_time v <? DAY then None
          else if r <? 0 then None
          else if v_max v <? r then None
          else if v_chg v <? r - v_rate v then None
          else if r <? min_rate s then None
          else Some (with_vals s (set_val (vals s) op {| v_rate := r; v_max := v_max v; v_chg := v_chg v; v_time := now s |}))
      end
  | Grant a b k =>
      if kind_routed gr k
      then Some {| vals := vals s; grants := (a, b, k) :: grants s; now := now s; min_rate := min_rate s |}
      else None
  | Send _ => Some s
  end.

(** ---------------------------------------------------------------- what the code is, per generated facts *)
Record cfg := {
  cap : Z;                          (* MAX_COMMISSION() raw *)
  nonevm_known : bool;              (* the no-extension-option route is NewAnteHandlerNonEVM *)
  evm_route : route;                (* where a tx with the EVM extension option goes *)
  other_route : route;              (* where a tx with an unknown extension option goes *)
  evm_only_eth : bool;              (* EthValidateBasicDecorator in the EVM chain: every msg must be MsgEthereumTx *)
  vb_on : bool;                     (* ValidateBasicDecorator in the non-EVM chain *)
  sig_on : bool;                    (* SetPubKey + SigVerification decorators in the non-EVM chain *)
  dec_on : bool;                    (* AnteDecoratorStakingCommission in the non-EVM chain and found *)
  dec_create : option cmp_method;   (* how MsgCreateValidator.Commission.Rate is compared with the cap; None: not checked *)
  dec_edit : option cmp_method;     (* same for MsgEditValidator.CommissionRate (nil-safe) *)
  dec_exec : bool;                  (* the check looks into MsgExec.GetMessages() *)
  dec_rec : bool;                   (* … re-applying itself, i.e. to any depth *)
  cont_exec : bool;                 (* after a MsgExec whose content was checked the scan of the list goes on *)
  cont_staking : bool;              (* after a create/edit message within the cap the scan goes on *)
  cont_other : bool;                (* after any other message the scan goes on *)
  wasm_check : bool;                (* wasmext.handleSdkMessage applies the same check before routing *)
  group_routed : bool;              (* the linked application's msg service router executes x/group MsgSubmitProposal *)
  carriers_known : bool             (* every routed message type that carries sdk.Msgs is one the model has a rule for *)
}.

(** things that are chain state / deployment rather than code *)
Record world := {
  w_reflects : addr -> addr -> bool;   (* contract → sender → does the contract dispatch the given messages *)
  w_gov : addr;                         (* gov module account *)
  w_ica_acct : addr -> bool;            (* registered interchain accounts *)
  w_ica_allow : mkind -> bool;          (* ICA host allow-list *)
  w_group_member : addr -> addr -> bool (* group policy account -> address: member whose yes vote alone passes a proposal *)
}.

(** "operand.METHOD(bound)" is true: the decorator rejects *)
Definition over (m : cmp_method) (bound r : Z) : bool :=
  match m with
  | CmpGT => bound <? r
  | CmpGTE => bound <=? r
  | CmpLT => r <? bound
  | CmpLTE => r <=? bound
  | CmpOther => false
  end.

Definition leaf_over (c : cfg) (l : leaf) : bool :=
  match l with
  | CreateVal _ r _ _ => match dec_create c with Some m => over m (cap c) r | None => false end
  | EditVal _ (Some r) => match dec_edit c with Some m => over m (cap c) r | None => false end
  | _ => false
  end.

(** the loop of checkCommission over one message list: [f x] = "x is rejected", [stop x] = "the function
    returns after x without looking at the rest of the list" (an early return is a bug: later messages of the
    same list escape the check) *)
Section Scan.
  Variables (f stop : msg -> bool).
  Fixpoint scan (ms : list msg) : bool :=
    match ms with
    | [] => false
    | x :: r => f x || (if stop x then false else scan r)
    end.
End Scan.

Definition looks_into (c : cfg) (lvl : nat) : bool := dec_exec c && (dec_rec c || Nat.eqb lvl 0).

(** does the scan of a list at nesting level [lvl] end after message [x]? *)
Definition stops (c : cfg) (lvl : nat) (x : msg) : bool :=
  match x with
  | Exec _ _ => if looks_into c lvl then negb (cont_exec c) else negb (cont_other c)
  | Leaf (CreateVal _ _ _ _) => match dec_create c with Some _ => negb (cont_staking c) | None => negb (cont_other c) end
  | Leaf (EditVal _ _) => match dec_edit c with Some _ => negb (cont_staking c) | None => negb (cont_other c) end
  | _ => negb (cont_other c)
  end.

(** checkCommission on one message found at nesting level [lvl] (0 = a message of the transaction itself) *)
Fixpoint dec_rejects (c : cfg) (lvl : nat) (t : msg) : bool :=
  match t with
  | Leaf l => leaf_over c l
  | Exec _ cs => if looks_into c lvl then scan (dec_rejects c (S lvl)) (stops c (S lvl)) cs else false
  | _ => false
  end.

(** checkCommission(tx.GetMsgs()) *)
Definition dec_rejects_list (c : cfg) (ms : list msg) : bool := scan (dec_rejects c 0) (stops c 0) ms.

(** wasmext.handleSdkMessage: ante.CheckStakingCommission([]sdk.Msg{msg}) when present *)
Definition wasm_admits (c : cfg) (ctr : addr) (t : msg) : bool :=
  Nat.eqb (signer leaf leaf_signer t) ctr && negb (wasm_check c && dec_rejects c 0 t).

Definition run_msg (c : cfg) (w : world) : msg -> st -> option st :=
  run leaf leaf_signer leaf_kind st leaf_basic (leaf_run (group_routed c)) granted (w_reflects w) (wasm_admits c) (w_gov w) (w_ica_acct w) (w_ica_allow w)
      (group_routed c) (w_group_member w).

Definition run_msgs (c : cfg) (w : world) (ms : list msg) (s : st) : option st :=
  seq_opt (run_msg c w) (fun _ _ => true) ms s.

Definition basic_msg : msg -> bool := basic leaf leaf_basic.
Definition signer_msg : msg -> addr := signer leaf leaf_signer.

(** ---------------------------------------------------------------- transactions *)
Record tx := { t_dt : Z; t_ext : ext_option; t_signer : addr; t_msgs : list msg }.

Definition tick (s : st) (dt : Z) : st :=
  {| vals := vals s; grants := grants s; now := now s + Z.max dt 1; min_rate := min_rate s |}.

(** blocks without transactions of the case (chain setup) only move the clock *)
Definition advance (s : st) (dt : Z) : st :=
  {| vals := vals s; grants := grants s; now := now s + dt; min_rate := min_rate s |}.

Definition route_tx (c : cfg) (e : ext_option) : route :=
  match e with
  | NoExt => if nonevm_known c then RouteNonEVM else RouteUnknown
  | EvmExt => evm_route c
  | OtherExt => other_route c
  end.

(** the ante handler admits the tx *)
Definition ante_ok (c : cfg) (x : tx) : bool :=
  match route_tx c (t_ext x) with
  | RouteNonEVM =>
      negb (Nat.eqb (List.length (t_msgs x)) 0)
      && (if sig_on c then forallb (fun m => Nat.eqb (signer_msg m) (t_signer x)) (t_msgs x) else true)
      && (if vb_on c then forallb basic_msg (t_msgs x) else true)
      && negb (dec_on c && dec_rejects_list c (t_msgs x))
  | RouteEVM =>
      (* none of the messages of this model is a MsgEthereumTx *)
      negb (evm_only_eth c) && negb (Nat.eqb (List.length (t_msgs x)) 0)
  | RouteReject | RouteUnknown => false
  end.

(** one DeliverTx on the current block state: new state and "accepted?" *)
Definition deliver_in (c : cfg) (w : world) (s1 : st) (x : tx) : st * bool :=
  if ante_ok c x then
    match run_msgs c w (t_msgs x) s1 with
    | Some s2 => (s2, true)
    | None => (s1, false)
    end
  else (s1, false).

(** one DeliverTx in a block of its own (the clock advances first) *)
Definition deliver (c : cfg) (w : world) (s : st) (x : tx) : st * bool :=
  deliver_in c w (tick s (t_dt x)) x.

(** genesis: x/genutil delivers the gentxs through DeliverTx during InitChain (block height 0, genesis time);
    a gentx that fails makes InitChain panic — the chain does not start.  [cg] describes the ante chain the
    code uses at height 0 (the same as for blocks unless the routing tells them apart) *)
Fixpoint run_genesis (cg : cfg) (w : world) (s : st) (gentxs : list tx) : option st :=
  match gentxs with
  | [] => Some s
  | x :: r => match deliver_in cg w s x with
              | (s', true) => run_genesis cg w s' r
              | (_, false) => None
              end
  end.

(** history events: a transaction, or a governance proposal that passed (its messages are executed
    by the gov EndBlocker on a cache context, all or nothing, with the gov account as signer) *)
Inductive event :=
| EvTx (x : tx)
| EvGovPass (dt : Z) (ms : list msg).

Definition step (c : cfg) (w : world) (s : st) (e : event) : st :=
  match e with
  | EvTx x => fst (deliver c w s x)
  | EvGovPass dt ms =>
      let s1 := tick s dt in
      if forallb (fun m => Nat.eqb (signer_msg m) (w_gov w)) ms
      then match run_msgs c w ms s1 with Some s2 => s2 | None => s1 end
      else s1
  end.

Definition run_history (c : cfg) (w : world) (s : st) (h : list event) : st := fold_left (step c w) h s.

(** ---------------------------------------------------------------- message carriers of the linked application *)
(** Which message types carry messages is not a constant of this model: harness/gen/c17 links the application and
    lists every ROUTED sdk.Msg type with a google.protobuf.Any field that accepts an sdk.Msg (decided by running the
    type's own UnpackInterfaces on a packed MsgSend) or with an accessor returning []sdk.Msg.  The model has a
    dispatch rule for these; any other routed carrier makes [carriers_known] false.  (wasm MsgExecuteContract and
    IBC MsgRecvPacket carry messages as bytes, invisible to that probe: they are modelled unconditionally.) *)
Inductive carrier_rule :=
| CrExec      (* authz MsgExec: [Exec] *)
| CrGov       (* gov v1 MsgSubmitProposal: [Gov] *)
| CrGroup     (* x/group MsgSubmitProposal: [Group] *)
| CrSelf.     (* MsgEthereumTx.GetMsgs returns the message itself (it doubles as an sdk.Tx); it carries nothing *)

Definition URL_EXEC := "/cosmos.authz.v1beta1.MsgExec".
Definition URL_GOV_SUBMIT := "/cosmos.gov.v1.MsgSubmitProposal".
Definition URL_GROUP_SUBMIT := "/cosmos.group.v1.MsgSubmitProposal".
Definition URL_ETH_TX := "/eth.evm.v1.MsgEthereumTx".

Definition carrier_rule_of (u : string) : option carrier_rule :=
  if String.eqb u URL_EXEC then Some CrExec
  else if String.eqb u URL_GOV_SUBMIT then Some CrGov
  else if String.eqb u URL_GROUP_SUBMIT then Some CrGroup
  else if String.eqb u URL_ETH_TX then Some CrSelf
  else None.

(** routed types with an Any field their UnpackInterfaces never looks at, known not to hold messages:
    MsgSoftwareUpgrade.Plan.upgraded_client_state (deprecated; Plan.ValidateBasic requires it to be nil) *)
Definition opaque_known (u : string) : bool := String.eqb u "/cosmos.upgrade.v1beta1.MsgSoftwareUpgrade".

Definition carriers_all_known (carriers opaque : list string) : bool :=
  forallb (fun u => match carrier_rule_of u with Some _ => true | None => false end) carriers && forallb opaque_known opaque.

(** ---------------------------------------------------------------- cfg from the generated facts *)
Definition cmp_of_site (x : comparison_site) (operand : string) (need_nil_safe : bool) : option cmp_method :=
  if String.eqb (c_operand x) operand && String.eqb (c_bound x) "MAX_COMMISSION()" && c_rejects x
     && (negb need_nil_safe || c_nil_safe x)
  then Some (c_method x) else None.

Definition cfg_of_facts (nonevm evm : list string) (x : ext_facts) (g : guard) (cs es : comparison_site)
           (sc : scan_facts) (mx : option Z) (wh : wasm_facts) (registered_ext : list string)
           (carriers opaque : list string) : cfg :=
  {| cap := match mx with Some z => z | None => ONE + 1 end;
     nonevm_known := match route_of x NoExt with RouteNonEVM => true | _ => false end;   (* overridden for the genesis cfg *)
     evm_route := route_of x EvmExt;
     (* an extension option that is not registered with the codec fails tx decoding before any ante handler *)
     other_route := if forallb (String.eqb "ExtensionOptionsEthereumTx") registered_ext then RouteReject
                    else route_of x OtherExt;
     evm_only_eth := mem N_ETH_VALIDATE_BASIC evm;
     vb_on := mem N_VALIDATE_BASIC nonevm;
     sig_on := mem N_SET_PUBKEY nonevm && mem N_SIG_VERIFY nonevm;
     dec_on := mem N_COMMISSION nonevm && g_found g && g_rejects g;
     dec_create := if mem T_CREATE (g_tests g) then cmp_of_site cs "msg.Commission.Rate" false else None;
     dec_edit := if mem T_EDIT (g_tests g) then cmp_of_site es "msg.CommissionRate" true else None;
     dec_exec := mem T_EXEC (g_tests g) && g_into_exec g;
     dec_rec := g_recursive g;
     cont_exec := s_after_exec sc && s_after_switch sc;
     cont_staking := s_after_create sc && s_after_edit sc && s_after_switch sc;
     cont_other := s_after_other sc && s_after_switch sc;
     wasm_check := w_commission_check wh;
     group_routed := mem URL_GROUP_SUBMIT carriers;
     carriers_known := carriers_all_known carriers opaque |}.

(** the configuration in force for gentxs (block height 0): the decorator list of the constructor the routing
    picks at height 0; the route is known when that constructor's list could be read *)
Definition genesis_cfg_of_facts (genesis_chain evm : list string) (x : ext_facts) (g : guard) (cs es : comparison_site)
           (sc : scan_facts) (mx : option Z) (wh : wasm_facts) (registered_ext : list string)
           (carriers opaque : list string) : cfg :=
  let c := cfg_of_facts genesis_chain evm x g cs es sc mx wh registered_ext carriers opaque in
  {| cap := cap c;
     nonevm_known := negb (mem "?missing" genesis_chain) && negb (String.eqb (x_no_ext_height0 x) "?")
                     && negb (String.eqb (x_no_ext_height0 x) "?multi");
     evm_route := evm_route c; other_route := other_route c; evm_only_eth := evm_only_eth c;
     vb_on := vb_on c; sig_on := sig_on c; dec_on := dec_on c; dec_create := dec_create c; dec_edit := dec_edit c;
     dec_exec := dec_exec c; dec_rec := dec_rec c; cont_exec := cont_exec c; cont_staking := cont_staking c;
     cont_other := cont_other c; wasm_check := wasm_check c; group_routed := group_routed c; carriers_known := carriers_known c |}.

(** the code as committed with the two fix: commits (used for examples and witnesses) *)
Definition cfg_fixed : cfg :=
  {| cap := CAP25; nonevm_known := true; evm_route := RouteEVM; other_route := RouteReject; evm_only_eth := true;
     vb_on := true; sig_on := true; dec_on := true; dec_create := Some CmpGT; dec_edit := Some CmpGT;
     dec_exec := true; dec_rec := true; cont_exec := true; cont_staking := true; cont_other := true; wasm_check := true;
     group_routed := false; carriers_known := true |}.

(** the decorator before fix ac46b2c: top-level messages only; no wasm check *)
Definition cfg_before_fix : cfg :=
  {| cap := CAP25; nonevm_known := true; evm_route := RouteEVM; other_route := RouteReject; evm_only_eth := true;
     vb_on := true; sig_on := true; dec_on := true; dec_create := Some CmpGT; dec_edit := Some CmpGT;
     dec_exec := false; dec_rec := false; cont_exec := true; cont_staking := true; cont_other := true; wasm_check := false;
     group_routed := false; carriers_known := true |}.

(** recursive decorator, wasm handler without the check (between the two fixes) *)
Definition cfg_no_wasm_check : cfg :=
  {| cap := CAP25; nonevm_known := true; evm_route := RouteEVM; other_route := RouteReject; evm_only_eth := true;
     vb_on := true; sig_on := true; dec_on := true; dec_create := Some CmpGT; dec_edit := Some CmpGT;
     dec_exec := true; dec_rec := true; cont_exec := true; cont_staking := true; cont_other := true; wasm_check := false;
     group_routed := false; carriers_known := true |}.

(** the committed guards, x/group wired into the application (seeded change C17-group-module-wired): the router
    executes group MsgSubmitProposal, nothing looks into the messages it carries *)
Definition cfg_group_wired : cfg :=
  {| cap := CAP25; nonevm_known := true; evm_route := RouteEVM; other_route := RouteReject; evm_only_eth := true;
     vb_on := true; sig_on := true; dec_on := true; dec_create := Some CmpGT; dec_edit := Some CmpGT;
     dec_exec := true; dec_rec := true; cont_exec := true; cont_staking := true; cont_other := true; wasm_check := true;
     group_routed := true; carriers_known := true |}.

Definition st0 (minr : Z) : st := {| vals := []; grants := []; now := 0; min_rate := minr |}.
