(** C17 — the model configuration read off the facts regenerated from /repo (Gen/C17Facts.v). *)
Require Import Nib.C17.AnteFacts Nib.C17.Model Nib.Gen.C17Facts.

Definition current_cfg : cfg :=
  cfg_of_facts nonevm_chain evm_chain ext_switch guard_commission commission_create_site commission_edit_site
               commission_scan max_commission_raw wasm_handler registered_ext_options
               routed_msg_carriers routed_opaque_any.

(** … and for gentxs delivered from InitChain *)
Definition current_genesis_cfg : cfg :=
  genesis_cfg_of_facts genesis_chain evm_chain ext_switch guard_commission commission_create_site commission_edit_site
                       commission_scan max_commission_raw wasm_handler registered_ext_options
               routed_msg_carriers routed_opaque_any.
