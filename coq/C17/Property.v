(** C17 — exported statements. *)
From Coq Require Import List Bool ZArith.
Require Import Nib.C17.AnteFacts Nib.C17.MsgTree Nib.C17.Model Nib.C17.Spec Nib.C17.Proofs.

Theorem C17_checker_sound : forall t, Pb t = true -> P t.
Proof. exact Pb_sound. Qed.
Print Assumptions C17_checker_sound.
