(** C17 — no transaction can set a validator commission above the 25 % cap.
    This file holds only the exported statements.

    [c : cfg] is what the code is (read off the generated facts: which decorator checks what, whether it
    recurses into MsgExec, whether the wasm handler applies the check, the MAX_COMMISSION constant);
    [w : world] is deployment state (which contracts reflect messages for whom, the gov account, the ICA host
    allow-list, the members of groups).  Message trees are arbitrary: any nesting depth, any mix of authz MsgExec /
    wasm dispatch / gov proposals / ICA packets / x/group proposals / messages of any other carrier type, any position
    among sibling messages, any grants, any clock.  WHICH carrier types the msg service router executes is part of
    [c] (facts read off the linked application): [cfg_ok] demands that every routed carrier is one the model has a
    dispatch rule for and that x/group — whose keeper executes proposal messages with no check — is not routed. *)
From Coq Require Import List Bool ZArith.
Import ListNotations.
Require Import Nib.C17.AnteFacts Nib.C17.CarrierTree Nib.C17.Model Nib.C17.Spec Nib.C17.Proofs Nib.C17.IcaList.
Local Open Scope Z_scope.

(** The cap over every reachable state: after ANY history of transactions and passed proposals from a
    state that respects the cap, every validator's commission is at most 25 %.
    PARTIAL in exactly two named respects:
      [ica_safe w]      — the ICA-host allow-list admits no staking message and no message carrier
                          (the list installed by upgrade v1.3.0 admits MsgExec: see
                          C17_cap_refuted_ica_allows_exec; this path cannot be driven without an IBC
                          counter-party and stays an open finding);
      [gov_trusted c h] — proposals that governance PASSED would pass the commission check (they are executed
                          by the EndBlocker, not by a transaction; see C17_cap_refuted_gov_untrusted). *)
Theorem C17_cap_partial :
  forall (c : cfg) (w : world) (s0 : st) (h : list event),
    cfg_ok c -> ica_safe w -> cap_ok s0 -> gov_trusted c h -> cap_ok (run_history c w s0 h).
Proof. exact cap_invariant. Qed.
Print Assumptions C17_cap_partial.

(** Full strength for transactions (no governance events): authz MsgExec at ANY depth, wasm-dispatched
    messages, proposals submitted (not executed), in any combination. *)
Theorem C17_cap_all_transactions :
  forall (c : cfg) (w : world) (s0 : st) (h : list event),
    cfg_ok c -> ica_safe w -> cap_ok s0 -> only_txs h -> cap_ok (run_history c w s0 h).
Proof. exact cap_invariant_txs. Qed.
Print Assumptions C17_cap_all_transactions.

(** From genesis: gentxs are transactions too (x/genutil delivers them through DeliverTx during InitChain, at
    block height 0).  [cg] is the configuration the code applies at height 0.  Whatever the gentxs and whatever
    history follows, every validator's commission is at most 25 %. *)
Theorem C17_cap_from_genesis :
  forall (c cg : cfg) (w : world) (minr : Z) (gentxs : list tx) (s1 : st) (dt : Z) (h : list event),
    cfg_ok c -> cfg_ok cg -> ica_safe w -> gov_trusted c h ->
    run_genesis cg w (st0 minr) gentxs = Some s1 ->
    cap_ok (run_history c w (advance s1 dt) h).
Proof. exact cap_invariant_from_genesis. Qed.
Print Assumptions C17_cap_from_genesis.

(** The literal statement, from ANY pre-state (even one that already violates the cap): a transaction
    leaves every validator either exactly as it was or with a rate of at most 25 % — "no accepted
    transaction creates a validator with, or edits a validator to, a commission rate above 25 %". *)
Theorem C17_no_tx_sets_rate_above_cap :
  forall (c : cfg) (w : world) (s : st) (x : tx),
    cfg_ok c -> ica_safe w -> changed_capped s (fst (deliver c w s x)).
Proof. intros c w s x Hc Hi. exact (tx_never_raises_above_cap c w s x Hc Hi). Qed.
Print Assumptions C17_no_tx_sets_rate_above_cap.

(** One message tree of any shape that passed the commission check cannot break the cap. *)
Theorem C17_checked_tree_keeps_cap :
  forall (c : cfg) (w : world) (s0 : st), cfg_ok c -> ica_safe w ->
  forall (t : msg) (s s' : st), dec_rejects c 0 t = false -> changed_capped s0 s ->
    run_msg c w t s = Some s' -> changed_capped s0 s'.
Proof. exact run_msg_inv. Qed.
Print Assumptions C17_checked_tree_keeps_cap.

(** The boolean reading of the facts used by the generated obligation is sound. *)
Theorem C17_cfg_checker_sound : forall c, cfg_okb c = true -> cfg_ok c.
Proof. exact cfg_okb_sound. Qed.
Print Assumptions C17_cfg_checker_sound.

(** The boolean checker evaluated on implementation traces is sound for [P]. *)
Theorem C17_checker_sound : forall t, Pb t = true -> P t.
Proof. exact Pb_sound. Qed.
Print Assumptions C17_checker_sound.

(** An ICA-host allow-list (message type names as written in an upgrade handler) that names only message
    types which can neither carry messages nor set a commission satisfies [ica_safe]. *)
Theorem C17_ica_allow_list_safe :
  forall (w : world) (l : list String.string), list_safe l = true -> ica_safe (world_with_ica w l).
Proof. exact list_safe_sound. Qed.
Print Assumptions C17_ica_allow_list_safe.

(** ---- what the statement needs: each weakening is refuted by a concrete history ---- *)

(** Decorator inspecting top-level messages only (the tree before fix ac46b2c):
    MsgExec{grantee = self, [MsgCreateValidator 0.90]} stores a validator with 90 %. *)
Theorem C17_cap_refuted_before_fix :
  exists h, only_txs h /\ breaks_cap (run_history cfg_before_fix world_plain (st0 0) h).
Proof. exact refuted_before_fix. Qed.
Print Assumptions C17_cap_refuted_before_fix.

(** Looking one level into MsgExec (as AnteDecoratorAuthzGuard does) is not enough. *)
Theorem C17_cap_refuted_one_level_decorator :
  exists h, only_txs h /\ breaks_cap (run_history cfg_one_level world_plain (st0 0) h).
Proof. exact refuted_one_level. Qed.
Print Assumptions C17_cap_refuted_one_level_decorator.

(** The MsgExec clause returning early: messages after a MsgExec in the same list are never checked. *)
Theorem C17_cap_refuted_exec_early_return :
  exists h, only_txs h /\ breaks_cap (run_history cfg_exec_early_return world_plain (st0 0) h).
Proof. exact refuted_exec_early_return. Qed.
Print Assumptions C17_cap_refuted_exec_early_return.

(** Gentxs routed to a chain without the commission decorator. *)
Theorem C17_cap_refuted_genesis_chain_without_decorator :
  exists gentxs s1, run_genesis cfg_genesis_no_decorator world_plain (st0 0) gentxs = Some s1 /\ breaks_cap s1.
Proof. exact refuted_genesis_chain_without_decorator. Qed.
Print Assumptions C17_cap_refuted_genesis_chain_without_decorator.

(** Recursive decorator, wasm handler without the check (the tree before fix 248a6e6). *)
Theorem C17_cap_refuted_without_wasm_check :
  exists h, only_txs h /\ breaks_cap (run_history cfg_no_wasm_check world_plain (st0 0) h).
Proof. exact refuted_without_wasm_check. Qed.
Print Assumptions C17_cap_refuted_without_wasm_check.

(** x/group wired into the application with the committed guards (seeded change C17-group-module-wired): a group
    proposal submitted with Exec = TRY carries MsgCreateValidator 0.90 for the group policy account past every check. *)
Theorem C17_cap_refuted_group_wired :
  exists h, only_txs h /\ breaks_cap (run_history cfg_group_wired world_plain (st0 0) h).
Proof. exact refuted_group_wired. Qed.
Print Assumptions C17_cap_refuted_group_wired.

(** OPEN: the committed code with an ICA host whose allow-list admits MsgExec. *)
Theorem C17_cap_refuted_ica_allows_exec :
  exists h, only_txs h /\ breaks_cap (run_history cfg_fixed world_ica_exec (st0 0) h).
Proof. exact refuted_ica_allows_exec. Qed.
Print Assumptions C17_cap_refuted_ica_allows_exec.

(** A passed proposal is not checked: [gov_trusted] cannot be dropped. *)
Theorem C17_cap_refuted_gov_untrusted :
  exists h, breaks_cap (run_history cfg_fixed world_plain (st0 0) h).
Proof. exact refuted_gov_untrusted. Qed.
Print Assumptions C17_cap_refuted_gov_untrusted.

Theorem C17_breaks_cap_contradicts_cap_ok : forall s, breaks_cap s -> ~ cap_ok s.
Proof. exact breaks_cap_not_ok. Qed.
Print Assumptions C17_breaks_cap_contradicts_cap_ok.
