(** C17 — evaluation of implementation traces: correspondence (model vs observed) and the property
    predicate [Pb] on the observed trace itself. *)
From Coq Require Import List Bool Arith ZArith.
Import ListNotations.
Require Import Nib.C17.AnteFacts Nib.C17.CarrierTree Nib.C17.Model Nib.C17.Spec.
Local Open Scope Z_scope.

(** the harness world: actors 0..3 are key accounts, 10 is the reflect contract (it dispatches only for
    its owner, actor 0), 11 the gov module account, 12 the policy account of a group whose members are actor 1
    and the contract, each with a vote that passes a proposal alone (the group exists only when the linked
    application routes x/group: otherwise [group_routed] is false and membership is never asked); no ICA channel exists *)
Definition harness_world : world :=
  {| w_reflects := fun ctr snd => Nat.eqb ctr 10 && Nat.eqb snd 0;
     w_gov := 11%nat;
     w_ica_acct := fun _ => false;
     w_ica_allow := fun _ => false;
     w_group_member := fun pol m => Nat.eqb pol 12 && (Nat.eqb m 1 || Nat.eqb m 10) |}.

(** during InitChain no group exists yet *)
Definition genesis_world : world :=
  {| w_reflects := w_reflects harness_world; w_gov := w_gov harness_world; w_ica_acct := w_ica_acct harness_world;
     w_ica_allow := w_ica_allow harness_world; w_group_member := fun _ _ => false |}.

(** what is seen of InitChain when the genesis carries gentxs: did the chain start, and the validators after it *)
Record genobs := { g_started : bool; g_vals : list vobs; g_allmax : Z }.

Record case := {
  c_min_rate : Z;                  (* staking MinCommissionRate the chain was set up with *)
  c_cap_linked : Z;                (* ante.MAX_COMMISSION() of the linked binary *)
  c_group_linked : bool;           (* the linked binary's msg service router has a handler for group MsgSubmitProposal *)
  c_gentxs : list tx;              (* genutil gen_txs, delivered from InitChain at height 0 *)
  c_genesis : option genobs;       (* None: a genesis without gentxs *)
  c_setup_dt : Z;                  (* seconds between genesis time and the first transaction block's predecessor *)
  c_txs : list (tx * txobs)        (* delivered in order, each in its own block *)
}.

Definition val_matches (l : list (addr * val)) (o : vobs) : bool :=
  match find_val l (o_id o) with
  | Some v => (v_rate v =? o_rate o) && (v_max v =? o_max o) && (v_chg v =? o_chg o)
  | None => false
  end.

(** the model's validators restricted to the observed actors *)
Definition obs_matches (s : st) (ok : bool) (o : txobs) : bool :=
  Bool.eqb ok (o_ok o) && Nat.eqb (List.length (vals s)) (List.length (o_vals o)) && forallb (val_matches (vals s)) (o_vals o).

Fixpoint replay (c : cfg) (s : st) (l : list (tx * txobs)) : bool :=
  match l with
  | [] => true
  | (x, o) :: r => let '(s', ok) := deliver c harness_world s x in obs_matches s' ok o && replay c s' r
  end.

Definition genesis_matches (s : st) (o : genobs) : bool :=
  Nat.eqb (List.length (vals s)) (List.length (g_vals o)) && forallb (val_matches (vals s)) (g_vals o).

(** [c]: the code as it treats transactions in blocks; [cg]: as it treats gentxs at height 0 *)
Definition mismatch (c cg : cfg) (k : case) : bool :=
  negb ((cap c =? c_cap_linked k) && Bool.eqb (group_routed c) (c_group_linked k) &&
        match c_genesis k with
        | None => replay c (st0 (c_min_rate k)) (c_txs k)
        | Some o =>
            match run_genesis cg genesis_world (st0 (c_min_rate k)) (c_gentxs k) with
            | None => negb (g_started o)
            | Some s =>
                (* InitGenesis panics when no module returned a validator update: at least one validator is needed *)
                if Nat.eqb (List.length (vals s)) 0 then negb (g_started o)
                else g_started o && genesis_matches s o && replay c (advance s (c_setup_dt k)) (c_txs k)
            end
        end).

Definition genobs_as_tx (o : genobs) : txobs := {| o_ok := g_started o; o_vals := g_vals o; o_allmax := g_allmax o |}.

Definition violates (k : case) : bool :=
  negb (Pb (match c_genesis k with Some o => [genobs_as_tx o] | None => [] end ++ map snd (c_txs k))).
