(** C17 / C02 — the vocabulary in which the generated facts about the ante routing
    (coq/Gen/C17Facts.v, coq/Gen/C02Facts.v; printed by harness/gen/c17/antefacts) are stated,
    and the boolean readings of those facts that the models consume.  No proofs. *)
From Coq Require Import String List Bool ZArith.
Import ListNotations.
Open Scope string_scope.

(** an arm of `switch typeURL := opts[0].GetTypeUrl()` in app.NewAnteHandler *)
Inductive arm :=
| ArmReject                 (* the arm starts by returning a non-nil error *)
| ArmHandler (ctor : string) (* the arm assigns anteHandler = ctor(options) *)
| ArmMissing                (* there is no such arm *)
| ArmOther.                 (* anything else: the model cannot follow it *)

Record ext_facts := {
  x_on_first_option : bool;                 (* the switch tag is opts[0].GetTypeUrl() *)
  x_arms : list (string * string);          (* (type url literal, constructor assigned) *)
  x_default : arm;
  x_no_ext : string;                        (* constructor used when the tx has no extension option *)
  x_no_ext_height0 : string;                (* … and ctx.BlockHeight() = 0 (a gentx delivered from InitChain); = x_no_ext unless the code tells them apart *)
  x_returns_inside : bool                   (* `return anteHandler(ctx, tx, sim)` inside `if len(opts) > 0` *)
}.

(** what a Nibiru guard decorator inspects *)
Record guard := {
  g_found : bool;            (* the AnteHandle method exists *)
  g_tests : list string;     (* message / authorization types it type-switches or type-asserts on *)
  g_into_exec : bool;        (* it calls GetMessages() on a MsgExec *)
  g_recursive : bool;        (* … and re-applies its own checking function to the result (any depth) *)
  g_rejects : bool           (* a tested branch returns a non-nil error *)
}.

Inductive cmp_method := CmpGT | CmpGTE | CmpLT | CmpLTE | CmpOther.

Record comparison_site := {
  c_operand : string;        (* expression compared (local aliases resolved) *)
  c_method : cmp_method;     (* operand.METHOD(bound) *)
  c_bound : string;
  c_rejects : bool;          (* the guarded block returns a non-nil error *)
  c_nil_safe : bool          (* the condition tests `!= nil &&` first (pointer operand) *)
}.

(** does the loop over a message list go on after each kind of type-switch clause?  A clause (or the loop body
    after the switch) that returns unconditionally ends the scan: later messages of the list are not checked *)
Record scan_facts := {
  s_after_exec : bool;     (* the MsgExec clause has no unconditional return (the nested result is tested, then the loop goes on) *)
  s_after_create : bool;
  s_after_edit : bool;
  s_after_other : bool;    (* the default clause (if any) has no unconditional return *)
  s_after_switch : bool    (* no unconditional return in the loop body after the switch *)
}.

Record wasm_facts := {
  w_validate_basic : bool;       (* msg.ValidateBasic() error is returned *)
  w_signer_is_contract : bool;   (* every signer must equal contractAddr *)
  w_refuses_eth : bool;          (* MsgEthereumTx type url is refused *)
  w_commission_check : bool;     (* a commission check on msg precedes routing *)
  w_routes : bool                (* h.router.Handler(msg) *)
}.

Definition mem (s : string) (l : list string) : bool := existsb (String.eqb s) l.

Fixpoint index_of (s : string) (l : list string) : option nat :=
  match l with
  | [] => None
  | x :: r => if String.eqb s x then Some 0 else option_map S (index_of s r)
  end.

(** names the facts are read with *)
Definition N_PREVENT_ETH := "AnteDecoratorPreventEtheruemTxMsgs".
Definition N_AUTHZ_GUARD := "AnteDecoratorAuthzGuard".
Definition N_COMMISSION := "AnteDecoratorStakingCommission".
Definition N_VALIDATE_BASIC := "NewValidateBasicDecorator".
Definition N_SIG_VERIFY := "NewSigVerificationDecorator".
Definition N_SET_PUBKEY := "NewSetPubKeyDecorator".
Definition N_SIG_GAS := "NewSigGasConsumeDecorator".
Definition N_INCR_SEQ := "NewIncrementSequenceDecorator".
Definition N_DEDUCT_FEE := "NewDeductFeeDecorator".
Definition N_ETH_VALIDATE_BASIC := "NewEthValidateBasicDecorator".
Definition N_ETH_SIG := "NewEthSigVerificationDecorator".
Definition N_ETH_VERIFY_ACC := "NewAnteDecVerifyEthAcc".
Definition N_ETH_GAS := "NewAnteDecEthGasConsume".
Definition N_ETH_INCR_SEQ := "NewAnteDecEthIncrementSenderSequence".
Definition N_CAN_TRANSFER := "CanTransferDecorator".
Definition T_ETH := "evm.MsgEthereumTx".
Definition T_EXEC := "authz.MsgExec".
Definition T_GRANT := "authz.MsgGrant".
Definition T_CREATE := "stakingtypes.MsgCreateValidator".
Definition T_EDIT := "stakingtypes.MsgEditValidator".
Definition URL_EVM_EXT := "/eth.evm.v1.ExtensionOptionsEthereumTx".
Definition CTOR_EVM := "NewAnteHandlerEVM".
Definition CTOR_NONEVM := "NewAnteHandlerNonEVM".

(** routing of a transaction by its first extension option, read off the facts *)
Inductive ext_option := NoExt | EvmExt | OtherExt.
Inductive route := RouteNonEVM | RouteEVM | RouteReject | RouteUnknown.

Definition ctor_route (c : string) : route :=
  if String.eqb c CTOR_EVM then RouteEVM
  else if String.eqb c CTOR_NONEVM then RouteNonEVM else RouteUnknown.

Fixpoint arm_for (url : string) (arms : list (string * string)) : option string :=
  match arms with
  | [] => None
  | (u, c) :: r => if String.eqb u url then Some c else arm_for url r
  end.

Definition route_of (x : ext_facts) (e : ext_option) : route :=
  match e with
  | NoExt => ctor_route (x_no_ext x)
  | EvmExt =>
      if negb (x_on_first_option x && x_returns_inside x) then RouteUnknown else
      match arm_for URL_EVM_EXT (x_arms x) with
      | Some c => ctor_route c
      | None => match x_default x with
                | ArmReject => RouteReject
                | ArmHandler c => ctor_route c
                | ArmMissing => RouteReject   (* anteHandler stays nil: the call panics, baseapp turns it into an error *)
                | ArmOther => RouteUnknown
                end
      end
  | OtherExt =>
      if negb (x_on_first_option x && x_returns_inside x) then RouteUnknown else
      match x_default x with
      | ArmReject => RouteReject
      | ArmHandler c => ctor_route c
      | ArmMissing => RouteReject
      | ArmOther => RouteUnknown
      end
  end.
