(** Lemmas about the message-tree dispatcher (C17; copy of MsgTreeFacts.v over CarrierTree.v). *)
From Coq Require Import List Bool Arith Lia.
Import ListNotations.
Require Import Nib.C17.CarrierTree.

(** an invariant carried through the loop: each element keeps it when admitted and run *)
Lemma seq_opt_inv {A St : Type} (f : A -> St -> option St) (ok : St -> A -> bool) (P : St -> Prop) (l : list A) :
  Forall (fun c => forall s s', P s -> ok s c = true -> f c s = Some s' -> P s') l ->
  forall s s', P s -> seq_opt f ok l s = Some s' -> P s'.
Proof.
  induction 1 as [|c r Hc _ IH]; intros s s' Hs Hrun; simpl in Hrun.
  - inversion Hrun. subst. exact Hs.
  - destruct (ok s c) eqn:Hok; [|discriminate].
    destruct (f c s) as [s1|] eqn:Hf; [|discriminate].
    eapply IH; [|exact Hrun]. eapply Hc; eauto.
Qed.

(** same, with a relation between the first state and the current one (e.g. "only grew") *)
Lemma seq_opt_inv_weak {A St : Type} (f : A -> St -> option St) (ok : St -> A -> bool) (P : St -> Prop) (l : list A) :
  (forall c, In c l -> forall s s', P s -> ok s c = true -> f c s = Some s' -> P s') ->
  forall s s', P s -> seq_opt f ok l s = Some s' -> P s'.
Proof.
  intro H. apply seq_opt_inv. apply Forall_forall. exact H.
Qed.

Lemma existsb_false_forall {A} (f : A -> bool) l : existsb f l = false -> forall x, In x l -> f x = false.
Proof.
  induction l as [|a l IH]; simpl; intros H x Hx; [contradiction|].
  apply orb_false_iff in H as [H1 H2]. destruct Hx as [->|Hx]; auto.
Qed.

Lemma existsb_ext_in {A} (f g : A -> bool) l : (forall x, In x l -> f x = g x) -> existsb f l = existsb g l.
Proof.
  induction l as [|a l IH]; simpl; intro H; [reflexivity|].
  rewrite (H a (or_introl eq_refl)). f_equal. apply IH. intros x Hx. apply H. now right.
Qed.
