(** C17 — the property as a Prop over model states / observed traces, and as boolean checkers. *)
From Coq Require Import List Bool Arith ZArith Lia.
Import ListNotations.
Require Import Nib.C17.AnteFacts Nib.C17.CarrierTree Nib.C17.Model.
Local Open Scope Z_scope.

(** every validator's commission rate is at most 25 % *)
Definition cap_ok (s : st) : Prop :=
  forall a v, find_val (vals s) a = Some v -> v_rate v <= CAP25.

(** the literal reading: relative to a state [s0], every validator of [s] either is exactly as it was
    in [s0] or has a rate of at most 25 % (nothing was created with / edited to a higher rate) *)
Definition changed_capped (s0 s : st) : Prop :=
  forall a v, find_val (vals s) a = Some v -> v_rate v <= CAP25 \/ find_val (vals s0) a = Some v.

Definition cap_okb (s : st) : bool := forallb (fun p => v_rate (snd p) <=? CAP25) (vals s).

Lemma find_val_In l a v : find_val l a = Some v -> In (a, v) l.
Proof.
  induction l as [|[b w] l IH]; simpl; [discriminate|].
  destruct (Nat.eqb a b) eqn:E.
  - intro H. inversion H. subst. apply Nat.eqb_eq in E. subst. now left.
  - intro H. right. auto.
Qed.

Lemma cap_okb_sound s : cap_okb s = true -> cap_ok s.
Proof.
  unfold cap_okb, cap_ok. intros H a v Hf.
  rewrite forallb_forall in H. specialize (H (a, v) (find_val_In _ _ _ Hf)). simpl in H. lia.
Qed.

(** ---------------------------------------------------------------- observed traces *)
Record vobs := { o_id : addr; o_rate : Z; o_max : Z; o_chg : Z }.
(** after one delivered tx: accepted?, commission of every actor that is a validator, and the maximum
    commission rate over ALL validators in staking state *)
Record txobs := { o_ok : bool; o_vals : list vobs; o_allmax : Z }.

Definition obs_capped (o : txobs) : Prop :=
  Forall (fun v => o_rate v <= CAP25) (o_vals o) /\ o_allmax o <= CAP25.

Definition P (t : list txobs) : Prop := Forall obs_capped t.

Definition obs_cappedb (o : txobs) : bool :=
  forallb (fun v => o_rate v <=? CAP25) (o_vals o) && (o_allmax o <=? CAP25).

Definition Pb (t : list txobs) : bool := forallb obs_cappedb t.

Lemma Pb_sound t : Pb t = true -> P t.
Proof.
  unfold Pb, P. intro H. apply Forall_forall. intros o Ho.
  rewrite forallb_forall in H. specialize (H o Ho). unfold obs_cappedb in H.
  apply andb_true_iff in H as [H1 H2]. split; [|lia].
  apply Forall_forall. intros v Hv. rewrite forallb_forall in H1. specialize (H1 v Hv). simpl in H1. lia.
Qed.
