(** C17 — a fixed family of short histories evaluated on the MODEL when a proof obligation or the
    correspondence breaks (tools/props/c17.py model_search mirrors [sweep_cases] index by index and
    replays the failing ones on the implementation).  No proofs. *)
From Coq Require Import List Bool Arith ZArith.
Import ListNotations.
Require Import Nib.C17.AnteFacts Nib.C17.CarrierTree Nib.C17.Model Nib.C17.Spec Nib.C17.Check.
Local Open Scope Z_scope.

Definition cv (op : addr) (r : Z) : msg := Leaf (CreateVal op r ONE ONE).
Definition ed (op : addr) (r : Z) : msg := Leaf (EditVal op (Some r)).
Definition mk_tx (signer : addr) (dt : Z) (e : ext_option) (ms : list msg) : tx :=
  {| t_dt := dt; t_ext := e; t_signer := signer; t_msgs := ms |}.

Definition family (r : Z) : list (list tx) := [
  [mk_tx 1 5 NoExt [cv 1 r]];
  [mk_tx 1 5 NoExt [Exec 1 [cv 1 r]]];
  [mk_tx 1 5 NoExt [Exec 1 [Exec 1 [cv 1 r]]]];
  [mk_tx 1 5 NoExt [Exec 1 [Exec 1 [Exec 1 [cv 1 r]]]]];
  [mk_tx 0 5 NoExt [Wasm 0 10 [cv 10 r]]];
  [mk_tx 0 5 NoExt [Wasm 0 10 [Exec 10 [cv 10 r]]]];
  [mk_tx 0 5 NoExt [Exec 0 [Wasm 0 10 [cv 10 r]]]];
  [mk_tx 1 5 NoExt [cv 1 100000000000000000]; mk_tx 1 86400 NoExt [ed 1 r]];
  [mk_tx 1 5 NoExt [cv 1 100000000000000000]; mk_tx 1 86400 NoExt [Exec 1 [ed 1 r]]];
  [mk_tx 0 5 NoExt [Wasm 0 10 [cv 10 100000000000000000]]; mk_tx 0 86400 NoExt [Wasm 0 10 [ed 10 r]]];
  [mk_tx 1 5 EvmExt [cv 1 r]];
  [mk_tx 1 5 OtherExt [cv 1 r]];
  [mk_tx 1 5 NoExt [Exec 1 [Leaf (Send 1)]; cv 1 r]];
  [mk_tx 1 5 NoExt [Leaf (Send 1); cv 1 r]];
  [mk_tx 1 5 NoExt [Exec 1 [Exec 1 [Leaf (Send 1)]; cv 1 r]]];
  [mk_tx 0 5 NoExt [Wasm 0 10 [Exec 10 [Leaf (Send 10)]; cv 10 r]]];
  [mk_tx 1 5 NoExt [cv 1 100000000000000000]; mk_tx 1 86400 NoExt [Exec 1 [Leaf (Send 1)]; ed 1 r]];
  (* x/group proposals with Exec = TRY (policy account 12; members 1 and the contract) *)
  [mk_tx 1 5 NoExt [Group 1 12 true [cv 12 r]]];
  [mk_tx 1 5 NoExt [Exec 1 [Group 1 12 true [cv 12 r]]]];
  [mk_tx 0 5 NoExt [Wasm 0 10 [Group 10 12 true [cv 12 r]]]];
  [mk_tx 1 5 NoExt [Group 1 12 true [Leaf (Send 12); cv 12 r]]];
  [mk_tx 1 5 NoExt [Group 1 12 true [cv 12 100000000000000000]]; mk_tx 1 86400 NoExt [Group 1 12 true [ed 12 r]]]
].

Definition sweep_cases : list (list tx) :=
  family 250000000000000001 ++ family 260000000000000000 ++ family 900000000000000000.

Definition final (c : cfg) (h : list tx) : st := run_history c harness_world (st0 0) (map EvTx h).

Fixpoint number {A} (n : nat) (l : list A) : list (nat * A) :=
  match l with [] => [] | x :: r => (n, x) :: number (S n) r end.

Definition sweep_bad (c : cfg) : list nat :=
  map fst (filter (fun p => negb (cap_okb (final c (snd p)))) (number 0 sweep_cases)).
