(** C17 — reading an ICA-host allow-list (as extracted from an upgrade handler: Gen/C17Facts.v
    [ica_allow_lists]) as the [w_ica_allow] of a world, and a boolean test that implies [ica_safe]. *)
From Coq Require Import List Bool Arith ZArith String.
Import ListNotations.
Require Import Nib.C17.AnteFacts Nib.C17.CarrierTree Nib.C17.Model Nib.C17.Spec Nib.C17.Proofs.
Open Scope string_scope.

(** message type named in an allow-list → message kind of the model.  Every type that is neither a staking
    create/edit message nor a message carrier cannot touch a commission: it is read as [K_SEND] ("other"). *)
Definition kind_of_name (u : string) : mkind :=
  if String.eqb u "stakingtypes.MsgCreateValidator" then MKLeaf K_CREATE
  else if String.eqb u "stakingtypes.MsgEditValidator" then MKLeaf K_EDIT
  else if String.eqb u "authz.MsgGrant" then MKLeaf K_GRANT
  else if String.eqb u "authz.MsgExec" then MKExec
  else if String.eqb u "wasmtypes.MsgExecuteContract" then MKWasm
  else if String.eqb u "wasm.MsgExecuteContract" then MKWasm
  else if String.eqb u "govv1.MsgSubmitProposal" then MKGov
  else if String.eqb u "govtypesv1.MsgSubmitProposal" then MKGov
  else if String.eqb u "channeltypes.MsgRecvPacket" then MKIca
  else if String.eqb u "group.MsgSubmitProposal" then MKGroup
  else if String.eqb u "grouptypes.MsgSubmitProposal" then MKGroup
  else if String.eqb u "group.MsgExec" then MKGroup           (* executes a stored group proposal *)
  else if String.eqb u "group.MsgVote" then MKGroup           (* … and so does a vote with Exec = TRY *)
  else if String.eqb u "*" then MKExec            (* allow-all: in particular MsgExec *)
  else MKLeaf K_SEND.

Definition allow_of_list (l : list string) (k : mkind) : bool :=
  existsb (fun u => mkind_eqb (kind_of_name u) k) l.

Definition name_safe (u : string) : bool :=
  match kind_of_name u with
  | MKLeaf k => Nat.eqb k K_GRANT || Nat.eqb k K_SEND
  | _ => false
  end.

Definition list_safe (l : list string) : bool := forallb name_safe l.

Definition world_with_ica (w : world) (l : list string) : world :=
  {| w_reflects := w_reflects w; w_gov := w_gov w; w_ica_acct := w_ica_acct w; w_ica_allow := allow_of_list l;
     w_group_member := w_group_member w |}.

Lemma mkind_eqb_eq a b : mkind_eqb a b = true -> a = b.
Proof.
  destruct a, b; simpl; intro H; try discriminate; auto; apply Nat.eqb_eq in H; now subst.
Qed.

Lemma list_safe_sound w l : list_safe l = true -> ica_safe (world_with_ica w l).
Proof.
  unfold list_safe, ica_safe. simpl. intros H k Hk.
  unfold allow_of_list in Hk. apply existsb_exists in Hk as (u & Hin & Hu).
  rewrite forallb_forall in H. specialize (H u Hin). unfold name_safe in H.
  apply mkind_eqb_eq in Hu. rewrite Hu in H. destruct k as [n| | | | | |]; try discriminate.
  apply orb_true_iff in H as [E|E]; apply Nat.eqb_eq in E; subst; auto.
Qed.
