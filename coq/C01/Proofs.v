(** C01 — order-independence of every modelled map-ranging site, and of the composed step function. *)
From Coq Require Import List Bool ZArith Lia Permutation Sorting.Sorted.
Import ListNotations.
Require Import Nib.C01.Model Nib.C01.PermSort.
Local Open Scope Z_scope.

(* ------------------------------------------------------------------ schedules *)

Lemma valid_sched_id : valid_sched sched_id.
Proof. intros p l. apply Permutation_refl. Qed.

Lemma valid_sched_rev : valid_sched sched_rev.
Proof. intros p l. symmetry. apply Permutation_rev. Qed.

Lemma sched_perm (π π' : sched) p p' l :
  valid_sched π -> valid_sched π' -> Permutation (π p l) (π' p' l).
Proof. intros H H'. eapply perm_trans; [apply H|symmetry; apply H']. Qed.

(** a site that sorts the collected keys sees the same order on every replica *)
Lemma order_keys_sorted (ord ord' : list Z -> list Z) ks :
  Permutation (ord ks) ks -> Permutation (ord' ks) ks ->
  order_keys true ord ks = order_keys true ord' ks.
Proof.
  intros H H'. unfold order_keys. apply isort_perm_eq.
  eapply perm_trans; [exact H|symmetry; exact H'].
Qed.

Lemma order_keys_perm b ord ks : Permutation (ord ks) ks -> Permutation (order_keys b ord ks) ks.
Proof.
  intro H. destruct b; simpl; auto. eapply perm_trans; [apply isort_perm|exact H].
Qed.

Lemma sorted_site_deterministic {A : Type} (f : list Z -> A) (l l' : list Z) :
  Permutation l l' -> f (isort l) = f (isort l').
Proof. intro H. f_equal. apply isort_perm_eq. exact H. Qed.

(* ------------------------------------------------------------------ canonical finite maps *)

Section KVFacts.
  Context {V : Type}.
  Implicit Types m : kv V.

  Ltac kv_cases :=
    repeat (simpl; match goal with
                   | |- context [?a <? ?b] => destruct (Z.ltb_spec a b)
                   | |- context [?a =? ?b] => destruct (Z.eqb_spec a b)
                   end); simpl.

  Lemma kv_get_set_same k v m : kv_get k (kv_set k v m) = Some v.
  Proof.
    induction m as [|[k' v'] t IH]; kv_cases; try reflexivity; try lia; auto.
  Qed.

  Lemma kv_get_set_other k k' v m : k <> k' -> kv_get k (kv_set k' v m) = kv_get k m.
  Proof.
    intro Hne. induction m as [|[k'' v''] t IH]; kv_cases; try reflexivity; try lia; auto.
  Qed.

  Lemma kv_set_comm k1 k2 v1 v2 m :
    k1 <> k2 -> kv_set k1 v1 (kv_set k2 v2 m) = kv_set k2 v2 (kv_set k1 v1 m).
  Proof.
    intro Hne. induction m as [|[k' v'] t IH]; kv_cases; try reflexivity; try lia; try (f_equal; exact IH).
  Qed.

  Lemma kv_del_comm k1 k2 m : kv_del k1 (kv_del k2 m) = kv_del k2 (kv_del k1 m).
  Proof.
    induction m as [|[k' v'] t IH]; kv_cases; try reflexivity; try lia; try (f_equal; exact IH); auto.
  Qed.

  Lemma kv_adjust_comm k1 k2 (f g : option V -> option V) m :
    k1 <> k2 -> kv_adjust k1 f (kv_adjust k2 g m) = kv_adjust k2 g (kv_adjust k1 f m).
  Proof.
    intro Hne. unfold kv_adjust.
    destruct (g (kv_get k2 m)) as [v2|] eqn:Eg.
    - rewrite kv_get_set_other by auto.
      destruct (f (kv_get k1 m)) as [v1|] eqn:Ef.
      + rewrite kv_get_set_other by auto. rewrite Eg. apply kv_set_comm; auto.
      + rewrite Eg. reflexivity.
    - destruct (f (kv_get k1 m)) as [v1|] eqn:Ef.
      + rewrite kv_get_set_other by auto. rewrite Eg. reflexivity.
      + rewrite Eg. reflexivity.
  Qed.

  (** JKeyed: one conditional read-modify-write per visited key *)
  Theorem keyed_fold_perm (f : Z -> option V -> option V) (l l' : list Z) m :
    Permutation l l' ->
    fold_left (fun m k => kv_adjust k (f k) m) l m = fold_left (fun m k => kv_adjust k (f k) m) l' m.
  Proof.
    intro Hp. apply fold_left_perm_comm; auto.
    intros a b s _ _. destruct (Z.eq_dec a b) as [->|Hne]; auto. apply kv_adjust_comm; auto.
  Qed.

  (** JBuildMap: the body only stores an entry for the visited key *)
  Theorem build_map_fold_perm (g : Z -> V) (l l' : list Z) m :
    Permutation l l' ->
    fold_left (fun m k => kv_set k (g k) m) l m = fold_left (fun m k => kv_set k (g k) m) l' m.
  Proof.
    intro Hp. apply fold_left_perm_comm; auto.
    intros a b s _ _. destruct (Z.eq_dec a b) as [->|Hne]; auto. apply kv_set_comm; auto.
  Qed.

  Theorem delete_fold_perm (p : Z -> bool) (l l' : list Z) m :
    Permutation l l' ->
    fold_left (fun m k => if p k then kv_del k m else m) l m = fold_left (fun m k => if p k then kv_del k m else m) l' m.
  Proof.
    intro Hp. apply fold_left_perm_comm; auto.
    intros a b s _ _. destruct (p a), (p b); auto. apply kv_del_comm.
  Qed.
End KVFacts.

(** JSum: commutative accumulation *)
Theorem sum_fold_perm (w : Z -> Z) (l l' : list Z) acc :
  Permutation l l' ->
  fold_left (fun acc k => acc + w k) l acc = fold_left (fun acc k => acc + w k) l' acc.
Proof. intro Hp. apply fold_left_perm_comm; auto. intros; lia. Qed.

(* ------------------------------------------------------------------ key sets *)

Lemma zmem_insert a b s : zmem a (insert b s) = (a =? b) || zmem a s.
Proof.
  induction s as [|y t IH]; simpl.
  - rewrite orb_false_r. reflexivity.
  - destruct (b <=? y); simpl; auto. rewrite IH.
    destruct (a =? y), (a =? b); reflexivity.
Qed.

Lemma zset_add_comm a b s : zset_add a (zset_add b s) = zset_add b (zset_add a s).
Proof.
  unfold zset_add.
  destruct (zmem b s) eqn:Eb, (zmem a s) eqn:Ea; rewrite ?Ea, ?Eb; auto.
  - rewrite zmem_insert, Eb, orb_true_r. reflexivity.
  - rewrite zmem_insert, Ea, orb_true_r. reflexivity.
  - rewrite !zmem_insert, Ea, Eb, !orb_false_r.
    destruct (Z.eqb_spec a b) as [->|Hne].
    + rewrite Z.eqb_refl. reflexivity.
    + destruct (Z.eqb_spec b a); [congruence|]. apply insert_comm.
Qed.

(** JBuildMap for sets *)
Theorem build_set_fold_perm (l l' : list Z) s :
  Permutation l l' -> fold_left (fun s k => zset_add k s) l s = fold_left (fun s k => zset_add k s) l' s.
Proof. intro Hp. apply fold_left_perm_comm; auto. intros; apply zset_add_comm. Qed.

(* ------------------------------------------------------------------ x/sudo *)

Lemma filter_NoDup {A} (p : A -> bool) l : NoDup l -> NoDup (filter p l).
Proof.
  induction 1 as [|x t Hx Hn IH]; simpl; [constructor|].
  destruct (p x); auto. constructor; auto. rewrite filter_In. tauto.
Qed.

Lemma sudo_set_after_NoDup stored add cs : NoDup (sudo_set_after stored add cs).
Proof.
  unfold sudo_set_after. destruct add; [apply zset_of_NoDup|apply filter_NoDup, zset_of_NoDup].
Qed.

Lemma sorted_le_nodup_lt l : StronglySorted Z.le l -> NoDup l -> StronglySorted Z.lt l.
Proof.
  induction 1 as [|x t Hs IH Hall]; intro Hn; constructor.
  - apply IH. inversion Hn; auto.
  - inversion Hn as [|? ? Hx Hn']; subst.
    rewrite Forall_forall in *. intros y Hy. specialize (Hall y Hy).
    assert (x <> y) by (intro; subst; contradiction). lia.
Qed.

(** after the fix the stored list does not depend on the order in which ToSlice enumerated the set *)
Theorem edit_sudoers_deterministic c (ord ord' : list Z -> list Z) stored add cs :
  c_sudo_sorted c = true ->
  (forall l, Permutation (ord l) l) -> (forall l, Permutation (ord' l) l) ->
  edit_sudoers c ord stored add cs = edit_sudoers c ord' stored add cs.
Proof.
  intros Hc H H'. unfold edit_sudoers, to_pb. rewrite Hc. apply order_keys_sorted; auto.
Qed.

(** … and it is the canonical (strictly increasing) enumeration of the resulting set *)
Theorem edit_sudoers_canonical c ord stored add cs :
  c_sudo_sorted c = true -> (forall l, Permutation (ord l) l) ->
  StronglySorted Z.lt (edit_sudoers c ord stored add cs) /\
  (forall x, In x (edit_sudoers c ord stored add cs) <-> In x (sudo_set_after stored add cs)).
Proof.
  intros Hc H. unfold edit_sudoers, to_pb. rewrite Hc. simpl.
  assert (Hp : Permutation (isort (ord (sudo_set_after stored add cs))) (sudo_set_after stored add cs)).
  { eapply perm_trans; [apply isort_perm|apply H]. }
  split.
  - apply sorted_le_nodup_lt; [apply isort_sorted|].
    eapply Permutation_NoDup; [symmetry; exact Hp|apply sudo_set_after_NoDup].
  - intro x. split; intro Hx; [eapply Permutation_in; eauto|eapply Permutation_in; [symmetry; eauto|auto]].
Qed.

Definition cfg_before_fix : cfg := mk_cfg false true true true true true true true.

(** before the fix (no sort in ToPb) two replicas store different byte strings *)
Theorem edit_sudoers_refuted_before_fix :
  exists stored add cs,
    edit_sudoers cfg_before_fix (sched_id []) stored add cs <> edit_sudoers cfg_before_fix (sched_rev []) stored add cs.
Proof. exists [], true, [1; 2]. vm_compute. discriminate. Qed.

(* ------------------------------------------------------------------ x/evm/statedb commit *)

Lemma fold_left_ext {A B} (f g : A -> B -> A) l s :
  (forall s x, f s x = g s x) -> fold_left f l s = fold_left g l s.
Proof. intro H. revert s. induction l as [|x t IH]; intro s; simpl; auto. rewrite H. apply IH. Qed.

Theorem commit_obj_deterministic c π π' path st addr o :
  c_storage_sorted c = true -> valid_sched π -> valid_sched π' ->
  commit_obj c π path st addr o = commit_obj c π' path st addr o.
Proof.
  intros Hc H H'. unfold commit_obj. destruct (so_suicided o); auto.
  rewrite Hc. rewrite (order_keys_sorted (π (1 :: addr :: path)) (π' (1 :: addr :: path))); auto.
Qed.

Theorem commit_deterministic c π π' path dirties st :
  c_dirties_sorted c = true -> c_storage_sorted c = true -> valid_sched π -> valid_sched π' ->
  commit c π path dirties st = commit c π' path dirties st.
Proof.
  intros Hd Hs H H'. unfold commit. rewrite Hd.
  rewrite (order_keys_sorted (π (0 :: path)) (π' (0 :: path))); auto.
  apply fold_left_ext. intros s a. destruct (assoc a dirties); auto.
  apply commit_obj_deterministic; auto.
Qed.

Definition cfg_dirties_unsorted : cfg := mk_cfg true false true true true true true true.

(** iterating journal.dirties directly: two accounts created by one transaction receive their
    account numbers in map order *)
Theorem commit_refuted_unsorted_dirties :
  exists dirties,
    commit cfg_dirties_unsorted sched_id [] dirties (mk_evm [] 0 []) <>
    commit cfg_dirties_unsorted sched_rev [] dirties (mk_evm [] 0 []).
Proof.
  exists [(1, mk_sobj false 10 []); (2, mk_sobj false 20 [])]. vm_compute. discriminate.
Qed.

(* ------------------------------------------------------------------ x/oracle *)

(** a producer that blocks on every send hands over EVERY key, in order, whatever the consumer's wall clock *)
Theorem range_recv_blocking delays keys : range_recv None delays keys = keys.
Proof.
  revert delays. induction keys as [|k rest IH]; intros [|d ds]; simpl; auto. rewrite IH. reflexivity.
Qed.

(** with a bound on the wait the consumer sees a PREFIX, and which one depends on its clock *)
Theorem range_recv_prefix t delays keys : exists rest, keys = range_recv (Some t) delays keys ++ rest.
Proof.
  revert delays. induction keys as [|k ks IH]; intros [|d ds]; simpl.
  - exists []. reflexivity.
  - exists []. reflexivity.
  - exists []. rewrite app_nil_r. reflexivity.
  - destruct (t <? d).
    + exists (k :: ks). reflexivity.
    + destruct (IH ds) as [r Hr]. exists r. simpl. rewrite <- Hr. reflexivity.
Qed.

Theorem range_recv_timeout_refuted :
  exists t delays delays' keys, range_recv (Some t) delays keys <> range_recv (Some t) delays' keys.
Proof. exists 1000, [], [0; 1500], [1; 2; 3]. vm_compute. discriminate. Qed.

Theorem keys_seen_deterministic c via π π' (δ δ' : clock) site ks :
  via = true -> c_omap_sorted c = true -> c_range_blocking c = true -> valid_sched π -> valid_sched π' ->
  keys_seen c via π δ site ks = keys_seen c via π' δ' site ks.
Proof.
  intros Hv Hs Hb H H'. unfold keys_seen, range_timeout. rewrite Hv, Hs, Hb.
  rewrite !range_recv_blocking. apply order_keys_sorted; auto.
Qed.

Theorem remove_invalid_deterministic c π π' δ δ' path pvs :
  c_remove_via_omap c = true -> c_omap_sorted c = true -> c_range_blocking c = true -> valid_sched π -> valid_sched π' ->
  remove_invalid c π δ path pvs = remove_invalid c π' δ' path pvs.
Proof.
  intros H1 H2 H3 H H'. unfold remove_invalid.
  rewrite (keys_seen_deterministic c _ π π' δ δ'); auto.
Qed.

Theorem tally_deterministic c π π' δ δ' path pvs perfs prices :
  c_tally_via_omap c = true -> c_omap_sorted c = true -> c_range_blocking c = true -> valid_sched π -> valid_sched π' ->
  tally c π δ path pvs perfs prices = tally c π' δ' path pvs perfs prices.
Proof.
  intros H1 H2 H3 H H'. unfold tally.
  rewrite (keys_seen_deterministic c _ π π' δ δ'); auto.
Qed.

Lemma miss_step_comm perfs mc a b :
  miss_step perfs (miss_step perfs mc a) b = miss_step perfs (miss_step perfs mc b) a.
Proof.
  destruct (Z.eq_dec a b) as [->|Hne]; auto.
  unfold miss_step.
  destruct (kv_get a perfs) as [pa|]; destruct (kv_get b perfs) as [pb|]; auto.
  destruct (0 <? p_miss pa), (0 <? p_miss pb); auto.
  apply kv_adjust_comm. auto.
Qed.

Theorem incr_miss_deterministic π π' path perfs mc :
  valid_sched π -> valid_sched π' -> incr_miss π path perfs mc = incr_miss π' path perfs mc.
Proof.
  intros H H'. unfold incr_miss. apply fold_left_perm_comm.
  - apply sched_perm; auto.
  - intros; apply miss_step_comm.
Qed.

Lemma omit_step_comm n m a b : omit_step n (omit_step n m a) b = omit_step n (omit_step n m b) a.
Proof.
  destruct (Z.eq_dec a b) as [->|Hne]; auto. unfold omit_step. apply kv_adjust_comm. auto.
Qed.

Theorem abstain_by_omission_deterministic π π' path n perfs :
  valid_sched π -> valid_sched π' ->
  abstain_by_omission π path n perfs = abstain_by_omission π' path n perfs.
Proof.
  intros H H'. unfold abstain_by_omission. apply fold_left_perm_comm.
  - apply sched_perm; auto.
  - intros; apply omit_step_comm.
Qed.

Theorem total_weight_deterministic π π' path perfs :
  valid_sched π -> valid_sched π' -> total_weight π path perfs = total_weight π' path perfs.
Proof. intros H H'. unfold total_weight. apply sum_fold_perm. apply sched_perm; auto. Qed.

Lemma reward_step_comm perfs pool total st a b :
  reward_step perfs pool total (reward_step perfs pool total st a) b =
  reward_step perfs pool total (reward_step perfs pool total st b) a.
Proof.
  destruct (Z.eq_dec a b) as [->|Hne]; auto.
  unfold reward_step. simpl. f_equal; [|lia]. apply kv_adjust_comm. auto.
Qed.

Theorem reward_winners_deterministic π π' path perfs pool out d :
  valid_sched π -> valid_sched π' ->
  reward_winners π path perfs pool out d = reward_winners π' path perfs pool out d.
Proof.
  intros H H'. unfold reward_winners.
  rewrite (total_weight_deterministic π π') by auto.
  destruct (total_weight π' path perfs =? 0); auto.
  apply fold_left_perm_comm.
  - apply sched_perm; auto.
  - intros; apply reward_step_comm.
Qed.

(* ------------------------------------------------------------------ omap *)

Lemma search_insert_comm a b l :
  a <> b -> search_insert a (search_insert b l) = search_insert b (search_insert a l).
Proof.
  intro Hne. induction l as [|y t IH];
    repeat (simpl; match goal with |- context [?x <? ?y] => destruct (Z.ltb_spec x y) end); simpl;
    try reflexivity; try lia; try (f_equal; exact IH).
Qed.

Lemma zmem_zset_add a b s : zmem a (zset_add b s) = (a =? b) || zmem a s.
Proof.
  unfold zset_add. destruct (zmem b s) eqn:E; [|apply zmem_insert].
  destruct (Z.eqb_spec a b) as [->|Hne]; simpl; auto.
Qed.

Lemma om_set_comm a b om : om_set a (om_set b om) = om_set b (om_set a om).
Proof.
  destruct (Z.eq_dec a b) as [->|Hne]; auto.
  assert (Eab : (a =? b) = false) by (apply Z.eqb_neq; auto).
  assert (Eba : (b =? a) = false) by (apply Z.eqb_neq; auto).
  unfold om_set.
  destruct (zmem b (om_data om)) eqn:Eb, (zmem a (om_data om)) eqn:Ea; simpl;
    rewrite ?Ea, ?Eb, ?zmem_zset_add, ?Ea, ?Eb, ?Eab, ?Eba; simpl; auto.
  f_equal; [apply zset_add_comm|apply search_insert_comm; auto].
Qed.

Theorem add_precompiles_deterministic c π π' path addrs om :
  c_omap_sorted c = true -> valid_sched π -> valid_sched π' ->
  add_precompiles c π path addrs om = add_precompiles c π' path addrs om.
Proof.
  intros Hc H H'. unfold add_precompiles. destruct (om_data om).
  - unfold om_build. rewrite Hc. f_equal. apply order_keys_sorted; auto.
  - apply fold_left_perm_comm.
    + apply sched_perm; auto.
    + intros; apply om_set_comm.
Qed.

(** invariant of the SortedMap API: orderedKeys = sort (keys of data), data has no duplicates *)
Definition om_inv (om : omap) : Prop := om_keys om = isort (om_data om) /\ NoDup (om_data om).

Lemma search_insert_eq_insert k l : ~ In k l -> search_insert k l = insert k l.
Proof.
  induction l as [|y t IH]; intro Hn; simpl; auto.
  destruct (Z.ltb_spec k y), (Z.leb_spec k y); try lia; auto.
  - exfalso. apply Hn. left. lia.
  - f_equal. apply IH. intro. apply Hn. right. auto.
Qed.

Lemma isort_insert k l : isort (insert k l) = insert k (isort l).
Proof.
  change (insert k (isort l)) with (isort (k :: l)). apply isort_perm_eq. apply insert_perm.
Qed.

Lemma zremove_In x k l : In x (zremove k l) <-> In x l /\ x <> k.
Proof.
  induction l as [|y t IH]; simpl; [tauto|].
  destruct (Z.eqb_spec k y) as [->|Hne]; simpl; rewrite IH; split.
  - tauto.
  - intros [[->|H] Hx]; tauto.
  - intros [->|[H Hx]]; auto.
  - intros [[->|H] Hx]; auto.
Qed.

Lemma zremove_perm k l l' : Permutation l l' -> Permutation (zremove k l) (zremove k l').
Proof.
  induction 1; simpl; auto.
  - destruct (k =? x); auto.
  - destruct (k =? y), (k =? x); auto. apply perm_swap.
  - eapply perm_trans; eauto.
Qed.

Lemma zremove_sorted k l : StronglySorted Z.le l -> StronglySorted Z.le (zremove k l).
Proof.
  induction 1 as [|y t Hs IH Hall]; simpl; [constructor|].
  destruct (k =? y); auto. constructor; auto.
  rewrite Forall_forall in *. intros x Hx. apply zremove_In in Hx. apply Hall. tauto.
Qed.

Lemma zremove_isort k l : zremove k (isort l) = isort (zremove k l).
Proof.
  apply sorted_perm_eq.
  - apply zremove_sorted, isort_sorted.
  - apply isort_sorted.
  - eapply perm_trans; [apply zremove_perm, isort_perm|symmetry; apply isort_perm].
Qed.

Lemma zremove_NoDup k l : NoDup l -> NoDup (zremove k l).
Proof.
  induction 1 as [|x t Hx Hn IH]; simpl; [constructor|].
  destruct (k =? x); auto. constructor; auto. rewrite zremove_In. tauto.
Qed.

Lemma zset_add_NoDup k s : NoDup s -> NoDup (zset_add k s).
Proof.
  intro Hn. unfold zset_add. destruct (zmem k s) eqn:E; auto.
  eapply Permutation_NoDup; [symmetry; apply insert_perm|].
  constructor; auto. apply zmem_false_iff. exact E.
Qed.

Lemma fold_zset_add_NoDup l s : NoDup s -> NoDup (fold_left (fun d k => zset_add k d) l s).
Proof. revert s. induction l as [|x t IH]; intros s Hn; simpl; auto. apply IH, zset_add_NoDup, Hn. Qed.

Theorem omap_apply_inv c π path op om :
  c_omap_sorted c = true -> valid_sched π -> om_inv om -> om_inv (omap_apply c π path op om).
Proof.
  intros Hc H [Hk Hn]. destruct op as [ks|k|k|ks]; simpl.
  - unfold om_build, om_inv; simpl. rewrite Hc. split; [|apply zset_of_NoDup].
    simpl. apply isort_perm_eq. apply H.
  - unfold om_set. destruct (zmem k (om_data om)) eqn:E; [split; auto|].
    unfold om_inv; simpl. split; [|apply zset_add_NoDup; auto].
    unfold zset_add. rewrite E. rewrite isort_insert, Hk.
    apply search_insert_eq_insert.
    intro Hin. apply zmem_false_iff in E. apply E.
    eapply Permutation_in; [apply isort_perm|exact Hin].
  - unfold om_delete. destruct (zmem k (om_data om)); [|split; auto].
    unfold om_inv; simpl. split; [rewrite Hk; apply zremove_isort|apply zremove_NoDup; auto].
  - unfold om_union, om_inv; simpl. rewrite Hc. split; [|apply fold_zset_add_NoDup; auto].
    simpl. apply isort_perm_eq. apply H.
Qed.

Theorem omap_history_inv c π ops :
  c_omap_sorted c = true -> valid_sched π ->
  forall om path, om_inv om ->
  om_inv (fold_left (fun o op => omap_apply c π path op o) ops om).
Proof.
  intros Hc H. induction ops as [|op t IH]; intros om path Hi; simpl; auto.
  apply IH. apply omap_apply_inv; auto.
Qed.

Lemma om_inv_empty : om_inv (mk_omap [] []).
Proof. split; [reflexivity|constructor]. Qed.

(** every SortedMap operation is independent of the schedule *)
Theorem omap_apply_deterministic c π π' path op om :
  c_omap_sorted c = true -> valid_sched π -> valid_sched π' ->
  omap_apply c π path op om = omap_apply c π' path op om.
Proof.
  intros Hc H H'. destruct op as [ks|k|k|ks]; simpl; auto.
  - unfold om_build. rewrite Hc. f_equal. apply order_keys_sorted; auto.
  - unfold om_union. rewrite Hc.
    assert (E : fold_left (fun d k => zset_add k d) (π (1 :: path) (zset_of ks)) (om_data om) =
                fold_left (fun d k => zset_add k d) (π' (1 :: path) (zset_of ks)) (om_data om)).
    { apply build_set_fold_perm. apply sched_perm; auto. }
    rewrite E. f_equal. apply order_keys_sorted; auto.
Qed.

(* ------------------------------------------------------------------ precompile methodById *)

Lemma assoc_In {V} k (v : V) l : assoc k l = Some v -> In (k, v) l.
Proof.
  induction l as [|[k' v'] t IH]; simpl; [discriminate|].
  destruct (Z.eqb_spec k k') as [->|Hne]; intro H; [inversion H; subst; auto|right; auto].
Qed.

Lemma unique_selector (abi : list (Z * Z)) x y s :
  NoDup (map snd abi) -> In (x, s) abi -> In (y, s) abi -> x = y.
Proof.
  induction abi as [|[n s'] t IH]; simpl; intros Hn Hx Hy; [contradiction|].
  inversion Hn as [|? ? Hnot Hn']; subst.
  destruct Hx as [Ex|Hx], Hy as [Ey|Hy].
  - congruence.
  - inversion Ex; subst. exfalso. apply Hnot. change s with (snd (y, s)). apply in_map. exact Hy.
  - inversion Ey; subst. exfalso. apply Hnot. change s with (snd (x, s)). apply in_map. exact Hx.
  - apply IH; auto.
Qed.

Theorem method_by_id_deterministic (ord ord' : list Z -> list Z) abi sel :
  abi_ok abi -> (forall l, Permutation (ord l) l) -> (forall l, Permutation (ord' l) l) ->
  method_by_id ord abi sel = method_by_id ord' abi sel.
Proof.
  intros [_ Hsel] H H'. unfold method_by_id. apply find_unique_perm.
  - eapply perm_trans; [apply H|symmetry; apply H'].
  - intros x y _ _ Hx Hy.
    destruct (assoc x abi) as [sx|] eqn:Ex; [|discriminate].
    destruct (assoc y abi) as [sy|] eqn:Ey; [|discriminate].
    apply Z.eqb_eq in Hx, Hy. subst.
    eapply unique_selector; eauto using assoc_In.
Qed.

(* ------------------------------------------------------------------ composition *)

Theorem step_deterministic c abi π π' δ δ' path s m :
  cfg_ok c = true -> abi_ok abi -> valid_sched π -> valid_sched π' ->
  step c abi π δ path s m = step c abi π' δ' path s m.
Proof.
  intros Hc Habi H H'.
  unfold cfg_ok in Hc. repeat (apply andb_true_iff in Hc as [Hc ?]).
  destruct m as [add cs|dirties|vals pvs npairs pool|addrs|sel|ws]; simpl.
  - rewrite (edit_sudoers_deterministic c (π (10 :: path)) (π' (10 :: path))); auto.
  - rewrite (commit_deterministic c π π'); auto.
  - rewrite (remove_invalid_deterministic c π π' δ δ'); auto.
    rewrite (tally_deterministic c π π' δ δ'); auto.
    destruct (tally c π' δ' path (remove_invalid c π' δ' path (kv_of_list pvs)) (new_perfs vals) (st_prices s)) as [perfs1 prices].
    rewrite (incr_miss_deterministic π π'); auto.
    rewrite (abstain_by_omission_deterministic π π'); auto.
    rewrite (reward_winners_deterministic π π'); auto.
    rewrite (total_weight_deterministic π π'); auto.
  - rewrite (add_precompiles_deterministic c π π'); auto.
  - rewrite (method_by_id_deterministic (π (11 :: path)) (π' (11 :: path))); auto.
  - unfold devgas_payout. match goal with E : c_devgas_slice_order c = true |- _ => rewrite E end. reflexivity.
Qed.

Theorem run_from_deterministic c abi π π' δ δ' h :
  cfg_ok c = true -> abi_ok abi -> valid_sched π -> valid_sched π' ->
  forall i s, run_from c abi π δ i s h = run_from c abi π' δ' i s h.
Proof.
  intros Hc Habi H H'. induction h as [|m t IH]; intros i s; simpl; auto.
  rewrite (step_deterministic c abi π π' δ δ'); auto.
  destruct (step c abi π' δ' [i] s m) as [s1 r]. rewrite IH. reflexivity.
Qed.

(** two replicas — any two map-iteration schedules, any two wall clocks — compute the same state and the same results *)
Theorem run_deterministic c abi π π' δ δ' h :
  cfg_ok c = true -> abi_ok abi -> valid_sched π -> valid_sched π' ->
  run c abi π δ h = run c abi π' δ' h.
Proof. intros. unfold run. apply run_from_deterministic; auto. Qed.

(** every function of the final state and of the results (the app hash, the results hash) agrees *)
Corollary app_hash_deterministic {H : Type} (hash : state * list (list Z) -> H) c abi π π' δ δ' h :
  cfg_ok c = true -> abi_ok abi -> valid_sched π -> valid_sched π' ->
  hash (run c abi π δ h) = hash (run c abi π' δ' h).
Proof. intros. f_equal. apply run_deterministic; auto. Qed.

(** without the sort in Sudoers.ToPb the composed run depends on the schedule *)
Theorem run_refuted_before_fix :
  exists h, run cfg_before_fix [] sched_id clock_fast h <> run cfg_before_fix [] sched_rev clock_fast h.
Proof. exists [MSudoEdit true [1; 2; 3]]. vm_compute. discriminate. Qed.

Theorem run_refuted_unsorted_dirties :
  exists h, run cfg_dirties_unsorted [] sched_id clock_fast h <> run cfg_dirties_unsorted [] sched_rev clock_fast h.
Proof.
  exists [MEvmTx [(1, mk_sobj false 10 [(1, 5)]); (2, mk_sobj false 20 [])]]. vm_compute. discriminate.
Qed.

(** the producer goroutine of omap.Range gives up after a bound (a `select` against a timer around the send): the SAME
    history under the SAME map schedule ends in different prices on a replica whose oracle EndBlock stalls between two pairs *)
Definition cfg_range_timeout : cfg := mk_cfg true true true true true true false true.

Theorem run_refuted_range_timeout :
  exists h, run cfg_range_timeout [] sched_id clock_fast h <> run cfg_range_timeout [] sched_id (clock_stall_second 1500) h.
Proof.
  exists [MOracleEndBlock [(1, 5); (2, 3)]
            [(11, mk_ballot true 100 [mk_vote 1 5 VWin; mk_vote 2 3 VWin]);
             (12, mk_ballot true 101 [mk_vote 1 5 VWin; mk_vote 2 3 VWin])] 2 1000].
  vm_compute. discriminate.
Qed.

(** the dev-gas ante paying by ranging over a map[withdrawer]coins: two withdrawers without an account receive their account
    numbers in map order *)
Definition cfg_devgas_map_order : cfg := mk_cfg true true true true true true true false.

Theorem run_refuted_devgas_map_order :
  exists h, run cfg_devgas_map_order [] sched_id clock_fast h <> run cfg_devgas_map_order [] sched_rev clock_fast h.
Proof. exists [MDevGasPayout [7; 3]]. vm_compute. discriminate. Qed.

Example devgas_payout_nonvacuous :
  ev_accts (devgas_payout cfg_all sched_rev [] [7; 3; 7] (mk_evm [(3, (0, 5))] 1 [])) = [(3, (0, 5)); (7, (1, 0))].
Proof. vm_compute. reflexivity. Qed.

(* ------------------------------------------------------------------ non-vacuity *)

Definition example_history : list msg :=
  [ MAddPrecompiles [2048; 1; 2049; 9];
    MSudoEdit true [30; 10; 20; 10];
    MEvmTx [(7, mk_sobj false 1 [(3, 9); (1, 4)]); (5, mk_sobj false 2 []); (6, mk_sobj false 3 [(2, 0)])];
    MOracleEndBlock [(1, 5); (2, 3); (3, 7)]
      [(11, mk_ballot true 100 [mk_vote 1 5 VWin; mk_vote 2 3 VMiss; mk_vote 3 7 VWin]);
       (12, mk_ballot false 0 [mk_vote 1 5 VAbstain]);
       (13, mk_ballot true 101 [mk_vote 3 7 VWin; mk_vote 2 3 VWin])] 3 1000;
    MSudoEdit false [10];
    MPrecompileCall 77 ].

Definition example_abi : list (Z * Z) := [(1, 55); (2, 77); (3, 99)].

Lemma example_abi_ok : abi_ok example_abi.
Proof. split; repeat constructor; simpl; intuition discriminate. Qed.

(** the hypotheses are met by a concrete non-trivial history under two different schedules, and the
    run does real work (three accounts numbered, prices written — also by the replica that stalls for a minute between
    two pairs of the oracle tally —, rewards paid, a method found) *)
Example run_deterministic_nonvacuous :
  cfg_ok cfg_all = true /\ abi_ok example_abi /\ valid_sched sched_id /\ valid_sched sched_rev /\
  run cfg_all example_abi sched_id clock_fast example_history = run cfg_all example_abi sched_rev (clock_stall_second 60000) example_history /\
  st_sudo (fst (run cfg_all example_abi sched_id clock_fast example_history)) = [20; 30] /\
  ev_next (st_evm (fst (run cfg_all example_abi sched_id clock_fast example_history))) = 3 /\
  kv_keys (st_prices (fst (run cfg_all example_abi sched_rev (clock_stall_second 60000) example_history))) = [11; 13] /\
  st_distributed (fst (run cfg_all example_abi sched_id clock_fast example_history)) > 0 /\
  om_keys (st_precompiles (fst (run cfg_all example_abi sched_id clock_fast example_history))) = [1; 9; 2048; 2049] /\
  last (snd (run cfg_all example_abi sched_id clock_fast example_history)) [] = [2].
Proof.
  split; [reflexivity|]. split; [apply example_abi_ok|].
  split; [apply valid_sched_id|]. split; [apply valid_sched_rev|].
  vm_compute. repeat split; reflexivity.
Qed.

Example edit_sudoers_nonvacuous :
  edit_sudoers cfg_all (sched_rev []) [5; 3] true [4; 3; 9] = [3; 4; 5; 9] /\
  edit_sudoers cfg_all (sched_id []) [5; 3] true [4; 3; 9] = [3; 4; 5; 9].
Proof. vm_compute. split; reflexivity. Qed.

Example omap_inv_nonvacuous :
  om_keys (fold_left (fun o op => omap_apply cfg_all sched_rev [] op o)
             [OBuild [5; 1; 9]; OSet 4; ODelete 5; OUnion [7; 1; 0]] (mk_omap [] [])) = [0; 1; 4; 7; 9].
Proof. vm_compute. reflexivity. Qed.

(* ------------------------------------------------------------------ transaction-scoped process state and restarts *)

(** when every publisher is guarded no message ever sees a stale pointer, whatever the restarts *)
Lemma run_handlers_clean h :
  forallb (fun x => h_guarded (snd x)) h = true ->
  run_handlers false h = map (fun _ => 0%nat) h.
Proof.
  induction h as [|[r m] t IH]; simpl; intro H; auto.
  apply andb_true_iff in H as [Hg Ht]. simpl in Hg.
  destruct r; unfold handle; rewrite Hg; simpl; f_equal; apply IH; exact Ht.
Qed.

Theorem restart_independent h :
  forallb (fun x => h_guarded (snd x)) h = true ->
  run_handlers false h = run_handlers false (no_restarts h).
Proof.
  intro H. rewrite run_handlers_clean by exact H.
  rewrite run_handlers_clean.
  - unfold no_restarts. rewrite map_map. reflexivity.
  - unfold no_restarts. rewrite forallb_forall in *. intros x Hx.
    apply in_map_iff in Hx as [y [<- Hy]]. simpl. apply H. exact Hy.
Qed.

(** one unguarded publisher that fails early, a restart, one more message: the restarted node answers differently *)
Theorem unguarded_publisher_refuted :
  exists h, run_handlers false h <> run_handlers false (no_restarts h).
Proof.
  exists [(false, mk_hmsg false true); (true, mk_hmsg true false)]. vm_compute. discriminate.
Qed.

Example restart_independent_nonvacuous :
  run_handlers false [(false, mk_hmsg true true); (true, mk_hmsg true false); (false, mk_hmsg true true); (true, mk_hmsg true true)]
  = [0; 0; 0; 0]%nat.
Proof. reflexivity. Qed.

Example range_recv_nonvacuous :
  range_recv None [0; 60000; 3] [11; 12; 13] = [11; 12; 13] /\
  range_recv (Some 1000) [0; 60000; 3] [11; 12; 13] = [11] /\
  range_recv (Some 1000) [0; 7; 3] [11; 12; 13] = [11; 12; 13].
Proof. vm_compute. repeat split; reflexivity. Qed.
