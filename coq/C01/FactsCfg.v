(** C01 — reading the mechanism flags of the model ([cfg]) off the generated facts.  No proofs. *)
From Coq Require Import List Bool Arith String.
Import ListNotations.
Require Import Nib.C01.Sites Nib.C01.Model.
Local Open Scope string_scope.

Definition site_is (pkg fn : string) (ord : nat) (s : site) : bool :=
  String.eqb (s_pkg s) pkg && String.eqb (s_fn s) fn && Nat.eqb (s_ord s) ord.

Definition site_has_syn (pkg fn : string) (ord : nat) (sy : syn) (l : list site) : bool :=
  match find (site_is pkg fn ord) l with
  | Some s => syn_eqb (s_syn s) sy
  | None => false
  end.

Definition fn_has_no_map_range (pkg fn : string) (l : list site) : bool :=
  negb (existsb (fun s => String.eqb (s_pkg s) pkg && String.eqb (s_fn s) fn) l).

Definition ts_use_is (pkg fn : string) (ord : nat) (k : ts_kind) (u : ts_use) : bool :=
  String.eqb (t_pkg u) pkg && String.eqb (t_fn u) fn && Nat.eqb (t_ord u) ord && ts_kind_eqb (t_kind u) k.

Definition cfg_of_facts (sites : list site) (uses : list ts_use) : cfg :=
  let commit_clean := fn_has_no_map_range "x/evm/statedb" "StateDB.commitCtx" sites in
  mk_cfg
    (existsb (ts_use_is "x/sudo/keeper" "Sudoers.ToPb" 0 UseSorted) uses)
    (site_has_syn "x/evm/statedb" "journal.sortedDirties" 0 SynCollectSorted sites && commit_clean)
    (site_has_syn "x/evm/statedb" "Storage.SortedKeys" 0 SynCollectSorted sites && commit_clean)
    (site_has_syn "x/common/omap" "SortedMap.ensureOrder" 0 SynCollectSorted sites)
    (fn_has_no_map_range "x/oracle/keeper" "Keeper.tallyVotesAndUpdatePrices" sites)
    (fn_has_no_map_range "x/oracle/keeper" "Keeper.removeInvalidVotes" sites).
