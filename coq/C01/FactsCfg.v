(** C01 — reading the mechanism flags of the model ([cfg]) off the generated facts.  No proofs.

    The flags are stated over the TYPE of the ranged map inside a package, not over function names, so
    renaming a function or moving a loop into a helper does not flip them:
    "every range over journal.dirties' type in x/evm/statedb either sorts what it collects or is
    order-insensitive by shape". *)
From Coq Require Import List Bool Arith String.
Import ListNotations.
Require Import Nib.C01.Sites Nib.C01.Model.
Local Open Scope string_scope.

(** shapes that need no mechanism: the order cannot matter *)
Definition syn_insensitive (sy : syn) : bool :=
  match sy with SynCollectSorted | SynBuildMap | SynMember | SynAccum => true | _ => false end.

Definition over (pkg ty : string) (s : site) : bool :=
  String.eqb (s_pkg s) pkg && String.eqb (s_type s) ty.

(** some range over that map type collects and sorts, and no range over it lets the order out *)
Definition sorted_everywhere (pkg ty : string) (l : list site) : bool :=
  existsb (fun s => over pkg ty s && syn_eqb (s_syn s) SynCollectSorted) l &&
  forallb (fun s => negb (over pkg ty s) || syn_insensitive (s_syn s)) l.

(** no range over that map type lets the order out (the code goes through omap instead) *)
Definition never_ranged_unsorted (pkg ty : string) (l : list site) : bool :=
  forallb (fun s => negb (over pkg ty s) || syn_insensitive (s_syn s)) l.

(** no order-sensitive range over any Go map in that package *)
Definition no_sensitive_range (pkg : string) (l : list site) : bool :=
  forallb (fun s => negb (String.eqb (s_pkg s) pkg) || syn_insensitive (s_syn s)) l.

Definition ts_in (pkg : string) (u : ts_use) : bool := String.eqb (t_pkg u) pkg.

(** goroutines that FEED a channel.  A consensus-scope function with a send inside a go statement is a producer; it is
    accepted when it starts exactly one goroutine, every send of it is a plain statement (not the communication of a select
    clause), the function contains no select, no timer and no deadline, and the goroutine closes the channel.  No producer
    at all (the channel was replaced by a slice / an iterator function) is fine too. *)
Definition same_fn (a b : conc_site) : bool := String.eqb (k_pkg a) (k_pkg b) && String.eqb (k_fn a) (k_fn b).

Definition is_kind (k : conc_kind) (s : conc_site) : bool := conc_kind_eqb (k_kind s) k.
Definition is_select (s : conc_site) : bool := match k_kind s with CkSelect _ _ => true | _ => false end.

Definition producer_okb (all : list conc_site) (p : conc_site) : bool :=
  let fn := filter (same_fn p) all in
  Nat.eqb (List.length (filter (is_kind CkGo) fn)) 1 &&
  forallb (fun s => negb (is_kind CkSend s) || negb (k_in_select s)) fn &&
  negb (existsb is_select fn) && negb (existsb (is_kind CkTimer) fn) && negb (existsb (is_kind CkDeadline) fn) &&
  existsb (fun s => is_kind CkClose s && k_in_go s) fn.

Definition is_producer (s : conc_site) : bool :=
  scope_eqb (k_scope s) ScopeConsensus && is_kind CkSend s && k_in_go s.

Definition range_blocking (concs : list conc_site) : bool :=
  forallb (fun s => negb (is_producer s) || producer_okb concs s) concs.

Definition cfg_of_facts (sites : list site) (uses : list ts_use) (concs : list conc_site) : cfg :=
  mk_cfg
    (* every ToSlice result inside x/sudo/keeper is sorted (or only measured), and one is sorted *)
    (existsb (fun u => ts_in "x/sudo/keeper" u && ts_kind_eqb (t_kind u) UseSorted) uses &&
     forallb (fun u => negb (ts_in "x/sudo/keeper" u) || ts_kind_eqb (t_kind u) UseSorted || ts_kind_eqb (t_kind u) UseLen) uses)
    (sorted_everywhere "x/evm/statedb" "map[common.Address]int" sites)
    (sorted_everywhere "x/evm/statedb" "statedb.Storage" sites)
    (sorted_everywhere "x/common/omap" "map[K]V" sites)
    (never_ranged_unsorted "x/oracle/keeper" "map[asset.Pair]types.ExchangeRateVotes" sites)
    (never_ranged_unsorted "x/oracle/keeper" "map[asset.Pair]types.ExchangeRateVotes" sites)
    (range_blocking concs)
    (no_sensitive_range "x/devgas/v1/ante" sites).
