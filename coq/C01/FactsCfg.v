(** C01 — reading the mechanism flags of the model ([cfg]) off the generated facts.  No proofs.

    The flags are stated over the TYPE of the ranged map inside a package, not over function names, so
    renaming a function or moving a loop into a helper does not flip them:
    "every range over journal.dirties' type in x/evm/statedb either sorts what it collects or is
    order-insensitive by shape". *)
From Coq Require Import List Bool Arith String.
Import ListNotations.
Require Import Nib.C01.Sites Nib.C01.Model.
Local Open Scope string_scope.

(** shapes that need no mechanism: the order cannot matter *)
Definition syn_insensitive (sy : syn) : bool :=
  match sy with SynCollectSorted | SynBuildMap | SynMember | SynAccum => true | _ => false end.

Definition over (pkg ty : string) (s : site) : bool :=
  String.eqb (s_pkg s) pkg && String.eqb (s_type s) ty.

(** some range over that map type collects and sorts, and no range over it lets the order out *)
Definition sorted_everywhere (pkg ty : string) (l : list site) : bool :=
  existsb (fun s => over pkg ty s && syn_eqb (s_syn s) SynCollectSorted) l &&
  forallb (fun s => negb (over pkg ty s) || syn_insensitive (s_syn s)) l.

(** no range over that map type lets the order out (the code goes through omap instead) *)
Definition never_ranged_unsorted (pkg ty : string) (l : list site) : bool :=
  forallb (fun s => negb (over pkg ty s) || syn_insensitive (s_syn s)) l.

Definition ts_in (pkg : string) (u : ts_use) : bool := String.eqb (t_pkg u) pkg.

Definition cfg_of_facts (sites : list site) (uses : list ts_use) : cfg :=
  mk_cfg
    (* every ToSlice result inside x/sudo/keeper is sorted (or only measured), and one is sorted *)
    (existsb (fun u => ts_in "x/sudo/keeper" u && ts_kind_eqb (t_kind u) UseSorted) uses &&
     forallb (fun u => negb (ts_in "x/sudo/keeper" u) || ts_kind_eqb (t_kind u) UseSorted || ts_kind_eqb (t_kind u) UseLen) uses)
    (sorted_everywhere "x/evm/statedb" "map[common.Address]int" sites)
    (sorted_everywhere "x/evm/statedb" "statedb.Storage" sites)
    (sorted_everywhere "x/common/omap" "map[K]V" sites)
    (never_ranged_unsorted "x/oracle/keeper" "map[asset.Pair]types.ExchangeRateVotes" sites)
    (never_ranged_unsorted "x/oracle/keeper" "map[asset.Pair]types.ExchangeRateVotes" sites).
