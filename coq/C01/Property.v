(** C01 — replicated execution is deterministic across all modules.  Exported statements only.

    Scope (partial): the theorems are about the schedule- and clock-parameterised MODEL of every computation of
    the custom modules that ranges over a Go map or hands keys from one goroutine to another (Model.v).  A
    schedule π assigns an arbitrary permutation to every execution of every range statement — the only
    assumption is that it is a permutation.  A clock δ assigns, to every execution of a loop that consumes
    omap.SortedMap.Range, the wall-clock time the consumer spends between two receives — NO assumption at
    all.  Other Go runtime incidentals (memory layout; timers, selects, sync primitives, runtime queries —
    none exists on the block-execution path today) are inventoried by the generated facts (every site must
    match a reviewed table line) and exhibited by the replica differential of the harness (a replica with
    injected stalls included), not carried by these theorems. *)
From Coq Require Import List Bool ZArith Permutation Sorting.Sorted.
Import ListNotations.
Require Import Nib.C01.Model Nib.C01.Spec Nib.C01.PermSort Nib.C01.Proofs.
Local Open Scope Z_scope.

(** MAIN: for every history of messages of the custom modules (sudo edits, EVM commits, oracle
    end-blocks, precompile registration and dispatch), any two map-iteration schedules and any two wall
    clocks (= any two replicas), the final state and all results are EQUAL — given the mechanisms the code relies on are in place ([cfg_ok]; the flags are
    read off the regenerated facts in Gen/C01Oblig.v) and ABI selectors are unique. *)
Theorem C01_determinism :
  forall (c : cfg) (abi : list (Z * Z)) (h : list msg) (π π' : sched) (δ δ' : clock),
    cfg_ok c = true -> abi_ok abi -> valid_sched π -> valid_sched π' ->
    run c abi π δ h = run c abi π' δ' h.
Proof. intros c abi h π π' δ δ' Hc Ha H H'. exact (run_deterministic c abi π π' δ δ' h Hc Ha H H'). Qed.
Print Assumptions C01_determinism.

(** hence every function of state and results — the app hash, the results hash — agrees *)
Theorem C01_app_hash_deterministic :
  forall (H : Type) (hash : state * list (list Z) -> H) c abi π π' δ δ' h,
    cfg_ok c = true -> abi_ok abi -> valid_sched π -> valid_sched π' ->
    hash (run c abi π δ h) = hash (run c abi π' δ' h).
Proof. intros H hash c abi π π' δ δ' h Hc Ha Hv Hv'. exact (app_hash_deterministic hash c abi π π' δ δ' h Hc Ha Hv Hv'). Qed.
Print Assumptions C01_app_hash_deterministic.

(** sorted sites: journal.sortedDirties, Storage.SortedKeys, omap.ensureOrder, Sudoers.ToPb *)
Theorem C01_sorted_site_deterministic :
  forall (A : Type) (f : list Z -> A) (l l' : list Z), Permutation l l' -> f (isort l) = f (isort l').
Proof. intros A f l l' H. exact (sorted_site_deterministic f l l' H). Qed.
Print Assumptions C01_sorted_site_deterministic.

(** commutative sites: a fold whose steps commute pairwise (oracle folds over ValidatorPerformances) *)
Theorem C01_commutative_site_deterministic :
  forall (A B : Type) (f : A -> B -> A) (l l' : list B),
    Permutation l l' ->
    (forall a b s, In a l -> In b l -> f (f s a) b = f (f s b) a) ->
    forall s, fold_left f l s = fold_left f l' s.
Proof. intros A B f l l' Hp Hc s. exact (fold_left_perm_comm f l l' Hp Hc s). Qed.
Print Assumptions C01_commutative_site_deterministic.

(** unique-match sites: precompile methodById *)
Theorem C01_unique_match_site_deterministic :
  forall (ord ord' : list Z -> list Z) abi sel,
    abi_ok abi -> (forall l, Permutation (ord l) l) -> (forall l, Permutation (ord' l) l) ->
    method_by_id ord abi sel = method_by_id ord' abi sel.
Proof. intros ord ord' abi sel Ha H H'. exact (method_by_id_deterministic ord ord' abi sel Ha H H'). Qed.
Print Assumptions C01_unique_match_site_deterministic.

(** sudo: after the fix the stored Sudoers.Contracts is the canonical enumeration of the set … *)
Theorem C01_sudo_stored_canonical :
  forall c ord stored add cs,
    c_sudo_sorted c = true -> (forall l, Permutation (ord l) l) ->
    P (OStored (edit_sudoers c ord stored add cs)).
Proof. intros c ord stored add cs Hc H. exact (proj1 (edit_sudoers_canonical c ord stored add cs Hc H)). Qed.
Print Assumptions C01_sudo_stored_canonical.

(** … and before the fix (b0d0e16 reversed) two schedules store different lists *)
Theorem C01_sudo_refuted_before_fix :
  exists h, run cfg_before_fix [] sched_id clock_fast h <> run cfg_before_fix [] sched_rev clock_fast h.
Proof. exact run_refuted_before_fix. Qed.
Print Assumptions C01_sudo_refuted_before_fix.

(** StateDB commit iterating journal.dirties directly: account numbers depend on the schedule *)
Theorem C01_unsorted_dirties_refuted :
  exists h, run cfg_dirties_unsorted [] sched_id clock_fast h <> run cfg_dirties_unsorted [] sched_rev clock_fast h.
Proof. exact run_refuted_unsorted_dirties. Qed.
Print Assumptions C01_unsorted_dirties_refuted.

(** omap.SortedMap.Range, goroutine timing: a producer goroutine that offers every key with a plain blocking send hands
    over EVERY key, in order, whatever the wall clock of the consuming loop (delays before the 1st, 2nd, … receive) … *)
Theorem C01_range_blocking_complete :
  forall (delays keys : list Z), range_recv None delays keys = keys.
Proof. exact range_recv_blocking. Qed.
Print Assumptions C01_range_blocking_complete.

(** … whereas a producer that gives up after a bound (select against a timer / default clause around the send) hands over a
    prefix that depends on the clock: the SAME history under the SAME map schedule ends differently on a replica that stalls
    between two pairs of the oracle tally *)
Theorem C01_range_send_timeout_refuted :
  exists h, run cfg_range_timeout [] sched_id clock_fast h <> run cfg_range_timeout [] sched_id (clock_stall_second 1500) h.
Proof. exact run_refuted_range_timeout. Qed.
Print Assumptions C01_range_send_timeout_refuted.

(** x/devgas ante: paying the withdrawers of one tx by ranging over a map (instead of the message-order slice) lets the
    map order decide the account numbers of withdrawers that had no account *)
Theorem C01_devgas_map_payout_refuted :
  exists h, run cfg_devgas_map_order [] sched_id clock_fast h <> run cfg_devgas_map_order [] sched_rev clock_fast h.
Proof. exact run_refuted_devgas_map_order. Qed.
Print Assumptions C01_devgas_map_payout_refuted.

(** omap: orderedKeys = sort (keys data) is an invariant of BuildFrom / Set / Delete / Union *)
Theorem C01_omap_invariant :
  forall c π ops, c_omap_sorted c = true -> valid_sched π ->
    om_inv (fold_left (fun o op => omap_apply c π [] op o) ops (mk_omap [] [])).
Proof. intros c π ops Hc H. exact (omap_history_inv c π ops Hc H (mk_omap [] []) [] om_inv_empty). Qed.
Print Assumptions C01_omap_invariant.

(** process-local transaction-scoped state (the published StateDB pointer): when every publishing handler is guarded by its
    clearing defer, the results of a message history do not depend on where a node was restarted … *)
Theorem C01_tx_scoped_state_restart_independent :
  forall h, forallb (fun x => h_guarded (snd x)) h = true ->
    run_handlers false h = run_handlers false (no_restarts h).
Proof. exact restart_independent. Qed.
Print Assumptions C01_tx_scoped_state_restart_independent.

(** … and one unguarded publisher with an early error return makes a restarted node answer differently *)
Theorem C01_unguarded_publisher_refuted :
  exists h, run_handlers false h <> run_handlers false (no_restarts h).
Proof. exact unguarded_publisher_refuted. Qed.
Print Assumptions C01_unguarded_publisher_refuted.

(** the boolean checker evaluated on implementation traces is sound for [P] *)
Theorem C01_checker_sound : forall o, Pb o = true -> P o.
Proof. exact Pb_sound. Qed.
Print Assumptions C01_checker_sound.
