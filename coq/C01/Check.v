(** C01 — evaluation of implementation traces: correspondence (model vs observed) and the
    property predicate [Pb] on the observed trace itself. *)
From Coq Require Import List Bool Arith ZArith.
Import ListNotations.
Require Import Nib.C01.Model Nib.C01.Spec.
Local Open Scope Z_scope.

(** one EditSudoers message: action, contracts, whether it was admissible (sender is root and every
    address parses), and the stored Sudoers.Contracts read back afterwards *)
Record sudo_step := mk_sudo_step { ss_add : bool; ss_cs : list Z; ss_ok : bool; ss_after : list Z }.

Inductive case :=
| CDiff (replicas : list (list nat))                       (* replica differential: canonical ids per replica *)
        (preante : list (list nat))   (* same for the GasUsed of txs rejected before the ante handler (own channel) *)
        (strict : bool)               (* whether that channel counts (see README: finding "pre-ante gas after restart") *)
| CSudo (init : list Z) (steps : list sudo_step)           (* sudo sub-model *)
| COmap (ops : list (omap_op * list Z))                    (* omap sub-model: op, Keys() afterwards *)
| CSortedKeys (inp out : list Z)                           (* statedb.Storage.SortedKeys *)
| CAbi (abi : list (Z * Z)) (lookups : list (Z * Z))       (* precompile ABI: (name, selector); (selector, found name or -1) *)
| CTotalWeight (ws : list (Z * Z)) (out : Z)               (* ValidatorPerformances.TotalRewardWeight *)
| CRange (keys : list Z) (runs : list (list Z * list Z)).  (* omap.SortedMap.Range consumed under several wall clocks:
                                                              (ms before the 1st, 2nd, … receive; keys received) *)

(** The model is evaluated under two different schedules (identity and reversal); by the theorems
    both agree whenever the mechanism flags hold, so both are compared with the implementation. *)
Definition both (f : sched -> bool) : bool := f sched_id && f sched_rev.

Fixpoint sudo_mismatch (c : cfg) (π : sched) (stored : list Z) (steps : list sudo_step) : bool :=
  match steps with
  | [] => false
  | s :: t =>
      let stored' := if ss_ok s then edit_sudoers c (π []) stored (ss_add s) (ss_cs s) else stored in
      negb (zlist_eqb stored' (ss_after s)) || sudo_mismatch c π (ss_after s) t
  end.

Fixpoint omap_mismatch (c : cfg) (π : sched) (om : omap) (ops : list (omap_op * list Z)) : bool :=
  match ops with
  | [] => false
  | (op, seen) :: t =>
      let om' := omap_apply c π [] op om in
      negb (zlist_eqb (om_keys om') seen) || omap_mismatch c π om' t
  end.

Definition opt_to_z (o : option Z) : Z := match o with Some n => n | None => -1 end.

Definition mismatch (c : cfg) (k : case) : bool :=
  match k with
  | CDiff _ _ _ => false    (* the model's prediction for a differential is "all equal": that is [violates] *)
  | CSudo init steps => negb (both (fun π => negb (sudo_mismatch c π init steps)))
  | COmap ops => negb (both (fun π => negb (omap_mismatch c π (mk_omap [] []) ops)))
  | CSortedKeys inp out =>
      negb (both (fun π => zlist_eqb (order_keys (c_storage_sorted c) (π []) (zset_of inp)) out))
  | CAbi abi lookups =>
      negb (both (fun π => forallb (fun l => opt_to_z (method_by_id (π []) abi (fst l)) =? snd l) lookups))
  | CTotalWeight ws out =>
      negb (both (fun π => total_weight π [] (kv_of_list (map (fun w => (fst w, mk_perf 0 (snd w) 0 0 0)) ws)) =? out))
  | CRange keys runs =>
      negb (both (fun π => forallb (fun r =>
        zlist_eqb (keys_seen c true π (fun _ => fst r) [] (zset_of keys)) (snd r)) runs))
  end.

(** the property predicate on the OBSERVED values *)
Definition violates (k : case) : bool :=
  match k with
  | CDiff t p strict => negb (Pb (ODiff t)) || (strict && negb (Pb (ODiff p)))
  | CSudo _ steps => existsb (fun s => negb (Pb (OStored (ss_after s)))) steps
  | CAbi abi _ => negb (Pb (OSelectors (map snd abi)))
  | COmap ops => existsb (fun o => negb (Pb (OStored (snd o)))) ops   (* Keys() is the sorted enumeration *)
  | CSortedKeys _ out => negb (Pb (OStored out))
  | CRange _ runs => negb (Pb (ORange (map snd runs)))
  | _ => false
  end.
