(** C01 — executable model of every custom-module computation that ranges over a Go map, and of the one
    consensus-path computation that hands keys from one goroutine to another (omap.SortedMap.Range: [clock],
    [range_recv], [keys_seen]).

    A Go map has no iteration order: every `for … range m` may visit the keys in ANY order, a new
    one at every execution of the statement and on every replica.  The model makes that explicit:
    a *schedule* [π : sched] maps the position of a range statement in the execution (a path: block
    step, site, sub-index) and the key set to the order in which the keys are visited.  The only
    assumption on a schedule is that it permutes the keys ([valid_sched]).  Determinism = the result
    does not depend on π.

    Go maps themselves are represented canonically (sorted association lists / sorted key lists):
    their abstract value is a finite map, the representation carries no order information; order
    enters ONLY through π.  Persistent stores (IAVL) are sorted association lists as well, so state
    equality is plain Leibniz equality and every function of the state (the app hash) agrees.

    No proofs in this file. *)
From Coq Require Import List Bool ZArith Permutation.
Import ListNotations.
Local Open Scope Z_scope.

(* ------------------------------------------------------------------ sorting (sort.Slice / sort.Strings) *)

Fixpoint insert (x : Z) (l : list Z) : list Z :=
  match l with
  | [] => [x]
  | y :: t => if x <=? y then x :: y :: t else y :: insert x t
  end.

Fixpoint isort (l : list Z) : list Z :=
  match l with [] => [] | x :: t => insert x (isort t) end.

Definition zmem (x : Z) (l : list Z) : bool := existsb (Z.eqb x) l.

(** keys of a Go map built from a list with possible repetitions (last write wins is irrelevant for keys) *)
Fixpoint dedup (l : list Z) : list Z :=
  match l with
  | [] => []
  | x :: t => if zmem x t then dedup t else x :: dedup t
  end.

(** canonical key set *)
Definition zset_of (l : list Z) : list Z := isort (dedup l).
Definition zset_add (k : Z) (s : list Z) : list Z := if zmem k s then s else insert k s.
Fixpoint zremove (k : Z) (l : list Z) : list Z :=
  match l with [] => [] | y :: t => if k =? y then zremove k t else y :: zremove k t end.

(* ------------------------------------------------------------------ canonical finite maps (Go maps, KV stores) *)

Section KV.
  Context {V : Type}.
  Definition kv := list (Z * V).

  Fixpoint kv_get (k : Z) (m : kv) : option V :=
    match m with
    | [] => None
    | (k', v) :: t => if k =? k' then Some v else kv_get k t
    end.

  Fixpoint kv_set (k : Z) (v : V) (m : kv) : kv :=
    match m with
    | [] => [(k, v)]
    | (k', v') :: t =>
        if k <? k' then (k, v) :: (k', v') :: t
        else if k =? k' then (k, v) :: t
        else (k', v') :: kv_set k v t
    end.

  Fixpoint kv_del (k : Z) (m : kv) : kv :=
    match m with
    | [] => []
    | (k', v') :: t => if k =? k' then kv_del k t else (k', v') :: kv_del k t
    end.

  Definition kv_keys (m : kv) : list Z := map fst m.

  (** conditional read-modify-write of ONE key ([None] = no write) *)
  Definition kv_adjust (k : Z) (f : option V -> option V) (m : kv) : kv :=
    match f (kv_get k m) with Some v => kv_set k v m | None => m end.

  Definition kv_of_list (l : list (Z * V)) : kv :=
    fold_left (fun m kv => kv_set (fst kv) (snd kv) m) l [].
End KV.
Arguments kv V : clear implicits.

(* ------------------------------------------------------------------ schedules *)

(** [π path keys] = order in which the range statement at [path] visits [keys]. *)
Definition sched := list Z -> list Z -> list Z.
Definition valid_sched (π : sched) : Prop := forall path l, Permutation (π path l) l.

Definition sched_id : sched := fun _ l => l.
Definition sched_rev : sched := fun _ l => rev l.

(* ------------------------------------------------------------------ which mechanisms the code uses (from Gen/C01Facts.v) *)

Record cfg := mk_cfg {
  c_sudo_sorted     : bool;  (* Sudoers.ToPb sorts the slice obtained from set.ToSlice *)
  c_dirties_sorted  : bool;  (* journal.sortedDirties sorts; commitCtx ranges over its result only *)
  c_storage_sorted  : bool;  (* Storage.SortedKeys sorts; commitCtx ranges over its result only *)
  c_omap_sorted     : bool;  (* SortedMap.ensureOrder sorts the collected keys *)
  c_tally_via_omap  : bool;  (* tallyVotesAndUpdatePrices has no map range of its own (goes through omap) *)
  c_remove_via_omap : bool;  (* removeInvalidVotes has no map range of its own *)
  c_range_blocking  : bool;  (* every goroutine that feeds a channel (omap.SortedMap.Range) is the only goroutine of its function,
                                offers every key with a plain blocking send — no select, no timer, no deadline — and closes
                                the channel when it is done *)
  c_devgas_slice_order : bool  (* the dev-gas ante (settleFeePayments) pays the withdrawers in the order of the tx's messages
                                  (a slice): no order-sensitive range over a Go map in x/devgas/v1/ante *)
}.

Definition cfg_ok (c : cfg) : bool :=
  c_sudo_sorted c && c_dirties_sorted c && c_storage_sorted c && c_omap_sorted c &&
  c_tally_via_omap c && c_remove_via_omap c && c_range_blocking c && c_devgas_slice_order c.

Definition cfg_all : cfg := mk_cfg true true true true true true true true.

(** the keys in the order the loop body sees them: the code first collects them in map order
    ([ord ks]) and, when the site sorts, sorts the collected slice *)
Definition order_keys (sorted : bool) (ord : list Z -> list Z) (ks : list Z) : list Z :=
  if sorted then isort (ord ks) else ord ks.

(* ------------------------------------------------------------------ wall clock / goroutine timing: omap.SortedMap.Range *)

(** `for k := range om.Range()`: Range starts ONE producer goroutine that offers orderedKeys, in order, on a channel and
    closes it; the loop (the consumer) receives until the channel is closed.  What the consumer does between two receives —
    the loop body: Tally, store writes — takes a different amount of WALL-CLOCK time on every replica (machine speed, disk
    stalls, GC pauses, scheduling).  A *clock* makes that explicit: [δ path] = the milliseconds the consumer of the range
    loop executed at [path] spends before it comes (back) to the receive for the 1st, 2nd, … key (missing entries: no
    delay).  NO assumption is made on a clock.  Determinism = the result does not depend on δ.

    [timeout = None]: the producer offers a key with a plain `ch <- k` and waits for the consumer however long it takes.
    [timeout = Some t]: the producer waits at most t ms (`select { case ch <- k: … case <-timer.C: return }`, a `default:`
    clause is t = 0) and then gives up and closes the channel: the consumer's loop ends early. *)
Definition clock := list Z -> list Z.
Definition clock_fast : clock := fun _ => [].
Definition clock_stall_second (ms : Z) : clock := fun _ => [0; ms].

Fixpoint range_recv (timeout : option Z) (delays : list Z) (keys : list Z) : list Z :=
  match keys with
  | [] => []
  | k :: rest =>
      match delays with
      | [] => keys
      | d :: ds =>
          match timeout with
          | Some t => if t <? d then [] else k :: range_recv timeout ds rest
          | None => k :: range_recv timeout ds rest
          end
      end
  end.

(** the bound after which a producer that does NOT block gives up.  Only the variant flag [c_range_blocking = false] uses it;
    the theorems about the blocking producer do not depend on it and the refutation works for every finite bound. *)
Definition range_give_up_ms : Z := 1000.
Definition range_timeout (c : cfg) : option Z := if c_range_blocking c then None else Some range_give_up_ms.

(** the keys a loop body sees: through omap (sorted keys, handed over by the producer goroutine) or, when the code ranges
    over the Go map itself, in map order *)
Definition keys_seen (c : cfg) (via_omap : bool) (π : sched) (δ : clock) (site : list Z) (ks : list Z) : list Z :=
  if via_omap then range_recv (range_timeout c) (δ site) (order_keys (c_omap_sorted c) (π site) ks)
  else π site ks.

(* ------------------------------------------------------------------ x/sudo: EditSudoers *)

(** SudoersFromPb: set.New(stored…); AddContracts / RemoveContracts on the set; ToPb: ToSlice
    (map order) [; sort.Strings]; Sudoers.Set(stored').  Addresses are order-preserving ids. *)
Definition sudo_set_after (stored : list Z) (add : bool) (cs : list Z) : list Z :=
  if add then zset_of (stored ++ cs)
  else filter (fun x => negb (zmem x cs)) (zset_of stored).

Definition to_slice (ord : list Z -> list Z) (set : list Z) : list Z := ord set.

Definition to_pb (c : cfg) (ord : list Z -> list Z) (set : list Z) : list Z :=
  order_keys (c_sudo_sorted c) ord set.

Definition edit_sudoers (c : cfg) (ord : list Z -> list Z) (stored : list Z) (add : bool) (cs : list Z) : list Z :=
  to_pb c ord (sudo_set_after stored add cs).

(* ------------------------------------------------------------------ x/evm/statedb: commitCtx *)

(** a dirty state object at commit time *)
Record sobj := mk_sobj {
  so_suicided : bool;
  so_payload  : Z;                 (* nonce / balance / code hash, opaque *)
  so_dirty    : list (Z * Z)       (* DirtyStorage (a Go map): slot ↦ value, first binding wins *)
}.

(** persisted side: auth accounts get their account NUMBER from a global counter when first
    written (this is what makes the order of SetAccount calls observable), EVM storage per address *)
Record evm_state := mk_evm {
  ev_accts : kv (Z * Z);           (* addr ↦ (account number, payload) *)
  ev_next  : Z;                    (* next account number *)
  ev_slots : kv (kv Z)             (* addr ↦ slot ↦ value *)
}.

Definition set_account (addr payload : Z) (st : evm_state) : evm_state :=
  match kv_get addr (ev_accts st) with
  | Some (n, _) => mk_evm (kv_set addr (n, payload) (ev_accts st)) (ev_next st) (ev_slots st)
  | None => mk_evm (kv_set addr (ev_next st, payload) (ev_accts st)) (ev_next st + 1) (ev_slots st)
  end.

Definition set_slot (addr k v : Z) (st : evm_state) : evm_state :=
  let inner := match kv_get addr (ev_slots st) with Some m => m | None => [] end in
  let inner' := if v =? 0 then kv_del k inner else kv_set k v inner in
  mk_evm (ev_accts st) (ev_next st) (kv_set addr inner' (ev_slots st)).

Definition delete_account (addr : Z) (st : evm_state) : evm_state :=
  mk_evm (kv_del addr (ev_accts st)) (ev_next st) (kv_del addr (ev_slots st)).

Fixpoint assoc {V} (k : Z) (l : list (Z * V)) : option V :=
  match l with [] => None | (k', v) :: t => if k =? k' then Some v else assoc k t end.

Definition commit_obj (c : cfg) (π : sched) (path : list Z) (st : evm_state) (addr : Z) (o : sobj) : evm_state :=
  if so_suicided o then delete_account addr st
  else
    let st1 := set_account addr (so_payload o) st in
    fold_left (fun s k => match assoc k (so_dirty o) with Some v => set_slot addr k v s | None => s end)
      (order_keys (c_storage_sorted c) (π (1 :: addr :: path)) (zset_of (map fst (so_dirty o)))) st1.

(** [dirties]: journal.dirties joined with the state objects (a Go map keyed by address) *)
Definition commit (c : cfg) (π : sched) (path : list Z) (dirties : list (Z * sobj)) (st : evm_state) : evm_state :=
  fold_left (fun s a => match assoc a dirties with Some o => commit_obj c π path s a o | None => s end)
    (order_keys (c_dirties_sorted c) (π (0 :: path)) (zset_of (map fst dirties))) st.

(* ------------------------------------------------------------------ x/devgas ante: settleFeePayments *)

(** One tx executing several contracts registered for fee share: every withdrawer is paid by a bank send, and a withdrawer
    that never held an account gets one — with the next x/auth account NUMBER.  [ws] = the withdrawers in message order.
    (Amounts are sums, they commute; the account numbers are what makes the order observable.) *)
Definition ensure_account (addr : Z) (st : evm_state) : evm_state :=
  match kv_get addr (ev_accts st) with
  | Some _ => st
  | None => mk_evm (kv_set addr (ev_next st, 0) (ev_accts st)) (ev_next st + 1) (ev_slots st)
  end.

Definition devgas_payout (c : cfg) (π : sched) (path : list Z) (ws : list Z) (st : evm_state) : evm_state :=
  fold_left (fun s w => ensure_account w s)
    (if c_devgas_slice_order c then ws else π (12 :: path) (zset_of ws)) st.

(* ------------------------------------------------------------------ x/oracle: EndBlock folds *)

Inductive vkind := VWin | VAbstain | VMiss.
Record vote := mk_vote { v_val : Z; v_power : Z; v_kind : vkind }.
Record perf := mk_perf { p_power : Z; p_weight : Z; p_win : Z; p_abstain : Z; p_miss : Z }.
(** one entry of pairVotes; whether it passes the threshold and the tallied rate are inputs
    (they are functions of the ballot alone — C10's subject) *)
Record ballot := mk_ballot { b_valid : bool; b_rate : Z; b_votes : list vote }.

(** newValidatorPerformances: built in power-store order (a store iterator, no map range) *)
Definition new_perfs (vals : list (Z * Z)) : kv perf :=
  kv_of_list (map (fun vp => (fst vp, mk_perf (snd vp) 0 0 0 0)) vals).

Definition apply_vote (m : kv perf) (v : vote) : kv perf :=
  kv_adjust (v_val v) (fun op =>
    match op with
    | None => None
    | Some p => Some (match v_kind v with
        | VWin => mk_perf (p_power p) (p_weight p + v_power v) (p_win p + 1) (p_abstain p) (p_miss p)
        | VAbstain => mk_perf (p_power p) (p_weight p) (p_win p) (p_abstain p + 1) (p_miss p)
        | VMiss => mk_perf (p_power p) (p_weight p) (p_win p) (p_abstain p) (p_miss p + 1)
        end)
    end) m.

(** removeInvalidVotes: delete the pairs that fail, visiting pairs in (sorted) key order *)
Definition remove_invalid (c : cfg) (π : sched) (δ : clock) (path : list Z) (pvs : kv ballot) : kv ballot :=
  fold_left (fun m p => match kv_get p m with
                        | Some b => if b_valid b then m else kv_del p m
                        | None => m end)
    (keys_seen c (c_remove_via_omap c) π δ (2 :: path) (kv_keys pvs)) pvs.

(** tallyVotesAndUpdatePrices: per pair, Tally mutates the performances, SetPrice writes the store *)
Definition tally_pair (pvs : kv ballot) (st : kv perf * kv Z) (pair : Z) : kv perf * kv Z :=
  match kv_get pair pvs with
  | None => st
  | Some b => (fold_left apply_vote (b_votes b) (fst st), kv_set pair (b_rate b) (snd st))
  end.

Definition tally (c : cfg) (π : sched) (δ : clock) (path : list Z) (pvs : kv ballot) (perfs : kv perf) (prices : kv Z)
  : kv perf * kv Z :=
  fold_left (tally_pair pvs)
    (keys_seen c (c_tally_via_omap c) π δ (3 :: path) (kv_keys pvs)) (perfs, prices).

(** incrementMissCounters: range over the performances MAP, one store write per validator *)
Definition miss_step (perfs : kv perf) (mc : kv Z) (v : Z) : kv Z :=
  match kv_get v perfs with
  | Some p => if 0 <? p_miss p
              then kv_adjust v (fun o => Some (match o with Some n => n | None => 0 end + p_miss p)) mc
              else mc
  | None => mc
  end.

Definition incr_miss (π : sched) (path : list Z) (perfs : kv perf) (mc : kv Z) : kv Z :=
  fold_left (miss_step perfs) (π (4 :: path) (kv_keys perfs)) mc.

(** incrementAbstainsByOmission: range over the map, rewriting the entry of the visited key *)
Definition omit_step (npairs : Z) (m : kv perf) (v : Z) : kv perf :=
  kv_adjust v (fun op =>
    match op with
    | None => None
    | Some p => let omit := npairs - (p_win p + p_abstain p + p_miss p) in
                if 0 <? omit then Some (mk_perf (p_power p) (p_weight p) (p_win p) (p_abstain p + omit) (p_miss p))
                else None
    end) m.

Definition abstain_by_omission (π : sched) (path : list Z) (npairs : Z) (perfs : kv perf) : kv perf :=
  fold_left (omit_step npairs) (π (5 :: path) (kv_keys perfs)) perfs.

(** ValidatorPerformances.TotalRewardWeight: a sum in map order *)
Definition weight_of (perfs : kv perf) (v : Z) : Z :=
  match kv_get v perfs with Some p => p_weight p | None => 0 end.

Definition total_weight (π : sched) (path : list Z) (perfs : kv perf) : Z :=
  fold_left (fun acc v => acc + weight_of perfs v) (π (6 :: path) (kv_keys perfs)) 0.

(** rewardWinners: per validator (map order) allocate pool·weight/total to the validator's
    outstanding rewards (one distribution-store key per validator) and add it to the running total *)
Definition reward_step (perfs : kv perf) (pool total : Z) (st : kv Z * Z) (v : Z) : kv Z * Z :=
  let portion := (pool * weight_of perfs v) / total in
  (kv_adjust v (fun o => Some (match o with Some n => n | None => 0 end + portion)) (fst st), snd st + portion).

Definition reward_winners (π : sched) (path : list Z) (perfs : kv perf) (pool : Z) (out : kv Z) (distributed : Z)
  : kv Z * Z :=
  let total := total_weight π path perfs in
  if total =? 0 then (out, distributed)
  else fold_left (reward_step perfs pool total) (π (7 :: path) (kv_keys perfs)) (out, distributed).

(* ------------------------------------------------------------------ x/common/omap + precompile registry *)

Record omap := mk_omap {
  om_data : list Z;     (* keys of the underlying Go map, canonical *)
  om_keys : list Z      (* orderedKeys *)
}.

(** position found by sort.Search(len, i ↦ key < orderedKeys[i]) on a sorted slice *)
Fixpoint search_insert (x : Z) (l : list Z) : list Z :=
  match l with
  | [] => [x]
  | y :: t => if x <? y then x :: y :: t else y :: search_insert x t
  end.

(** BuildFrom / ensureOrder: range over the map, collect, sort *)
Definition om_build (c : cfg) (ord : list Z -> list Z) (keys : list Z) : omap :=
  mk_omap (zset_of keys) (order_keys (c_omap_sorted c) ord (zset_of keys)).

Definition om_set (k : Z) (om : omap) : omap :=
  if zmem k (om_data om) then om
  else mk_omap (zset_add k (om_data om)) (search_insert k (om_keys om)).

Definition om_delete (k : Z) (om : omap) : omap :=
  if zmem k (om_data om) then mk_omap (zremove k (om_data om)) (zremove k (om_keys om)) else om.

(** Union: range over the argument map writing into data (map order), then ensureOrder *)
Definition om_union (c : cfg) (ord1 ord2 : list Z -> list Z) (ks : list Z) (om : omap) : omap :=
  let data := fold_left (fun d k => zset_add k d) (ord1 (zset_of ks)) (om_data om) in
  mk_omap data (order_keys (c_omap_sorted c) ord2 data).

(** the API of SortedMap as a history of operations (BuildFrom, Set, Delete, Union) *)
Inductive omap_op :=
| OBuild (ks : list Z)
| OSet (k : Z)
| ODelete (k : Z)
| OUnion (ks : list Z).

Definition omap_apply (c : cfg) (π : sched) (path : list Z) (op : omap_op) (om : omap) : omap :=
  match op with
  | OBuild ks => om_build c (π (0 :: path)) ks
  | OSet k => om_set k om
  | ODelete k => om_delete k om
  | OUnion ks => om_union c (π (1 :: path)) (π (2 :: path)) ks om
  end.

(** Keeper.AddPrecompiles *)
Definition add_precompiles (c : cfg) (π : sched) (path : list Z) (addrs : list Z) (om : omap) : omap :=
  match om_data om with
  | [] => om_build c (π (8 :: path)) addrs
  | _ => fold_left (fun o a => om_set a o) (π (9 :: path) (zset_of addrs)) om
  end.

(** precompile.methodById: range over abi.Methods (a Go map name ↦ method), return the first whose
    4-byte id matches.  [abi] = list of (method name id, selector). *)
Definition method_by_id (ord : list Z -> list Z) (abi : list (Z * Z)) (sel : Z) : option Z :=
  find (fun n => match assoc n abi with Some s => s =? sel | None => false end) (ord (map fst abi)).

(* ------------------------------------------------------------------ composed step function *)

Inductive msg :=
| MSudoEdit (add : bool) (cs : list Z)
| MEvmTx (dirties : list (Z * sobj))
| MOracleEndBlock (vals : list (Z * Z)) (pvs : list (Z * ballot)) (npairs pool : Z)
| MAddPrecompiles (addrs : list Z)
| MPrecompileCall (sel : Z)
| MDevGasPayout (ws : list Z).

Record state := mk_state {
  st_sudo        : list Z;      (* Sudoers.Contracts as stored (byte order matters) *)
  st_evm         : evm_state;
  st_prices      : kv Z;
  st_miss        : kv Z;
  st_outstanding : kv Z;
  st_distributed : Z;
  st_precompiles : omap
}.

Definition init_state : state :=
  mk_state [] (mk_evm [] 0 []) [] [] [] 0 (mk_omap [] []).

(** results visible to the consensus layer (DeliverTx data / EndBlock outputs), as numbers *)
Definition step (c : cfg) (abi : list (Z * Z)) (π : sched) (δ : clock) (path : list Z) (s : state) (m : msg) : state * list Z :=
  match m with
  | MSudoEdit add cs =>
      let stored := edit_sudoers c (π (10 :: path)) (st_sudo s) add cs in
      (mk_state stored (st_evm s) (st_prices s) (st_miss s) (st_outstanding s) (st_distributed s) (st_precompiles s),
       stored)
  | MEvmTx dirties =>
      let e := commit c π path dirties (st_evm s) in
      (mk_state (st_sudo s) e (st_prices s) (st_miss s) (st_outstanding s) (st_distributed s) (st_precompiles s),
       [ev_next e])
  | MOracleEndBlock vals pvs npairs pool =>
      let perfs0 := new_perfs vals in
      let pvs1 := remove_invalid c π δ path (kv_of_list pvs) in
      let '(perfs1, prices) := tally c π δ path pvs1 perfs0 (st_prices s) in
      let miss := incr_miss π path perfs1 (st_miss s) in
      let perfs2 := abstain_by_omission π path npairs perfs1 in
      let '(out, distributed) := reward_winners π path perfs2 pool (st_outstanding s) (st_distributed s) in
      (mk_state (st_sudo s) (st_evm s) prices miss out distributed (st_precompiles s),
       [total_weight π path perfs2])
  | MAddPrecompiles addrs =>
      let om := add_precompiles c π path addrs (st_precompiles s) in
      (mk_state (st_sudo s) (st_evm s) (st_prices s) (st_miss s) (st_outstanding s) (st_distributed s) om,
       om_keys om)
  | MPrecompileCall sel =>
      (s, match method_by_id (π (11 :: path)) abi sel with Some n => [n] | None => [-1] end)
  | MDevGasPayout ws =>
      let e := devgas_payout c π path ws (st_evm s) in
      (mk_state (st_sudo s) e (st_prices s) (st_miss s) (st_outstanding s) (st_distributed s) (st_precompiles s),
       [ev_next e])
  end.

Fixpoint run_from (c : cfg) (abi : list (Z * Z)) (π : sched) (δ : clock) (i : Z) (s : state) (h : list msg) : state * list (list Z) :=
  match h with
  | [] => (s, [])
  | m :: t =>
      let '(s1, r) := step c abi π δ [i] s m in
      let '(s2, rs) := run_from c abi π δ (i + 1) s1 t in
      (s2, r :: rs)
  end.

(** one replica = one map-iteration schedule π and one wall clock δ *)
Definition run (c : cfg) (abi : list (Z * Z)) (π : sched) (δ : clock) (h : list msg) : state * list (list Z) :=
  run_from c abi π δ 0 init_state h.

(** selectors of an ABI are pairwise distinct (and so are the names, it is a Go map) *)
Definition abi_ok (abi : list (Z * Z)) : Prop := NoDup (map fst abi) /\ NoDup (map snd abi).

(* ------------------------------------------------------------------ process-local, transaction-scoped state *)

(** The EVM keeper publishes the StateDB of the transaction being executed in process memory (NibiruBankKeeper.StateDB).
    A handler first reuses a published pointer if there is one, else publishes a fresh one; when the handler is [guarded]
    (a `defer … ClearTxStateDB` covers every exit after the publication) the pointer is gone when the handler returns,
    otherwise an early error return leaves it behind.  A node RESTART forgets process memory.  The result of a handler
    is 0 when it ran on a fresh StateDB and 1 when it ran on a stale one (then anything can happen). *)
Record hmsg := mk_hmsg {
  h_guarded : bool;       (* generated fact: the clearing defer follows the publication with no return in between *)
  h_fails_early : bool    (* this execution returns an error between the publication and the place of the defer *)
}.

Definition handle (stale : bool) (m : hmsg) : bool * nat :=
  (if h_guarded m then false else h_fails_early m || stale, if stale then 1%nat else 0%nat).

(** [restarts] : for every message, whether the process is restarted just before it *)
Fixpoint run_handlers (stale : bool) (h : list (bool * hmsg)) : list nat :=
  match h with
  | [] => []
  | (restart, m) :: t =>
      let stale0 := if restart then false else stale in
      let '(stale1, r) := handle stale0 m in
      r :: run_handlers stale1 t
  end.

Definition no_restarts (h : list (bool * hmsg)) : list (bool * hmsg) := map (fun x => (false, snd x)) h.
